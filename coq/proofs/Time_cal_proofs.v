(* Time_cal_proofs.v — the calendar facts for every day number, lifted from the one-cycle
   sweep (Time_sweep) by 400-year periodicity (Time_proofs); order of the period keys. *)
From TkModel Require Import Base Time.
From TkSpec Require Import Balance_spec Group_spec.
From TkProofs Require Import Base_proofs Time_proofs Time_sweep.
Local Open Scope Z_scope.

Lemma days_facts :
  (forall r, 0 <= r < 146097 -> civil_ok r = true)
  /\ (forall r, 0 <= r < 146097 -> period_num GbDate r < period_num GbDate (r + 1)).
Proof.
  destruct (sweep_days_spec _ _ _ cycle_days) as (A & B & _).
  split; intros r Hr; [apply A|apply B]; rewrite Z2Nat.id by lia; lia.
Qed.

Lemma weeks_facts :
  (forall k, 0 <= k < 20871 -> iso_ok (4 + 7 * k) = true)
  /\ (forall k, 0 <= k < 20871 ->
        period_num GbIsoWeek (4 + 7 * k) < period_num GbIsoWeek (4 + 7 * k + 7)).
Proof.
  destruct (sweep_weeks_spec _ _ _ cycle_weeks) as (A & B & _).
  split; intros k Hk; [apply A|apply B]; rewrite Z2Nat.id by lia; lia.
Qed.

(* ---------------- every day number ---------------- *)
Lemma civil_facts z :
  let '(y, m, d) := civil_of_days z in
  1 <= m <= 12 /\ 1 <= d <= days_in_month y m /\ days_of_civil y m d = z.
Proof.
  destruct (cycle_decomp z) as (q & r & -> & Hr).
  pose proof (proj1 days_facts r Hr) as H. unfold civil_ok, civil_ok_of in H.
  rewrite civil_shift. destruct (civil_of_days r) as [[y m] d]. cbn [fst snd].
  rewrite !andb_true_iff in H. destruct H as ((((H1 & H2) & H3) & H4) & H5).
  rewrite days_in_month_shift, days_of_civil_shift.
  apply Z.leb_le in H1, H2, H3, H4. apply Z.eqb_eq in H5. lia.
Qed.

(* Mondays *)
Lemma monday_decomp mon : weekday mon = 1 ->
  exists q k, mon = 4 + 7 * k + 146097 * q /\ 0 <= k < 20871.
Proof.
  unfold weekday. intros H.
  assert ((mon + 3) mod 7 = 0) as H0 by lia.
  pose proof (Z.div_mod (mon + 3) 7 ltac:(lia)) as D. rewrite H0 in D.
  set (j := (mon + 3) / 7 - 1).
  exists (j / 20871), (j mod 20871). split.
  - pose proof (Z.div_mod j 20871 ltac:(lia)). unfold j in *. lia.
  - apply Z.mod_pos_bound. lia.
Qed.

Lemma week_num_shift z q : period_num GbIsoWeek (z + 146097 * q) = period_num GbIsoWeek z + 40000 * q.
Proof.
  unfold period_num. rewrite iso_shift. destruct (iso_of_days z) as [[y m] d]. cbn [fst snd]. ring.
Qed.

Lemma monday_facts mon : weekday mon = 1 ->
  1 <= snd (fst (iso_of_days mon)) <= 53
  /\ snd (iso_of_days mon) = 1
  /\ days_of_iso (fst (fst (iso_of_days mon))) (snd (fst (iso_of_days mon))) 1 = mon
  /\ period_num GbIsoWeek mon < period_num GbIsoWeek (mon + 7).
Proof.
  intros Hm. destruct (monday_decomp mon Hm) as (q & k & -> & Hk).
  assert (forall A B C D : Prop, (A /\ B /\ C) -> D -> A /\ B /\ C /\ D) as X by tauto.
  apply X; clear X.
  - pose proof (proj1 weeks_facts k Hk) as H. unfold iso_ok, iso_ok_of in H.
    rewrite iso_shift. destruct (iso_of_days (4 + 7 * k)) as [[y w] wd]. cbn [fst snd].
    rewrite !andb_true_iff in H. destruct H as (((H1 & H2) & H3) & H4).
    rewrite days_of_iso_shift.
    apply Z.leb_le in H1, H2. apply Z.eqb_eq in H3, H4. subst wd. lia.
  - replace (4 + 7 * k + 146097 * q + 7) with (4 + 7 * k + 7 + 146097 * q) by ring.
    rewrite !week_num_shift. pose proof (proj2 weeks_facts k Hk). lia.
Qed.

(* the seven days of a week share its Thursday *)
Lemma weekday_of_monday mon i : weekday mon = 1 -> 0 <= i <= 6 -> weekday (mon + i) = i + 1.
Proof.
  unfold weekday. intros H Hi.
  assert ((mon + 3) mod 7 = 0) as H0 by lia.
  pose proof (Z.div_mod (mon + 3) 7 ltac:(lia)) as D. rewrite H0 in D.
  replace (mon + i + 3) with (i + ((mon + 3) / 7) * 7) by lia.
  rewrite Z.mod_add by lia. rewrite Z.mod_small by lia. reflexivity.
Qed.

Lemma iso_of_week mon i : weekday mon = 1 -> 0 <= i <= 6 ->
  iso_of_days (mon + i) = (fst (fst (iso_of_days mon)), snd (fst (iso_of_days mon)), i + 1).
Proof.
  intros Hm Hi. unfold iso_of_days. cbv zeta.
  rewrite (weekday_of_monday mon i Hm Hi), Hm. cbn [fst snd].
  replace (mon + i - (i + 1) + 4) with (mon - 1 + 4) by ring. reflexivity.
Qed.

Lemma monday_of z : weekday (z - (weekday z - 1)) = 1 /\ 0 <= weekday z - 1 <= 6.
Proof.
  unfold weekday. pose proof (Z.mod_pos_bound (z + 3) 7 ltac:(lia)) as B. split; [|lia].
  pose proof (Z.div_mod (z + 3) 7 ltac:(lia)) as D.
  replace (z - ((z + 3) mod 7 + 1 - 1) + 3) with (0 + ((z + 3) / 7) * 7) by lia.
  rewrite Z.mod_add by lia. reflexivity.
Qed.

Lemma days_of_iso_wd y w wd : days_of_iso y w wd = days_of_iso y w 1 + (wd - 1).
Proof. unfold days_of_iso. cbv zeta. ring. Qed.

Lemma iso_facts_week mon i : weekday mon = 1 -> 0 <= i <= 6 ->
  let '(y, w, wd) := iso_of_days (mon + i) in
  1 <= w <= 53 /\ 1 <= wd <= 7 /\ days_of_iso y w wd = mon + i.
Proof.
  intros Hm Hi. rewrite (iso_of_week mon i Hm Hi).
  destruct (monday_facts mon Hm) as (Hw & _ & Hd & _).
  split; [exact Hw|]. split; [lia|].
  rewrite days_of_iso_wd, Hd. ring.
Qed.

Lemma iso_facts z :
  let '(y, w, wd) := iso_of_days z in
  1 <= w <= 53 /\ 1 <= wd <= 7 /\ days_of_iso y w wd = z.
Proof.
  destruct (monday_of z) as [Hm Hi].
  pose proof (iso_facts_week _ _ Hm Hi) as H.
  replace (z - (weekday z - 1) + (weekday z - 1)) with z in H by ring. exact H.
Qed.

Lemma days_in_month_le y m : days_in_month y m <= 31.
Proof.
  unfold days_in_month. destruct (m =? 2); [destruct (is_leap y); lia|].
  destruct ((m =? 4) || (m =? 6) || (m =? 9) || (m =? 11)); lia.
Qed.

Lemma date_num_shift z q : period_num GbDate (z + 146097 * q) = period_num GbDate z + 4000000 * q.
Proof.
  unfold period_num. rewrite civil_shift. destruct (civil_of_days z) as [[y m] d]. cbn [fst snd]. ring.
Qed.

Lemma date_num_step z : period_num GbDate z < period_num GbDate (z + 1).
Proof.
  destruct (cycle_decomp z) as (q & r & -> & Hr).
  replace (r + 146097 * q + 1) with (r + 1 + 146097 * q) by ring.
  rewrite !date_num_shift. pose proof (proj2 days_facts r Hr). lia.
Qed.

Lemma weekdate_num_step_week mon i : weekday mon = 1 -> 0 <= i <= 6 ->
  period_num GbIsoWeekDate (mon + i) < period_num GbIsoWeekDate (mon + i + 1).
Proof.
  intros Hm Hi. destruct (monday_facts mon Hm) as (_ & _ & _ & S).
  unfold period_num at 1. rewrite (iso_of_week mon i Hm Hi).
  destruct (Z.eq_dec i 6) as [E|NE].
  - replace (mon + i + 1) with (mon + 7 + 0) by lia.
    assert (weekday (mon + 7) = 1) as Hm7.
    { unfold weekday in *. replace (mon + 7 + 3) with (mon + 3 + 1 * 7) by ring.
      rewrite Z.mod_add by lia. exact Hm. }
    unfold period_num at 1. rewrite (iso_of_week (mon + 7) 0 Hm7 ltac:(lia)).
    unfold period_num in S.
    destruct (iso_of_days mon) as [[y w] wd]. destruct (iso_of_days (mon + 7)) as [[y' w'] wd'].
    cbn [fst snd] in *. lia.
  - replace (mon + i + 1) with (mon + (i + 1)) by ring.
    unfold period_num at 1. rewrite (iso_of_week mon (i + 1) Hm ltac:(lia)).
    destruct (iso_of_days mon) as [[y w] wd]. cbn [fst snd]. lia.
Qed.

Lemma weekdate_num_step z : period_num GbIsoWeekDate z < period_num GbIsoWeekDate (z + 1).
Proof.
  destruct (monday_of z) as [Hm Hi].
  pose proof (weekdate_num_step_week _ _ Hm Hi) as H.
  replace (z - (weekday z - 1) + (weekday z - 1)) with z in H by ring. exact H.
Qed.

Lemma month_num_div z : period_num GbMonth z = period_num GbDate z / 100.
Proof.
  unfold period_num. pose proof (civil_facts z) as H. destruct (civil_of_days z) as [[y m] d].
  destruct H as (_ & Hd & _). pose proof (days_in_month_le y m).
  replace (y * 10000 + m * 100 + d) with ((y * 100 + m) * 100 + d) by ring.
  rewrite Z.div_add_l by lia. rewrite Z.div_small by lia. ring.
Qed.

Lemma year_num_div z : period_num GbYear z = period_num GbDate z / 10000.
Proof.
  unfold period_num. pose proof (civil_facts z) as H. destruct (civil_of_days z) as [[y m] d].
  destruct H as (Hm & Hd & _). pose proof (days_in_month_le y m).
  replace (y * 10000 + m * 100 + d) with (y * 10000 + (m * 100 + d)) by ring.
  rewrite Z.div_add_l by lia. rewrite Z.div_small by lia. ring.
Qed.

Lemma week_num_div z : period_num GbIsoWeek z = period_num GbIsoWeekDate z / 10.
Proof.
  unfold period_num. pose proof (iso_facts z) as H. destruct (iso_of_days z) as [[y w] wd].
  destruct H as (_ & Hd & _).
  replace (y * 1000 + w * 10 + wd) with ((y * 100 + w) * 10 + wd) by ring.
  rewrite Z.div_add_l by lia. rewrite Z.div_small by lia. ring.
Qed.

(* later days never have an earlier period *)
Lemma period_num_mono gb z z' : z <= z' -> period_num gb z <= period_num gb z'.
Proof.
  intros H.
  pose proof (mono_of_step _ date_num_step z z' H) as Hd.
  pose proof (mono_of_step _ weekdate_num_step z z' H) as Hw.
  destruct gb.
  - rewrite !year_num_div. apply Z.div_le_mono; lia.
  - rewrite !month_num_div. apply Z.div_le_mono; lia.
  - exact Hd.
  - rewrite !week_num_div. apply Z.div_le_mono; lia.
  - exact Hw.
Qed.

(* ---------------- the key strings order as the periods ---------------- *)
Lemma list_eqb_N_eq (a b : list N) : list_eqb N.eqb a b = true -> a = b.
Proof.
  revert b. induction a as [|x a IH]; intros [|y b] H; cbn in H; try discriminate; [reflexivity|].
  apply andb_true_iff in H. destruct H as [H1 H2]. apply N.eqb_eq in H1. subst. f_equal. auto.
Qed.

Lemma year_numeral y : 1000 <= y <= 9999 -> show_Z y = fixw 4 y /\ fmt_Y y = fixw 4 y.
Proof.
  intros H. pose proof (range_all_spec _ _ _ year_numeral_sweep y) as S.
  rewrite Z2Nat.id in S by lia. specialize (S ltac:(lia)).
  apply andb_true_iff in S. destruct S as [S1 S2].
  split; apply list_eqb_N_eq; assumption.
Qed.

Lemma two_digit n : 0 <= n <= 99 -> fmt_02 n = fixw 2 n.
Proof.
  intros H. pose proof (range_all_spec _ _ _ two_digit_sweep n) as S.
  rewrite Z2Nat.id in S by lia. apply list_eqb_N_eq. apply S. lia.
Qed.

Lemma one_digit n : 0 <= n <= 9 -> show_Z n = fixw 1 n.
Proof.
  intros H. pose proof (range_all_spec _ _ _ one_digit_sweep n) as S.
  rewrite Z2Nat.id in S by lia. apply list_eqb_N_eq. apply S. lia.
Qed.

Ltac fix_cmp :=
  repeat first
    [ rewrite str_cmp_cons_same
    | rewrite str_cmp_app_len by (rewrite !fixw_length; reflexivity)
    | rewrite fixw_cmp by (cbn; lia) ].

Lemma period_key_cmp gb z z' : year_ok gb z -> year_ok gb z' ->
  str_cmp (period_key gb z) (period_key gb z') = (period_num gb z ?= period_num gb z').
Proof.
  unfold year_ok, key_year, year_of_days, period_key, period_num.
  pose proof (civil_facts z) as C. pose proof (civil_facts z') as C'.
  pose proof (iso_facts z) as I. pose proof (iso_facts z') as I'.
  destruct (civil_of_days z) as [[y m] d]. destruct (civil_of_days z') as [[y' m'] d'].
  destruct (iso_of_days z) as [[iy w] wd]. destruct (iso_of_days z') as [[iy' w'] wd'].
  cbn [fst snd].
  destruct C as (Hm & Hd & _). destruct C' as (Hm' & Hd' & _).
  destruct I as (Hw & Hwd & _). destruct I' as (Hw' & Hwd' & _).
  pose proof (days_in_month_le y m). pose proof (days_in_month_le y' m').
  destruct gb; intros Hy Hy'.
  - rewrite (proj2 (year_numeral y Hy)), (proj2 (year_numeral y' Hy')). fix_cmp. reflexivity.
  - rewrite (proj2 (year_numeral y Hy)), (proj2 (year_numeral y' Hy')).
    rewrite !two_digit by lia. fix_cmp.
    apply lex_cmp; lia.
  - rewrite (proj2 (year_numeral y Hy)), (proj2 (year_numeral y' Hy')).
    rewrite !two_digit by lia. fix_cmp.
    rewrite (lex_cmp m m' d d' 100) by lia.
    rewrite (lex_cmp y y' _ _ 10000) by lia.
    rewrite !Z.add_assoc. reflexivity.
  - rewrite (proj1 (year_numeral iy Hy)), (proj1 (year_numeral iy' Hy')).
    rewrite !two_digit by lia. fix_cmp.
    apply lex_cmp; lia.
  - rewrite (proj1 (year_numeral iy Hy)), (proj1 (year_numeral iy' Hy')).
    rewrite !two_digit by lia. rewrite !one_digit by lia. fix_cmp.
    rewrite (lex_cmp w w' wd wd' 10) by lia.
    rewrite (lex_cmp iy iy' _ _ 1000) by lia.
    rewrite !Z.add_assoc. reflexivity.
Qed.

Lemma local_days_mono off i i' : i <= i' -> local_days off i <= local_days off i'.
Proof. intros H. unfold local_days. apply Z.div_le_mono; [reflexivity|lia]. Qed.

(* constant offset: a later instant never has a smaller key *)
Lemma instant_key_mono gb off i i' :
  year_ok gb (local_days off i) -> year_ok gb (local_days off i') -> i <= i' ->
  str_cmp (instant_key gb (fun _ => off) i) (instant_key gb (fun _ => off) i') <> Gt.
Proof.
  intros Hy Hy' H. unfold instant_key. rewrite period_key_cmp by assumption.
  pose proof (period_num_mono gb _ _ (local_days_mono off i i' H)) as Hn.
  intros E. apply Z.compare_gt_iff in E. lia.
Qed.

(* constant offset: a smaller key means an earlier instant (groups are chronological) *)
Lemma instant_key_lt gb off i i' :
  year_ok gb (local_days off i) -> year_ok gb (local_days off i') ->
  str_cmp (instant_key gb (fun _ => off) i) (instant_key gb (fun _ => off) i') = Lt -> i < i'.
Proof.
  intros Hy Hy' H. destruct (Z_lt_le_dec i i') as [|Hge]; [assumption|exfalso].
  pose proof (instant_key_mono gb off i' i Hy' Hy Hge) as Hm.
  rewrite str_cmp_opp, H in Hm. cbn in Hm. congruence.
Qed.

(* equal keys = same period; distinct periods have distinct keys *)
Lemma period_key_inj gb z z' : year_ok gb z -> year_ok gb z' ->
  (period_key gb z = period_key gb z' <-> period_num gb z = period_num gb z').
Proof.
  intros Hy Hy'. rewrite <- str_cmp_eq, period_key_cmp by assumption. apply Z.compare_eq_iff.
Qed.

(* the calendar functions are mutually inverse and produce valid dates *)
Lemma civil_roundtrip z :
  let '(y, m, d) := civil_of_days z in valid_civil y m d /\ days_of_civil y m d = z.
Proof.
  pose proof (civil_facts z) as H. destruct (civil_of_days z) as [[y m] d].
  unfold valid_civil. tauto.
Qed.

Lemma iso_roundtrip z :
  let '(y, w, wd) := iso_of_days z in 1 <= w <= 53 /\ 1 <= wd <= 7 /\ days_of_iso y w wd = z.
Proof. exact (iso_facts z). Qed.
