(* Time_sweep.v — one 400-year cycle (146097 days = 20871 weeks) checked by computation:
   every day for the civil date, every Monday for the ISO week.
   Everything else about the calendar is lifted from this by the periodicity lemmas of
   Time_proofs (the period is part of the statements: cycle [0, 146097)). *)
From TkModel Require Import Base Time.
From TkSpec Require Import Balance_spec Group_spec.
From TkProofs Require Import Base_proofs Time_proofs.
Local Open Scope Z_scope.

(* --- days: civil date of every day of the cycle --- *)
Definition civil_ok_of (r : Z) (c : Z * Z * Z) : bool :=
  let '(y, m, d) := c in
  (1 <=? m) && (m <=? 12) && (1 <=? d) && (d <=? days_in_month y m) && (days_of_civil y m d =? r).
Definition civil_ok (r : Z) : bool := civil_ok_of r (civil_of_days r).
Definition dnum (c : Z * Z * Z) : Z := let '(y, m, d) := c in y * 10000 + m * 100 + d.

(* n consecutive days from r: each is ok and its date number exceeds that of the day before (pd) *)
Fixpoint sweep_days (n : nat) (r pd : Z) : bool :=
  match n with
  | O => true
  | S n' =>
      let c := civil_of_days r in
      let dn := dnum c in
      civil_ok_of r c && (pd <? dn) && sweep_days n' (r + 1) dn
  end.

Lemma dnum_num r : dnum (civil_of_days r) = period_num GbDate r.
Proof. reflexivity. Qed.

Lemma sweep_days_spec n : forall r pd, sweep_days n r pd = true ->
  (forall z, r <= z < r + Z.of_nat n -> civil_ok z = true)
  /\ (forall z, r <= z < r + Z.of_nat n - 1 -> period_num GbDate z < period_num GbDate (z + 1))
  /\ ((0 < n)%nat -> pd < period_num GbDate r).
Proof.
  induction n as [|n IH]; intros r pd H.
  - repeat split; intros; lia.
  - cbn [sweep_days] in H. cbv zeta in H. rewrite dnum_num in H.
    apply andb_true_iff in H. destruct H as [H H2].
    apply andb_true_iff in H. destruct H as [H0 H1].
    apply Z.ltb_lt in H1.
    destruct (IH _ _ H2) as (A & B & C).
    split; [|split].
    + intros z Hz. destruct (Z.eq_dec z r) as [->|Hne]; [exact H0|]. apply A. lia.
    + intros z Hz. destruct (Z.eq_dec z r) as [->|Hne].
      * apply C. lia.
      * apply B. lia.
    + intros _. assumption.
Qed.

(* the cycle [0, 146097) and the first day of the next one (evaluated once, by the
   kernel's VM, when the proof term is checked) *)
Lemma cycle_days : sweep_days (Z.to_nat 146098) 0 (-1) = true.
Proof. vm_cast_no_check (eq_refl true). Qed.

(* --- weeks: ISO week of every Monday of the cycle (the other six days of a week share
   its Thursday; that part is closed form in Time_cal_proofs) --- *)
Definition iso_ok_of (r : Z) (i : Z * Z * Z) : bool :=
  let '(y, w, wd) := i in
  (1 <=? w) && (w <=? 53) && (wd =? 1) && (days_of_iso y w wd =? r).
Definition iso_ok (r : Z) : bool := iso_ok_of r (iso_of_days r).
Definition wknum (i : Z * Z * Z) : Z := let '(y, w, _) := i in y * 100 + w.

Lemma wknum_num r : wknum (iso_of_days r) = period_num GbIsoWeek r.
Proof. reflexivity. Qed.

(* n consecutive Mondays r, r+7, ..: each is ok and its week number exceeds that of the week before *)
Fixpoint sweep_weeks (n : nat) (r pw : Z) : bool :=
  match n with
  | O => true
  | S n' =>
      let i := iso_of_days r in
      let wn := wknum i in
      iso_ok_of r i && (pw <? wn) && sweep_weeks n' (r + 7) wn
  end.

Lemma sweep_weeks_spec n : forall r pw, sweep_weeks n r pw = true ->
  (forall k, 0 <= k < Z.of_nat n -> iso_ok (r + 7 * k) = true)
  /\ (forall k, 0 <= k < Z.of_nat n - 1 ->
        period_num GbIsoWeek (r + 7 * k) < period_num GbIsoWeek (r + 7 * k + 7))
  /\ ((0 < n)%nat -> pw < period_num GbIsoWeek r).
Proof.
  induction n as [|n IH]; intros r pw H.
  - repeat split; intros; lia.
  - cbn [sweep_weeks] in H. cbv zeta in H. rewrite wknum_num in H.
    apply andb_true_iff in H. destruct H as [H H2].
    apply andb_true_iff in H. destruct H as [H0 H1].
    apply Z.ltb_lt in H1.
    destruct (IH _ _ H2) as (A & B & C).
    split; [|split].
    + intros k Hk. destruct (Z.eq_dec k 0) as [->|Hne]; [rewrite Z.mul_0_r, Z.add_0_r; exact H0|].
      replace (r + 7 * k) with (r + 7 + 7 * (k - 1)) by ring. apply A. lia.
    + intros k Hk. destruct (Z.eq_dec k 0) as [->|Hne].
      * rewrite Z.mul_0_r, Z.add_0_r. apply C. lia.
      * replace (r + 7 * k) with (r + 7 + 7 * (k - 1)) by ring. apply B. lia.
    + intros _. assumption.
Qed.

(* day 4 = 1970-01-05 is a Monday; 20871 weeks = one cycle, plus the first Monday of the next *)
Lemma cycle_weeks : sweep_weeks (Z.to_nat 20872) 4 (-1) = true.
Proof. vm_cast_no_check (eq_refl true). Qed.

(* numerals: Rust `{}` / zero padding against fixed-width digit strings *)
Lemma year_numeral_sweep :
  range_all (fun y => list_eqb N.eqb (show_Z y) (fixw 4 y) && list_eqb N.eqb (fmt_Y y) (fixw 4 y))
            (Z.to_nat 9000) 1000 = true.
Proof. vm_cast_no_check (eq_refl true). Qed.

Lemma two_digit_sweep :
  range_all (fun n => list_eqb N.eqb (fmt_02 n) (fixw 2 n)) (Z.to_nat 100) 0 = true.
Proof. vm_cast_no_check (eq_refl true). Qed.

Lemma one_digit_sweep :
  range_all (fun n => list_eqb N.eqb (show_Z n) (fixw 1 n)) (Z.to_nat 10) 0 = true.
Proof. vm_cast_no_check (eq_refl true). Qed.
