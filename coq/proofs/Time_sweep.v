(* Time_sweep.v — one 400-year cycle (146097 days = 20871 weeks) checked by computation.
   Everything else about the calendar is lifted from this by the periodicity lemmas of
   Time_proofs (the period is part of the statements: cycle [0, 146097)). *)
From TkModel Require Import Base Time.
From TkSpec Require Import Balance_spec Group_spec.
From TkProofs Require Import Base_proofs Time_proofs.
Local Open Scope Z_scope.

(* what is checked for the day r, given c = civil_of_days r and i = iso_of_days r *)
Definition day_ok_of (r : Z) (c i : Z * Z * Z) : bool :=
  let '(y, m, d) := c in
  let '(iy, w, wd) := i in
  (1 <=? m) && (m <=? 12) && (1 <=? d) && (d <=? days_in_month y m)
  && (days_of_civil y m d =? r)
  && (1 <=? w) && (w <=? 53) && (1 <=? wd) && (wd <=? 7)
  && (days_of_iso iy w wd =? r).
Definition day_ok (r : Z) : bool := day_ok_of r (civil_of_days r) (iso_of_days r).
Definition dnum (c : Z * Z * Z) : Z := let '(y, m, d) := c in y * 10000 + m * 100 + d.
Definition wnum (i : Z * Z * Z) : Z := let '(y, w, wd) := i in y * 1000 + w * 10 + wd.

(* n consecutive days from r: each day is ok, and the date number / week-date number
   strictly exceed those of the day before (pd, pw) *)
Fixpoint sweep (n : nat) (r pd pw : Z) : bool :=
  match n with
  | O => true
  | S n' =>
      let c := civil_of_days r in
      let i := iso_of_days r in
      let dn := dnum c in
      let wn := wnum i in
      day_ok_of r c i && (pd <? dn) && (pw <? wn) && sweep n' (r + 1) dn wn
  end.

Lemma dnum_num r : dnum (civil_of_days r) = period_num GbDate r.
Proof. reflexivity. Qed.
Lemma wnum_num r : wnum (iso_of_days r) = period_num GbIsoWeekDate r.
Proof. reflexivity. Qed.

Lemma sweep_spec n : forall r pd pw, sweep n r pd pw = true ->
  (forall z, r <= z < r + Z.of_nat n -> day_ok z = true)
  /\ (forall z, r <= z < r + Z.of_nat n - 1 ->
        period_num GbDate z < period_num GbDate (z + 1)
        /\ period_num GbIsoWeekDate z < period_num GbIsoWeekDate (z + 1))
  /\ ((0 < n)%nat -> pd < period_num GbDate r /\ pw < period_num GbIsoWeekDate r).
Proof.
  induction n as [|n IH]; intros r pd pw H.
  - repeat split; intros; lia.
  - cbn [sweep] in H. cbv zeta in H. rewrite dnum_num, wnum_num in H.
    apply andb_true_iff in H. destruct H as [H H3].
    apply andb_true_iff in H. destruct H as [H H2].
    apply andb_true_iff in H. destruct H as [H0 H1].
    apply Z.ltb_lt in H1. apply Z.ltb_lt in H2.
    destruct (IH _ _ _ H3) as (A & B & C).
    split; [|split].
    + intros z Hz. destruct (Z.eq_dec z r) as [->|Hne]; [exact H0|]. apply A. lia.
    + intros z Hz. destruct (Z.eq_dec z r) as [->|Hne].
      * apply C. lia.
      * apply B. lia.
    + intros _. split; assumption.
Qed.

(* the cycle [0, 146097) and the first day of the next one (evaluated once, by the
   kernel's VM, when the proof term is checked) *)
Lemma cycle_sweep : sweep (Z.to_nat 146098) 0 (-1) (-1) = true.
Proof. vm_cast_no_check (eq_refl true). Qed.

(* numerals: Rust `{}` / zero padding against fixed-width digit strings *)
Lemma year_numeral_sweep :
  range_all (fun y => list_eqb N.eqb (show_Z y) (fixw 4 y) && list_eqb N.eqb (fmt_Y y) (fixw 4 y))
            (Z.to_nat 9000) 1000 = true.
Proof. vm_cast_no_check (eq_refl true). Qed.

Lemma two_digit_sweep :
  range_all (fun n => list_eqb N.eqb (fmt_02 n) (fixw 2 n)) (Z.to_nat 100) 0 = true.
Proof. vm_cast_no_check (eq_refl true). Qed.

Lemma one_digit_sweep :
  range_all (fun n => list_eqb N.eqb (show_Z n) (fixw 1 n)) (Z.to_nat 10) 0 = true.
Proof. vm_cast_no_check (eq_refl true). Qed.
