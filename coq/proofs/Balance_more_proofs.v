(* Balance_more_proofs.v — further facts about Balance.balance: all figures stay in the
   exact domain (scale <= 28), and the listed keys and numbers do not depend on the
   hash order or on the order of the postings. *)
From Coq Require Import Permutation Sorted.
From TkModel Require Import Base Dec Acct Balance.
From TkSpec Require Import Balance_spec.
From TkProofs Require Import Base_proofs Dec_proofs Acct_proofs Chunk_proofs Tree_proofs
  Balance_proofs Invariance_proofs.
Local Open Scope Z_scope.

Lemma balance_rows_dwf : forall known ord ps rows,
  (forall l, Permutation (ord l) l) -> Forall bpost_wf ps ->
  balance known ord ps = Some rows ->
  forall r, In r rows -> dwf (r_own r) /\ dwf (r_tree r).
Proof.
  intros known ord ps rows Hord Hwf H r Hr.
  destruct (balance_all known ord ps rows Hord Hwf H) as (all & Hok & E). subst rows.
  apply sort_by_in in Hr.
  destruct (forest_tree all (ao_nodup ps all Hok) (ao_closed ps all Hok) (ao_ne ps all Hwf Hok)
                        (ao_dwf ps all Hok) r Hr) as (e & He & _ & O & T & _).
  split; [rewrite O; apply (ao_dwf ps all Hok e He)|exact T].
Qed.

Lemma deltas_dwf rows :
  StronglySorted (fun a b => key_cmp (r_key a) (r_key b) <> Gt) rows ->
  Forall (fun r => dwf (r_own r)) rows ->
  forall c d, In (c, d) (deltas rows) -> dwf d.
Proof.
  intros Hs Hd c d Hin. rewrite deltas_gchunks in Hin.
  assert (map fst (map row_cd rows) = map r_comm rows) as Em by (rewrite map_map; reflexivity).
  assert (StronglySorted (fun a b => str_cmp a b <> Gt) (map fst (map row_cd rows))) as Hs'.
  { rewrite Em. apply (proj1 (StronglySorted_map (fun a b => str_cmp a b <> Gt) r_comm rows)).
    eapply StronglySorted_impl; [|exact Hs]. intros a b _ _ X. apply (key_cmp_snd (r_key a) (r_key b) X). }
  assert (Forall (fun e : list N * dec => dwf (snd e)) (map row_cd rows)) as Hd'.
  { rewrite Forall_map. exact Hd. }
  destruct (gchunks_spec str_eqb str_eqb_eq (fun a b => str_cmp a b <> Gt) str_cmp_antisym
                         (map row_cd rows) Hs' Hd') as (_ & _ & I3).
  apply (I3 c d Hin).
Qed.

Lemma report_deltas_dwf : forall known ord sel ps rep,
  (forall l, Permutation (ord l) l) -> Forall bpost_wf ps ->
  balance_report known ord sel ps = Some rep ->
  forall c d, In (c, d) (b_deltas rep) -> dwf d.
Proof.
  intros known ord sel ps rep Hord Hwf H. unfold balance_report in H.
  destruct (balance known ord ps) as [bal|] eqn:Eb; [|discriminate H].
  inversion H as [H']. clear H H'. cbn [b_deltas].
  destruct (balance_all known ord ps bal Hord Hwf Eb) as (all & Hok & E).
  apply deltas_dwf.
  - apply StronglySorted_filter. rewrite E. apply rows_sorted.
  - apply Forall_forall. intros r Hr. apply filter_In in Hr. destruct Hr as [Hr _].
    apply (balance_rows_dwf known ord ps bal Hord Hwf Eb r Hr).
Qed.

Lemma bpost_wf_perm ps ps' : Permutation ps ps' -> Forall bpost_wf ps -> Forall bpost_wf ps'.
Proof.
  intros Hp Hwf. rewrite Forall_forall in *. intros p Hin. apply Hwf.
  apply (Permutation_in _ (Permutation_sym Hp) Hin).
Qed.

Lemma balance_numbers_perm : forall known ord ord' ps ps' rows rows',
  (forall l, Permutation (ord l) l) -> (forall l, Permutation (ord' l) l) ->
  Forall bpost_wf ps -> Permutation ps ps' ->
  balance known ord ps = Some rows -> balance known ord' ps' = Some rows' ->
  map r_key rows' = map r_key rows
  /\ (forall r r', In r rows -> In r' rows' -> r_key r = r_key r' ->
        d28 (r_own r) = d28 (r_own r') /\ d28 (r_tree r) = d28 (r_tree r')).
Proof.
  intros known ord ord' ps ps' rows rows' Hord Hord' Hwf Hp H H'.
  pose proof (bpost_wf_perm ps ps' Hp Hwf) as Hwf'.
  destruct (balance_rows known ord ps rows Hord Hwf H) as (S1 & _ & K1).
  destruct (balance_rows known ord' ps' rows' Hord' Hwf' H') as (S2 & _ & K2).
  split.
  - apply (sorted_unique (fun a b => key_cmp a b = Lt) key_cmp_lt_asym); [exact S2|exact S1|].
    intros k. rewrite K1, K2. symmetry. apply spec_keys_perm. exact Hp.
  - intros r r' Hr Hr' E. split.
    + rewrite (balance_own known ord ps rows Hord Hwf H r Hr).
      rewrite (balance_own known ord' ps' rows' Hord' Hwf' H' r' Hr').
      rewrite E. apply spec_own_perm. exact Hp.
    + rewrite (balance_tree known ord ps rows Hord Hwf H r Hr).
      rewrite (balance_tree known ord' ps' rows' Hord' Hwf' H' r' Hr').
      rewrite E. apply spec_tree_perm. exact Hp.
Qed.

Print Assumptions balance_rows_dwf.
Print Assumptions report_deltas_dwf.
Print Assumptions balance_numbers_perm.
