(* Codec_proofs.v — lemmas for C18 (filter definition codec). *)
From TkModel Require Import Base Dec Codec.
From TkSpec Require Import Codec_spec.
Local Open Scope Z_scope.

(* ------------------------------------------------------------------ strings *)
(* (own copies: TkProofs.Base_proofs is being extended by others) *)
Lemma c18_str_eqb_eq a : forall b, str_eqb a b = true <-> a = b.
Proof.
  induction a as [|x a IH]; destruct b as [|y b]; cbn [str_eqb]; split; try discriminate; try reflexivity.
  - intros H. apply andb_prop in H. destruct H as [H1 H2]. apply N.eqb_eq in H1. apply IH in H2. now subst.
  - intros H. inversion H; subst. rewrite N.eqb_refl. cbn [andb]. now apply IH.
Qed.
Lemma c18_str_eqb_refl a : str_eqb a a = true.
Proof. now apply c18_str_eqb_eq. Qed.

Lemma c18_strip_prefix_app p s : strip_prefix p (p ++ s) = Some s.
Proof. induction p as [|x p IH]; cbn [strip_prefix app]; [reflexivity|]. now rewrite N.eqb_refl. Qed.

Lemma c18_strip_prefix_inv p : forall s r, strip_prefix p s = Some r -> s = p ++ r.
Proof.
  induction p as [|x p IH]; intros s r H; cbn [strip_prefix] in H.
  - now inversion H.
  - destruct s as [|y s]; [discriminate|].
    destruct (N.eqb x y) eqn:E; [|discriminate].
    apply N.eqb_eq in E. subst y. cbn [app]. f_equal. now apply IH.
Qed.

Lemma c18_strip_suffix_app p s : strip_suffix p (s ++ p) = Some s.
Proof.
  unfold strip_suffix. rewrite rev_app_distr, c18_strip_prefix_app. cbn [option_map].
  now rewrite rev_involutive.
Qed.

Lemma c18_strip_suffix_inv p s r : strip_suffix p s = Some r -> s = r ++ p.
Proof.
  unfold strip_suffix. destruct (strip_prefix (rev p) (rev s)) as [x|] eqn:E; cbn [option_map]; [|discriminate].
  intros H. inversion H; subst r. apply c18_strip_prefix_inv in E.
  apply (f_equal (@rev N)) in E. rewrite rev_involutive, rev_app_distr, rev_involutive in E. exact E.
Qed.

Lemma c18_starts_with_app p s : starts_with p (p ++ s) = true.
Proof. unfold starts_with. now rewrite c18_strip_prefix_app. Qed.

(* peel . wrap = id, for every text *)
Lemma c18_peel_wrap p : peel_s (wrap_s p) = p.
Proof.
  unfold peel_s, wrap_s. rewrite c18_strip_prefix_app, c18_strip_suffix_app. reflexivity.
Qed.

Lemma c18_wrap_peel_wrap p : wrap_s (peel_s (wrap_s p)) = wrap_s p.
Proof. now rewrite c18_peel_wrap. Qed.

Lemma c18_is_wrapped_wrap p : is_wrapped (wrap_s p) = true.
Proof. unfold is_wrapped, wrap_s. now rewrite c18_strip_prefix_app, c18_strip_suffix_app. Qed.

Lemma c18_is_wrapped_inv r : is_wrapped r = true -> exists p, r = wrap_s p.
Proof.
  unfold is_wrapped. destruct (strip_prefix wrap_pre r) as [c|] eqn:E1; [|discriminate].
  destruct (strip_suffix wrap_suf c) as [x|] eqn:E2; [|discriminate]. intros _.
  exists x. apply c18_strip_prefix_inv in E1. apply c18_strip_suffix_inv in E2. subst. reflexivity.
Qed.

(* the compiled text of a Regex value is recovered from its serialised form *)
Lemma c18_wrap_peel_of_wrapped r : is_wrapped r = true -> wrap_s (peel_s r) = r.
Proof. intros H. destruct (c18_is_wrapped_inv r H) as [p ->]. apply c18_wrap_peel_wrap. Qed.

(* what peel does to a text that is not of the wrapped form: nothing *)
Lemma c18_peel_not_wrapped r : is_wrapped r = false -> peel_s r = r.
Proof.
  unfold is_wrapped, peel_s. destruct (strip_prefix wrap_pre r) as [c|]; [|reflexivity].
  destruct (strip_suffix wrap_suf c); [discriminate|reflexivity].
Qed.

Lemma c18_wrap_inj p q : wrap_s p = wrap_s q -> p = q.
Proof. intros H. apply (f_equal peel_s) in H. now rewrite !c18_peel_wrap in H. Qed.

(* a pattern that already carries the wrapper: compiled with two layers, serialised with the
   one the user wrote, re-read with two layers again *)
Lemma c18_no_compounding p :
  let q := wrap_s p in
  peel_s (wrap_s q) = q /\ wrap_s (peel_s (wrap_s q)) = wrap_s q /\ peel_s (wrap_s q) <> p
  /\ wrap_s (peel_s (wrap_s q)) <> wrap_s (wrap_s q).
Proof.
  cbv zeta. rewrite !c18_peel_wrap. repeat split; try reflexivity.
  - intros H. apply (f_equal (@length N)) in H. unfold wrap_s in H. rewrite !app_length in H. cbn in H. lia.
  - intros H. apply c18_wrap_inj in H. apply (f_equal (@length N)) in H. unfold wrap_s in H.
    rewrite !app_length in H. cbn in H. lia.
Qed.

(* ------------------------------------------------------------------ base64 *)
Local Open Scope N_scope.
Ltac Zify.zify_post_hook ::= Z.to_euclidean_division_equations.

Ltac c18_cmp :=
  repeat match goal with
  | |- context [N.ltb ?a ?b] => destruct (N.ltb_spec a b)
  | |- context [N.leb ?a ?b] => destruct (N.leb_spec a b)
  | |- context [N.eqb ?a ?b] => destruct (N.eqb_spec a b)
  | H : context [N.ltb ?a ?b] |- _ => destruct (N.ltb_spec a b)
  | H : context [N.leb ?a ?b] |- _ => destruct (N.leb_spec a b)
  | H : context [N.eqb ?a ?b] |- _ => destruct (N.eqb_spec a b)
  end; cbn [andb orb negb] in *.

Lemma c18_list_ind3 {A} (P : list A -> Prop) :
  P [] -> (forall a, P [a]) -> (forall a b, P [a; b]) ->
  (forall a b c r, P r -> P (a :: b :: c :: r)) -> forall l, P l.
Proof.
  intros H0 H1 H2 H3. fix IH 1.
  intros [|a [|b [|c r]]]; [apply H0 | apply H1 | apply H2 | apply H3; apply IH].
Qed.

Lemma c18_list_ind4 {A} (P : list A -> Prop) :
  P [] -> (forall a, P [a]) -> (forall a b, P [a; b]) -> (forall a b c, P [a; b; c]) ->
  (forall a b c d r, P r -> P (a :: b :: c :: d :: r)) -> forall l, P l.
Proof.
  intros H0 H1 H2 H3 H4. fix IH 1.
  intros [|a [|b [|c [|d r]]]]; [apply H0 | apply H1 | apply H2 | apply H3 | apply H4; apply IH].
Qed.

Lemma c18_b64_val_char v : v < 64 -> b64_val (b64_char v) = Some v.
Proof.
  intros Hv. unfold b64_char.
  destruct (N.ltb_spec v 26); [|destruct (N.ltb_spec v 52); [|destruct (N.ltb_spec v 62); [|destruct (N.eqb_spec v 62)]]];
  unfold b64_val; c18_cmp; try lia; f_equal; lia.
Qed.

Lemma c18_b64_char_val c v : b64_val c = Some v -> c = b64_char v /\ v < 64.
Proof.
  unfold b64_val. intros H. c18_cmp; try discriminate; inversion H; subst v; clear H;
  unfold b64_char; c18_cmp; try lia; split; lia.
Qed.

Lemma c18_b64_char_not_pad v : v < 64 -> b64_char v <> b64_pad.
Proof. intros Hv. unfold b64_char, b64_pad. c18_cmp; lia. Qed.

Lemma c18_b64_val_pad : b64_val b64_pad = None.
Proof. reflexivity. Qed.


Lemma c18_b64_enc_nil_inv bs : b64_enc bs = [] -> bs = [].
Proof. destruct bs as [|a [|b [|c r]]]; cbn [b64_enc]; congruence. Qed.

(* decode . encode = id on byte strings *)
Lemma c18_b64_dec_enc : forall bs, bytes bs -> b64_dec (b64_enc bs) = Some bs.
Proof.
  induction bs as [|a|a b|a b c r IH] using c18_list_ind3; intros Hb.
  - reflexivity.
  - inversion Hb as [|? ? Ha _]; subst. cbn [b64_enc b64_dec]. unfold b64_last. rewrite !N.eqb_refl.
    rewrite !c18_b64_val_char by lia. c18_cmp; [do 2 f_equal; lia | lia].
  - inversion Hb as [|? ? Ha Hb']; subst. inversion Hb' as [|? ? Hbb _]; subst.
    cbn [b64_enc b64_dec]. unfold b64_last. rewrite N.eqb_refl.
    destruct (N.eqb_spec (b64_char (b mod 16 * 4)) b64_pad) as [E|_];
      [exfalso; revert E; apply c18_b64_char_not_pad; lia|].
    rewrite !c18_b64_val_char by lia. c18_cmp; [do 2 f_equal; [lia | f_equal; lia] | lia].
  - inversion Hb as [|? ? Ha Hb']; subst. inversion Hb' as [|? ? Hbb Hb'']; subst.
    inversion Hb'' as [|? ? Hc Hr]; subst. specialize (IH Hr).
    cbn [b64_enc b64_dec].
    assert (Q : b64_quad (b64_char (a / 4)) (b64_char (a mod 4 * 16 + b / 16))
                         (b64_char (b mod 16 * 4 + c / 64)) (b64_char (c mod 64)) = Some [a; b; c]).
    { unfold b64_quad. rewrite !c18_b64_val_char by lia. do 2 f_equal; [lia | f_equal; [lia | f_equal; lia]]. }
    destruct (b64_enc r) as [|x xs] eqn:E.
    + apply c18_b64_enc_nil_inv in E. subst r. unfold b64_last.
      destruct (N.eqb_spec (b64_char (c mod 64)) b64_pad) as [E|_];
        [exfalso; revert E; apply c18_b64_char_not_pad; lia|]. exact Q.
    + rewrite Q, IH. reflexivity.
Qed.

Lemma c18_b64_quad_inv c1 c2 c3 c4 x :
  b64_quad c1 c2 c3 c4 = Some x ->
  exists a b c, x = [a; b; c] /\ a < 256 /\ b < 256 /\ c < 256 /\
    c1 = b64_char (a / 4) /\ c2 = b64_char (a mod 4 * 16 + b / 16) /\
    c3 = b64_char (b mod 16 * 4 + c / 64) /\ c4 = b64_char (c mod 64).
Proof.
  unfold b64_quad.
  destruct (b64_val c1) as [v1|] eqn:E1; [|discriminate].
  destruct (b64_val c2) as [v2|] eqn:E2; [|discriminate].
  destruct (b64_val c3) as [v3|] eqn:E3; [|discriminate].
  destruct (b64_val c4) as [v4|] eqn:E4; [|discriminate].
  apply c18_b64_char_val in E1, E2, E3, E4.
  destruct E1 as [-> H1], E2 as [-> H2], E3 as [-> H3], E4 as [-> H4].
  intros H. inversion H; subst x; clear H.
  exists (v1 * 4 + v2 / 16), (v2 mod 16 * 16 + v3 / 4), (v3 mod 4 * 64 + v4).
  repeat split; try lia; f_equal; lia.
Qed.

(* decoding accepts only the canonical encoding: decode is the partial inverse of encode *)
Lemma c18_b64_canonical : forall s bs, b64_dec s = Some bs -> bytes bs /\ b64_enc bs = s.
Proof.
  induction s as [|c1|c1 c2|c1 c2 c3|c1 c2 c3 c4 r IH] using c18_list_ind4;
    intros bs H; cbn [b64_dec] in H; try discriminate.
  - inversion H; subst. split; [constructor | reflexivity].
  - destruct r as [|c5 r'].
    + unfold b64_last in H.
      destruct (N.eqb_spec c4 b64_pad) as [->|N4].
      * destruct (N.eqb_spec c3 b64_pad) as [->|N3].
        -- destruct (b64_val c1) as [v1|] eqn:E1; [|discriminate].
           destruct (b64_val c2) as [v2|] eqn:E2; [|discriminate].
           destruct (N.eqb_spec (v2 mod 16) 0) as [Z|]; [|discriminate].
           apply c18_b64_char_val in E1, E2. destruct E1 as [-> H1], E2 as [-> H2].
           inversion H; subst bs; clear H. split.
           ++ repeat constructor. lia.
           ++ cbn [b64_enc]. repeat f_equal; lia.
        -- destruct (b64_val c1) as [v1|] eqn:E1; [|discriminate].
           destruct (b64_val c2) as [v2|] eqn:E2; [|discriminate].
           destruct (b64_val c3) as [v3|] eqn:E3; [|discriminate].
           destruct (N.eqb_spec (v3 mod 4) 0) as [Z|]; [|discriminate].
           apply c18_b64_char_val in E1, E2, E3.
           destruct E1 as [-> H1], E2 as [-> H2], E3 as [-> H3].
           inversion H; subst bs; clear H. split.
           ++ repeat constructor; lia.
           ++ cbn [b64_enc]. repeat f_equal; lia.
      * apply c18_b64_quad_inv in H. destruct H as (a & b & c & -> & Ha & Hb & Hc & -> & -> & -> & ->).
        split; [repeat constructor; assumption | reflexivity].
    + destruct (b64_quad c1 c2 c3 c4) as [x|] eqn:Q; [|discriminate].
      destruct (b64_dec (c5 :: r')) as [y|] eqn:D; [|discriminate].
      inversion H; subst bs; clear H.
      apply c18_b64_quad_inv in Q. destruct Q as (a & b & c & -> & Ha & Hb & Hc & -> & -> & -> & ->).
      destruct (IH y eq_refl) as [By <-]. split.
      * repeat constructor; assumption.
      * reflexivity.
Qed.

Lemma c18_b64_enc_chars : forall bs, bytes bs ->
  Forall (fun c => b64_alphabet c = true \/ c = b64_pad) (b64_enc bs) /\ (length (b64_enc bs) mod 4 = 0)%nat.
Proof.
  assert (A : forall v, v < 64 -> b64_alphabet (b64_char v) = true).
  { intros v Hv. unfold b64_alphabet. now rewrite c18_b64_val_char. }
  induction bs as [|a|a b|a b c r IH] using c18_list_ind3; intros Hb.
  - split; [constructor | reflexivity].
  - inversion Hb; subst. split; [|reflexivity]. cbn [b64_enc].
    repeat (apply Forall_cons; [first [left; apply A; lia | now right]|]). apply Forall_nil.
  - inversion Hb as [|? ? ? Hb']; subst. inversion Hb'; subst. split; [|reflexivity]. cbn [b64_enc].
    repeat (apply Forall_cons; [first [left; apply A; lia | now right]|]). apply Forall_nil.
  - inversion Hb as [|? ? ? Hb']; subst. inversion Hb' as [|? ? ? Hb'']; subst. inversion Hb''; subst.
    destruct (IH ltac:(assumption)) as [F L]. cbn [b64_enc]. split.
    + repeat (apply Forall_cons; [left; apply A; lia|]). exact F.
    + cbn [length]. rewrite <- L at 2.
      change (S (S (S (S (length (b64_enc r)))))) with (4 + length (b64_enc r))%nat.
      rewrite Nat.add_mod by lia. rewrite Nat.mod_same by lia. cbn [Nat.add].
      rewrite Nat.mod_mod by lia. reflexivity.
Qed.

(* anything that is not a multiple of four characters long, or contains a character outside
   the alphabet (other than padding), is rejected *)
Lemma c18_b64_rejects s :
  (length s mod 4 <> 0)%nat \/ Exists (fun c => b64_alphabet c = false /\ c <> b64_pad) s ->
  b64_dec s = None.
Proof.
  intros H. destruct (b64_dec s) as [bs|] eqn:D; [|reflexivity]. exfalso.
  apply c18_b64_canonical in D. destruct D as [B <-].
  destruct (c18_b64_enc_chars bs B) as [F L]. destruct H as [H|H]; [now apply H|].
  apply Exists_exists in H. destruct H as (c & Hin & Hf & Hp).
  rewrite Forall_forall in F. destruct (F c Hin); congruence.
Qed.

(* ------------------------------------------------------------------ UTF-8 *)
Ltac c18_cmpl :=
  repeat (match goal with
  | |- context [N.ltb ?a ?b] => destruct (N.ltb_spec a b)
  | |- context [N.leb ?a ?b] => destruct (N.leb_spec a b)
  | |- context [N.eqb ?a ?b] => destruct (N.eqb_spec a b)
  | H : context [N.ltb ?a ?b] |- _ => destruct (N.ltb_spec a b)
  | H : context [N.leb ?a ?b] |- _ => destruct (N.leb_spec a b)
  | H : context [N.eqb ?a ?b] |- _ => destruct (N.eqb_spec a b)
  end; cbn [andb orb negb] in *; try discriminate; try lia).

Lemma c18_utf8_dec_enc1 c rest :
  is_scalar c = true -> utf8_dec (utf8_enc1 c ++ rest) = option_map (cons c) (utf8_dec rest).
Proof.
  unfold utf8_enc1. intros H.
  destruct (N.ltb_spec c 128) as [L1|L1]; [|destruct (N.ltb_spec c 2048) as [L2|L2];
    [|destruct (N.ltb_spec c 65536) as [L3|L3]]]; cbn [app utf8_dec].
  - destruct (N.ltb_spec c 128); [reflexivity | lia].
  - clear H. unfold is_cont. c18_cmpl.
    replace ((192 + c / 64 - 192) * 64 + (128 + c mod 64 - 128)) with c by lia. reflexivity.
  - replace ((224 + c / 4096 - 224) * 4096 + (128 + (c / 64) mod 64 - 128) * 64 + (128 + c mod 64 - 128))
      with c by lia.
    rewrite H. unfold is_scalar in H. unfold is_cont. c18_cmpl; reflexivity.
  - replace ((240 + c / 262144 - 240) * 262144 + (128 + (c / 4096) mod 64 - 128) * 4096
             + (128 + (c / 64) mod 64 - 128) * 64 + (128 + c mod 64 - 128)) with c by lia.
    rewrite H. unfold is_scalar in H. unfold is_cont. c18_cmpl; reflexivity.
Qed.


(* from_utf8 . (UTF-8 encoding) = id on Rust strings *)
Lemma c18_utf8_dec_enc s : scalars s -> utf8_dec (utf8_enc s) = Some s.
Proof.
  induction 1 as [|c s Hc _ IH]; [reflexivity|].
  unfold utf8_enc. cbn [flat_map]. fold (utf8_enc s). now rewrite c18_utf8_dec_enc1, IH.
Qed.

Lemma c18_utf8_enc_bytes s : scalars s -> bytes (utf8_enc s).
Proof.
  induction 1 as [|c s Hc _ IH]; [constructor|].
  unfold utf8_enc. cbn [flat_map]. fold (utf8_enc s). apply Forall_app. split; [|exact IH].
  unfold utf8_enc1. unfold is_scalar in Hc.
  destruct (N.ltb_spec c 128); [|destruct (N.ltb_spec c 2048); [|destruct (N.ltb_spec c 65536)]];
    repeat (apply Forall_cons; [c18_cmpl|]); try apply Forall_nil.
Qed.

(* ------------------------------------------------------------------ armor *)
Lemma c18_armor_one_prefix s : armor_payload s = armor_payload_spec s.
Proof.
  unfold armor_payload, armor_payload_spec, is_armored, starts_with.
  destruct (strip_prefix armor_tag s); reflexivity.
Qed.

Lemma c18_armor_payload_enc bs : bytes bs -> armor_payload (armor_tag ++ b64_enc bs) = Some bs.
Proof.
  intros Hb. unfold armor_payload, is_armored. rewrite c18_starts_with_app, c18_strip_prefix_app.
  now apply c18_b64_dec_enc.
Qed.

Lemma c18_armor_not_armored s : is_armored s = false -> armor_payload s = None.
Proof. unfold armor_payload. now intros ->. Qed.

(* a second armor prefix is not base64: ':' is outside the alphabet *)
Lemma c18_b64_dec_armor_tag x : b64_dec (armor_tag ++ x) = None.
Proof.
  unfold armor_tag. destruct x as [|c [|c' r]]; try reflexivity.
  cbn [app b64_dec]. unfold b64_last. destruct (N.eqb_spec c b64_pad); reflexivity.
Qed.

Lemma c18_armor_double_rejected x : armor_payload (armor_tag ++ armor_tag ++ x) = None.
Proof.
  unfold armor_payload, is_armored. rewrite c18_starts_with_app, c18_strip_prefix_app.
  apply c18_b64_dec_armor_tag.
Qed.

(* from_utf8 accepts only the UTF-8 encoding of its result *)
Lemma c18_utf8_canonical : forall n bs, (length bs <= n)%nat -> forall json, utf8_dec bs = Some json -> bs = utf8_enc json.
Proof.
  induction n as [|n IH]; intros bs Hn json U.
  - destruct bs; [|cbn in Hn; lia]. cbn in U. now inversion U.
  - destruct bs as [|b1 r]; [cbn in U; now inversion U|].
    cbn [utf8_dec] in U. cbn [length] in Hn.
    destruct (N.ltb_spec b1 128).
    { destruct (utf8_dec r) as [t|] eqn:E; [|discriminate]. cbn in U. inversion U; subst json.
      rewrite (IH r ltac:(lia) t E). unfold utf8_enc at 2. cbn [flat_map]. unfold utf8_enc1.
      destruct (N.ltb_spec b1 128); [reflexivity | lia]. }
    destruct ((194 <=? b1) && (b1 <? 224)) eqn:C2.
    { destruct r as [|b2 r2]; [discriminate|]. destruct (is_cont b2) eqn:K2; [|discriminate].
      destruct (utf8_dec r2) as [t|] eqn:E; [|discriminate]. cbn in U. inversion U; subst json.
      cbn [length] in Hn. rewrite (IH r2 ltac:(lia) t E). unfold utf8_enc at 2. cbn [flat_map].
      unfold utf8_enc1. unfold is_cont in K2. c18_cmpl. cbn [app]. f_equal; [lia | f_equal; lia]. }
    destruct ((224 <=? b1) && (b1 <? 240)) eqn:C3.
    { destruct r as [|b2 [|b3 r3]]; try discriminate.
      destruct (is_cont b2 && is_cont b3 && (2048 <=? (b1 - 224) * 4096 + (b2 - 128) * 64 + (b3 - 128))
                && is_scalar ((b1 - 224) * 4096 + (b2 - 128) * 64 + (b3 - 128))) eqn:K; [|discriminate].
      destruct (utf8_dec r3) as [t|] eqn:E; [|discriminate]. cbn in U. inversion U; subst json.
      cbn [length] in Hn. rewrite (IH r3 ltac:(lia) t E). unfold utf8_enc at 2. cbn [flat_map].
      unfold utf8_enc1. unfold is_cont, is_scalar in K. c18_cmpl; cbn [app];
        (f_equal; [lia | f_equal; [lia | f_equal; lia]]). }
    destruct ((240 <=? b1) && (b1 <? 245)) eqn:C4; [|discriminate].
    destruct r as [|b2 [|b3 [|b4 r4]]]; try discriminate.
    destruct (is_cont b2 && is_cont b3 && is_cont b4
              && (65536 <=? (b1 - 240) * 262144 + (b2 - 128) * 4096 + (b3 - 128) * 64 + (b4 - 128))
              && is_scalar ((b1 - 240) * 262144 + (b2 - 128) * 4096 + (b3 - 128) * 64 + (b4 - 128))) eqn:K;
      [|discriminate].
    destruct (utf8_dec r4) as [t|] eqn:E; [|discriminate]. cbn in U. inversion U; subst json.
    cbn [length] in Hn. rewrite (IH r4 ltac:(lia) t E). unfold utf8_enc at 2. cbn [flat_map].
    unfold utf8_enc1. unfold is_cont, is_scalar in K. c18_cmpl; cbn [app];
      (f_equal; [lia | f_equal; [lia | f_equal; [lia | f_equal; lia]]]).
Qed.

Section Armor.
  Variable rx_ok : list N -> bool.
  Variable json_parse : list N -> option jv.

  (* the armored form of a JSON text means what the JSON text means *)
  Lemma c18_armor_eq_json json :
    scalars json ->
    from_armor rx_ok json_parse (armor_tag ++ b64_enc (utf8_enc json)) = from_json_str rx_ok json_parse json.
  Proof.
    intros Hs. unfold from_armor. rewrite c18_armor_payload_enc by now apply c18_utf8_enc_bytes.
    cbn [opt_bind]. now rewrite c18_utf8_dec_enc.
  Qed.

  Lemma c18_from_any_armor json :
    scalars json ->
    from_any rx_ok json_parse (armor_tag ++ b64_enc (utf8_enc json)) = from_json_str rx_ok json_parse json.
  Proof.
    intros Hs. unfold from_any, is_armored. rewrite c18_starts_with_app. now apply c18_armor_eq_json.
  Qed.

  (* whatever from_armor accepts is the canonical armor of some JSON text with that meaning *)
  Lemma c18_armor_accepts_only s f :
    from_armor rx_ok json_parse s = Some f ->
    exists json, s = armor_tag ++ b64_enc (utf8_enc json) /\ from_json_str rx_ok json_parse json = Some f.
  Proof.
    unfold from_armor. rewrite c18_armor_one_prefix. unfold armor_payload_spec.
    destruct (strip_prefix armor_tag s) as [rest|] eqn:E; [|discriminate].
    destruct (b64_dec rest) as [bs|] eqn:D; [|discriminate]. cbn [opt_bind].
    destruct (utf8_dec bs) as [json|] eqn:U; [|discriminate]. cbn [opt_bind]. intros H.
    exists json. split; [|exact H].
    apply c18_strip_prefix_inv in E. apply c18_b64_canonical in D. destruct D as [_ D].
    subst s. f_equal. rewrite <- D. f_equal.
    now apply (c18_utf8_canonical (length bs) bs (le_n _)).
  Qed.
End Armor.

(* ------------------------------------------------------------------ numerals *)
Definition digits (l : list N) : Prop := Forall (fun c => is_digit c = true) l.

Lemma c18_val_digits_app l1 : forall acc l2, val_digits acc (l1 ++ l2) = val_digits (val_digits acc l1) l2.
Proof. induction l1 as [|c l IH]; intros; cbn [app val_digits]; [reflexivity | apply IH]. Qed.

Lemma c18_val_digits_acc l : forall acc, val_digits acc l = acc * 10 ^ N.of_nat (length l) + val_digits 0 l.
Proof.
  induction l as [|c l IH]; intros acc; cbn [val_digits length].
  - cbn. lia.
  - rewrite IH, (IH (0 * 10 + (c - 48))). rewrite Nat2N.inj_succ, N.pow_succ_r'. lia.
Qed.

Lemma c18_digit_char d : d < 10 -> is_digit (48 + d) = true.
Proof. intros. unfold is_digit. c18_cmpl; reflexivity. Qed.

Lemma c18_show_fixed_spec w : forall n, n < 10 ^ N.of_nat w ->
  digits (show_fixed w n) /\ length (show_fixed w n) = w /\ val_digits 0 (show_fixed w n) = n.
Proof.
  induction w as [|w IH]; intros n Hn.
  - cbn in *. repeat split; [constructor | lia].
  - rewrite Nat2N.inj_succ, N.pow_succ_r' in Hn. cbn [show_fixed].
    destruct (IH (n / 10)) as (D & L & V); [lia|]. repeat split.
    + apply Forall_app. split; [exact D|]. constructor; [|constructor]. apply c18_digit_char. lia.
    + rewrite app_length, L. cbn. lia.
    + rewrite c18_val_digits_app, V. cbn [val_digits]. lia.
Qed.

Lemma c18_firstn_app_exact {A} (a b : list A) : firstn (length a) (a ++ b) = a.
Proof. induction a; cbn; [now destruct b | now f_equal]. Qed.
Lemma c18_skipn_app_exact {A} (a b : list A) : skipn (length a) (a ++ b) = b.
Proof. induction a; cbn; [reflexivity | assumption]. Qed.

Lemma c18_forallb_digits l : digits l -> forallb is_digit l = true.
Proof. intros H. apply forallb_forall. intros x Hx. unfold digits in H. rewrite Forall_forall in H. now apply H. Qed.

Lemma c18_take_digits_fixed w n rest : n < 10 ^ N.of_nat w ->
  take_digits w (show_fixed w n ++ rest) = Some (n, rest).
Proof.
  intros Hn. destruct (c18_show_fixed_spec w n Hn) as (D & L & V).
  remember (show_fixed w n) as a eqn:Ea. clear Ea Hn. subst w. unfold take_digits.
  rewrite c18_firstn_app_exact, c18_skipn_app_exact, Nat.eqb_refl.
  rewrite c18_forallb_digits by exact D. cbn [andb]. now rewrite V.
Qed.

Lemma c18_span_digits_app l c r : digits l -> is_digit c = false ->
  span_digits (l ++ c :: r) = (l, c :: r).
Proof.
  intros D Hc. induction D as [|x l Hx _ IH]; cbn [app span_digits].
  - now rewrite Hc.
  - now rewrite Hx, IH.
Qed.
Lemma c18_span_digits_all l : digits l -> span_digits l = (l, []).
Proof. induction 1 as [|x l Hx _ IH]; cbn [span_digits]; [reflexivity | now rewrite Hx, IH]. Qed.

(* shortest decimal numeral *)
Lemma c18_digs_rev_spec fuel : forall n, n < 2 ^ N.of_nat fuel -> (0 < fuel)%nat ->
  let l := rev (digs_rev fuel n) in
  digits l /\ val_digits 0 l = n /\ l <> [].
Proof.
  induction fuel as [|f IH]; intros n Hn Hf; [lia|].
  cbn [digs_rev]. cbv zeta. rewrite Nat2N.inj_succ, N.pow_succ_r' in Hn.
  assert (D0 : is_digit (48 + n mod 10) = true) by (apply c18_digit_char; lia).
  destruct (N.eqb_spec (n / 10) 0) as [Z|NZ].
  - cbn [rev app]. repeat split; [repeat constructor; exact D0 | cbn [val_digits]; lia | discriminate].
  - assert (Hf' : (0 < f)%nat).
    { destruct f; [|lia]. cbn in Hn. lia. }
    destruct (IH (n / 10) ltac:(lia) Hf') as (D & V & _). cbn [rev]. repeat split.
    + apply Forall_app. split; [exact D | repeat constructor; exact D0].
    + rewrite c18_val_digits_app, V. cbn [val_digits]. lia.
    + intros E. apply app_eq_nil in E. destruct E; discriminate.
Qed.

Lemma c18_show_N_spec n : digits (show_N n) /\ val_digits 0 (show_N n) = n /\ show_N n <> [].
Proof.
  unfold show_N. apply c18_digs_rev_spec; [|lia].
  rewrite Nat2N.inj_succ, N2Nat.id. destruct (N.eq_dec n 0) as [->|NZ]; [cbn; lia|].
  apply N.log2_spec. lia.
Qed.

(* ------------------------------------------------------------------ Decimal text *)
Lemma c18_scan_int l : forall fst neg has m rest, l <> [] -> digits l ->
  dec_scan fst neg has false m 0 (l ++ rest) = dec_scan false neg true false (val_digits m l) 0 rest.
Proof.
  induction l as [|c l IH]; intros fst neg has m rest NE D; [congruence|].
  inversion D as [|? ? Hc D']; subst. cbn [app dec_scan val_digits]. rewrite Hc.
  destruct l as [|c' l']; [reflexivity|]. apply IH; [discriminate | exact D'].
Qed.

Lemma c18_scan_frac l : forall neg m sc rest, digits l ->
  dec_scan false neg true true m sc (l ++ rest)
  = dec_scan false neg true true (val_digits m l) (sc + N.of_nat (length l)) rest.
Proof.
  induction l as [|c l IH]; intros neg m sc rest D.
  - cbn [app val_digits length]. f_equal. cbn. lia.
  - inversion D as [|? ? Hc D']; subst. cbn [app dec_scan val_digits length]. rewrite Hc.
    rewrite IH by exact D'. f_equal. lia.
Qed.

Lemma c18_digits_repeat k : digits (repeat 48 k).
Proof. induction k; cbn; constructor; [reflexivity | assumption]. Qed.

Lemma c18_val_digits_zeros k : forall acc l, val_digits acc (repeat 48 k ++ l) = val_digits (acc * 10 ^ N.of_nat k) l.
Proof.
  induction k as [|k IH]; intros acc l; cbn [repeat app val_digits].
  - f_equal. cbn. lia.
  - rewrite IH. f_equal. rewrite Nat2N.inj_succ, N.pow_succ_r'. lia.
Qed.

(* every Decimal is read back from its own text with the same mantissa and scale *)
Lemma c18_dec_parse_show d : dec_parse (dec_show d) = Some d.
Proof.
  destruct d as [z sc]. unfold dec_parse.
  assert (G : dec_from_str (dec_show (mkDec z sc)) = Some (mkDec z sc)); [|now rewrite G].
  unfold dec_from_str, dec_show. cbn [dm ds].
  set (m := Z.abs_N z). set (s := N.to_nat sc).
  destruct (c18_show_N_spec m) as (Dg & Vg & NEg).
  set (g' := repeat 48 (S s - length (show_N m)) ++ show_N m).
  assert (Dg' : digits g') by (apply Forall_app; split; [apply c18_digits_repeat | exact Dg]).
  assert (Vg' : val_digits 0 g' = m).
  { unfold g'. rewrite c18_val_digits_zeros. now rewrite N.mul_0_l. }
  assert (Lg' : (s + 1 <= length g')%nat).
  { unfold g'. rewrite app_length, repeat_length. lia. }
  assert (NEg' : g' <> []) by (intros E; rewrite E in Lg'; cbn in Lg'; lia).
  (* the unsigned body *)
  assert (B : forall fst neg,
    dec_scan fst neg false false 0 0
      (if sc =? 0 then g' else firstn (length g' - s) g' ++ 46 :: skipn (length g' - s) g')
    = Some (neg, m, sc)).
  { intros fst neg. destruct (N.eqb_spec sc 0) as [->|NZ].
    - rewrite <- (app_nil_r g'). rewrite c18_scan_int by assumption. cbn [dec_scan]. now rewrite Vg'.
    - set (I := firstn (length g' - s) g'). set (F := skipn (length g' - s) g').
      assert (EIF : I ++ F = g') by apply firstn_skipn.
      assert (DI : digits I /\ digits F) by (apply Forall_app; rewrite EIF; exact Dg').
      destruct DI as [DI DF].
      assert (LF : length F = s) by (unfold F; rewrite skipn_length; lia).
      assert (NEI : I <> []).
      { intros E. apply (f_equal (@length N)) in E. unfold I in E. rewrite firstn_length in E. change (length (@nil N)) with 0%nat in E. lia. }
      rewrite c18_scan_int by assumption. cbn [dec_scan].
      change (is_digit 46) with false. cbn [N.eqb Pos.eqb andb negb].
      rewrite <- (app_nil_r F). rewrite c18_scan_frac by exact DF. cbn [dec_scan].
      rewrite <- c18_val_digits_app, EIF, Vg', LF. unfold s. rewrite N2Nat.id. reflexivity. }
  destruct (Z.ltb_spec z 0) as [Neg|Pos].
  - cbn [dec_scan]. change (is_digit 45) with false. cbn [N.eqb Pos.eqb andb negb].
    rewrite B. unfold mk_sdec. f_equal. f_equal. unfold m. lia.
  - rewrite B. unfold mk_sdec. f_equal. f_equal. unfold m. lia.
Qed.

(* ------------------------------------------------------------------ UUID text *)
Lemma c18_hex_val_char v : (v <? 16) = true -> hex_val (hex_char v) = Some v.
Proof. intros H. unfold hex_char, hex_val. c18_cmpl; f_equal; lia. Qed.

Lemma c18_hex_vals_map u : forallb (fun v => v <? 16) u = true -> hex_vals (map hex_char u) = Some u.
Proof.
  induction u as [|v u IH]; cbn [forallb map hex_vals]; [reflexivity|].
  intros H. apply andb_prop in H. destruct H as [Hv Hu]. now rewrite c18_hex_val_char, IH.
Qed.

Lemma c18_uuid_parse_show u : uuid_wf u = true -> uuid_parse (uuid_show u) = Some u.
Proof.
  unfold uuid_wf. intros H. apply andb_prop in H. destruct H as [HL HV].
  apply Nat.eqb_eq in HL. rewrite <- (c18_hex_vals_map u HV).
  assert (HL' : length (map hex_char u) = 32%nat) by now rewrite map_length.
  unfold uuid_show. generalize dependent (map hex_char u). clear. intros h HL.
  do 32 (destruct h as [|? h]; [discriminate HL|]). destruct h; [|discriminate HL].
  reflexivity.
Qed.

Lemma c18_hex_vals_spec s : forall u, hex_vals s = Some u ->
  length u = length s /\ forallb (fun v => v <? 16) u = true.
Proof.
  induction s as [|c s IH]; intros u H; cbn [hex_vals] in H.
  - inversion H. split; reflexivity.
  - destruct (hex_val c) as [v|] eqn:E; [|discriminate].
    destruct (hex_vals s) as [vs|] eqn:E2; [|discriminate]. inversion H; subst u.
    destruct (IH vs eq_refl) as [L F]. cbn [length forallb]. split; [now rewrite L|].
    rewrite F, andb_true_r. unfold hex_val in E. c18_cmpl; inversion E; subst v; c18_cmpl; first [lia | reflexivity].
Qed.

(* whatever spelling was read, the parsed id is 32 nibbles *)
Lemma c18_uuid_parse_wf s u : uuid_parse s = Some u -> uuid_wf u = true.
Proof.
  assert (Hy : forall x v, uuid_parse_hyphenated x = Some v -> uuid_wf v = true).
  { intros x v. unfold uuid_parse_hyphenated.
    destruct (Nat.eqb (length x) 36) eqn:L; cbn [andb]; [|discriminate].
    match goal with |- (if ?c then _ else _) = _ -> _ => destruct c; [|discriminate] end.
    intros H. apply c18_hex_vals_spec in H. destruct H as [Lv Fv]. unfold uuid_wf. rewrite Fv, andb_true_r.
    apply Nat.eqb_eq in L. apply Nat.eqb_eq. rewrite Lv.
    do 36 (destruct x as [|? x]; [discriminate L|]). destruct x; [|discriminate L]. reflexivity. }
  unfold uuid_parse.
  destruct (length s) as [|n] eqn:L; [discriminate|].
  do 31 (destruct n as [|n]; [discriminate|]).
  destruct n as [|n].
  { unfold uuid_parse_simple. rewrite L. cbn [Nat.eqb]. intros H. apply c18_hex_vals_spec in H.
    destruct H as [Lv Fv]. unfold uuid_wf. rewrite Fv, andb_true_r. apply Nat.eqb_eq. now rewrite Lv. }
  do 3 (destruct n as [|n]; [discriminate|]).
  destruct n as [|n]; [apply Hy|].
  destruct n as [|n]; [discriminate|].
  destruct n as [|n].
  { destruct s as [|c r]; [discriminate|]. destruct (c =? 123); [|discriminate].
    destruct (strip_suffix [125] r); [apply Hy | discriminate]. }
  do 6 (destruct n as [|n]; [discriminate|]).
  destruct n as [|n]; [|discriminate].
  destruct (strip_prefix urn_prefix s); [apply Hy | discriminate].
Qed.

