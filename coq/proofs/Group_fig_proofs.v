(* Group_fig_proofs.v — figures of the balance-group report against the overall balance
   report (uses the C02 lemmas balance_own / balance_rows of Balance_proofs). *)
From Coq Require Import Permutation Sorted.
From TkModel Require Import Base Dec Acct Txn Balance Time Group.
From TkSpec Require Import Balance_spec Group_spec.
From TkProofs Require Import Base_proofs Acct_proofs Balance_proofs Group_proofs.
Local Open Scope Z_scope.

(* the own sum a (selected-by-name) report shows for k: the exact sum when k is selected *)
Lemma own_in_report known ord (selk : key -> bool) ps rep k :
  (forall l, Permutation (ord l) l) -> Forall bpost_wf ps ->
  balance_report known ord (fun r => selk (r_key r)) ps = Some rep ->
  own_in rep k = ind (selk k) * spec_own ps k.
Proof.
  intros Hord Hwf H. unfold balance_report in H.
  destruct (balance known ord ps) as [bal|] eqn:Eb; [|discriminate].
  inversion H; subst; clear H. unfold own_in. cbn [b_rows].
  destruct (balance_rows _ _ _ _ Hord Hwf Eb) as (_ & ND & Hk).
  rewrite zsum_map_filter, zsum_map_filter.
  destruct (in_dec key_eq_dec k (map r_key bal)) as [Hin|Hnin].
  - apply in_map_iff in Hin. destruct Hin as (me & Eme & Hme). subst k.
    rewrite (zsum_map_ext _ (fun r => ind (key_eqb (r_key r) (r_key me))
                                      * (ind (selk (r_key me)) * d28 (r_own r)))).
    + rewrite (lookup_sum r_key key_eqb _ key_eqb_eq bal me ND Hme).
      rewrite (balance_own _ _ _ _ Hord Hwf Eb me Hme). reflexivity.
    + intros r _. destruct (key_eqb (r_key r) (r_key me)) eqn:E.
      * apply key_eqb_eq in E. rewrite E. cbn [ind]. lia.
      * cbn [ind]. lia.
  - rewrite zsum_map_zero_ext.
    + rewrite spec_own_notin; [lia|]. intros X. apply Hnin. apply Hk.
      apply in_map_iff in X. destruct X as (p & <- & Hp). apply spec_keys_self; assumption.
    + intros r Hr. destruct (key_eqb (r_key r) k) eqn:E; [|cbn [ind]; lia].
      apply key_eqb_eq in E. exfalso. apply Hnin. rewrite <- E. apply in_map. exact Hr.
Qed.

Lemma own_in_empty rep k : b_rows rep = [] -> own_in rep k = 0.
Proof. unfold own_in. intros ->. reflexivity. Qed.

Lemma zsum_filter_zero {A} (p : A -> bool) (f : A -> Z) l :
  (forall x, In x l -> p x = false -> f x = 0) -> zsum (map f (filter p l)) = zsum (map f l).
Proof.
  intros H. rewrite zsum_map_filter. apply zsum_map_ext. intros x Hx.
  destruct (p x) eqn:E; cbn [ind]; [lia|]. rewrite (H x Hx E). lia.
Qed.

(* summing an account's own sums over all groups gives its own sum in the overall report *)
Lemma sum_over_groups_figures known ord (selk : key -> bool) conv kf txns out overall :
  (forall l, Permutation (ord l) l) -> Forall bpost_wf (flat_map conv txns) ->
  balance_groups known ord (fun r => selk (r_key r)) conv kf txns = Some out ->
  balance_report known ord (fun r => selk (r_key r)) (flat_map conv txns) = Some overall ->
  forall k, zsum (map (fun g => own_in (g_rep g) k) out) = own_in overall k.
Proof.
  intros Hord Hwf H Hall k.
  destruct (balance_groups_out _ _ _ _ _ _ _ H) as (gs & F & -> & _).
  rewrite zsum_filter_zero.
  2:{ intros g _ Hg. apply own_in_empty. apply group_is_empty_iff.
      destruct (group_is_empty g); [reflexivity|discriminate]. }
  rewrite (own_in_report _ _ _ _ _ k Hord Hwf Hall).
  rewrite <- (sum_over_groups conv kf txns k).
  rewrite <- zsum_map_mul_l.
  assert (forall c, In c (group_members kf txns) -> Forall bpost_wf (flat_map conv (snd c))) as Wc.
  { intros [k' m] Hc. destruct (gm_members _ _ _ _ Hc) as [-> _]. cbn [snd].
    rewrite Forall_forall in *. intros p Hp. apply Hwf.
    apply in_flat_map in Hp. destruct Hp as (t & Ht & Hp). apply in_flat_map. exists t.
    split; [|exact Hp]. unfold period_members in Ht. apply filter_In in Ht. tauto. }
  clear H. revert Wc F. generalize (group_members kf txns) as cs0. intros cs0 Wc F.
  induction F as [|c g cs gs' Hg _ IH]; [reflexivity|].
  cbn [map]. rewrite !zsum_cons. rewrite IH by (intros c' Hc'; apply Wc; right; exact Hc').
  destruct (group_of_title _ _ _ _ _ _ Hg) as [_ Hr].
  rewrite (own_in_report _ _ _ _ _ k Hord (Wc c (or_introl eq_refl)) Hr). reflexivity.
Qed.
