(* Audit_proofs.v — lemmas for C09. Stdlib only, no axioms. *)
From Coq Require Import Permutation Sorted.
From TkModel Require Import Base Audit.
From TkSpec Require Import Audit_spec.
From TkProofs Require Import Base_proofs.

(* ------------------------------------------------------------------ *)
(* hex digits *)

Ltac cmp_cases :=
  repeat match goal with
         | |- context [N.leb ?a ?b] => destruct (N.leb_spec a b)
         | H : context [N.leb ?a ?b] |- _ => destruct (N.leb_spec a b)
         | |- context [N.ltb ?a ?b] => destruct (N.ltb_spec a b)
         | H : context [N.ltb ?a ?b] |- _ => destruct (N.ltb_spec a b)
         end.

Lemma c09_hex_val_digit v : (v < 16)%N -> hex_val (hex_digit v) = Some v.
Proof.
  intros Hv. unfold hex_val, hex_digit, in_range.
  destruct (N.ltb_spec v 10); cmp_cases; cbn [andb]; try (exfalso; lia); f_equal; lia.
Qed.

Lemma c09_hex_val_some c v :
  hex_val c = Some v -> (v < 16)%N /\ hex_digit v = to_lower c /\ is_hex c = true.
Proof.
  unfold hex_val, is_hex, to_lower, in_range. intros Hc.
  destruct (N.leb_spec 48 c); destruct (N.leb_spec c 57); destruct (N.leb_spec 97 c);
    destruct (N.leb_spec c 102); destruct (N.leb_spec 65 c); destruct (N.leb_spec c 70);
    destruct (N.leb_spec c 90);
    cbn [andb orb] in *; try discriminate; try (exfalso; lia);
    injection Hc as <-; unfold hex_digit;
    match goal with |- context [N.ltb ?a ?b] => destruct (N.ltb_spec a b) end;
    try (exfalso; lia); (split; [lia|split; [lia|reflexivity]]).
Qed.

Lemma c09_is_hex_val c : is_hex c = true -> exists v, hex_val c = Some v.
Proof.
  unfold hex_val, is_hex, in_range. intros Hc.
  destruct (N.leb_spec 48 c); destruct (N.leb_spec c 57); destruct (N.leb_spec 97 c);
    destruct (N.leb_spec c 102); destruct (N.leb_spec 65 c); destruct (N.leb_spec c 70);
    cbn [andb orb] in *; try discriminate; eexists; reflexivity.
Qed.

Lemma c09_is_hex_not_nl c : is_hex c = true -> c <> ch_nl.
Proof.
  unfold is_hex, in_range, ch_nl. intros Hc ->. vm_compute in Hc. discriminate.
Qed.

(* ------------------------------------------------------------------ *)
(* take_hex *)

Definition c09_nib (v : N) : Prop := (v < 16)%N.
Definition c09_hexc (c : N) : Prop := is_hex c = true.

Lemma c09_take_hex_spec n : forall s vs r,
  take_hex n s = Some (vs, r) ->
  exists s1, s = s1 ++ r /\ length s1 = n /\ length vs = n /\ Forall c09_nib vs
             /\ map hex_digit vs = map to_lower s1 /\ Forall c09_hexc s1.
Proof.
  induction n as [|n IH]; intros s vs r Hs; cbn [take_hex] in Hs.
  - injection Hs as <- <-. exists []. repeat split; constructor.
  - destruct s as [|c s]; [discriminate|].
    destruct (hex_val c) as [v|] eqn:Hc; [|discriminate].
    destruct (take_hex n s) as [[ws r']|] eqn:Ht; [|discriminate].
    injection Hs as <- <-.
    destruct (IH _ _ _ Ht) as (s1 & -> & L1 & L2 & F1 & M & F2).
    destruct (c09_hex_val_some _ _ Hc) as (Hv & Hd & Hh).
    exists (c :: s1). cbn [app length map]. rewrite L1, L2, Hd, M.
    repeat split; try reflexivity; constructor; assumption.
Qed.

Lemma c09_take_hex_print vs r :
  Forall c09_nib vs -> take_hex (length vs) (map hex_digit vs ++ r) = Some (vs, r).
Proof.
  induction 1 as [|v vs Hv _ IH]; [reflexivity|].
  cbn [length map app take_hex]. rewrite (c09_hex_val_digit v Hv), IH. reflexivity.
Qed.

Lemma c09_take_hex_complete s1 r :
  Forall c09_hexc s1 -> exists vs, take_hex (length s1) (s1 ++ r) = Some (vs, r).
Proof.
  induction 1 as [|c s1 Hc _ IH]; [exists []; reflexivity|].
  destruct IH as [vs IH]. destruct (c09_is_hex_val c Hc) as [v Hv].
  exists (v :: vs). cbn [length app take_hex]. rewrite Hv, IH. reflexivity.
Qed.

(* ------------------------------------------------------------------ *)
(* the dash-separated tail groups *)

Definition c09_rest_shape (gs : list nat) : list bool :=
  flat_map (fun g => false :: repeat true g) gs.

Definition c09_shape_ok (h : bool) (c : N) : Prop := if h then is_hex c = true else c = ch_dash.

Lemma c09_shape_hex s1 : Forall c09_hexc s1 -> Forall2 c09_shape_ok (repeat true (length s1)) s1.
Proof. induction 1; cbn [length repeat]; constructor; assumption. Qed.

Lemma c09_shape_hex_inv n s1 : Forall2 c09_shape_ok (repeat true n) s1 -> Forall c09_hexc s1 /\ length s1 = n.
Proof.
  revert s1. induction n as [|n IH]; intros s1 Hs; cbn [repeat] in Hs.
  - inversion Hs; subst. split; [constructor|reflexivity].
  - inversion Hs as [|? c ? s' Hc Hr]; subst. destruct (IH _ Hr) as [F L].
    split; [constructor; assumption|cbn [length]; congruence].
Qed.

Lemma c09_firstn_app_len {A} (a b : list A) n : length a = n -> firstn n (a ++ b) = a.
Proof. intros <-. rewrite firstn_app, Nat.sub_diag, firstn_all. cbn [firstn]. apply app_nil_r. Qed.

Lemma c09_skipn_app_len {A} (a b : list A) n : length a = n -> skipn n (a ++ b) = b.
Proof. intros <-. rewrite skipn_app, Nat.sub_diag, skipn_all. reflexivity. Qed.

Lemma c09_parse_rest_spec gs : forall s ws r,
  parse_rest gs s = Some (ws, r) ->
  exists s1, s = s1 ++ r /\ length ws = list_sum gs /\ Forall c09_nib ws
             /\ print_rest gs ws = map to_lower s1
             /\ Forall2 c09_shape_ok (c09_rest_shape gs) s1.
Proof.
  induction gs as [|g gs IH]; intros s ws r Hs; cbn [parse_rest] in Hs.
  - injection Hs as <- <-. exists []. repeat split; constructor.
  - destruct s as [|c s]; [discriminate|].
    destruct (N.eqb_spec c ch_dash) as [->|]; [|discriminate].
    destruct (take_hex g s) as [[vs r1]|] eqn:Ht; [|discriminate].
    destruct (parse_rest gs r1) as [[ws' r2]|] eqn:Hp; [|discriminate].
    injection Hs as <- <-.
    destruct (c09_take_hex_spec _ _ _ _ Ht) as (s1 & -> & L1 & L2 & F1 & M1 & H1).
    destruct (IH _ _ _ Hp) as (s2 & -> & L3 & F3 & M3 & H3).
    exists (ch_dash :: s1 ++ s2). cbn [app]. rewrite <- app_assoc. split; [reflexivity|].
    split; [rewrite app_length; change (list_sum (g :: gs)) with (g + list_sum gs)%nat; lia|].
    split; [apply Forall_app; split; assumption|].
    split.
    + cbn [print_rest map]. rewrite (c09_firstn_app_len _ _ _ L2), (c09_skipn_app_len _ _ _ L2).
      rewrite M1, M3, map_app. reflexivity.
    + cbn [c09_rest_shape flat_map]. constructor; [reflexivity|].
      apply Forall2_app; [|exact H3]. rewrite <- L1. apply c09_shape_hex. exact H1.
Qed.

Lemma c09_parse_rest_print gs : forall u r,
  Forall c09_nib u -> length u = list_sum gs ->
  parse_rest gs (print_rest gs u ++ r) = Some (u, r).
Proof.
  induction gs as [|g gs IH]; intros u r Fu Lu; [|change (list_sum (g :: gs)) with (g + list_sum gs)%nat in Lu].
  - destruct u; [reflexivity|discriminate].
  - cbn [print_rest parse_rest app]. rewrite N.eqb_refl.
    assert (length (firstn g u) = g) as Lg by (rewrite firstn_length; lia).
    rewrite <- app_assoc. rewrite <- Lg at 1. rewrite c09_take_hex_print.
    2:{ rewrite <- (firstn_skipn g u) in Fu. apply Forall_app in Fu. tauto. }
    rewrite IH.
    + rewrite firstn_skipn. reflexivity.
    + rewrite <- (firstn_skipn g u) in Fu. apply Forall_app in Fu. tauto.
    + rewrite skipn_length. lia.
Qed.

Lemma c09_parse_rest_complete gs : forall s1 r,
  Forall2 c09_shape_ok (c09_rest_shape gs) s1 -> exists ws, parse_rest gs (s1 ++ r) = Some (ws, r).
Proof.
  induction gs as [|g gs IH]; intros s1 r Hs; cbn [c09_rest_shape flat_map] in Hs.
  - inversion Hs; subst. exists []. reflexivity.
  - inversion Hs as [|? c ? s' Hc Hr]; subst. cbn in Hc. subst c.
    apply Forall2_app_inv_l in Hr. destruct Hr as (a & b & Ha & Hb & ->).
    destruct (c09_shape_hex_inv _ _ Ha) as [Fa La].
    destruct (IH b r Hb) as [ws Hws].
    destruct (c09_take_hex_complete a (b ++ r) Fa) as [vs Hvs].
    exists (vs ++ ws). cbn [app parse_rest]. rewrite N.eqb_refl, <- app_assoc.
    rewrite <- La, Hvs, Hws. reflexivity.
Qed.

(* ------------------------------------------------------------------ *)
(* UUID text <-> value *)

Lemma c09_uuid_shape_eq : uuid_shape = repeat true 8 ++ c09_rest_shape uuid_tail_groups.
Proof. reflexivity. Qed.

Lemma c09_uuid_parse_spec s u :
  uuid_parse s = Some u -> uuid_wf u /\ uuid_print u = lower_text s /\ valid_uuid_text s.
Proof.
  unfold uuid_parse. intros Hp.
  destruct (take_hex 8 s) as [[vs r]|] eqn:Ht; [|discriminate].
  destruct (parse_rest uuid_tail_groups r) as [[ws r']|] eqn:Hr; [|discriminate].
  destruct r'; [|discriminate]. injection Hp as <-.
  destruct (c09_take_hex_spec _ _ _ _ Ht) as (s1 & -> & L1 & L2 & F1 & M1 & H1).
  destruct (c09_parse_rest_spec _ _ _ _ Hr) as (s2 & -> & L3 & F3 & M3 & H3).
  rewrite app_nil_r. repeat split.
  - rewrite app_length, L2, L3. reflexivity.
  - apply Forall_app. split; assumption.
  - unfold uuid_print, lower_text.
    rewrite (c09_firstn_app_len _ _ _ L2), (c09_skipn_app_len _ _ _ L2), M1, M3, map_app. reflexivity.
  - unfold valid_uuid_text. rewrite c09_uuid_shape_eq. apply Forall2_app; [|exact H3].
    rewrite <- L1. apply c09_shape_hex. exact H1.
Qed.

Lemma c09_uuid_print_parse u : uuid_wf u -> uuid_parse (uuid_print u) = Some u.
Proof.
  intros [L F]. unfold uuid_parse, uuid_print.
  assert (length (firstn 8 u) = 8%nat) as L8 by (rewrite firstn_length; lia).
  rewrite <- (firstn_skipn 8 u) in F. apply Forall_app in F. destruct F as [F1 F2].
  rewrite <- L8 at 1. rewrite c09_take_hex_print by exact F1.
  rewrite <- (app_nil_r (print_rest _ _)).
  rewrite c09_parse_rest_print; [rewrite firstn_skipn; reflexivity|exact F2|].
  rewrite skipn_length, L. reflexivity.
Qed.

Lemma c09_valid_parse s : valid_uuid_text s -> exists u, uuid_parse s = Some u.
Proof.
  unfold valid_uuid_text. rewrite c09_uuid_shape_eq. intros Hs.
  apply Forall2_app_inv_l in Hs. destruct Hs as (a & b & Ha & Hb & ->).
  destruct (c09_shape_hex_inv _ _ Ha) as [Fa La].
  destruct (c09_take_hex_complete a b Fa) as [vs Hvs].
  destruct (c09_parse_rest_complete uuid_tail_groups b [] Hb) as [ws Hws].
  exists (vs ++ ws). unfold uuid_parse. rewrite <- La, Hvs.
  rewrite app_nil_r in Hws. rewrite Hws. reflexivity.
Qed.

Lemma c09_uuid_print_inj u v : uuid_wf u -> uuid_wf v -> uuid_print u = uuid_print v -> u = v.
Proof.
  intros Hu Hv E. apply c09_uuid_print_parse in Hu, Hv. rewrite E in Hu. congruence.
Qed.

Lemma c09_valid_nl_free s : valid_uuid_text s -> nl_free s.
Proof.
  unfold valid_uuid_text, nl_free. generalize uuid_shape. intros sh Hs.
  induction Hs as [|h c sh s Hc _ IH]; [intros []|].
  intros [E|Hin]; [|exact (IH Hin)]. subst c.
  destruct h; cbn in Hc; [vm_compute in Hc|]; discriminate.
Qed.

Lemma c09_uuid_print_nl_free u : uuid_wf u -> nl_free (uuid_print u).
Proof.
  intros Hu. apply c09_valid_nl_free.
  destruct (c09_uuid_parse_spec _ _ (c09_uuid_print_parse u Hu)) as (_ & _ & Hv). exact Hv.
Qed.

Lemma c09_valid_uuid_text_b_iff s : valid_uuid_text_b s = true <-> valid_uuid_text s.
Proof.
  unfold valid_uuid_text_b, valid_uuid_text. generalize uuid_shape. intros sh. revert s.
  induction sh as [|h sh IH]; intros s; destruct s as [|c s]; cbn [valid_uuid_text_go].
  - split; [constructor|reflexivity].
  - split; [discriminate|intros H; inversion H].
  - split; [discriminate|intros H; inversion H].
  - rewrite andb_true_iff, IH. split.
    + intros [Hc Hs]. constructor; [|exact Hs]. destruct h; [exact Hc|apply N.eqb_eq; exact Hc].
    + intros H. inversion H as [|? ? ? ? Hc Hs]; subst. split; [|exact Hs].
      destruct h; [exact Hc|apply N.eqb_eq; exact Hc].
Qed.

(* parse succeeds exactly on valid texts *)
Lemma c09_parse_none_iff s : uuid_parse s = None <-> ~ valid_uuid_text s.
Proof.
  split.
  - intros Hn Hv. destruct (c09_valid_parse s Hv) as [u Hu]. congruence.
  - intros Hn. destruct (uuid_parse s) as [u|] eqn:E; [|reflexivity].
    exfalso. apply Hn. apply (c09_uuid_parse_spec _ _ E).
Qed.

(* ------------------------------------------------------------------ *)
(* string order and sorting *)

Lemma c09_str_leb_le a b : str_leb a b = true <-> str_le a b.
Proof. unfold str_leb, str_le. apply cmp_leb_true. Qed.

Lemma c09_str_leb_total a b : str_leb a b = false -> str_leb b a = true.
Proof. apply (co_leb_total str_cmp str_cmp_ord). Qed.

Lemma c09_str_leb_trans a b c : str_leb a b = true -> str_leb b c = true -> str_leb a c = true.
Proof. apply (co_leb_trans str_cmp str_cmp_ord). Qed.

Lemma c09_sorted_le_iff l : StronglySorted (fun a b => str_leb a b = true) l <-> StronglySorted str_le l.
Proof.
  split; apply StronglySorted_impl; intros a b _ _ Hab; apply c09_str_leb_le; exact Hab.
Qed.

Lemma c09_sort_strs_sorted l : StronglySorted str_le (sort_strs l).
Proof.
  apply c09_sorted_le_iff. apply sort_by_sorted; [exact c09_str_leb_total|exact c09_str_leb_trans].
Qed.

Lemma c09_sort_strs_perm l : Permutation (sort_strs l) l.
Proof. apply sort_by_perm. Qed.

(* a total antisymmetric order has exactly one sorted arrangement of a multiset *)
Lemma c09_sorted_perm_eq : forall l1 l2,
  StronglySorted str_le l1 -> StronglySorted str_le l2 -> Permutation l1 l2 -> l1 = l2.
Proof.
  induction l1 as [|x l1 IH]; intros l2 H1 H2 Hp.
  - apply Permutation_nil in Hp. congruence.
  - destruct l2 as [|y l2]; [apply Permutation_sym, Permutation_nil in Hp; discriminate|].
    inversion H1 as [|? ? S1 F1]; subst. inversion H2 as [|? ? S2 F2]; subst.
    rewrite Forall_forall in F1, F2.
    assert (x = y) as E.
    { assert (In x (y :: l2)) as Hx by (eapply Permutation_in; [exact Hp|left; reflexivity]).
      assert (In y (x :: l1)) as Hy by (eapply Permutation_in; [apply Permutation_sym; exact Hp|left; reflexivity]).
      destruct Hx as [Hx|Hx]; [congruence|]. destruct Hy as [Hy|Hy]; [congruence|].
      apply str_cmp_antisym; [apply F1; exact Hy|apply F2; exact Hx]. }
    subst y. f_equal. apply IH; [exact S1|exact S2|]. eapply Permutation_cons_inv. exact Hp.
Qed.

Lemma c09_sort_strs_perm_eq a b : Permutation a b -> sort_strs a = sort_strs b.
Proof.
  intros Hp. apply c09_sorted_perm_eq; try apply c09_sort_strs_sorted.
  rewrite (c09_sort_strs_perm a), (c09_sort_strs_perm b). exact Hp.
Qed.

Lemma c09_sort_is_preimage items : is_preimage items (lines_text (sort_strs items)).
Proof.
  exists (sort_strs items). split; [apply c09_sort_strs_perm|]. split; [apply c09_sort_strs_sorted|reflexivity].
Qed.

Lemma c09_preimage_unique items P : is_preimage items P -> P = lines_text (sort_strs items).
Proof.
  intros (l & Hp & Hs & ->). f_equal. apply c09_sorted_perm_eq; [exact Hs|apply c09_sort_strs_sorted|].
  rewrite (c09_sort_strs_perm items). exact Hp.
Qed.

Lemma c09_feed_lines l : feed l [ch_nl] = lines_text l.
Proof. reflexivity. Qed.

(* ------------------------------------------------------------------ *)
(* duplicates *)

Lemma c09_count_str_zero x l : ~ In x l -> count_str x l = 0%nat.
Proof.
  unfold count_str. induction l as [|y l IH]; intros Hn; [reflexivity|].
  cbn [filter]. destruct (str_eqb x y) eqn:E.
  - apply str_eqb_eq in E. subst. exfalso. apply Hn. left. reflexivity.
  - apply IH. intros Hin. apply Hn. right. exact Hin.
Qed.

Lemma c09_count_str_one x l : NoDup l -> In x l -> count_str x l = 1%nat.
Proof.
  unfold count_str. induction 1 as [|y l Hy Hnd IH]; intros Hin; [destruct Hin|].
  cbn [filter]. destruct (str_eqb x y) eqn:E.
  - apply str_eqb_eq in E. subst y. cbn [length]. f_equal. apply (c09_count_str_zero x l Hy).
  - destruct Hin as [->|Hin]; [rewrite str_eqb_refl in E; discriminate|]. apply IH. exact Hin.
Qed.

Lemma c09_duplicates_go_nil : forall l seen,
  NoDup seen -> (duplicates_go seen l = [] <-> NoDup (l ++ seen)).
Proof.
  induction l as [|x l IH]; intros seen Hs; cbn [duplicates_go app].
  - split; [intros _; exact Hs|reflexivity].
  - destruct (in_dec (list_eq_dec N.eq_dec) x seen) as [Hin|Hnin].
    + rewrite (c09_count_str_one x seen Hs Hin). cbn [Nat.eqb]. split; [discriminate|].
      intros Hnd. inversion Hnd as [|? ? Hx _]; subst. exfalso. apply Hx. apply in_or_app. right. exact Hin.
    + rewrite (c09_count_str_zero x seen Hnin). cbn [Nat.eqb].
      rewrite (IH (x :: seen)) by (constructor; assumption).
      split; intros Hnd.
      * apply (Permutation_NoDup (l := l ++ x :: seen)); [|exact Hnd].
        apply Permutation_sym, Permutation_middle.
      * apply (Permutation_NoDup (l := x :: l ++ seen)); [|exact Hnd]. apply Permutation_middle.
Qed.

Lemma c09_duplicates_nil l : duplicates l = [] <-> NoDup l.
Proof.
  unfold duplicates. rewrite (c09_duplicates_go_nil l [] (NoDup_nil _)), app_nil_r. reflexivity.
Qed.

(* ------------------------------------------------------------------ *)
(* newline-terminated items determine the item list *)

Lemma c09_line_split a b r r' :
  nl_free a -> nl_free b -> a ++ ch_nl :: r = b ++ ch_nl :: r' -> a = b /\ r = r'.
Proof.
  revert b. induction a as [|x a IH]; intros b Ha Hb E.
  - destruct b as [|y b]; cbn [app] in E.
    + injection E as ->. split; reflexivity.
    + injection E as <- _. exfalso. apply Hb. left. reflexivity.
  - destruct b as [|y b]; cbn [app] in E.
    + injection E as -> _. exfalso. apply Ha. left. reflexivity.
    + injection E as -> E. destruct (IH b) as [-> ->]; [| |exact E|split; reflexivity].
      * intros Hin. apply Ha. right. exact Hin.
      * intros Hin. apply Hb. right. exact Hin.
Qed.

Lemma c09_lines_text_inj : forall l1 l2,
  Forall nl_free l1 -> Forall nl_free l2 -> lines_text l1 = lines_text l2 -> l1 = l2.
Proof.
  unfold lines_text.
  induction l1 as [|a l1 IH]; intros l2 F1 F2 E.
  - destruct l2 as [|b l2]; [reflexivity|]. cbn [map concat] in E.
    destruct b; cbn [app] in E; discriminate.
  - destruct l2 as [|b l2]; cbn [map concat] in E.
    + destruct a; cbn [app] in E; discriminate.
    + inversion F1 as [|? ? Ha F1']; subst. inversion F2 as [|? ? Hb F2']; subst.
      rewrite <- !app_assoc in E. cbn [app] in E.
      destruct (c09_line_split _ _ _ _ Ha Hb E) as [-> E']. f_equal. apply IH; assumption.
Qed.

(* ------------------------------------------------------------------ *)
(* calc_txn_checksum *)

Definition c09_to_text (o : option (list N)) : res (list N) :=
  match o with Some u => Ok (uuid_print u) | None => Err E_no_uuid end.

Lemma c09_mapM_none sel : In None sel -> mapM c09_to_text sel = Err E_no_uuid.
Proof.
  induction sel as [|o sel IH]; intros Hin; [destruct Hin|].
  cbn [mapM]. destruct o as [u|]; [|reflexivity]. cbn [c09_to_text].
  destruct Hin as [E|Hin]; [discriminate|]. rewrite (IH Hin). reflexivity.
Qed.

Lemma c09_mapM_somes us : mapM c09_to_text (map Some us) = Ok (map uuid_print us).
Proof.
  induction us as [|u us IH]; [reflexivity|]. cbn [map mapM c09_to_text]. rewrite IH. reflexivity.
Qed.

Lemma c09_all_some_or_none {A} (sel : list (option A)) : In None sel \/ exists us, sel = map Some us.
Proof.
  induction sel as [|o sel IH]; [right; exists []; reflexivity|].
  destruct o as [u|]; [|left; left; reflexivity].
  destruct IH as [Hin|[us ->]]; [left; right; exact Hin|right; exists (u :: us); reflexivity].
Qed.

Lemma c09_no_none_map_some {A} (us : list A) : ~ In None (map Some us).
Proof. intros Hin. apply in_map_iff in Hin. destruct Hin as (x & E & _). discriminate. Qed.

Lemma c09_NoDup_map_some {A} (us : list A) : NoDup (map Some us) <-> NoDup us.
Proof.
  split; [apply NoDup_map_inv'|]. intros Hnd. apply FinFun.Injective_map_NoDup; [|exact Hnd].
  intros x y E. congruence.
Qed.

Lemma c09_NoDup_texts us : Forall uuid_wf us -> (NoDup (map uuid_print us) <-> NoDup us).
Proof.
  intros Hwf. split; [apply NoDup_map_inv'|].
  intros Hnd. induction Hnd as [|u us Hu Hnd IH]; [constructor|].
  inversion Hwf as [|? ? Wu Wus]; subst. cbn [map]. constructor; [|apply IH; exact Wus].
  intros Hin. apply in_map_iff in Hin. destruct Hin as (v & E & Hv).
  rewrite Forall_forall in Wus. apply c09_uuid_print_inj in E; [|apply Wus; exact Hv|exact Wu].
  subst v. exact (Hu Hv).
Qed.

Definition c09_sel_wf (sel : list (option (list N))) : Prop :=
  forall u, In (Some u) sel -> uuid_wf u.

Lemma c09_sel_wf_somes us : c09_sel_wf (map Some us) -> Forall uuid_wf us.
Proof.
  intros Hw. apply Forall_forall. intros u Hu. apply Hw. apply in_map. exact Hu.
Qed.

Section WithDigest.
  Variable H : list N -> list N.

  Lemma c09_calc_fold sel :
    calc_txn_checksum H sel =
    res_bind (mapM c09_to_text sel)
      (fun strs => match duplicates (sort_strs strs) with
                   | [] => Ok (H (lines_text (sort_strs strs)))
                   | _ :: _ => Err E_dup_uuid
                   end).
  Proof. reflexivity. Qed.

  Lemma c09_calc_none sel : In None sel -> calc_txn_checksum H sel = Err E_no_uuid.
  Proof. intros Hin. rewrite c09_calc_fold, (c09_mapM_none sel Hin). reflexivity. Qed.

  Lemma c09_calc_somes_nodup us :
    NoDup (map uuid_print us) ->
    calc_txn_checksum H (map Some us) = Ok (H (lines_text (sort_strs (map uuid_print us)))).
  Proof.
    intros Hnd. rewrite c09_calc_fold, c09_mapM_somes. cbn [res_bind].
    assert (duplicates (sort_strs (map uuid_print us)) = []) as ->; [|reflexivity].
    apply c09_duplicates_nil. apply (Permutation_NoDup (l := map uuid_print us)); [|exact Hnd].
    apply Permutation_sym, c09_sort_strs_perm.
  Qed.

  Lemma c09_calc_somes_dup us :
    ~ NoDup (map uuid_print us) -> calc_txn_checksum H (map Some us) = Err E_dup_uuid.
  Proof.
    intros Hnd. rewrite c09_calc_fold, c09_mapM_somes. cbn [res_bind].
    destruct (duplicates (sort_strs (map uuid_print us))) eqn:E; [|reflexivity].
    exfalso. apply Hnd. apply c09_duplicates_nil in E.
    apply (Permutation_NoDup (l := sort_strs (map uuid_print us))); [|exact E]. apply c09_sort_strs_perm.
  Qed.

  Lemma c09_NoDup_dec_texts (l : list (list N)) : NoDup l \/ ~ NoDup l.
  Proof.
    destruct (ListDec.NoDup_dec (list_eq_dec N.eq_dec) l); [left|right]; assumption.
  Qed.

  (* C09_value *)
  Lemma c09_metadata_spec sel : c09_sel_wf sel -> Checksum_spec H sel (make_metadata H true sel).
  Proof.
    intros Hw. unfold make_metadata.
    destruct (c09_all_some_or_none sel) as [Hin|[us ->]].
    - rewrite (c09_calc_none sel Hin). cbn [res_map Checksum_spec]. left. exact Hin.
    - pose proof (c09_sel_wf_somes us Hw) as Hwf.
      destruct (c09_NoDup_dec_texts (map uuid_print us)) as [Hnd|Hnd].
      + rewrite (c09_calc_somes_nodup us Hnd). cbn [res_map Checksum_spec].
        exists us. split; [reflexivity|]. split; [apply (c09_NoDup_texts us Hwf); exact Hnd|].
        split; [reflexivity|]. eexists. split; [apply c09_sort_is_preimage|reflexivity].
      + rewrite (c09_calc_somes_dup us Hnd). cbn [res_map Checksum_spec]. right.
        rewrite c09_NoDup_map_some, <- (c09_NoDup_texts us Hwf). exact Hnd.
  Qed.

  Lemma c09_metadata_no_audit sel : make_metadata H false sel = Ok None.
  Proof. reflexivity. Qed.

  (* C09_dup_rejected (and the missing-uuid case of calc_txn_checksum) *)
  Lemma c09_dup_rejected sel :
    c09_sel_wf sel -> (In None sel \/ ~ NoDup sel) -> exists e, make_metadata H true sel = Err e.
  Proof.
    intros Hw Hbad. pose proof (c09_metadata_spec sel Hw) as Hs.
    destruct (make_metadata H true sel) as [[[n v]|]|e]; cbn [Checksum_spec] in Hs.
    - exfalso. destruct Hs as (us & -> & Hnd & _).
      destruct Hbad as [Hin|Hd]; [exact (c09_no_none_map_some us Hin)|].
      apply Hd. apply c09_NoDup_map_some. exact Hnd.
    - destruct Hs.
    - exists e. reflexivity.
  Qed.

  (* ... and nothing else is rejected *)
  Lemma c09_accepted us :
    Forall uuid_wf us -> NoDup us ->
    make_metadata H true (map Some us)
    = Ok (Some (N.of_nat (length us), H (lines_text (sort_strs (map uuid_print us))))).
  Proof.
    intros Hwf Hnd. unfold make_metadata.
    rewrite (c09_calc_somes_nodup us) by (apply (c09_NoDup_texts us Hwf); exact Hnd).
    cbn [res_map]. rewrite map_length. reflexivity.
  Qed.

  (* C09_perm *)
  Lemma c09_calc_perm sel sel' :
    Permutation sel sel' -> calc_txn_checksum H sel = calc_txn_checksum H sel'.
  Proof.
    intros Hp. destruct (c09_all_some_or_none sel) as [Hin|[us Hus]].
    - rewrite (c09_calc_none sel Hin), (c09_calc_none sel'); [reflexivity|].
      eapply Permutation_in; [exact Hp|exact Hin].
    - destruct (c09_all_some_or_none sel') as [Hin|[us' Hus']].
      + exfalso. subst sel. apply (c09_no_none_map_some us).
        eapply Permutation_in; [apply Permutation_sym; exact Hp|exact Hin].
      + subst sel sel'.
        assert (Permutation (map uuid_print us) (map uuid_print us')) as Hpt.
        { assert (Permutation (the_somes (map Some us)) (the_somes (map Some us'))) as Hq.
          { unfold the_somes. clear -Hp. induction Hp; cbn [flat_map].
            - reflexivity.
            - apply Permutation_app_head. exact IHHp.
            - rewrite !app_assoc. apply Permutation_app_tail. apply Permutation_app_comm.
            - etransitivity; eassumption. }
          assert (forall l : list (list N), the_somes (map Some l) = l) as Hid.
          { induction l as [|x l IH]; [reflexivity|]. cbn [map the_somes flat_map app] in *.
            unfold the_somes in IH. rewrite IH. reflexivity. }
          rewrite !Hid in Hq. apply Permutation_map. exact Hq. }
        rewrite !c09_calc_fold, !c09_mapM_somes. cbn [res_bind].
        rewrite (c09_sort_strs_perm_eq _ _ Hpt). reflexivity.
  Qed.

  Lemma c09_metadata_perm audit sel sel' :
    Permutation sel sel' -> make_metadata H audit sel = make_metadata H audit sel'.
  Proof.
    intros Hp. unfold make_metadata. destruct audit; [|reflexivity].
    rewrite (c09_calc_perm sel sel' Hp), (Permutation_length Hp). reflexivity.
  Qed.

  Lemma c09_filter_perm {T} (f : T -> bool) l l' : Permutation l l' -> Permutation (filter f l) (filter f l').
  Proof.
    induction 1; cbn [filter].
    - reflexivity.
    - destruct (f x); [apply perm_skip|]; assumption.
    - destruct (f x); destruct (f y); try reflexivity. apply perm_swap.
    - etransitivity; eassumption.
  Qed.

  Lemma c09_txn_set_perm {T} (uuid_of : T -> option (list N)) audit flt ts ts' :
    Permutation ts ts' ->
    res_map snd (txn_set H uuid_of audit flt ts) = res_map snd (txn_set H uuid_of audit flt ts').
  Proof.
    intros Hp. unfold txn_set.
    set (sel := match flt with Some f => filter f ts | None => ts end).
    set (sel' := match flt with Some f => filter f ts' | None => ts' end).
    assert (Permutation sel sel') as Hs.
    { subst sel sel'. destruct flt as [f|]; [apply c09_filter_perm|]; exact Hp. }
    rewrite (c09_metadata_perm audit (map uuid_of sel) (map uuid_of sel')) by (apply Permutation_map; exact Hs).
    destruct (make_metadata H audit (map uuid_of sel')); reflexivity.
  Qed.

  (* the metadata of a transaction set speaks about exactly the selected transactions *)
  Lemma c09_txn_set_value {T} (uuid_of : T -> option (list N)) audit flt ts :
    txn_set H uuid_of audit flt ts
    = let sel := match flt with Some f => filter f ts | None => ts end in
      res_map (fun md => (sel, md)) (make_metadata H audit (map uuid_of sel)).
  Proof. reflexivity. Qed.

  (* C09_injective_preimage *)
  Lemma c09_preimage_injective us us' :
    Forall uuid_wf us -> Forall uuid_wf us' ->
    lines_text (sort_strs (map uuid_print us)) = lines_text (sort_strs (map uuid_print us')) ->
    Permutation us us'.
  Proof.
    intros W W' E.
    assert (forall l, Forall uuid_wf l -> Forall nl_free (sort_strs (map uuid_print l))) as Hnl.
    { intros l Wl. apply Forall_forall. intros s Hs.
      apply (Permutation_in _ (c09_sort_strs_perm _)) in Hs. apply in_map_iff in Hs.
      destruct Hs as (u & <- & Hu). apply c09_uuid_print_nl_free.
      rewrite Forall_forall in Wl. apply Wl. exact Hu. }
    apply c09_lines_text_inj in E; [|apply Hnl; exact W|apply Hnl; exact W'].
    assert (Permutation (map uuid_print us) (map uuid_print us')) as Hp.
    { rewrite <- (c09_sort_strs_perm (map uuid_print us)), E. apply c09_sort_strs_perm. }
    (* undo the injective map through parse *)
    assert (forall l, Forall uuid_wf l -> map uuid_parse (map uuid_print l) = map Some l) as Hinv.
    { induction 1 as [|u l Wu _ IH]; [reflexivity|]. cbn [map]. rewrite (c09_uuid_print_parse u Wu), IH. reflexivity. }
    apply (Permutation_map uuid_parse) in Hp. rewrite (Hinv us W), (Hinv us' W') in Hp.
    assert (forall l : list (list N), the_somes (map Some l) = l) as Hid.
    { induction l as [|x l IH]; [reflexivity|]. cbn [map the_somes flat_map app] in *.
      unfold the_somes in IH. rewrite IH. reflexivity. }
    rewrite <- (Hid us), <- (Hid us'). unfold the_somes. clear -Hp. induction Hp; cbn [flat_map].
    - reflexivity.
    - apply Permutation_app_head. exact IHHp.
    - rewrite !app_assoc. apply Permutation_app_tail. apply Permutation_app_comm.
    - etransitivity; eassumption.
  Qed.

  Lemma c09_equal_checksum_collision us us' n v :
    Forall uuid_wf us -> Forall uuid_wf us' ->
    make_metadata H true (map Some us) = Ok (Some (n, v)) ->
    make_metadata H true (map Some us') = Ok (Some (n, v)) ->
    ~ (forall u, In u us <-> In u us') ->
    let x := lines_text (sort_strs (map uuid_print us)) in
    let y := lines_text (sort_strs (map uuid_print us')) in
    x <> y /\ H x = H y.
  Proof.
    intros W W' M M' Hdiff x y.
    assert (NoDup (map uuid_print us)) as Hnd.
    { destruct (c09_NoDup_dec_texts (map uuid_print us)) as [Hnd|Hnd]; [exact Hnd|].
      unfold make_metadata in M. rewrite (c09_calc_somes_dup us Hnd) in M. discriminate. }
    assert (NoDup (map uuid_print us')) as Hnd'.
    { destruct (c09_NoDup_dec_texts (map uuid_print us')) as [Hnd'|Hnd']; [exact Hnd'|].
      unfold make_metadata in M'. rewrite (c09_calc_somes_dup us' Hnd') in M'. discriminate. }
    unfold make_metadata in M, M'.
    rewrite (c09_calc_somes_nodup us Hnd) in M. rewrite (c09_calc_somes_nodup us' Hnd') in M'.
    cbn [res_map] in M, M'. split.
    - intros E. apply Hdiff. pose proof (c09_preimage_injective us us' W W' E) as Hp.
      intros u. split; apply Permutation_in; [exact Hp|apply Permutation_sym; exact Hp].
    - fold x in M. fold y in M'. congruence.
  Qed.

  (* ---------------------------------------------------------------- *)
  (* selectors *)

  Lemma c09_strip_prefix_app pre s : strip_prefix pre (pre ++ s) = Some s.
  Proof. induction pre as [|p pre IH]; [reflexivity|]. cbn [app strip_prefix]. rewrite N.eqb_refl. exact IH. Qed.

  Lemma c09_strip_suffix_app suf s : strip_suffix suf (s ++ suf) = Some s.
  Proof.
    unfold strip_suffix. rewrite app_length.
    assert (length suf <=? length s + length suf = true)%nat as -> by (apply Nat.leb_le; lia).
    replace (length s + length suf - length suf)%nat with (length s) by lia.
    rewrite (c09_skipn_app_len s suf _ eq_refl), (c09_firstn_app_len s suf _ eq_refl), str_eqb_refl.
    reflexivity.
  Qed.

  Lemma c09_peel_wrap p : peel_full_haystack (into_full_haystack p) = p.
  Proof.
    unfold peel_full_haystack, into_full_haystack.
    rewrite c09_strip_prefix_app, c09_strip_suffix_app. reflexivity.
  Qed.

  Lemma c09_selector_value pats : selector_checksum H pats = H (lines_text (sort_strs pats)).
  Proof.
    unfold selector_checksum, hash_checksum. rewrite c09_feed_lines, map_map.
    rewrite (map_ext _ (fun p => p) c09_peel_wrap), map_id. reflexivity.
  Qed.

  Lemma c09_selector_spec audit equity pats :
    Selector_spec H audit equity pats (report_selector_md H audit equity pats).
  Proof.
    unfold report_selector_md. destruct audit; [|reflexivity].
    destruct pats as [|p pats].
    - destruct equity; cbn [Selector_spec]; repeat split; reflexivity.
    - cbn [Selector_spec]. split; [reflexivity|]. split; [discriminate|].
      eexists. split; [apply c09_sort_is_preimage|apply c09_selector_value].
  Qed.

  Lemma c09_selector_perm pats pats' :
    Permutation pats pats' -> selector_checksum H pats = selector_checksum H pats'.
  Proof. intros Hp. rewrite !c09_selector_value, (c09_sort_strs_perm_eq _ _ Hp). reflexivity. Qed.

  Lemma c09_selector_collision pats pats' :
    Forall nl_free pats -> Forall nl_free pats' ->
    selector_checksum H pats = selector_checksum H pats' -> ~ Permutation pats pats' ->
    let x := lines_text (sort_strs pats) in let y := lines_text (sort_strs pats') in
    x <> y /\ H x = H y.
  Proof.
    intros F F' E Hnp x y. rewrite !c09_selector_value in E. split; [|exact E].
    intros Exy. apply Hnp.
    assert (forall l, Forall nl_free l -> Forall nl_free (sort_strs l)) as Hnl.
    { intros l Fl. apply (Permutation_Forall (Permutation_sym (c09_sort_strs_perm l))). exact Fl. }
    apply c09_lines_text_inj in Exy; [|apply Hnl; exact F|apply Hnl; exact F'].
    rewrite <- (c09_sort_strs_perm pats), Exy. apply c09_sort_strs_perm.
  Qed.
End WithDigest.

(* without the newline-free side condition the selector pre-image is ambiguous *)
Lemma c09_selector_newline_ambiguous :
  exists pats pats', ~ Permutation pats pats' /\
    forall H, selector_checksum H pats = selector_checksum H pats'.
Proof.
  exists [[97; 10; 98]%N], [[97]%N; [98]%N]. split.
  - intros Hp. apply Permutation_length in Hp. discriminate.
  - intros H. rewrite !c09_selector_value. reflexivity.
Qed.

(* ------------------------------------------------------------------ *)
(* journal level *)

Lemma c09_mapM_err {A B} (f : A -> res B) l :
  (exists e, mapM f l = Err e) <-> exists x e, In x l /\ f x = Err e.
Proof.
  induction l as [|x l IH]; cbn [mapM].
  - split; [intros [e E]; discriminate|intros (x & e & [] & _)].
  - destruct (f x) as [y|e] eqn:Fx.
    + destruct (mapM f l) as [ys|e'] eqn:Ml.
      * split; [intros [e E]; discriminate|].
        intros (z & e & [<-|Hin] & Fz); [congruence|].
        destruct (proj2 IH) as [e2 E2]; [exists z, e; split; assumption|discriminate].
      * split; [|intros _; exists e'; reflexivity].
        intros _. destruct (proj1 IH) as (z & e & Hin & Fz); [exists e'; reflexivity|].
        exists z, e. split; [right; exact Hin|exact Fz].
    + split; [|intros _; exists e; reflexivity].
      intros _. exists x, e. split; [left; reflexivity|exact Fx].
Qed.

Lemma c09_mapM_ok {A B} (f : A -> res B) l ys :
  mapM f l = Ok ys -> Forall2 (fun x y => f x = Ok y) l ys.
Proof.
  revert ys. induction l as [|x l IH]; intros ys E; cbn [mapM] in E.
  - injection E as <-. constructor.
  - destruct (f x) as [y|e] eqn:Fx; [|discriminate].
    destruct (mapM f l) as [ys'|e'] eqn:Ml; [|discriminate].
    injection E as <-. constructor; [exact Fx|apply IH; reflexivity].
Qed.

Lemma c09_mapM_ext {A B} (f g : A -> res B) l :
  (forall x, In x l -> f x = g x) -> mapM f l = mapM g l.
Proof.
  induction l as [|x l IH]; intros Hfg; [reflexivity|]. cbn [mapM].
  rewrite (Hfg x (or_introl eq_refl)), IH; [reflexivity|].
  intros y Hy. apply Hfg. right. exact Hy.
Qed.

Lemma c09_accept_uuid_err audit raw :
  (exists e, accept_uuid audit raw = Err e) <->
  (audit = true /\ raw = None) \/ exists s, raw = Some s /\ ~ valid_uuid_text s.
Proof.
  unfold accept_uuid. destruct raw as [s|].
  - destruct (uuid_parse s) as [u|] eqn:E.
    + split; [intros [e X]; discriminate|].
      intros [[_ X]|(s' & X & Hn)]; [discriminate|]. injection X as <-.
      exfalso. apply Hn. apply (c09_uuid_parse_spec _ _ E).
    + split; [|intros _; eexists; reflexivity].
      intros _. right. exists s. split; [reflexivity|]. apply c09_parse_none_iff. exact E.
  - destruct audit.
    + split; [intros _; left; split; reflexivity|intros _; eexists; reflexivity].
    + split; [intros [e X]; discriminate|].
      intros [[X _]|(s & X & _)]; discriminate.
Qed.

(* the journal is rejected exactly when the property demands it *)
Lemma c09_journal_rejected_iff audit raws :
  (exists e, accept_journal_uuids audit raws = Err e) <-> journal_must_be_rejected audit raws.
Proof.
  unfold accept_journal_uuids, journal_must_be_rejected. rewrite c09_mapM_err. split.
  - intros (x & e & Hin & Fx).
    destruct (proj1 (c09_accept_uuid_err audit x) (ex_intro _ e Fx)) as [[Ha ->]|(s & -> & Hn)].
    + left. split; assumption.
    + right. exists s. split; assumption.
  - intros [[Ha Hin]|(s & Hin & Hn)].
    + destruct (proj2 (c09_accept_uuid_err audit None)) as [e E]; [left; split; [exact Ha|reflexivity]|].
      exists None, e. split; assumption.
    + destruct (proj2 (c09_accept_uuid_err audit (Some s))) as [e E]; [right; exists s; split; [reflexivity|exact Hn]|].
      exists (Some s), e. split; assumption.
Qed.

(* C09_audit_requires_uuid *)
Lemma c09_audit_requires_uuid raws :
  In None raws -> exists e, accept_journal_uuids true raws = Err e.
Proof. intros Hin. apply c09_journal_rejected_iff. left. split; [reflexivity|exact Hin]. Qed.

Lemma c09_audit_same_when_all_uuids raws :
  ~ In None raws -> accept_journal_uuids true raws = accept_journal_uuids false raws.
Proof.
  intros Hn. apply c09_mapM_ext. intros [s|] Hin; [reflexivity|]. exfalso. exact (Hn Hin).
Qed.

Lemma c09_Forall2_impl {A B} (R S : A -> B -> Prop) l l' :
  (forall a b, R a b -> S a b) -> Forall2 R l l' -> Forall2 S l l'.
Proof. intros HRS. induction 1; constructor; auto. Qed.

Lemma c09_Forall2_in_r {A B} (R : A -> B -> Prop) l l' y :
  Forall2 R l l' -> In y l' -> exists x, In x l /\ R x y.
Proof.
  induction 1 as [|a b l l' Hab _ IH]; intros Hin; [destruct Hin|].
  destruct Hin as [<-|Hin]; [exists a; split; [left; reflexivity|exact Hab]|].
  destruct (IH Hin) as (x & Hx & Hr). exists x. split; [right; exact Hx|exact Hr].
Qed.

Lemma c09_accepted_uuids audit raws us :
  accept_journal_uuids audit raws = Ok us -> Forall2 (Accepted_uuid audit) raws us.
Proof.
  intros E. apply c09_mapM_ok in E. eapply c09_Forall2_impl; [|exact E].
  intros raw o. unfold accept_uuid, Accepted_uuid. destruct raw as [s|].
  - destruct (uuid_parse s) as [u|] eqn:Ep; [|discriminate]. intros X. injection X as <-.
    destruct (c09_uuid_parse_spec _ _ Ep) as (W & Pr & V).
    split; [exact V|]. exists u. split; [reflexivity|split; [exact W|exact Pr]].
  - destruct audit; [discriminate|]. intros X. injection X as <-. split; reflexivity.
Qed.

Lemma c09_accepted_wf audit raws us :
  accept_journal_uuids audit raws = Ok us -> c09_sel_wf us.
Proof.
  intros E u Hu. apply c09_accepted_uuids in E.
  destruct (c09_Forall2_in_r _ _ _ _ E Hu) as (raw & _ & Ha).
  unfold Accepted_uuid in Ha. destruct raw as [s|].
  - destruct Ha as (_ & u' & X & W & _). injection X as <-. exact W.
  - destruct Ha as [_ X]. discriminate.
Qed.

Lemma c09_selected_in {A} (xs : list A) flags x : In x (selected xs flags) -> In x xs.
Proof.
  unfold selected. intros Hin. apply in_map_iff in Hin. destruct Hin as ([y b] & <- & Hf).
  apply filter_In in Hf. destruct Hf as [Hc _]. apply in_combine_l in Hc. exact Hc.
Qed.

Lemma c09_pipeline_eq H audit j :
  audit_pipeline H audit j =
  res_bind (accept_journal_uuids audit (map fst j))
           (fun us => make_metadata H audit (selected us (map snd j))).
Proof.
  unfold audit_pipeline. destruct (accept_journal_uuids audit (map fst j)) as [us|e]; [|reflexivity].
  cbn [res_bind]. unfold txn_set, selected.
  destruct (make_metadata H audit _); reflexivity.
Qed.

(* end to end: written uuid texts and the filter's selection to the reported item *)
Lemma c09_pipeline_spec H j us :
  accept_journal_uuids true (map fst j) = Ok us ->
  Checksum_spec H (selected us (map snd j)) (audit_pipeline H true j)
  /\ Forall2 (Accepted_uuid true) (map fst j) us.
Proof.
  intros E. split; [|apply c09_accepted_uuids; exact E].
  rewrite c09_pipeline_eq, E. cbn [res_bind]. apply c09_metadata_spec.
  intros u Hu. apply (c09_accepted_wf _ _ _ E). apply (c09_selected_in _ _ _ Hu).
Qed.

Lemma c09_pipeline_rejected H audit j :
  journal_must_be_rejected audit (map fst j) -> exists e, audit_pipeline H audit j = Err e.
Proof.
  intros Hr. apply c09_journal_rejected_iff in Hr. destruct Hr as [e E].
  exists e. rewrite c09_pipeline_eq, E. reflexivity.
Qed.

(* ------------------------------------------------------------------ *)
(* oracles *)

Lemma c09_existsb_none {A} (l : list (option A)) : existsb is_none l = true <-> In None l.
Proof.
  rewrite existsb_exists. split.
  - intros ([x|] & Hin & Hx); [discriminate|exact Hin].
  - intros Hin. exists None. split; [exact Hin|reflexivity].
Qed.

Lemma c09_mem_str x l : mem_str x l = true <-> In x l.
Proof.
  induction l as [|y l IH]; cbn [mem_str In]; [split; [discriminate|intros []]|].
  rewrite orb_true_iff, IH, str_eqb_eq. split; (intros [E|E]; [left; congruence|right; exact E]).
Qed.

Lemma c09_nodup_strs l : nodup_strs l = true <-> NoDup l.
Proof.
  induction l as [|x l IH]; cbn [nodup_strs]; [split; [constructor|reflexivity]|].
  rewrite andb_true_iff, negb_true_iff, IH. split.
  - intros [Hm Hnd]. constructor; [|exact Hnd]. intros Hin. apply c09_mem_str in Hin. congruence.
  - intros Hnd. inversion Hnd as [|? ? Hx Hl]; subst. split; [|exact Hl].
    destruct (mem_str x l) eqn:E; [|reflexivity]. apply c09_mem_str in E. contradiction.
Qed.

Lemma c09_str_le_trans : Relations_1.Transitive str_le.
Proof. intros a b c. apply (co_le_trans str_cmp str_cmp_ord). Qed.

Lemma c09_sorted_b l : sorted_b l = true -> StronglySorted str_le l.
Proof.
  intros Hs. apply Sorted_StronglySorted; [exact c09_str_le_trans|].
  induction l as [|x l IH]; [constructor|]. cbn [sorted_b] in Hs.
  destruct l as [|y l]; [constructor; constructor|].
  apply andb_true_iff in Hs. destruct Hs as [Hxy Hs].
  constructor; [apply IH; exact Hs|]. constructor. apply cmp_leb_true. exact Hxy.
Qed.

Lemma c09_occ_count x l : occ x l = count_occ (list_eq_dec N.eq_dec) l x.
Proof.
  unfold occ. induction l as [|y l IH]; [reflexivity|]. cbn [filter count_occ].
  destruct (list_eq_dec N.eq_dec y x) as [->|Hn].
  - rewrite str_eqb_refl. cbn [length]. rewrite IH. reflexivity.
  - destruct (str_eqb x y) eqn:E; [apply str_eqb_eq in E; congruence|exact IH].
Qed.

Lemma c09_same_multiset a b : same_multiset_b a b = true -> Permutation a b.
Proof.
  unfold same_multiset_b. rewrite forallb_forall. intros Hall.
  apply (Permutation_count_occ (list_eq_dec N.eq_dec)). intros x.
  destruct (in_dec (list_eq_dec N.eq_dec) x (a ++ b)) as [Hin|Hnin].
  - specialize (Hall x Hin). apply Nat.eqb_eq in Hall. rewrite <- !c09_occ_count. exact Hall.
  - rewrite !(proj1 (count_occ_not_In _ _ _)); [reflexivity| |];
      intros Hin; apply Hnin; apply in_or_app; [right|left]; exact Hin.
Qed.

Lemma c09_preimage_b items lines P : preimage_b items lines P = true -> is_preimage items P.
Proof.
  unfold preimage_b. rewrite !andb_true_iff. intros [[Hs Hm] He].
  exists lines. split; [apply c09_same_multiset; exact Hm|]. split; [apply c09_sorted_b; exact Hs|].
  apply (list_eqb_eq N.eqb); [|exact He]. intros x y. apply N.eqb_eq.
Qed.

Lemma c09_the_somes_map {A} (l : list A) : the_somes (map Some l) = l.
Proof.
  unfold the_somes. induction l as [|x l IH]; [reflexivity|]. cbn [map flat_map app]. rewrite IH. reflexivity.
Qed.

Lemma c09_no_none_somes {A} (sel : list (option A)) : ~ In None sel -> sel = map Some (the_somes sel).
Proof.
  unfold the_somes. induction sel as [|o sel IH]; intros Hn; [reflexivity|].
  destruct o as [x|]; [|exfalso; apply Hn; left; reflexivity].
  cbn [flat_map app map]. f_equal. apply IH. intros Hin. apply Hn. right. exact Hin.
Qed.

(* C09_oracle_sound *)
Lemma c09_observed_sound sel o : c09_sel_wf sel -> observed_b sel o = true -> Observed_spec sel o.
Proof.
  intros Hw. unfold observed_b. cbv zeta.
  destruct o as [| | | |n lines P]; try discriminate; cbn [Observed_spec].
  - (* ObsSetErr *)
    rewrite orb_true_iff, negb_true_iff. intros [Hn|Hd]; [left; apply c09_existsb_none; exact Hn|].
    destruct (c09_all_some_or_none sel) as [Hin|[us Es]]; [left; exact Hin|right].
    subst sel. intros Hnd. rewrite c09_the_somes_map in Hd.
    apply (proj1 (c09_NoDup_map_some us)) in Hnd.
    apply (proj2 (c09_NoDup_texts _ (c09_sel_wf_somes _ Hw))) in Hnd.
    apply c09_nodup_strs in Hnd. congruence.
  - rewrite !andb_true_iff, negb_true_iff. intros [[[Hn Hd] Hsz] Hp].
    assert (~ In None sel) as Hnin.
    { intros Hin. apply c09_existsb_none in Hin. congruence. }
    exists (the_somes sel). split; [apply c09_no_none_somes; exact Hnin|].
    split; [apply c09_nodup_strs in Hd; apply NoDup_map_inv' in Hd; exact Hd|].
    split; [apply N.eqb_eq; exact Hsz|]. apply (c09_preimage_b _ _ _ Hp).
Qed.

Lemma c09_sel_observed_sound audit equity pats o :
  sel_observed_b audit equity pats o = true -> Sel_observed_spec audit equity pats o.
Proof.
  unfold sel_observed_b. destruct o as [| | |lines P]; cbn [Sel_observed_spec].
  - destruct audit; [discriminate|reflexivity].
  - rewrite !andb_true_iff, negb_true_iff. intros [[-> Hp] ->]. destruct pats; [|discriminate]. repeat split.
  - rewrite !andb_true_iff. intros [[-> Hp] ->]. destruct pats; [|discriminate]. repeat split.
  - rewrite !andb_true_iff, negb_true_iff. intros [[-> Hp] Hb].
    split; [reflexivity|]. split; [destruct pats; [discriminate|discriminate]|].
    apply (c09_preimage_b _ _ _ Hb).
Qed.

Lemma c09_must_reject_b audit raws :
  journal_must_be_rejected_b audit raws = true <-> journal_must_be_rejected audit raws.
Proof.
  unfold journal_must_be_rejected_b, journal_must_be_rejected.
  rewrite orb_true_iff, andb_true_iff, c09_existsb_none, existsb_exists. split.
  - intros [H|([s|] & Hin & Hv)]; [left; exact H| |discriminate].
    right. exists s. split; [exact Hin|]. apply negb_true_iff in Hv.
    intros V. apply c09_valid_uuid_text_b_iff in V. congruence.
  - intros [H|(s & Hin & Hn)]; [left; exact H|]. right. exists (Some s). split; [exact Hin|].
    apply negb_true_iff. destruct (valid_uuid_text_b s) eqn:E; [|reflexivity].
    exfalso. apply Hn. apply c09_valid_uuid_text_b_iff. exact E.
Qed.

(* non-vacuity example used by props/C09.v *)
Lemma c09_example : forall H,
  let a := [69;50;55;52;67;57;57;69;45;49;101;98;98;45;52;53;101;56;45;56;51;50;100;45;53;56;67;97;102;53;52;69;100;57;53;102]%N in
  let b := [48;48;48;48;48;48;48;48;45;48;48;48;48;45;48;48;48;48;45;48;48;48;48;45;48;48;48;48;48;48;48;48;48;48;48;49]%N in
  audit_pipeline H true [(Some a, true); (Some b, true); (Some b, false)]
  = Ok (Some (2%N, H (b ++ [10%N] ++ lower_text a ++ [10%N])))
  /\ audit_pipeline H true [(Some a, true); (Some b, true); (Some b, true)] = Err E_dup_uuid
  /\ audit_pipeline H true [(Some a, true); (None, false)] = Err E_audit_no_uuid
  /\ audit_pipeline H false [(Some a, true); (None, true)] = Ok None.
Proof. intros H. vm_compute. repeat split. Qed.

Lemma c09_case_thm : forall s,
  (valid_uuid_text s -> exists u, uuid_parse s = Some u) /\
  (forall u, uuid_parse s = Some u ->
     uuid_wf u /\ uuid_print u = lower_text s /\ valid_uuid_text s).
Proof. intros s. split; [apply c09_valid_parse|apply c09_uuid_parse_spec]. Qed.
