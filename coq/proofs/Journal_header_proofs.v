(* Journal_header_proofs.v — C06 stage 3: header line, metadata lines, comment lines. *)
From TkModel Require Import Base Dec Acct Txn Accept Journal.
From TkSpec Require Import Journal_spec.
From TkProofs Require Import Journal_base_proofs Journal_time_proofs Journal_line_proofs.
Local Open Scope Z_scope.

(* ------------------------------------------------------------------ header line *)
Definition code_part (h : header) : list N :=
  match h_code h with Some c => [32; 40]%N ++ c ++ [41%N] | None => [] end.
Definition desc_part (h : header) : list N :=
  match h_desc h with Some d => [32; 39]%N ++ d | None => [] end.

Lemma code_ok_inv c : code_ok c = true -> forallb code_char c = true /\ trim c = c.
Proof. unfold code_ok. intro H. apply andb_true_iff in H as [H1 H2]. split; [exact H1|apply str_eqb_true, H2]. Qed.
Lemma desc_ok_inv d : desc_ok d = true -> no_eol d = true /\ trim_end d = d.
Proof. unfold desc_ok. intro H. apply andb_true_iff in H as [H1 H2]. split; [exact H1|apply str_eqb_true, H2]. Qed.

Lemma header_rest_roundtrip h :
  match h_code h with Some c => code_ok c | None => true end = true ->
  match h_desc h with Some d => desc_ok d | None => true end = true ->
  parse_header_rest (code_part h ++ desc_part h) = Some (h_code h, h_desc h).
Proof.
  unfold code_part, desc_part. intros Hc Hd.
  destruct (h_code h) as [c|]; destruct (h_desc h) as [d|].
  - destruct (code_ok_inv c Hc) as [Hcc Htr]. destruct (desc_ok_inv d Hd) as [_ Htd].
    unfold parse_header_rest. cbn [app]. rewrite <- app_assoc. cbn [app].
    rewrite span_sp1 by reflexivity. cbn [is_nil]. change (40 =? 40)%N with true. cbv iota.
    rewrite (span_app code_char c (41%N :: 32%N :: 39%N :: d) Hcc eq_refl).
    cbn [take_char]. change (41 =? 41)%N with true. cbv iota.
    rewrite span_sp1 by reflexivity. cbn [is_nil negb andb]. change (39 =? 39)%N with true. cbv iota.
    rewrite Htr, Htd. reflexivity.
  - destruct (code_ok_inv c Hc) as [Hcc Htr].
    unfold parse_header_rest. rewrite app_nil_r. cbn [app].
    rewrite span_sp1 by reflexivity. cbn [is_nil]. change (40 =? 40)%N with true. cbv iota.
    rewrite (span_app code_char c [41%N] Hcc eq_refl).
    cbn [take_char]. change (41 =? 41)%N with true. cbv iota. cbn [span]. rewrite Htr. reflexivity.
  - destruct (desc_ok_inv d Hd) as [_ Htd].
    unfold parse_header_rest. cbn [app]. rewrite span_sp1 by reflexivity. cbn [is_nil].
    change (39 =? 40)%N with false. change (39 =? 39)%N with true. cbv iota. rewrite Htd. reflexivity.
  - reflexivity.
Qed.

(* ------------------------------------------------------------------ comment lines *)
Definition comment_line (c : list N) : list N := indent ++ [59; 32]%N ++ c.

Lemma parse_comment_line_comment c : parse_comment_line (comment_line c) = Some (Some c).
Proof.
  unfold parse_comment_line, comment_line. cbn [app].
  change (32%N :: 32%N :: 32%N :: 59%N :: 32%N :: c) with (indent ++ 59%N :: 32%N :: c).
  rewrite span_indent by reflexivity. reflexivity.
Qed.
Lemma parse_meta_line_comment c : parse_meta_line (comment_line c) = None.
Proof.
  unfold parse_meta_line, comment_line. cbn [app].
  change (32%N :: 32%N :: 32%N :: 59%N :: 32%N :: c) with (indent ++ 59%N :: 32%N :: c).
  rewrite span_indent by reflexivity. reflexivity.
Qed.

(* a line whose first non-blank character starts an identifier is neither metadata nor comment *)
Lemma parse_meta_line_name c r : id_start c = true -> parse_meta_line (indent ++ c :: r) = None.
Proof.
  intro H. unfold parse_meta_line. rewrite (span_indent c r (id_char_not_sp _ (id_start_char _ H))).
  rewrite (id_start_not_hash c H). rewrite andb_false_r. reflexivity.
Qed.
Lemma parse_comment_line_name c r : id_start c = true -> parse_comment_line (indent ++ c :: r) = None.
Proof.
  intro H. unfold parse_comment_line. rewrite (span_indent c r (id_char_not_sp _ (id_start_char _ H))).
  rewrite (id_start_not_semi c H). rewrite andb_false_r. reflexivity.
Qed.

Lemma print_posting_head jp : name_ok (p_acc (jp_p jp)) = true ->
  exists c r, print_posting jp = c :: r /\ id_start c = true.
Proof.
  intro H. rewrite print_posting_eq. destruct (join_colon_head _ H) as (c & r & -> & Hc).
  eexists _, _. split; [reflexivity|exact Hc].
Qed.

(* ------------------------------------------------------------------ uuid line *)
Definition uuid_line (u : list N) : list N := indent ++ [35; 32]%N ++ kw_uuid ++ 32%N :: u.

Lemma is_hex_not_sp c : is_hex c = true -> is_sp c = false.
Proof. intro H. unfold is_sp. char_cases H. reflexivity. Qed.

Lemma uuid_ok_inv u : uuid_ok u = true ->
  take_uuid u = Some (u, []) /\ exists c r, u = c :: r /\ is_hex c = true.
Proof.
  unfold uuid_ok. intro H. destruct (take_uuid u) as [[u' r]|] eqn:E; [|discriminate].
  destruct r; [|discriminate]. apply str_eqb_true in H. subst u'. split; [reflexivity|].
  unfold take_uuid in E. destruct (take_hex 8 u) as [[a s1]|] eqn:E8; [|discriminate].
  unfold take_hex in E8. destruct (Nat.eqb (length (firstn 8 u)) 8 && forallb is_hex (firstn 8 u)) eqn:Eb; [|discriminate].
  apply andb_true_iff in Eb as [Hl Hh]. destruct u as [|c r]; [discriminate|].
  cbn [firstn forallb] in Hh. apply andb_true_iff in Hh as [Hc _]. exists c, r. split; [reflexivity|exact Hc].
Qed.

Lemma span_sp1_app c r : is_sp c = false -> span is_sp ([32%N] ++ c :: r) = ([32%N], c :: r).
Proof. apply span_sp1. Qed.

Lemma parse_meta_line_uuid u : uuid_ok u = true -> parse_meta_line (uuid_line u) = Some (Some (M_uuid u)).
Proof.
  intro H. destruct (uuid_ok_inv u H) as (Hu & c & r & E & Hc).
  unfold parse_meta_line, uuid_line.
  change (indent ++ [35; 32]%N ++ kw_uuid ++ 32%N :: u) with (indent ++ 35%N :: 32%N :: kw_uuid ++ 32%N :: u).
  rewrite span_indent by reflexivity. change (is_nil indent) with false. change (35 =? 35)%N with true.
  cbn [negb andb]. cbv iota.
  change (32%N :: kw_uuid ++ 32%N :: u) with (32%N :: 117%N :: ([117; 105; 100; 58]%N ++ 32%N :: u)).
  rewrite span_sp1 by reflexivity. cbn [is_nil].
  change (117%N :: ([117; 105; 100; 58]%N ++ 32%N :: u)) with (kw_uuid ++ 32%N :: u).
  rewrite take_prefix_app.
  rewrite E. rewrite (span_sp1 c r (is_hex_not_sp c Hc)). cbn [is_nil]. rewrite <- E. rewrite Hu. reflexivity.
Qed.

(* ------------------------------------------------------------------ location line *)
Definition loc_line (g : geo) : list N := indent ++ [35; 32]%N ++ kw_location ++ 32%N :: print_geo g.

Lemma snd_span_dec d X : snd (span is_sp (print_dec d ++ X)) = print_dec d ++ X.
Proof.
  destruct (print_dec_app_head d X) as (c & r & E & Hc). rewrite E.
  rewrite (span_sp0 c r (dec_char_not_sp c Hc)). reflexivity.
Qed.

Lemma geo_wf_inv g : geo_wf g = true ->
  fits (g_lat g) = true /\ fits (g_lon g) = true /\ match g_alt g with Some a => fits a = true | None => True end
  /\ geo_ok (g_lat g) (g_lon g) (g_alt g) = true.
Proof.
  unfold geo_wf. intro H. apply andb_true_iff in H as [H Hok]. apply andb_true_iff in H as [H Halt].
  apply andb_true_iff in H as [Hlat Hlon]. repeat split; try assumption.
  destruct (g_alt g); [exact Halt|exact I].
Qed.

Lemma parse_geo_print g : geo_wf g = true -> parse_geo (print_geo g) = Some g.
Proof.
  intro H. destruct (geo_wf_inv g H) as (Hlat & Hlon & Halt & Hok).
  unfold parse_geo, print_geo. rewrite take_prefix_app.
  rewrite snd_span_dec.
  destruct (g_alt g) as [a|] eqn:Ea.
  - rewrite (dec_roundtrip (g_lat g) (44%N :: print_dec (g_lon g) ++ 44%N :: print_dec a) Hlat eq_refl).
    cbn [span snd]. change (is_sp 44) with false. cbv iota. cbn [snd take_char]. change (44 =? 44)%N with true. cbv iota.
    rewrite snd_span_dec.
    rewrite (dec_roundtrip (g_lon g) (44%N :: print_dec a) Hlon eq_refl).
    cbn [span snd]. change (is_sp 44) with false. cbv iota. cbn [snd take_char]. change (44 =? 44)%N with true. cbv iota.
    rewrite <- (app_nil_r (print_dec a)). rewrite snd_span_dec.
    rewrite (dec_roundtrip a [] Halt eq_refl). cbn [is_blank forallb andb]. rewrite Hok.
    destruct g; cbn in *; subst; reflexivity.
  - rewrite (dec_roundtrip (g_lat g) (44%N :: print_dec (g_lon g) ++ []) Hlat eq_refl).
    cbn [span snd]. change (is_sp 44) with false. cbv iota. cbn [snd take_char]. change (44 =? 44)%N with true. cbv iota.
    rewrite snd_span_dec.
    rewrite (dec_roundtrip (g_lon g) [] Hlon eq_refl). cbn [span snd take_char is_blank forallb andb].
    rewrite Hok. destruct g; cbn in *; subst; reflexivity.
Qed.

Lemma parse_meta_line_loc g : geo_wf g = true -> parse_meta_line (loc_line g) = Some (Some (M_loc g)).
Proof.
  intro H. unfold parse_meta_line, loc_line.
  change (indent ++ [35; 32]%N ++ kw_location ++ 32%N :: print_geo g)
    with (indent ++ 35%N :: 32%N :: kw_location ++ 32%N :: print_geo g).
  rewrite span_indent by reflexivity. change (is_nil indent) with false. change (35 =? 35)%N with true.
  cbn [negb andb]. cbv iota.
  change (32%N :: kw_location ++ 32%N :: print_geo g)
    with (32%N :: 108%N :: ([111; 99; 97; 116; 105; 111; 110; 58]%N ++ 32%N :: print_geo g)).
  rewrite span_sp1 by reflexivity. cbn [is_nil].
  change (108%N :: ([111; 99; 97; 116; 105; 111; 110; 58]%N ++ 32%N :: print_geo g))
    with (kw_location ++ 32%N :: print_geo g).
  rewrite take_prefix_app.
  assert (Hu : take_prefix kw_uuid (kw_location ++ 32%N :: print_geo g) = None) by reflexivity.
  rewrite Hu.
  assert (Hg : exists r, print_geo g = 103%N :: r) by (unfold print_geo; eexists; reflexivity).
  destruct Hg as [r Er]. rewrite Er. rewrite span_sp1 by reflexivity. cbn [is_nil]. rewrite <- Er.
  rewrite (parse_geo_print g H). reflexivity.
Qed.

(* ------------------------------------------------------------------ tags line *)
Definition tags_line (ts : list (list N)) : list N :=
  indent ++ [35; 32]%N ++ kw_tags ++ 32%N :: join_sep [44; 32]%N ts.

Lemma join_split_colon t : join_colon (split_on 58 t) = t.
Proof.
  induction t as [|c t IH]; [reflexivity|]. cbn [split_on].
  destruct (split_on 58 t) as [|p ps] eqn:E.
  - destruct t; cbn in E; [discriminate|]. destruct (_ =? _)%N; destruct (split_on 58 t); discriminate.
  - destruct (N.eqb_spec c 58) as [->|Hc].
    + change (join_colon ([] :: p :: ps)) with ([] ++ colon :: join_colon (p :: ps)). rewrite IH. reflexivity.
    + destruct ps as [|q ps'].
      * cbn [join_colon] in *. rewrite IH. reflexivity.
      * change (join_colon ((c :: p) :: q :: ps')) with ((c :: p) ++ colon :: join_colon (q :: ps')).
        change (join_colon (p :: q :: ps')) with (p ++ colon :: join_colon (q :: ps')) in IH.
        cbn [app]. rewrite IH. reflexivity.
Qed.

Lemma tag_ok_chars t : tag_ok t = true ->
  forallb (fun c => id_char c || (c =? 58)%N) t = true /\ exists c r, t = c :: r /\ id_start c = true.
Proof.
  unfold tag_ok. intro H. destruct (name_ok_inv _ H) as (c & r & comps' & E & Hc & Hall).
  split.
  - rewrite <- (join_split_colon t). apply join_colon_chars, Hall.
  - destruct t as [|x t']; [discriminate|]. cbn [split_on] in E.
    destruct (N.eqb_spec x 58) as [->|Hx]; [destruct (split_on 58 t'); discriminate|].
    destruct (split_on 58 t') as [|p ps]; injection E as -> _; exists c, t'; (split; [reflexivity|exact Hc]).
Qed.

Lemma take_name_tag t : tag_ok t = true -> take_name t = Some (split_on 58 t, []).
Proof.
  intro H. unfold tag_ok in H.
  pose proof (take_name_app (split_on 58 t) [] H eq_refl) as Hn.
  rewrite app_nil_r, join_split_colon in Hn. exact Hn.
Qed.

Lemma tag_char_not c : id_char c || (c =? 58)%N = true -> is_sp c = false /\ (c =? 44)%N = false.
Proof.
  intro H. apply orb_true_iff in H as [H|H].
  - split; [apply id_char_not_sp, H|apply id_char_not_comma, H].
  - apply N.eqb_eq in H. subst. split; reflexivity.
Qed.

Lemma stopb_of_forallb p l : forallb (fun c => negb (p c)) l = true -> stopb p l = true.
Proof. destruct l as [|c l]; [reflexivity|]. cbn [forallb stopb]. intro H. apply andb_true_iff in H as [H _]. exact H. Qed.

Lemma strip_sp_tag t : tag_ok t = true -> strip_sp t = t /\ strip_sp (32%N :: t) = t.
Proof.
  intro H. destruct (tag_ok_chars t H) as (Hch & _).
  assert (Hns : forallb (fun c => negb (is_sp c)) t = true).
  { revert Hch. apply forallb_impl. intros c Hc. destruct (tag_char_not c Hc) as [-> _]. reflexivity. }
  assert (H1 : drop_while is_sp t = t) by (apply drop_while_stop, stopb_of_forallb, Hns).
  assert (H2 : drop_while is_sp (rev t) = rev t).
  { apply drop_while_stop, stopb_of_forallb. rewrite forallb_rev. exact Hns. }
  unfold strip_sp. cbn [drop_while]. change (is_sp 32) with true. cbv iota.
  rewrite H1, H2, rev_involutive. split; reflexivity.
Qed.

Lemma tag_nocomma t : tag_ok t = true -> forallb (fun c => negb (c =? 44)%N) t = true.
Proof.
  intro H. destruct (tag_ok_chars t H) as (Hch & _). revert Hch. apply forallb_impl.
  intros c Hc. destruct (tag_char_not c Hc) as [_ ->]. reflexivity.
Qed.

Definition tag_pieces (ts : list (list N)) : list (list N) :=
  match ts with [] => [[]] | t :: ts' => t :: map (fun x => 32%N :: x) ts' end.

Lemma split_join_tags ts : forallb tag_ok ts = true ->
  split_on 44 (join_sep [44; 32]%N ts) = tag_pieces ts.
Proof.
  induction ts as [|t ts IH]; [reflexivity|]. cbn [forallb]. intro H. apply andb_true_iff in H as [Ht Hts].
  destruct ts as [|t2 ts'].
  - cbn [join_sep tag_pieces map]. apply split_on_nosep, tag_nocomma, Ht.
  - change (join_sep [44; 32]%N (t :: t2 :: ts')) with (t ++ 44%N :: 32%N :: join_sep [44; 32]%N (t2 :: ts')).
    rewrite (split_on_app 44 t _ (tag_nocomma t Ht)).
    cbn [split_on]. change (32 =? 44)%N with false. cbv iota. rewrite (IH Hts). reflexivity.
Qed.

Lemma tag_names_pieces ts : forallb tag_ok ts = true ->
  tag_names (map strip_sp ts) = Some ts /\ tag_names (map strip_sp (map (fun x => 32%N :: x) ts)) = Some ts.
Proof.
  induction ts as [|t ts IH]; [split; reflexivity|]. cbn [forallb]. intro H. apply andb_true_iff in H as [Ht Hts].
  destruct (IH Hts) as [I1 I2]. destruct (strip_sp_tag t Ht) as [S1 S2].
  cbn [map tag_names]. rewrite S1, S2, (take_name_tag t Ht), I1, I2, join_split_colon. split; reflexivity.
Qed.

Lemma parse_tags_print ts : ts <> [] -> forallb tag_ok ts = true ->
  Nat.eqb (length (distinct_strs ts)) (length ts) = true ->
  parse_tags (join_sep [44; 32]%N ts) = Some ts.
Proof.
  intros Hne Hok Hd. unfold parse_tags. rewrite (split_join_tags ts Hok).
  destruct ts as [|t ts']; [congruence|]. cbn [tag_pieces forallb] in *.
  apply andb_true_iff in Hok as [Ht Hts].
  destruct (tag_names_pieces ts' Hts) as [_ I2]. destruct (strip_sp_tag t Ht) as [S1 _].
  cbn [map tag_names]. rewrite S1, (take_name_tag t Ht), I2, join_split_colon. rewrite Hd. reflexivity.
Qed.

Lemma parse_meta_line_tags ts : ts <> [] -> forallb tag_ok ts = true ->
  Nat.eqb (length (distinct_strs ts)) (length ts) = true ->
  parse_meta_line (tags_line ts) = Some (Some (M_tags ts)).
Proof.
  intros Hne Hok Hd. unfold parse_meta_line, tags_line.
  change (indent ++ [35; 32]%N ++ kw_tags ++ 32%N :: join_sep [44; 32]%N ts)
    with (indent ++ 35%N :: 32%N :: kw_tags ++ 32%N :: join_sep [44; 32]%N ts).
  rewrite span_indent by reflexivity. change (is_nil indent) with false. change (35 =? 35)%N with true.
  cbn [negb andb]. cbv iota.
  change (32%N :: kw_tags ++ 32%N :: join_sep [44; 32]%N ts)
    with (32%N :: 116%N :: ([97; 103; 115; 58]%N ++ 32%N :: join_sep [44; 32]%N ts)).
  rewrite span_sp1 by reflexivity. cbn [is_nil].
  change (116%N :: ([97; 103; 115; 58]%N ++ 32%N :: join_sep [44; 32]%N ts))
    with (kw_tags ++ 32%N :: join_sep [44; 32]%N ts).
  rewrite take_prefix_app.
  assert (Hu : take_prefix kw_uuid (kw_tags ++ 32%N :: join_sep [44; 32]%N ts) = None) by reflexivity.
  assert (Hl : take_prefix kw_location (kw_tags ++ 32%N :: join_sep [44; 32]%N ts) = None) by reflexivity.
  rewrite Hu, Hl.
  assert (Hhead : exists c r, join_sep [44; 32]%N ts = c :: r /\ is_sp c = false).
  { destruct ts as [|t ts']; [congruence|]. cbn [forallb] in Hok. apply andb_true_iff in Hok as [Ht _].
    destruct (tag_ok_chars t Ht) as (_ & c & r & -> & Hc).
    destruct ts'; cbn [join_sep app]; eexists _, _; (split; [reflexivity|apply id_char_not_sp, id_start_char, Hc]). }
  destruct Hhead as (c & r & E & Hc). rewrite E. rewrite (span_sp1 c r Hc). cbn [is_nil]. rewrite <- E.
  rewrite (parse_tags_print ts Hne Hok Hd). reflexivity.
Qed.

(* ------------------------------------------------------------------ metadata block, comment block *)
Definition meta_lines (h : header) : list (list N) :=
  match h_uuid h with Some u => [uuid_line u] | None => [] end
  ++ match h_loc h with Some g => [loc_line g] | None => [] end
  ++ match h_tags h with [] => [] | ts => [tags_line ts] end.

Lemma header_lines_eq h :
  header_lines h = (print_ts (h_inst h) (h_off h) ++ code_part h ++ desc_part h)
                   :: meta_lines h ++ map comment_line (h_comments h).
Proof.
  unfold header_lines, meta_lines, code_part, desc_part, uuid_line, loc_line, tags_line.
  rewrite <- !app_assoc. reflexivity.
Qed.

Definition opt_tags (ts : list (list N)) : option (list (list N)) :=
  match ts with [] => None | _ => Some ts end.

Lemma parse_meta_block h rest :
  header_wf h = true ->
  (match rest with [] => True | l :: _ => parse_meta_line l = None end) ->
  parse_meta (meta_lines h ++ rest) None None None = Some (h_uuid h, h_loc h, opt_tags (h_tags h), rest).
Proof.
  intros Hwf Hrest. unfold header_wf in Hwf.
  repeat (apply andb_true_iff in Hwf; destruct Hwf as [Hwf ?]).
  rename H3 into Hu. rename H2 into Hg. rename H1 into Ht. rename H0 into Hd.
  assert (Hend : forall u g t, parse_meta rest u g t = Some (u, g, t, rest)).
  { intros u g t. destruct rest as [|l r]; [reflexivity|]. cbn [parse_meta]. rewrite Hrest. reflexivity. }
  unfold meta_lines.
  destruct (h_uuid h) as [u|]; destruct (h_loc h) as [g|]; destruct (h_tags h) as [|t ts] eqn:Et;
    cbn [app parse_meta opt_tags];
    rewrite ?(parse_meta_line_uuid _ Hu), ?(parse_meta_line_loc _ Hg),
            ?(parse_meta_line_tags (t :: ts) ltac:(discriminate) Ht Hd); cbn [parse_meta];
    rewrite ?(parse_meta_line_loc _ Hg), ?(parse_meta_line_tags (t :: ts) ltac:(discriminate) Ht Hd); cbn [parse_meta];
    rewrite ?(parse_meta_line_tags (t :: ts) ltac:(discriminate) Ht Hd); cbn [parse_meta];
    try apply Hend.
Qed.

Lemma parse_comments_block cs rest :
  (match rest with [] => True | l :: _ => parse_comment_line l = None end) ->
  parse_comments (map comment_line cs ++ rest) = Some (cs, rest).
Proof.
  intro Hrest. induction cs as [|c cs IH].
  - cbn [map app]. destruct rest as [|l r]; [reflexivity|]. cbn [parse_comments]. rewrite Hrest. reflexivity.
  - cbn [map app parse_comments]. rewrite parse_comment_line_comment, IH. reflexivity.
Qed.

(* ------------------------------------------------------------------ line hygiene *)
Lemma no_eol_app a b : no_eol (a ++ b) = no_eol a && no_eol b.
Proof. apply forallb_app. Qed.

Lemma print_dec_no_eol d : no_eol (print_dec d) = true.
Proof. pose proof (print_dec_chars d) as H. revert H. apply forallb_impl. intros c Hc. apply dec_char_no_eol, Hc. Qed.

Lemma print_ts_no_eol i o : no_eol (print_ts i o) = true.
Proof. pose proof (print_ts_chars i o) as H. revert H. apply forallb_impl. intros c Hc. apply ts_char_no_eol, Hc. Qed.

Lemma take_hex_no_eol n s a r : take_hex n s = Some (a, r) -> no_eol a = true.
Proof.
  intro E'. unfold take_hex in E'. destruct (_ && _) eqn:Eb; [|discriminate]. injection E' as <- _.
  apply andb_true_iff in Eb as [_ Eb]. unfold no_eol. rewrite forallb_forall in *. intros x Hx.
  apply in_map_iff in Hx as (y & <- & Hy). specialize (Eb y Hy).
  unfold lower_hex. destruct (in_rng 65 70 y) eqn:Er.
  - unfold in_rng in Er. apply andb_true_iff in Er as [E1 E2]. apply N.leb_le in E1, E2.
    destruct (N.eqb_spec (y + 32) 10); [lia|]. destruct (N.eqb_spec (y + 32) 13); [lia|]. reflexivity.
  - apply is_hex_no_eol, Eb.
Qed.

Lemma uuid_no_eol u : uuid_ok u = true -> no_eol u = true.
Proof.
  intro H. destruct (uuid_ok_inv u H) as (Hu & _).
  unfold take_uuid in Hu.
  destruct (take_hex 8 u) as [[a s1]|] eqn:Ea; [|discriminate].
  destruct (take_char 45 s1) as [s2|]; [|discriminate].
  destruct (take_hex 4 s2) as [[b s3]|] eqn:Eb; [|discriminate].
  destruct (take_char 45 s3) as [s4|]; [|discriminate].
  destruct (take_hex 4 s4) as [[c s5]|] eqn:Ec; [|discriminate].
  destruct (take_char 45 s5) as [s6|]; [|discriminate].
  destruct (take_hex 4 s6) as [[d s7]|] eqn:Ed; [|discriminate].
  destruct (take_char 45 s7) as [s8|]; [|discriminate].
  destruct (take_hex 12 s8) as [[e s9]|] eqn:Ee; [|discriminate].
  injection Hu as Hu _. rewrite <- Hu.
  pose proof (take_hex_no_eol _ _ _ _ Ea). pose proof (take_hex_no_eol _ _ _ _ Eb).
  pose proof (take_hex_no_eol _ _ _ _ Ec). pose proof (take_hex_no_eol _ _ _ _ Ed).
  pose proof (take_hex_no_eol _ _ _ _ Ee).
  repeat (rewrite no_eol_app; apply andb_true_iff; split; [assumption|]; unfold no_eol at 1; cbn [forallb];
          change (negb ((45 =? 10)%N || (45 =? 13)%N)) with true; cbn [andb]; fold (no_eol b) (no_eol c) (no_eol d) (no_eol e)).
  assumption.
Qed.
