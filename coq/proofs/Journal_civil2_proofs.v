(* Journal_civil2_proofs.v — C06 stage 5: the other direction of the calendar arithmetic:
   every valid civil date is recovered from its day number.  One 400-year cycle of dates is checked
   by evaluation (400 x 12 x 31 candidates), lifted to all years by the periodicity lemmas. *)
From TkModel Require Import Base Dec Acct Txn Accept Journal.
From TkProofs Require Import Journal_civil_proofs.
Local Open Scope Z_scope.

Definition date_check (y m d : Z) : bool :=
  negb (md_ok y m d)
  || (let '(y', m', d') := civil_from_days (days_from_civil y m d) in (y' =? y) && (m' =? m) && (d' =? d)).
Definition months : list Z := map Z.of_nat (seq 1 12).
Definition mdays : list Z := map Z.of_nat (seq 1 31).
Definition year_check (y : Z) : bool := forallb (fun m => forallb (fun d => date_check y m d) mdays) months.
Fixpoint ysweep (n : nat) (y : Z) : bool :=
  match n with O => true | S n' => if year_check y then ysweep n' (y + 1) else false end.

Lemma ysweep_sound n : forall y, ysweep n y = true -> forall i, 0 <= i < Z.of_nat n -> year_check (y + i) = true.
Proof.
  induction n as [|n IH]; intros y H i Hi; [lia|].
  cbn [ysweep] in H. destruct (year_check y) eqn:E; [|discriminate].
  destruct (Z.eq_dec i 0) as [->|Hn]; [rewrite Z.add_0_r; exact E|].
  replace (y + i) with (y + 1 + (i - 1)) by ring. apply IH; [exact H|lia].
Qed.

Lemma dates_swept : ysweep 400 0 = true.
Proof. vm_compute. reflexivity. Qed.

Lemma in_range_list k n z : Z.of_nat k <= z < Z.of_nat (k + n) -> In z (map Z.of_nat (seq k n)).
Proof.
  intro H. apply in_map_iff. exists (Z.to_nat z). split; [apply Z2Nat.id; lia|]. apply in_seq. lia.
Qed.

Lemma md_ok_bounds y m d : md_ok y m d = true -> 1 <= m <= 12 /\ 1 <= d <= 31.
Proof.
  unfold md_ok. intro H. repeat (apply andb_true_iff in H; destruct H as [H ?]).
  apply Z.leb_le in H, H0, H1, H2.
  assert (days_in_month y m <= 31).
  { unfold days_in_month. repeat match goal with |- context [if ?b then _ else _] => destruct b end; lia. }
  lia.
Qed.

Theorem days_of_civil y m d : md_ok y m d = true -> civil_from_days (days_from_civil y m d) = (y, m, d).
Proof.
  intro Hmd. destruct (md_ok_bounds _ _ _ Hmd) as [Hm Hd].
  set (k := y / 400). set (y0 := y mod 400).
  assert (Hy : y = y0 + 400 * k) by (unfold y0, k; pose proof (Z.div_mod y 400 ltac:(lia)); lia).
  assert (Hr : 0 <= y0 < 400) by (unfold y0; apply Z.mod_pos_bound; lia).
  pose proof (ysweep_sound _ _ dates_swept y0 ltac:(lia)) as Hc. cbn [Z.add] in Hc.
  unfold year_check in Hc. rewrite forallb_forall in Hc.
  specialize (Hc m (in_range_list 1 12 m ltac:(cbn; lia))). rewrite forallb_forall in Hc.
  specialize (Hc d (in_range_list 1 31 d ltac:(cbn; lia))).
  unfold date_check in Hc. rewrite Hy in Hmd. rewrite md_ok_shift in Hmd. rewrite Hmd in Hc. cbn [negb orb] in Hc.
  rewrite Hy, days_from_civil_shift, civil_from_days_shift.
  destruct (civil_from_days (days_from_civil y0 m d)) as [[y' m'] d'].
  repeat (apply andb_true_iff in Hc; destruct Hc as [Hc ?]). apply Z.eqb_eq in Hc, H, H0. rewrite Hc, H, H0. reflexivity.
Qed.
