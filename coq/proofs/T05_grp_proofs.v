(* T05_grp_proofs.v — the balance-group text under conversion and rounding, end to end (T05_balgrp_shown):
   C13 (partition by period) + C07 + C02 + C17 + T01 composed, block by block. *)
From Coq Require Import Lia ZArith List Bool Permutation Sorted.
From TkModel Require Import Base Dec Acct Txn Balance Register Round Price Time Group ReportText T05_report.
From TkSpec Require Import Balance_spec Register_spec Round_spec Price_spec ReportText_spec T05_spec Group_spec T05_grp_spec.
From TkProofs Require Import Base_proofs Balance_proofs T05_proofs.
From TkProofs Require Order_proofs Group_proofs.
Import ListNotations.
Local Open Scope Z_scope.

(* ------------------------------------------------------------------ a period key is a line *)
Definition key_char (c : N) : Prop := c <> 10%N.

Lemma digit_key_char n : key_char (digit (n mod 10)).
Proof.
  unfold key_char, digit. pose proof (Z.mod_pos_bound n 10 ltac:(lia)) as Hb. intros E.
  apply (f_equal Z.of_N) in E. rewrite Z2N.id in E; [|lia]. change (Z.of_N 10%N) with 10 in E. lia.
Qed.

Lemma digits_rev_chars f : forall n, Forall key_char (digits_rev f n).
Proof.
  induction f as [|f IH]; intros n; cbn [digits_rev]; [constructor|]. constructor; [apply digit_key_char|].
  destruct (n / 10 =? 0); [constructor|apply IH].
Qed.

Lemma Forall_rev' {A} (P : A -> Prop) l : Forall P l -> Forall P (rev l).
Proof. intros Hf. apply Forall_forall. intros x Hx. rewrite <- in_rev in Hx. rewrite Forall_forall in Hf. apply Hf, Hx. Qed.

Lemma show_Z_chars n : Forall key_char (show_Z n).
Proof.
  unfold show_Z. destruct (n <? 0); [constructor; [discriminate|]|]; apply Forall_rev', digits_rev_chars.
Qed.

Lemma pad0_chars w s : Forall key_char s -> Forall key_char (pad0 w s).
Proof.
  intros Hs. unfold pad0. apply Forall_app. split; [|exact Hs]. apply Forall_forall. intros x Hx. apply repeat_spec in Hx. subst x. discriminate.
Qed.

Lemma period_key_chars gb z : Forall key_char (period_key gb z).
Proof.
  assert (HY : forall y, Forall key_char (fmt_Y y)) by (intros y; apply pad0_chars, show_Z_chars).
  assert (H2 : forall y, Forall key_char (fmt_02 y)) by (intros y; apply pad0_chars, show_Z_chars).
  assert (Hd : key_char dash) by discriminate. assert (HW : key_char chW) by discriminate.
  unfold period_key. destruct gb.
  - destruct (civil_of_days z) as [[y m] d]. apply HY.
  - destruct (civil_of_days z) as [[y m] d]. apply Forall_app. split; [apply HY|]. constructor; [exact Hd|apply H2].
  - destruct (civil_of_days z) as [[y m] d]. apply Forall_app. split; [apply HY|]. constructor; [exact Hd|].
    apply Forall_app. split; [apply H2|]. constructor; [exact Hd|apply H2].
  - destruct (iso_of_days z) as [[y w] wd]. apply Forall_app. split; [apply show_Z_chars|]. constructor; [exact Hd|]. constructor; [exact HW|apply H2].
  - destruct (iso_of_days z) as [[y w] wd]. apply Forall_app. split; [apply show_Z_chars|]. constructor; [exact Hd|]. constructor; [exact HW|].
    apply Forall_app. split; [apply H2|]. constructor; [exact Hd|apply show_Z_chars].
Qed.

Lemma txn_key_no_nl gb tz t : no_nl (txn_key gb tz t).
Proof.
  unfold no_nl, txn_key, instant_key. intros Hin. pose proof (period_key_chars gb (local_days (tz (h_inst (t_hdr t))) (h_inst (t_hdr t)))) as Hf.
  rewrite Forall_forall in Hf. apply (Hf _ Hin). reflexivity.
Qed.

(* the text of the groups, block by block *)
Lemma balgrp_text_blocks title sc gs :
  balgrp_txt_report title sc (map text_group gs)
  = title_lines title ++ concat (map (fun g => bal_txt_report (g_title g) sc (b_rows (g_rep g)) (b_deltas (g_rep g))) gs).
Proof. unfold balgrp_txt_report. rewrite flat_map_concat_map, map_map. reflexivity. Qed.

Lemma Forall_sub {A} (P : A -> Prop) l l' : (forall x, In x l' -> In x l) -> Forall P l -> Forall P l'.
Proof. intros Hs Hf. apply Forall_forall. intros x Hx. rewrite Forall_forall in Hf. apply Hf, Hs, Hx. Qed.

(* the rows of a balance report are the listed keys of the specification *)
Lemma bal_report_keys known ord names ps rep :
  (forall l, Permutation (ord l) l) -> Forall bpost_wf ps ->
  balance_report known ord (bal_sel_names names) ps = Some rep ->
  map r_key (b_rows rep) = listed_keys names ps.
Proof.
  intros Ho Hw Hb.
  destruct (report_delta known ord _ ps rep Ho Hw Hb) as ((rows & Er & Ef) & _).
  pose proof (balance_keys_spec known ord ps rows Ho Hw Er) as Hk.
  rewrite Ef, map_key_filter, Hk. reflexivity.
Qed.

Lemma ord_sorted_perm5 : forall l, Permutation (ord_sorted l) l.
Proof. intros l. unfold ord_sorted. apply sort_by_perm. Qed.

(* the balance report of one period inside a balance-group run, against the specification on that period *)
Lemma period_report lk rc f names input gb tzoff k rep :
  distinct_keys f -> Forall (txn_dom lk rc f) input -> bal_names_in rc input ->
  let txns := sort_txns input in
  let M := period_members (txn_key gb tzoff) txns k in
  balance_report (fun _ => true) ord_sorted (bal_sel_names names)
                 (flat_map (bal_conv (report_ctx lk rc (load_db f) input)) M) = Some rep ->
  balance_report (fun _ => true) ord_sorted (bal_sel_names names) (spec_bposts lk rc f M) = Some rep
  /\ Forall bpost_wf (spec_bposts lk rc f M) /\ Forall bpost_names_ok (spec_bposts lk rc f M).
Proof.
  intros Hdk Hdom [Hrc Hbn] txns M A.
  assert (Hsub : forall tx, In tx M -> In tx txns).
  { intros tx Hx. unfold M, period_members in Hx. apply filter_In in Hx. apply Hx. }
  assert (Hsub' : forall tx, In tx M -> In tx input).
  { intros tx Hx. apply (Permutation_in _ (Order_proofs.sort_txns_perm _)). apply Hsub, Hx. }
  assert (Hconv : flat_map (bal_conv (report_ctx lk rc (load_db f) input)) M = spec_bposts lk rc f M).
  { unfold report_ctx. exact (conv_bposts_is_spec _ _ _ _ _ Hdk Hsub). }
  rewrite Hconv in A. split; [exact A|].
  exact (spec_bposts_wf lk rc f M (Forall_sub _ _ _ Hsub' Hdom) (conj Hrc (Forall_sub _ _ _ Hsub' Hbn))).
Qed.

(* T05_balgrp_shown *)
Lemma conv_balgrp_text_shows title sc gb tzoff lk rc f names input text :
  (sc_min sc <= sc_max sc)%N -> distinct_keys f -> Forall (txn_dom lk rc f) input -> bal_names_in rc input ->
  conv_balgrp_text title sc gb tzoff lk rc (load_db f) names input = Some text ->
  balgrp_text_spec title sc gb tzoff lk rc f names input text.
Proof.
  intros Hsc Hdk Hdom Hbn Ht. unfold conv_balgrp_text in Ht.
  destruct (conv_balgrp gb tzoff lk rc (load_db f) names input) as [gs|] eqn:Eg; cbn [option_map] in Ht; [|discriminate].
  injection Ht as <-. unfold conv_balgrp, balance_group_report in Eg.
  unfold balgrp_text_spec. cbv zeta.
  exists (map (fun g => (g_title g, bal_txt_report (g_title g) sc (b_rows (g_rep g)) (b_deltas (g_rep g)))) gs).
  rewrite !map_map. cbn [fst snd].
  destruct (Group_proofs.unique_ascending _ _ _ _ _ _ _ Eg) as [Hsorted _].
  split; [apply balgrp_text_blocks|]. split; [exact Hsorted|]. split.
  - intros t Hin. destruct (Group_proofs.empty_omitted _ _ _ _ _ _ _ _ Eg Hin) as (rep & A & B & C).
    destruct (period_report lk rc f names input gb tzoff (txn_key gb tzoff t) rep Hdk Hdom Hbn A) as (A' & Hw & _).
    pose proof (bal_report_keys _ _ _ _ _ ord_sorted_perm5 Hw A') as Hk. rewrite <- Hk. split.
    + intros Hi Hn. apply (C (map_eq_nil _ _ Hn)). exact Hi.
    + intros Hn. assert (Hr : b_rows rep <> []) by (intros E; apply Hn; rewrite E; reflexivity).
      apply B in Hr. apply (in_map g_title) in Hr. exact Hr.
  - apply Forall_forall. intros kb Hkb. apply in_map_iff in Hkb. destruct Hkb as (g & <- & Hg). cbn [fst snd].
    destruct (Group_proofs.group_is_balance _ _ _ _ _ _ _ _ Eg Hg) as (A & _ & (t & Hin & Hkt)).
    split; [exists t; split; assumption|].
    destruct (period_report lk rc f names input gb tzoff (g_title g) (g_rep g) Hdk Hdom Hbn A) as (A' & Hw & Hnm).
    apply (bal_report_text_shows (fun _ => true) ord_sorted); try assumption; [apply ord_sorted_perm5|].
    rewrite <- Hkt. apply txn_key_no_nl.
Qed.
