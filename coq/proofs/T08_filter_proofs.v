(* T08_filter_proofs.v — lemmas for the C18 part of coq/props/T08.v: the filter of a run given as the TEXT of
   --api-filter-def (TkModel.T08_filter: run_console_ft / run_files_ft).  C18's codec theorems composed with the run. *)
From Coq Require Import List ZArith NArith Bool Arith Lia.
From TkModel Require Import Base Dec Acct Txn Journal Balance Register Round Price Time Group.
From TkModel Require Import ReportText T05_report PriceText Regex T06_run T06_describe T08_filter.
From TkModel Require Filter Codec MetaText.
From TkSpec Require Import T06_spec T08_spec.
From TkSpec Require Codec_spec.
From TkProofs Require Import Base_proofs T06_proofs T08_proofs.
From TkProofs Require Codec_proofs Codec_jv_proofs.
Import ListNotations.
Local Open Scope Z_scope.

(* ================================================================== the configuration with another filter *)
Lemma with_filter_filter c flt : rc_filter (with_filter c flt) = flt.
Proof. reflexivity. Qed.
Lemma with_filter_targets c flt : rc_targets (with_filter c flt) = rc_targets c.
Proof. reflexivity. Qed.
Lemma with_filter_zone c flt : rc_zone_off (with_filter c flt) = rc_zone_off c.
Proof. reflexivity. Qed.

(* ================================================================== cfilter -> tfilter -> cfilter *)
Lemma index_of_nth t tab : In t tab -> nth_error tab (N.to_nat (index_of t tab)) = Some t.
Proof.
  induction tab as [|x tab IH]; intros Hin; [destruct Hin|]. cbn [index_of].
  destruct (str_eqb t x) eqn:E.
  - apply str_eqb_eq in E. subst x. reflexivity.
  - rewrite N2Nat.inj_succ. cbn [nth_error]. apply IH. destruct Hin as [->|Hin]; [|exact Hin].
    rewrite str_eqb_refl in E. discriminate.
Qed.

Lemma mapO_nth {A B} (f : A -> option B) : forall l rs i x, mapO f l = Some rs -> nth_error l i = Some x ->
  exists y, nth_error rs i = Some y /\ f x = Some y.
Proof.
  induction l as [|a l IH]; intros rs i x Hm Hn; [destruct i; discriminate|]. cbn [mapO] in Hm.
  destruct (f a) as [b|] eqn:Ea; [|discriminate]. destruct (mapO f l) as [bs|] eqn:El; [|discriminate]. injection Hm as <-.
  destruct i as [|i]; cbn [nth_error] in *.
  - injection Hn as <-. exists b. split; [reflexivity|exact Ea].
  - exact (IH bs i x eq_refl Hn).
Qed.

Lemma uuid_hyphenated_show u : Codec_spec.uuid_wf u = true -> Codec.uuid_parse_hyphenated (Codec.uuid_show u) = Some u.
Proof.
  unfold Codec_spec.uuid_wf. intros Hw. apply andb_prop in Hw. destruct Hw as [HL HV].
  apply Nat.eqb_eq in HL. rewrite <- (Codec_proofs.c18_hex_vals_map u HV).
  assert (HL' : length (map Codec.hex_char u) = 32%nat) by now rewrite map_length.
  unfold Codec.uuid_show. generalize dependent (map Codec.hex_char u). clear. intros h HL.
  do 32 (destruct h as [|? h]; [discriminate HL|]). destruct h; [|discriminate HL].
  reflexivity.
Qed.
Lemma uuid_nibbles_show u : Codec_spec.uuid_wf u = true -> uuid_nibbles (Codec.uuid_show u) = u.
Proof. intros Hw. unfold uuid_nibbles. rewrite (uuid_hyphenated_show u Hw). reflexivity. Qed.

Section Back.
  Variable rx_ok : list N -> bool.
  Variable rx_compile : list N -> option re.
  (* the contract of the parameter: the AST is an AST OF THAT TEXT — printed by Regex.pp it is the text again *)
  Hypothesis rx_compile_text : forall t a, rx_compile t = Some a -> pp a = t.

  Lemma re_text_ix tab pats r : mapO rx_compile tab = Some pats -> In (Codec.peel_s r) tab ->
    Codec_spec.rx_wf rx_ok r = true -> re_text pats (index_of (Codec.peel_s r) tab) = r.
  Proof.
    intros Hm Hin Hw. unfold Codec_spec.rx_wf in Hw. apply andb_prop in Hw. destruct Hw as [Hw _].
    apply andb_prop in Hw. destruct Hw as [Hw _].
    destruct (mapO_nth _ _ _ _ _ Hm (index_of_nth _ _ Hin)) as (a & Hn & Ha).
    unfold re_text. rewrite Hn, (rx_compile_text _ _ Ha).
    change (wrap_text (Codec.peel_s r)) with (Codec.wrap_s (Codec.peel_s r)).
    apply Codec_proofs.c18_wrap_peel_of_wrapped. exact Hw.
  Qed.

  Lemma to_tf_of tab pats : mapO rx_compile tab = Some pats -> forall f,
    Codec_spec.cf_wf_weak rx_ok f = true -> (forall t, In t (cf_patterns f) -> In t tab) ->
    to_cfilter pats (tf_of tab f) = f.
  Proof.
    intros Hm f. induction f as [f L|fs IH|fs IH|g IH] using Codec_jv_proofs.c18_cfilter_ind; intros Hw Hsub.
    - destruct f; try contradiction; cbn [tf_of to_cfilter]; try reflexivity;
        try (rewrite (re_text_ix tab pats r Hm); [reflexivity|apply Hsub; left; reflexivity|exact Hw]).
      rewrite uuid_nibbles_show; [reflexivity|exact Hw].
    - cbn [tf_of to_cfilter]. f_equal. rewrite map_map. cbn [Codec_spec.cf_wf_weak] in Hw. cbn [cf_patterns] in Hsub.
      induction IH as [|g fs Hg _ IHfs]; [reflexivity|]. cbn [map forallb flat_map] in *.
      apply andb_prop in Hw. destruct Hw as [Hw1 Hw2]. f_equal.
      + apply Hg; [exact Hw1|]. intros t Ht. apply Hsub. apply in_or_app. left. exact Ht.
      + apply IHfs; [exact Hw2|]. intros t Ht. apply Hsub. apply in_or_app. right. exact Ht.
    - cbn [tf_of to_cfilter]. f_equal. rewrite map_map. cbn [Codec_spec.cf_wf_weak] in Hw. cbn [cf_patterns] in Hsub.
      induction IH as [|g fs Hg _ IHfs]; [reflexivity|]. cbn [map forallb flat_map] in *.
      apply andb_prop in Hw. destruct Hw as [Hw1 Hw2]. f_equal.
      + apply Hg; [exact Hw1|]. intros t Ht. apply Hsub. apply in_or_app. left. exact Ht.
      + apply IHfs; [exact Hw2|]. intros t Ht. apply Hsub. apply in_or_app. right. exact Ht.
    - cbn [tf_of to_cfilter]. f_equal. apply IH; [exact Hw|exact Hsub].
  Qed.

  (* the run configuration's filter, read back as a definition, is the definition that was parsed *)
  Lemma to_of_cfilter d tf pats : Codec_spec.cf_wf_weak rx_ok d = true ->
    of_cfilter rx_compile d = Some (tf, pats) -> to_cfilter pats tf = d.
  Proof.
    intros Hw. unfold of_cfilter. cbv zeta. destruct (mapO rx_compile (cf_patterns d)) as [ps|] eqn:Em; cbn [option_map]; [|discriminate].
    intros Hx. injection Hx as <- <-. apply (to_tf_of _ _ Em); [exact Hw|exact (fun t Ht => Ht)].
  Qed.
End Back.

(* ================================================================== what from_any accepts *)
Section Any.
  Variable rx_ok : list N -> bool.
  Variable json_parse : list N -> option Codec.jv.

  Lemma from_any_parsed t d : Codec.from_any rx_ok json_parse t = Some d -> exists j, Codec.def_of_jv rx_ok j = Some d.
  Proof.
    unfold Codec.from_any. destruct (Codec.is_armored t).
    - intros Ha. destruct (Codec_proofs.c18_armor_accepts_only rx_ok json_parse t d Ha) as (json & _ & Hj).
      unfold Codec.from_json_str in Hj. destruct (json_parse json) as [j|]; cbn [Codec.opt_bind] in Hj; [|discriminate]. exists j. exact Hj.
    - unfold Codec.from_json_str. destruct (json_parse t) as [j|]; cbn [Codec.opt_bind]; [|discriminate]. intros Hj. exists j. exact Hj.
  Qed.

  (* a JSON text of the tree of a well-formed definition is read as that definition ... *)
  Lemma from_any_json d jtext : Codec_spec.cf_wf rx_ok d = true -> json_parse jtext = Some (Codec.def_to_jv d) ->
    Codec.is_armored jtext = false -> Codec.from_any rx_ok json_parse jtext = Some d.
  Proof.
    intros Hw Hj Hna. unfold Codec.from_any, Codec.from_json_str. rewrite Hna, Hj. cbn [Codec.opt_bind].
    apply Codec_jv_proofs.c18_def_of_to_jv. exact Hw.
  Qed.
  (* ... and so is its armored form *)
  Lemma from_any_armor jtext : Codec_spec.scalars jtext ->
    Codec.from_any rx_ok json_parse (Codec.armor_tag ++ Codec.b64_enc (Codec.utf8_enc jtext))
    = Codec.from_json_str rx_ok json_parse jtext.
  Proof.
    intros Hs. unfold Codec.from_any, Codec.is_armored. rewrite Codec_proofs.c18_starts_with_app.
    apply Codec_proofs.c18_armor_eq_json. exact Hs.
  Qed.
  (* the re-serialisation of whatever was parsed is read as the same definition *)
  Lemma from_any_reserialised t f jtext' : Codec.from_any rx_ok json_parse t = Some f -> Codec_spec.cf_year0 f = true ->
    json_parse jtext' = Some (Codec.def_to_jv f) -> Codec.is_armored jtext' = false ->
    Codec.from_any rx_ok json_parse jtext' = Some f.
  Proof.
    intros Ht Hy Hj Hna. destruct (from_any_parsed _ _ Ht) as (j & Hd).
    destruct (Codec_jv_proofs.c18_fixed_point rx_ok j f Hd Hy) as [Hfix _].
    unfold Codec.from_any, Codec.from_json_str. rewrite Hna, Hj. cbn [Codec.opt_bind]. exact Hfix.
  Qed.

  (* the classes of refused texts (C18_armor_one_prefix, C18_b64_rejects, the JSON layer, C18_rejects) *)
  Lemma refused_classes :
    (forall x, Codec.from_any rx_ok json_parse (Codec.armor_tag ++ Codec.armor_tag ++ x) = None)
    /\ (forall s, (length s mod 4 <> 0)%nat \/ Exists (fun c => Codec_spec.b64_alphabet c = false /\ c <> Codec.b64_pad) s ->
          Codec.from_any rx_ok json_parse (Codec.armor_tag ++ s) = None)
    /\ (forall t, Codec.is_armored t = false -> json_parse t = None -> Codec.from_any rx_ok json_parse t = None)
    /\ (forall t j, Codec.is_armored t = false -> json_parse t = Some j -> Codec.def_of_jv rx_ok j = None ->
          Codec.from_any rx_ok json_parse t = None)
    /\ (forall t j, Codec.is_armored t = false -> json_parse t = Some j ->
          (forall x, Codec.of_jv rx_ok x <> None -> exists tag body, x = Codec.JObj [(tag, body)] /\ In tag Codec_spec.variant_names)).
  Proof.
    split; [|split; [|split; [|split]]].
    - intros x. unfold Codec.from_any, Codec.is_armored. rewrite Codec_proofs.c18_starts_with_app.
      apply (proj2 (proj2 (Codec_jv_proofs.c18_armor_exactly_one_prefix rx_ok json_parse))).
    - intros s Hbad. unfold Codec.from_any, Codec.is_armored. rewrite Codec_proofs.c18_starts_with_app.
      unfold Codec.from_armor, Codec.armor_payload, Codec.is_armored.
      rewrite Codec_proofs.c18_starts_with_app, Codec_proofs.c18_strip_prefix_app, (Codec_proofs.c18_b64_rejects s Hbad). reflexivity.
    - intros t Hna Hj. unfold Codec.from_any, Codec.from_json_str. rewrite Hna, Hj. reflexivity.
    - intros t j Hna Hj Hd. unfold Codec.from_any, Codec.from_json_str. rewrite Hna, Hj. exact Hd.
    - intros t j _ _ x Hx. destruct (Codec.of_jv rx_ok x) as [f|] eqn:E; [|contradiction].
      exact (proj1 (Codec_jv_proofs.c18_rejects rx_ok) x f E).
  Qed.
End Any.

(* ================================================================== the run *)
Section Run.
  Variable rx_ok : list N -> bool.
  Variable json_parse : list N -> option Codec.jv.
  Variable rx_compile : list N -> option re.
  Variable H : list N -> list N.
  Notation console := (run_console_ft rx_ok json_parse rx_compile H).
  Notation files := (run_files_ft rx_ok json_parse rx_compile H).
  Notation from_any := (Codec.from_any rx_ok json_parse).

  (* two definition texts that are read as the same definition (or are both refused): the same run *)
  Lemma run_ft_same_def cfg t1 t2 j p : from_any t1 = from_any t2 ->
    console cfg (Some t1) j p = console cfg (Some t2) j p /\ files cfg (Some t1) j p = files cfg (Some t2) j p.
  Proof. intros E. unfold run_console_ft, run_files_ft, cfg_ft. rewrite E. split; reflexivity. Qed.

  (* T08_filter_encodings *)
  Lemma filter_encodings cfg d jtext j p :
    Codec_spec.cf_wf rx_ok d = true -> json_parse jtext = Some (Codec.def_to_jv d) ->
    Codec_spec.scalars jtext -> Codec.is_armored jtext = false ->
    let armored := Codec.armor_tag ++ Codec.b64_enc (Codec.utf8_enc jtext) in
    from_any jtext = Some d /\ from_any armored = Some d
    /\ console cfg (Some armored) j p = console cfg (Some jtext) j p
    /\ files cfg (Some armored) j p = files cfg (Some jtext) j p
    /\ (forall t f jtext', (t = jtext \/ t = armored) -> from_any t = Some f ->
          json_parse jtext' = Some (Codec.def_to_jv f) -> Codec.is_armored jtext' = false ->
          console cfg (Some jtext') j p = console cfg (Some jtext) j p
          /\ files cfg (Some jtext') j p = files cfg (Some jtext) j p).
  Proof.
    intros Hw Hj Hs Hna. cbv zeta.
    pose proof (from_any_json rx_ok json_parse d jtext Hw Hj Hna) as H1.
    assert (H2 : from_any (Codec.armor_tag ++ Codec.b64_enc (Codec.utf8_enc jtext)) = Some d).
    { rewrite from_any_armor by exact Hs. unfold Codec.from_any in H1. rewrite Hna in H1. exact H1. }
    split; [exact H1|]. split; [exact H2|].
    assert (H3 := run_ft_same_def cfg _ _ j p (eq_trans H2 (eq_sym H1))).
    split; [apply H3|]. split; [apply H3|].
    intros t f jtext' Ht Hf Hj' Hna'.
    assert (f = d) by (destruct Ht as [->| ->]; congruence). subst f.
    apply run_ft_same_def. rewrite H1. exact (from_any_json rx_ok json_parse d jtext' Hw Hj' Hna').
  Qed.

  (* ... the re-serialisation of ANY accepted text (C18_fixed_point) *)
  Lemma filter_reserialised cfg t f jtext' j p : from_any t = Some f -> Codec_spec.cf_year0 f = true ->
    json_parse jtext' = Some (Codec.def_to_jv f) -> Codec.is_armored jtext' = false ->
    console cfg (Some jtext') j p = console cfg (Some t) j p /\ files cfg (Some jtext') j p = files cfg (Some t) j p.
  Proof.
    intros Ht Hy Hj Hna. apply run_ft_same_def. rewrite Ht. exact (from_any_reserialised rx_ok json_parse t f jtext' Ht Hy Hj Hna).
  Qed.

  (* T08_malformed_filter_no_output *)
  Lemma malformed_filter_no_output cfg t j p : from_any t = None ->
    console cfg (Some t) j p = Err E_filter_def /\ files cfg (Some t) j p = Err E_filter_def.
  Proof. intros E. unfold run_console_ft, run_files_ft, cfg_ft. rewrite E. split; reflexivity. Qed.

  (* an accepted text: the run is T06's run with the parsed definition as its filter *)
  Lemma run_ft_ok cfg t j p out : console cfg (Some t) j p = Ok out ->
    exists d tf pats, from_any t = Some d /\ of_cfilter rx_compile d = Some (tf, pats)
      /\ run_console H (with_filter cfg (Some (tf, pats))) j p = Ok out.
  Proof.
    unfold run_console_ft, cfg_ft. destruct (from_any t) as [d|] eqn:Ed; [|discriminate].
    destruct (of_cfilter rx_compile d) as [[tf pats]|] eqn:Eo; [|discriminate]. cbn [res_bind]. intros Hr.
    exists d, tf, pats. split; [reflexivity|]. split; [exact Eo|exact Hr].
  Qed.

  (* T08_filter_text_description: the Filter item printed in front of the reports describes the definition d of the text *)
  Lemma filter_text_description cfg t j p out :
    (forall s a, rx_compile s = Some a -> pp a = s) ->
    console cfg (Some t) j p = Ok out -> rc_targets cfg <> [] ->
    exists d items rest,
      from_any t = Some d
      /\ out = MetaText.meta_text (items ++ [MetaText.IFilter (MetaText.filter_lines (describe_def_tz (rc_zone_off cfg) d))])
               ++ [10%N] ++ rest.
  Proof.
    intros Hrx Hr Ht. destruct (run_ft_ok _ _ _ _ _ Hr) as (d & tf & pats & Hd & Hof & Hrun).
    destruct (from_any_parsed _ _ _ _ Hd) as (jv & Hjv).
    pose proof (Codec_jv_proofs.c18_def_parsed_wf rx_ok jv d Hjv) as Hw.
    destruct (filter_in_output H (with_filter cfg (Some (tf, pats))) j p out tf pats Hrun Ht eq_refl) as (items & rest & Hout).
    exists d, items, rest. split; [exact Hd|].
    rewrite (to_of_cfilter rx_ok rx_compile Hrx d tf pats Hw Hof) in Hout. exact Hout.
  Qed.
End Run.

(* ================================================================== non-vacuity *)
(* T06's example world with the definition  {"txnFilter":{"TxnFilterTxnDescription":{"regex":"two"}}}  — the libraries'
   tables hold what this world needs: the JSON text "{}" stands for that tree (the text layer of serde_json is a
   parameter), the pattern text "two" has the AST t.w.o *)
Definition ex_ft_def : Codec.cfilter := Codec.CDesc (Codec.wrap_s [116; 119; 111]%N).
Definition ex_ft_json (t : list N) : option Codec.jv :=
  if str_eqb t [123; 125]%N then Some (Codec.def_to_jv ex_ft_def) else None.
Definition ex_ft_rx (t : list N) : option re :=
  if str_eqb t [116; 119; 111]%N then Some (Seq (Chr 116%N) (Seq (Chr 119%N) (Chr 111%N))) else None.
Definition ex_ft_plain : list N := [123; 125]%N.                                                  (* {} *)
Definition ex_ft_armored : list N := [98;97;115;101;54;52;58;101;51;48;61]%N.                     (* base64:e30= *)
Definition ex_ft_out : list N :=
  match run_console_ft (fun _ => true) ex_ft_json ex_ft_rx ex_H ex_cfg (Some ex_ft_plain) ex_journal (Some ex_prices) with
  | Ok o => o | Err _ => [] end.

Lemma t08_filter_example :
  Codec_spec.cf_wf (fun _ => true) ex_ft_def = true /\ ex_ft_json ex_ft_plain = Some (Codec.def_to_jv ex_ft_def)
  /\ Codec.is_armored ex_ft_plain = false
  /\ ex_ft_armored = Codec.armor_tag ++ Codec.b64_enc (Codec.utf8_enc ex_ft_plain)
  /\ (forall s a, ex_ft_rx s = Some a -> pp a = s)
  /\ run_console_ft (fun _ => true) ex_ft_json ex_ft_rx ex_H ex_cfg (Some ex_ft_plain) ex_journal (Some ex_prices) = Ok ex_ft_out
  /\ run_console_ft (fun _ => true) ex_ft_json ex_ft_rx ex_H ex_cfg (Some ex_ft_armored) ex_journal (Some ex_prices) = Ok ex_ft_out
  /\ length ex_ft_out = 821%nat
  /\ run_console_ft (fun _ => true) ex_ft_json ex_ft_rx ex_H ex_cfg None ex_journal (Some ex_prices) = Ok ex_out
  (* doubled prefix, truncated base64, a text that is not JSON *)
  /\ run_console_ft (fun _ => true) ex_ft_json ex_ft_rx ex_H ex_cfg (Some (Codec.armor_tag ++ ex_ft_armored)) ex_journal (Some ex_prices) = Err E_filter_def
  /\ run_console_ft (fun _ => true) ex_ft_json ex_ft_rx ex_H ex_cfg (Some [98;97;115;101;54;52;58;101;51;48]%N) ex_journal (Some ex_prices) = Err E_filter_def
  /\ run_files_ft (fun _ => true) ex_ft_json ex_ft_rx ex_H ex_cfg (Some [123]%N) ex_journal (Some ex_prices) = Err E_filter_def.
Proof.
  split; [reflexivity|]. split; [reflexivity|]. split; [reflexivity|]. split; [vm_compute; reflexivity|].
  split.
  { intros s a. unfold ex_ft_rx. destruct (str_eqb s [116; 119; 111]%N) eqn:E; [|discriminate].
    apply str_eqb_eq in E. subst s. intros Hx. injection Hx as <-. reflexivity. }
  split; [vm_compute; reflexivity|]. split; [vm_compute; reflexivity|]. split; [vm_compute; reflexivity|].
  split; [vm_compute; reflexivity|]. split; [vm_compute; reflexivity|]. split; vm_compute; reflexivity.
Qed.
