(* Journal_time_proofs.v — C06 stage 3a: civil calendar arithmetic and the time stamp round trip. *)
From TkModel Require Import Base Dec Acct Txn Accept Journal.
From TkSpec Require Import Journal_spec.
From TkProofs Require Import Journal_base_proofs Journal_civil_proofs.
Local Open Scope Z_scope.

(* ------------------------------------------------------------------ fraction, offset *)
Lemma strip_zeros_spec R :
  exists k, rev R = rev (drop_while (fun c => (c =? 48)%N) R) ++ repeat 48%N k.
Proof.
  induction R as [|c R IH]; [exists O; reflexivity|].
  cbn [drop_while]. destruct (N.eqb_spec c 48) as [->|Hc].
  - destruct IH as [k Hk]. exists (S k). cbn [rev]. rewrite Hk, <- app_assoc.
    f_equal. cbn [repeat]. symmetry. apply repeat_cons.
  - exists O. cbn [repeat]. rewrite app_nil_r. reflexivity.
Qed.

Lemma parse_frac_print ns rest :
  0 <= ns < NS -> stopb is_digit rest = true -> stopb (fun c => (c =? 46)%N) rest = true ->
  parse_frac (print_frac ns ++ rest) = Some (ns, rest).
Proof.
  intros Hns Hrest Hdot. unfold print_frac, parse_frac.
  destruct (Z.eqb_spec ns 0) as [->|Hnz].
  - cbn [app]. destruct rest as [|c r]; [reflexivity|]. cbn [stopb] in Hdot.
    cbn [take_char]. apply negb_true_iff in Hdot. rewrite Hdot. reflexivity.
  - cbn [app take_char]. rewrite N.eqb_refl.
    assert (H9 : 0 <= ns < 10 ^ Z.of_nat 9) by (unfold NS in Hns; cbn; lia).
    destruct (pad_num_spec 9 ns H9) as (Hl & Hd & Hv).
    set (D := pad_num 9 ns) in *.
    destruct (strip_zeros_spec (rev D)) as [k Hk]. rewrite rev_involutive in Hk.
    set (f := rev (drop_while (fun c => (c =? 48)%N) (rev D))) in *.
    assert (Hf : forallb is_digit f = true).
    { rewrite Hk, forallb_app in Hd. apply andb_true_iff in Hd as [Hd _]. exact Hd. }
    rewrite (span_app is_digit f rest Hf Hrest).
    assert (Hlen : (length f + k = 9)%nat).
    { rewrite <- Hl, Hk, app_length, repeat_length. reflexivity. }
    assert (Hval : (digs_val 0 f * 10 ^ N.of_nat k)%N = digs_val 0 D).
    { transitivity (digs_val 0 (f ++ repeat 48%N k)); [rewrite digs_val_app, digs_val_zeros; reflexivity|].
      rewrite <- Hk. reflexivity. }
    assert (Hf1 : (1 <= length f)%nat).
    { destruct f as [|c f']; [|cbn [length]; lia]. exfalso. cbn [digs_val] in Hval.
      rewrite <- Hval in Hv. cbn in Hv. lia. }
    assert (H1 : Nat.leb 1 (length f) = true) by (apply Nat.leb_le; lia).
    assert (H2 : Nat.leb (length f) 9 = true) by (apply Nat.leb_le; lia).
    rewrite H1, H2. cbn [andb]. f_equal. f_equal.
    replace (9 - length f)%nat with k by lia.
    rewrite <- Hv, <- Hval, N2Z.inj_mul, N2Z.inj_pow, nat_N_Z. reflexivity.
Qed.

Lemma print_frac_stop ns : stopb is_sp (print_frac ns) = true /\ (print_frac ns = [] \/ exists r, print_frac ns = 46%N :: r).
Proof. unfold print_frac. destruct (ns =? 0); [split; [reflexivity|left; reflexivity]|split; [reflexivity|right; eexists; reflexivity]]. Qed.

Lemma off_fields off : Z.abs off <= max_off ->
  let a := Z.abs off in 0 <= a / 3600 < 10 ^ Z.of_nat 2 /\ 0 <= a / 60 mod 60 < 10 ^ Z.of_nat 2.
Proof.
  unfold max_off. intro H. cbv zeta. change (10 ^ Z.of_nat 2) with 100.
  pose proof (Z.abs_nonneg off).
  split.
  - split; [apply Z.div_pos; lia|]. apply Z.div_lt_upper_bound; lia.
  - pose proof (Z.mod_pos_bound (Z.abs off / 60) 60 ltac:(lia)). lia.
Qed.

Lemma parse_zone_print cfg off rest :
  off mod 60 = 0 -> Z.abs off <= max_off ->
  parse_zone cfg (print_off off ++ rest) = Some (off, rest).
Proof.
  intros Hm Ha. destruct (off_fields off Ha) as [Hh Hmi].
  unfold print_off.
  assert (Ham : Z.abs off mod 60 = 0).
  { destruct (Z.abs_spec off) as [[_ ->]|[_ ->]]; [exact Hm|].
    apply Z.mod_opp_l_z; [lia|exact Hm]. }
  rewrite Ham. cbn [Z.eqb]. rewrite app_nil_r.
  set (a := Z.abs off) in *.
  assert (Hdec : a = a / 3600 * 3600 + (a / 60 mod 60) * 60).
  { pose proof (Z.div_mod a 60 ltac:(lia)).
    pose proof (Z.div_mod (a / 60) 60 ltac:(lia)).
    replace (a / 3600) with (a / 60 / 60) by (rewrite Z.div_div by lia; reflexivity). lia. }
  unfold parse_zone.
  destruct (off <? 0) eqn:Eneg.
  - cbn [app]. change (45 =? 90)%N with false. change ((45 =? 43)%N || (45 =? 45)%N) with true. cbv iota.
    rewrite <- app_assoc. rewrite (take_digits_pad 2 _ _ Hh). cbn [app take_char]. rewrite N.eqb_refl.
    rewrite (take_digits_pad 2 _ _ Hmi). change (45 =? 45)%N with true. cbv iota.
    apply Z.ltb_lt in Eneg.
    assert (Hoff : -1 * (a / 3600 * 3600 + a / 60 mod 60 * 60) = off) by (rewrite <- Hdec; subst a; lia).
    rewrite Hoff. apply Z.leb_le in Ha. fold a. rewrite Ha. reflexivity.
  - cbn [app]. change (43 =? 90)%N with false. change ((43 =? 43)%N || (43 =? 45)%N) with true. cbv iota.
    rewrite <- app_assoc. rewrite (take_digits_pad 2 _ _ Hh). cbn [app take_char]. rewrite N.eqb_refl.
    rewrite (take_digits_pad 2 _ _ Hmi). change (43 =? 45)%N with false. cbv iota.
    apply Z.ltb_ge in Eneg.
    assert (Hoff : 1 * (a / 3600 * 3600 + a / 60 mod 60 * 60) = off) by (rewrite <- Hdec; subst a; lia).
    rewrite Hoff. apply Z.leb_le in Ha. fold a. rewrite Ha. reflexivity.
Qed.

Lemma print_off_head off : exists c r, print_off off = c :: r /\ is_digit c = false /\ (c =? 46)%N = false.
Proof. unfold print_off. destruct (off <? 0); eexists _, _; (split; [reflexivity|split; reflexivity]). Qed.

(* ------------------------------------------------------------------ the time stamp *)
Lemma ts_ok_parts inst off : ts_ok inst off = true ->
  off mod 60 = 0 /\ Z.abs off <= max_off
  /\ (let '(y, _, _) := civil_from_days ((inst + off * NS) / DAY_NS) in 0 <= y <= 9999)
  /\ min_unix_s * NS <= inst < (max_unix_s + 1) * NS.
Proof.
  unfold ts_ok. intro H. repeat (apply andb_true_iff in H; destruct H as [H ?]).
  split; [apply Z.eqb_eq; exact H|]. split; [apply Z.leb_le; assumption|].
  split.
  - destruct (civil_from_days _) as [[y m] d]. apply andb_true_iff in H2 as [Ha Hb].
    split; apply Z.leb_le; assumption.
  - split; [apply Z.leb_le; assumption|apply Z.ltb_lt; assumption].
Qed.

Theorem ts_roundtrip cfg inst off rest :
  ts_ok inst off = true ->
  parse_ts cfg (print_ts inst off ++ rest) = Some (inst, off, rest).
Proof.
  intro Hok. destruct (ts_ok_parts _ _ Hok) as (Hm & Ha & Hy & Hlo & Hhi).
  unfold print_ts.
  set (loc := inst + off * NS) in *.
  pose proof (civil_of_days (loc / DAY_NS)) as Hciv.
  destruct (civil_from_days (loc / DAY_NS)) as [[y m] d].
  destruct Hciv as [Hmd Hdays].
  unfold md_ok in Hmd. repeat (apply andb_true_iff in Hmd; destruct Hmd as [Hmd ?]).
  apply Z.leb_le in Hmd, H, H0, H1.
  assert (Hdim : days_in_month y m <= 31).
  { unfold days_in_month. repeat match goal with |- context [if ?b then _ else _] => destruct b end; lia. }
  assert (HNS : NS = 1000000000) by reflexivity.
  assert (HDAY : DAY_NS = 86400 * NS) by reflexivity.
  set (tod := loc mod DAY_NS).
  assert (Htod : 0 <= tod < DAY_NS) by (apply Z.mod_pos_bound; rewrite HDAY, HNS; lia).
  set (secs := tod / NS).
  assert (Hsecs : 0 <= secs < 86400).
  { subst secs. split; [apply Z.div_pos; lia|]. apply Z.div_lt_upper_bound; lia. }
  set (ns := tod mod NS).
  assert (Hns : 0 <= ns < NS) by (apply Z.mod_pos_bound; lia).
  assert (F4 : 0 <= y < 10 ^ Z.of_nat 4) by (change (10 ^ Z.of_nat 4) with 10000; lia).
  assert (F2m : 0 <= m < 10 ^ Z.of_nat 2) by (change (10 ^ Z.of_nat 2) with 100; lia).
  assert (F2d : 0 <= d < 10 ^ Z.of_nat 2) by (change (10 ^ Z.of_nat 2) with 100; lia).
  assert (F2h : 0 <= secs / 3600 < 10 ^ Z.of_nat 2).
  { change (10 ^ Z.of_nat 2) with 100. split; [apply Z.div_pos; lia|]. apply Z.div_lt_upper_bound; lia. }
  assert (F2mi : 0 <= secs / 60 mod 60 < 10 ^ Z.of_nat 2).
  { change (10 ^ Z.of_nat 2) with 100. pose proof (Z.mod_pos_bound (secs / 60) 60 ltac:(lia)). lia. }
  assert (F2s : 0 <= secs mod 60 < 10 ^ Z.of_nat 2).
  { change (10 ^ Z.of_nat 2) with 100. pose proof (Z.mod_pos_bound secs 60 ltac:(lia)). lia. }
  assert (Hvalid : valid_date y m d = true).
  { unfold valid_date. repeat (apply andb_true_iff; split); apply Z.leb_le; lia. }
  unfold parse_ts.
  repeat rewrite <- app_assoc. cbn [app].
  rewrite (take_digits_pad 4 _ _ F4). cbn [take_char]. rewrite N.eqb_refl. cbv iota.
  repeat rewrite <- app_assoc. cbn [app].
  rewrite (take_digits_pad 2 _ _ F2m). cbn [take_char]. rewrite N.eqb_refl. cbv iota.
  repeat rewrite <- app_assoc. cbn [app].
  rewrite (take_digits_pad 2 _ _ F2d).
  rewrite Hvalid. cbn [negb take_char]. rewrite N.eqb_refl. cbv iota.
  repeat rewrite <- app_assoc. cbn [app].
  rewrite (take_digits_pad 2 _ _ F2h). cbn [take_char]. rewrite N.eqb_refl. cbv iota.
  repeat rewrite <- app_assoc. cbn [app].
  rewrite (take_digits_pad 2 _ _ F2mi). cbn [take_char]. rewrite N.eqb_refl. cbv iota.
  repeat rewrite <- app_assoc. cbn [app].
  rewrite (take_digits_pad 2 _ _ F2s).
  assert (Hhms : (secs / 3600 <=? 23) && (secs / 60 mod 60 <=? 59) && (secs mod 60 <=? 59) = true).
  { repeat (apply andb_true_iff; split); apply Z.leb_le.
    - assert (secs / 3600 < 24) by (apply Z.div_lt_upper_bound; lia). lia.
    - pose proof (Z.mod_pos_bound (secs / 60) 60 ltac:(lia)). lia.
    - pose proof (Z.mod_pos_bound secs 60 ltac:(lia)). lia. }
  rewrite Hhms. cbn [negb].
  destruct (print_off_head off) as (c0 & r0 & Eoff & Hc0 & Hc0').
  assert (Hst1 : stopb is_digit (print_off off ++ rest) = true) by (rewrite Eoff; cbn [app stopb]; rewrite Hc0; reflexivity).
  assert (Hst2 : stopb (fun c => (c =? 46)%N) (print_off off ++ rest) = true) by (rewrite Eoff; cbn [app stopb]; rewrite Hc0'; reflexivity).
  fold ns. rewrite (parse_frac_print ns _ Hns Hst1 Hst2).
  rewrite (parse_zone_print cfg off rest Hm Ha).
  (* the instant *)
  assert (Hsod : secs / 3600 * 3600 + secs / 60 mod 60 * 60 + secs mod 60 = secs).
  { pose proof (Z.div_mod secs 60 ltac:(lia)). pose proof (Z.div_mod (secs / 60) 60 ltac:(lia)).
    replace (secs / 3600) with (secs / 60 / 60) by (rewrite Z.div_div by lia; reflexivity). lia. }
  unfold mk_instant. rewrite Hdays, Hsod.
  assert (Hinst : (loc / DAY_NS * 86400 + secs - off) * NS + ns = inst).
  { pose proof (Z.div_mod loc DAY_NS ltac:(lia)). pose proof (Z.div_mod tod NS ltac:(lia)).
    fold tod in H2. fold secs ns in H3. subst loc. rewrite HDAY in *. lia. }
  assert (Hrange : (min_unix_s <=? loc / DAY_NS * 86400 + secs - off) && (loc / DAY_NS * 86400 + secs - off <=? max_unix_s) = true).
  { apply andb_true_iff. split; apply Z.leb_le; nia. }
  rewrite Hrange, Hinst. reflexivity.
Qed.

(* the printed time stamp starts with a digit (the header line is not blank) and has no line ends *)
Lemma pad_num_chars w z : forallb is_digit (pad_num w z) = true.
Proof.
  unfold pad_num. destruct (digits_N_spec (Z.to_N z)) as [_ Hd].
  destruct (pad_left_spec w _ Hd) as (_ & H & _). exact H.
Qed.

Definition ts_char (c : N) : bool := is_digit c || (c =? 45)%N || (c =? 84)%N || (c =? 58)%N || (c =? 46)%N || (c =? 43)%N.

Lemma digits_ts_chars l : forallb is_digit l = true -> forallb ts_char l = true.
Proof. apply forallb_impl. intros x Hx. unfold ts_char. rewrite Hx. reflexivity. Qed.

Lemma print_ts_chars inst off : forallb ts_char (print_ts inst off) = true.
Proof.
  unfold print_ts. destruct (civil_from_days _) as [[y m] d].
  repeat (rewrite forallb_app || cbn [forallb]).
  rewrite !(digits_ts_chars _ (pad_num_chars _ _)).
  assert (Hf : forallb ts_char (print_frac ((inst + off * NS) mod DAY_NS mod NS)) = true).
  { unfold print_frac. destruct (_ =? 0); [reflexivity|]. cbn [forallb].
    change (ts_char 46) with true. cbn [andb]. apply digits_ts_chars.
    rewrite forallb_rev.
    assert (Hd : forall R, forallb is_digit R = true -> forallb is_digit (drop_while (fun c => (c =? 48)%N) R) = true).
    { induction R as [|c R IH]; [reflexivity|]. cbn [drop_while forallb]. intro H.
      destruct (c =? 48)%N; [|exact H]. apply andb_true_iff in H as [_ H]. exact (IH H). }
    apply Hd. rewrite forallb_rev. apply pad_num_chars. }
  assert (Ho : forallb ts_char (print_off off) = true).
  { unfold print_off. cbn [forallb]. repeat (rewrite forallb_app || cbn [forallb]).
    rewrite !(digits_ts_chars _ (pad_num_chars _ _)).
    destruct (off <? 0); destruct (_ =? 0); cbn [forallb]; try rewrite !(digits_ts_chars _ (pad_num_chars _ _)); reflexivity. }
  rewrite Hf, Ho. reflexivity.
Qed.

Lemma print_ts_head inst off : exists c r, print_ts inst off = c :: r /\ is_digit c = true.
Proof.
  unfold print_ts. destruct (civil_from_days _) as [[y m] d].
  pose proof (pad_num_chars 4 y) as Hd.
  unfold pad_num, pad_left in *.
  destruct (digits_N (Z.to_N y)) as [|c0 l0] eqn:E.
  - cbn. eexists _, _. split; reflexivity.
  - remember (repeat 48%N (4 - length (c0 :: l0))) as zs. destruct zs as [|z zs'].
    + cbn [app] in *. cbn [forallb] in Hd. apply andb_true_iff in Hd as [Hc _].
      eexists _, _. split; [reflexivity|exact Hc].
    + cbn [app] in *. cbn [forallb] in Hd. apply andb_true_iff in Hd as [Hc _].
      eexists _, _. split; [reflexivity|exact Hc].
Qed.
