(* Price_proofs.v — lemmas for C07 (price conversion). *)
From Coq Require Import Permutation Sorted.
From TkModel Require Import Base Dec Acct Txn Price.
From TkSpec Require Import Price_spec.
From TkProofs Require Import Base_proofs Dec_proofs.
Local Open Scope Z_scope.

(* ------------------------------------------------------------------ *)
(* A. the order of price entries *)

Lemma c07_Zcompare_ord : cmp_ord Z.compare.
Proof.
  constructor.
  - intros a b. apply Z.compare_antisym.
  - intros a b c H1 H2. rewrite Z.compare_lt_iff in *. lia.
  - intros a b c H. apply Z.compare_eq in H. subst. reflexivity.
Qed.

Lemma pe_cmp_ord : cmp_ord pe_cmp.
Proof.
  unfold pe_cmp.
  apply (cmp_ord_lex (fun a b => Z.compare (pe_ts a) (pe_ts b))
                     (fun a b => cmp_then (str_cmp (pe_base a) (pe_base b)) (str_cmp (pe_eq a) (pe_eq b)))).
  - apply (cmp_ord_preimage pe_ts Z.compare c07_Zcompare_ord).
  - apply (cmp_ord_lex (fun a b => str_cmp (pe_base a) (pe_base b)) (fun a b => str_cmp (pe_eq a) (pe_eq b))).
    + apply (cmp_ord_preimage pe_base str_cmp str_cmp_ord).
    + apply (cmp_ord_preimage pe_eq str_cmp str_cmp_ord).
Qed.

Lemma pe_leb_total a b : pe_leb a b = false -> pe_leb b a = true.
Proof. apply (co_leb_total pe_cmp pe_cmp_ord). Qed.
Lemma pe_leb_trans a b c : pe_leb a b = true -> pe_leb b c = true -> pe_leb a c = true.
Proof. apply (co_leb_trans pe_cmp pe_cmp_ord). Qed.

Lemma pe_cmp_eq_key a b : pe_cmp a b = Eq <-> pe_key a = pe_key b.
Proof.
  unfold pe_cmp, pe_key, cmp_then. split.
  - destruct (pe_ts a ?= pe_ts b) eqn:E1; try discriminate.
    destruct (str_cmp (pe_base a) (pe_base b)) eqn:E2; try discriminate. intros E3.
    apply Z.compare_eq in E1. apply str_cmp_eq in E2, E3. congruence.
  - intros H. inversion H as [[H1 H2 H3]]. rewrite Z.compare_refl, !str_cmp_refl. reflexivity.
Qed.

Lemma pe_eqb_key a b : pe_eqb a b = true <-> pe_key a = pe_key b.
Proof.
  unfold pe_eqb, pe_key. rewrite !andb_true_iff, Z.eqb_eq, !str_eqb_eq. split.
  - intros [[H1 H2] H3]. congruence.
  - intros H. inversion H. auto.
Qed.

Lemma pe_leb_ts a b : pe_leb a b = true -> pe_ts a <= pe_ts b.
Proof.
  unfold pe_leb, pe_cmp, cmp_then, cmp_leb. destruct (pe_ts a ?= pe_ts b) eqn:E.
  - apply Z.compare_eq in E. lia.
  - rewrite Z.compare_lt_iff in E. lia.
  - discriminate.
Qed.

Lemma pe_cmp_lt_asym a b : pe_cmp a b = Lt -> pe_cmp b a = Lt -> False.
Proof. intros H1 H2. rewrite (co_opp _ pe_cmp_ord) in H1. rewrite H2 in H1. discriminate. Qed.

(* ------------------------------------------------------------------ *)
(* B. loading the price file *)

Lemma coalesce_in {A} (eqb : A -> A -> bool) l : forall last x,
  In x (coalesce_dedup eqb last l) -> x = last \/ In x l.
Proof.
  induction l as [|y l IH]; intros last x H; cbn [coalesce_dedup] in H.
  - destruct H as [H|[]]. left. congruence.
  - destruct (eqb last y).
    + destruct (IH _ _ H) as [E|Hin]; [left; exact E|right; right; exact Hin].
    + destruct H as [H|H]; [left; congruence|].
      destruct (IH _ _ H) as [E|Hin]; [right; left; congruence|right; right; exact Hin].
Qed.

Lemma dedup_adj_in {A} (eqb : A -> A -> bool) l x : In x (dedup_adj eqb l) -> In x l.
Proof.
  destruct l as [|y l]; [intros []|]. cbn [dedup_adj]. intros H.
  destruct (coalesce_in _ _ _ _ H) as [E|Hin]; [left; congruence|right; exact Hin].
Qed.

Lemma load_db_in f e : In e (load_db f) -> In e f.
Proof. unfold load_db. intros H. apply dedup_adj_in in H. apply sort_by_in in H. exact H. Qed.

Lemma coalesce_id l : forall x, NoDup (map pe_key (x :: l)) -> coalesce_dedup pe_eqb x l = x :: l.
Proof.
  induction l as [|y l IH]; intros x Hnd; cbn [coalesce_dedup]; [reflexivity|].
  destruct (pe_eqb x y) eqn:E.
  - apply pe_eqb_key in E. exfalso. cbn [map] in Hnd. inversion Hnd as [|? ? Hni _]; subst.
    apply Hni. left. congruence.
  - f_equal. apply IH. cbn [map] in Hnd. inversion Hnd; assumption.
Qed.

Lemma dedup_adj_id l : NoDup (map pe_key l) -> dedup_adj pe_eqb l = l.
Proof. destruct l as [|x l]; [reflexivity|]. apply coalesce_id. Qed.

Lemma load_db_distinct f : distinct_keys f -> load_db f = sort_by pe_leb f.
Proof.
  unfold distinct_keys, load_db. intros H. apply dedup_adj_id.
  apply (Permutation_NoDup (l := map pe_key f)); [|exact H].
  apply Permutation_map. apply Permutation_sym. apply sort_by_perm.
Qed.

Definition ts_sorted (l : list pentry) : Prop := StronglySorted (fun a b => pe_ts a <= pe_ts b) l.

Lemma sort_pe_sorted f : StronglySorted (fun a b => pe_leb a b = true) (sort_by pe_leb f).
Proof. apply sort_by_sorted; [exact pe_leb_total|exact pe_leb_trans]. Qed.

Lemma load_db_ts_sorted f : distinct_keys f -> ts_sorted (load_db f).
Proof.
  intros H. rewrite (load_db_distinct f H). unfold ts_sorted.
  apply (StronglySorted_impl (fun a b => pe_leb a b = true)); [|apply sort_pe_sorted].
  intros a b _ _. apply pe_leb_ts.
Qed.

Lemma load_db_in_iff f e : distinct_keys f -> (In e (load_db f) <-> In e f).
Proof. intros H. rewrite (load_db_distinct f H). apply sort_by_in. Qed.

(* sorted + distinct keys = strictly sorted *)
Lemma sorted_nodup_key_strict {A K} (key : A -> K) (R : A -> A -> Prop) l :
  StronglySorted R l -> NoDup (map key l) -> StronglySorted (fun a b => R a b /\ key a <> key b) l.
Proof.
  induction 1 as [|x l Hs IH Hf]; intros Hnd; constructor.
  - apply IH. cbn [map] in Hnd. inversion Hnd; assumption.
  - cbn [map] in Hnd. inversion Hnd as [|? ? Hni _]; subst. rewrite Forall_forall in *.
    intros y Hy. split; [apply Hf; exact Hy|]. intros E. apply Hni. rewrite E. apply in_map. exact Hy.
Qed.

Lemma sort_pe_strict f : distinct_keys f -> StronglySorted (fun a b => pe_cmp a b = Lt) (sort_by pe_leb f).
Proof.
  intros H.
  apply (StronglySorted_impl (fun a b => pe_leb a b = true /\ pe_key a <> pe_key b)).
  - intros a b _ _ [H1 H2]. unfold pe_leb, cmp_leb in H1. destruct (pe_cmp a b) eqn:E; [|reflexivity|discriminate].
    apply pe_cmp_eq_key in E. contradiction.
  - apply sorted_nodup_key_strict; [apply sort_pe_sorted|].
    apply (Permutation_NoDup (l := map pe_key f)); [|exact H].
    apply Permutation_map, Permutation_sym, sort_by_perm.
Qed.

(* the loaded data base does not depend on the order of the lines *)
Lemma load_db_perm f f' : Permutation f f' -> distinct_keys f -> load_db f = load_db f'.
Proof.
  intros Hp Hd.
  assert (distinct_keys f') as Hd'.
  { unfold distinct_keys in *. apply (Permutation_NoDup (l := map pe_key f)); [|exact Hd].
    apply Permutation_map. exact Hp. }
  rewrite (load_db_distinct f Hd), (load_db_distinct f' Hd').
  apply (sorted_perm_unique (fun a b => pe_cmp a b = Lt)).
  - exact pe_cmp_lt_asym.
  - apply sort_pe_strict. exact Hd.
  - apply sort_pe_strict. exact Hd'.
  - transitivity f; [apply sort_by_perm|]. transitivity f'; [exact Hp|apply Permutation_sym, sort_by_perm].
Qed.

(* ------------------------------------------------------------------ *)
(* C. association lists, the two caches, the search *)

Lemma assoc_get_upsert {V} k (v : V) m c :
  assoc_get c (upsert k v m) = if str_eqb c k then Some v else assoc_get c m.
Proof.
  induction m as [|[k' v'] m IH]; cbn [upsert assoc_get].
  - reflexivity.
  - destruct (str_eqb k k') eqn:E; cbn [assoc_get].
    + apply str_eqb_eq in E. subst k'. destruct (str_eqb c k); reflexivity.
    + rewrite IH. destruct (str_eqb c k') eqn:E2; [|reflexivity].
      apply str_eqb_eq in E2. subst k'. rewrite str_eqb_sym, E. reflexivity.
Qed.

(* the last element of a list that satisfies P *)
Fixpoint last_sat {A} (P : A -> bool) (l : list A) : option A :=
  match l with
  | [] => None
  | e :: l' => match last_sat P l' with
               | Some x => Some x
               | None => if P e then Some e else None
               end
  end.

Lemma last_sat_none {A} (P : A -> bool) l : last_sat P l = None <-> forall e, In e l -> P e = false.
Proof.
  induction l as [|x l IH]; cbn [last_sat].
  - split; [intros _ e []|reflexivity].
  - destruct (last_sat P l) eqn:E.
    + split; [discriminate|]. intros H. exfalso.
      assert (Some a = None) as C by (apply IH; intros e He; apply H; right; exact He). discriminate.
    + destruct (P x) eqn:Px.
      * split; [discriminate|]. intros H. rewrite H in Px by (left; reflexivity). discriminate.
      * split; [|reflexivity]. intros _ e [He|He]; [subst; exact Px|]. apply IH; [reflexivity|exact He].
Qed.

Lemma last_sat_ext {A} (P Q : A -> bool) l : (forall e, In e l -> P e = Q e) -> last_sat P l = last_sat Q l.
Proof.
  induction l as [|x l IH]; intros H; cbn [last_sat]; [reflexivity|].
  rewrite IH by (intros e He; apply H; right; exact He).
  rewrite (H x) by (left; reflexivity). reflexivity.
Qed.

Lemma last_sat_some {A} (P : A -> bool) l e : last_sat P l = Some e -> In e l /\ P e = true.
Proof.
  induction l as [|x l IH]; cbn [last_sat]; [discriminate|].
  destruct (last_sat P l) eqn:E.
  - intros H. inversion H; subst. destruct (IH eq_refl) as [H1 H2]. split; [right; exact H1|exact H2].
  - destruct (P x) eqn:Px; [|discriminate]. intros H. inversion H; subst. split; [left; reflexivity|exact Px].
Qed.

Lemma last_sat_max P l e : ts_sorted l -> last_sat P l = Some e ->
  forall e', In e' l -> P e' = true -> pe_ts e' <= pe_ts e.
Proof.
  unfold ts_sorted. induction 1 as [|x l Hs IH Hf]; cbn [last_sat]; [discriminate|].
  rewrite Forall_forall in Hf.
  destruct (last_sat P l) eqn:E.
  - intros H e' [He'|He'] Pe'; inversion H; subst.
    + apply Hf. apply (last_sat_some P l e E).
    + apply IH; [reflexivity|exact He'|exact Pe'].
  - destruct (P x) eqn:Px; [|discriminate]. intros H e' [He'|He'] Pe'; inversion H; subst.
    + lia.
    + rewrite (proj1 (last_sat_none P l) E e' He') in Pe'. discriminate.
Qed.

(* Cache::Fixed *)
Lemma fixed_cache_get_gen used tgt ref c db : forall m,
  assoc_get c (fold_left (fun m e => if fixed_keep used tgt ref e
                                     then upsert (pe_base e) (pe_ts e, pe_rate e) m else m) db m)
  = match last_sat (fun e => fixed_keep used tgt ref e && str_eqb c (pe_base e)) db with
    | Some e => Some (pe_ts e, pe_rate e)
    | None => assoc_get c m
    end.
Proof.
  induction db as [|x db IH]; intros m; cbn [fold_left last_sat]; [reflexivity|].
  rewrite IH.
  destruct (last_sat (fun e => fixed_keep used tgt ref e && str_eqb c (pe_base e)) db); [reflexivity|].
  destruct (fixed_keep used tgt ref x); cbn [andb]; [|reflexivity].
  rewrite assoc_get_upsert. destruct (str_eqb c (pe_base x)); reflexivity.
Qed.

Lemma fixed_cache_get used tgt ref c db :
  assoc_get c (fixed_cache used tgt ref db)
  = match last_sat (fun e => fixed_keep used tgt ref e && str_eqb c (pe_base e)) db with
    | Some e => Some (pe_ts e, pe_rate e)
    | None => None
    end.
Proof. unfold fixed_cache. rewrite fixed_cache_get_gen. reflexivity. Qed.

(* the model's condition on an entry, for commodity c *)
Definition model_time (lk : lookup) (t : Z) (e : pentry) : bool :=
  match lk with
  | LkTxnTime => pe_ts e <=? t
  | LkGivenTime r => pe_ts e <? r
  | LkLastPrice => true
  | LkNone => false
  end.
Definition mcand (lk : lookup) (tgt c : list N) (t : Z) (e : pentry) : bool :=
  str_eqb (pe_base e) c && str_eqb (pe_eq e) tgt && model_time lk t e.

Lemma mem_str_in c l : mem_str c l = true <-> In c l.
Proof.
  unfold mem_str. rewrite existsb_exists. split.
  - intros [x [Hx E]]. apply str_eqb_eq in E. subst. exact Hx.
  - intros H. exists c. split; [exact H|apply str_eqb_refl].
Qed.

Lemma fixed_keep_mcand used tgt ref c e : mem_str c used = true -> c <> tgt ->
  fixed_keep used tgt ref e && str_eqb c (pe_base e)
  = str_eqb (pe_base e) c && str_eqb (pe_eq e) tgt && before_ref ref e.
Proof.
  intros Hu Hne. apply str_eqb_neq in Hne. unfold fixed_keep. rewrite (str_eqb_sym c (pe_base e)).
  destruct (str_eqb (pe_base e) c) eqn:E.
  - apply str_eqb_eq in E. rewrite E, Hu, Hne. cbn [andb negb]. rewrite !andb_true_r. reflexivity.
  - rewrite andb_false_r. reflexivity.
Qed.

(* Cache::Timed *)
Lemma timed_cache_get used tgt db c :
  assoc_get c (timed_cache used tgt db)
  = if mem_str c used then match comm_cache tgt c db with [] => None | cc => Some cc end else None.
Proof.
  unfold timed_cache. induction used as [|a used IH]; cbn [flat_map mem_str existsb]; [reflexivity|].
  fold (mem_str c used).
  destruct (str_eqb c a) eqn:E; cbn [orb].
  - apply str_eqb_eq in E. subst a.
    destruct (comm_cache tgt c db) as [|x cc] eqn:Ec; cbn [app].
    + rewrite IH. destruct (mem_str c used); reflexivity.
    + cbn [assoc_get]. rewrite str_eqb_refl. reflexivity.
  - destruct (comm_cache tgt a db) as [|x cc]; cbn [app]; [exact IH|].
    cbn [assoc_get]. rewrite E. exact IH.
Qed.

Lemma ts_leb_total a b : ts_leb a b = false -> ts_leb b a = true.
Proof. unfold ts_leb. rewrite Z.leb_gt, Z.leb_le. lia. Qed.
Lemma ts_leb_trans a b c : ts_leb a b = true -> ts_leb b c = true -> ts_leb a c = true.
Proof. unfold ts_leb. rewrite !Z.leb_le. lia. Qed.

Lemma comm_cache_sorted tgt c db : ts_sorted (comm_cache tgt c db).
Proof.
  unfold comm_cache, ts_sorted.
  apply (StronglySorted_impl (fun a b => ts_leb a b = true)).
  - intros a b _ _. unfold ts_leb. apply Z.leb_le.
  - apply sort_by_sorted; [exact ts_leb_total|exact ts_leb_trans].
Qed.

Lemma comm_cache_in_fwd tgt c db e :
  In e (comm_cache tgt c db) -> In e db /\ pe_base e = c /\ pe_eq e = tgt.
Proof.
  unfold comm_cache. rewrite sort_by_in, filter_In, !andb_true_iff, !str_eqb_eq.
  intros [H1 [[H2 H3] _]]. repeat split; congruence.
Qed.

Lemma comm_cache_ne tgt c db e : In e (comm_cache tgt c db) -> c <> tgt.
Proof.
  unfold comm_cache. rewrite sort_by_in, filter_In, !andb_true_iff, !str_eqb_eq, negb_true_iff, str_eqb_neq.
  intros [_ [[H2 _] H4]]. congruence.
Qed.

Lemma comm_cache_in_bwd tgt c db e :
  c <> tgt -> In e db -> pe_base e = c -> pe_eq e = tgt -> In e (comm_cache tgt c db).
Proof.
  unfold comm_cache. rewrite sort_by_in, filter_In, !andb_true_iff, !str_eqb_eq, negb_true_iff, str_eqb_neq.
  intros H0 H1 H2 H3. repeat split; congruence.
Qed.

(* the search, on a list sorted by instant whose entries all have base commodity c *)
Lemma search_le_spec t c l : forall prev,
  ts_sorted l -> (forall e, In e l -> pe_base e = c) ->
  (search_le (key_cmp_entry t c) l prev = prev /\ forall e, In e l -> t < pe_ts e)
  \/ (exists e, search_le (key_cmp_entry t c) l prev = Some e /\ In e l /\ pe_ts e <= t /\
                forall e', In e' l -> pe_ts e' <= t -> pe_ts e' <= pe_ts e).
Proof.
  unfold ts_sorted. induction l as [|x l IH]; intros prev Hs Hb; cbn [search_le].
  - left. split; [reflexivity|intros e []].
  - inversion Hs as [|? ? Hs' Hf]; subst. rewrite Forall_forall in Hf.
    assert (key_cmp_entry t c x = (pe_ts x ?= t)) as Ek.
    { unfold key_cmp_entry. rewrite (Hb x (or_introl eq_refl)), str_cmp_refl.
      unfold cmp_then. destruct (pe_ts x ?= t); reflexivity. }
    rewrite Ek. destruct (pe_ts x ?= t) eqn:E.
    + apply Z.compare_eq in E. right. exists x. split; [reflexivity|]. split; [left; reflexivity|].
      split; [lia|]. intros e' _ H. lia.
    + rewrite Z.compare_lt_iff in E.
      destruct (IH (Some x) Hs' (fun e He => Hb e (or_intror He))) as [[H1 H2]|[e [H1 [H2 [H3 H4]]]]].
      * right. exists x. split; [exact H1|]. split; [left; reflexivity|]. split; [lia|].
        intros e' [He'|He'] Hle; [subst; lia|]. specialize (H2 e' He'). lia.
      * right. exists e. split; [exact H1|]. split; [right; exact H2|]. split; [exact H3|].
        intros e' [He'|He'] Hle; [subst e'; apply Hf; exact H2|apply H4; assumption].
    + rewrite Z.compare_gt_iff in E. left. split; [reflexivity|].
      intros e [He|He]; [subst; lia|]. specialize (Hf e He). lia.
Qed.

(* ------------------------------------------------------------------ *)
(* D. conversion of one posting, on a loaded data base *)

Lemma used_commodities_in txns c : mem_str c (used_commodities txns) = true <-> In c (posting_comms txns).
Proof.
  rewrite mem_str_in. unfold used_commodities, posting_comms. split.
  - intros H. apply dedup_by_incl in H. apply sort_by_in in H. exact H.
  - intros H. apply dedup_by_complete.
    + intros x y _ _ E. apply str_eqb_eq. exact E.
    + apply sort_by_in. exact H.
Qed.

Lemma convert_post_target cch tgt t p : p_comm p = tgt -> convert_post cch tgt t p = unconverted p.
Proof.
  intros E. unfold convert_post. destruct (p_comm p) eqn:Ec; [reflexivity|].
  rewrite <- E, str_eqb_refl. reflexivity.
Qed.

Lemma convert_post_nonempty cch tgt t p : p_comm p <> [] -> p_comm p <> tgt ->
  convert_post cch tgt t p =
  match cch with
  | CFixed m =>
      match assoc_get (p_comm p) m with
      | Some (_, r) => mkConv (p_acc p) tgt (dmul (p_amount p) r) None
      | None => unconverted p
      end
  | CTimed m =>
      match assoc_get (p_comm p) m with
      | Some cc =>
          match search_le (key_cmp_entry t (p_comm p)) cc None with
          | Some e => mkConv (p_acc p) tgt (dmul (p_amount p) (pe_rate e)) (Some (pe_rate e))
          | None => unconverted p
          end
      | None => unconverted p
      end
  end.
Proof.
  intros H1 H2. apply str_eqb_neq in H2. unfold convert_post. rewrite H2.
  destruct (p_comm p); [congruence|reflexivity].
Qed.

Lemma fixed_unchanged used tgt ref db t p :
  p_comm p <> [] -> p_comm p <> tgt ->
  (mem_str (p_comm p) used = false \/
   forall e, In e db -> str_eqb (pe_base e) (p_comm p) && str_eqb (pe_eq e) tgt && before_ref ref e = false) ->
  convert_post (CFixed (fixed_cache used tgt ref db)) tgt t p = unconverted p.
Proof.
  intros Hc Ht H. rewrite convert_post_nonempty by assumption. rewrite fixed_cache_get.
  replace (last_sat (fun e => fixed_keep used tgt ref e && str_eqb (p_comm p) (pe_base e)) db) with (@None pentry);
    [reflexivity|].
  symmetry. apply last_sat_none. intros e He.
  destruct (mem_str (p_comm p) used) eqn:Hu.
  - rewrite fixed_keep_mcand by assumption. destruct H as [H|H]; [discriminate|]. apply H. exact He.
  - unfold fixed_keep. destruct (str_eqb (p_comm p) (pe_base e)) eqn:E; [|apply andb_false_r].
    apply str_eqb_eq in E. rewrite <- E, Hu. reflexivity.
Qed.

Lemma timed_unchanged used tgt db t p :
  p_comm p <> [] -> p_comm p <> tgt ->
  (mem_str (p_comm p) used = false \/
   forall e, In e db -> str_eqb (pe_base e) (p_comm p) && str_eqb (pe_eq e) tgt && (pe_ts e <=? t) = false) ->
  convert_post (CTimed (timed_cache used tgt db)) tgt t p = unconverted p.
Proof.
  intros Hc Ht H. rewrite convert_post_nonempty by assumption. rewrite timed_cache_get.
  destruct (mem_str (p_comm p) used) eqn:Hu; [|reflexivity].
  destruct H as [H|H]; [discriminate|].
  destruct (comm_cache tgt (p_comm p) db) as [|x cc] eqn:Ec; [reflexivity|].
  destruct (search_le_spec t (p_comm p) (x :: cc) None) as [[H1 _]|[e [_ [H2 [H3 _]]]]].
  - rewrite <- Ec. apply comm_cache_sorted.
  - intros e He. rewrite <- Ec in He. apply comm_cache_in_fwd in He. tauto.
  - rewrite H1. reflexivity.
  - exfalso. rewrite <- Ec in H2. apply comm_cache_in_fwd in H2. destruct H2 as [Hd [Hb He]].
    specialize (H e Hd). rewrite Hb, He, !str_eqb_refl in H. cbn [andb] in H.
    rewrite Z.leb_gt in H. lia.
Qed.

Lemma make_ctx_unchanged lk txns tgt db t p :
  (p_comm p = [] \/ p_comm p = tgt \/ ~ In (p_comm p) (posting_comms txns) \/
   forall e, In e db -> mcand lk tgt (p_comm p) t e = false) ->
  convert_post (c_cache (make_ctx lk txns (Some tgt) db)) tgt t p = unconverted p.
Proof.
  intros H.
  destruct (str_eqb (p_comm p) tgt) eqn:Et.
  { apply convert_post_target. apply str_eqb_eq. exact Et. }
  apply str_eqb_neq in Et.
  assert (p_comm p = [] \/ ~ In (p_comm p) (posting_comms txns) \/
          forall e, In e db -> mcand lk tgt (p_comm p) t e = false) as H0
    by (destruct H as [H|[H|H]]; [left; exact H|contradiction|right; exact H]).
  clear H. rename H0 into H.
  destruct (p_comm p) as [|c0 cs] eqn:Ec.
  { unfold convert_post. rewrite Ec. reflexivity. }
  assert (p_comm p <> []) as Hne by (rewrite Ec; discriminate).
  rewrite <- Ec in *.
  assert (mem_str (p_comm p) (used_commodities txns) = false \/
          forall e, In e db -> mcand lk tgt (p_comm p) t e = false) as H'.
  { destruct H as [H|[H|H]]; [contradiction| |right; exact H]. left.
    destruct (mem_str (p_comm p) (used_commodities txns)) eqn:E; [|reflexivity].
    apply used_commodities_in in E. contradiction. }
  clear H. unfold make_ctx. destruct lk; cbn [c_cache default_ctx].
  - rewrite convert_post_nonempty by assumption. reflexivity.
  - apply timed_unchanged; assumption.
  - apply fixed_unchanged; assumption.
  - apply fixed_unchanged; assumption.
Qed.

Lemma fixed_rate used tgt ref db t p e0 :
  ts_sorted db -> p_comm p <> [] -> p_comm p <> tgt -> mem_str (p_comm p) used = true ->
  In e0 db -> str_eqb (pe_base e0) (p_comm p) && str_eqb (pe_eq e0) tgt && before_ref ref e0 = true ->
  exists e, In e db /\ str_eqb (pe_base e) (p_comm p) && str_eqb (pe_eq e) tgt && before_ref ref e = true /\
    (forall e', In e' db -> str_eqb (pe_base e') (p_comm p) && str_eqb (pe_eq e') tgt && before_ref ref e' = true ->
                pe_ts e' <= pe_ts e) /\
    convert_post (CFixed (fixed_cache used tgt ref db)) tgt t p
    = mkConv (p_acc p) tgt (dmul (p_amount p) (pe_rate e)) None.
Proof.
  intros Hs Hc Htg Hu Hin0 Hc0. rewrite convert_post_nonempty by assumption. rewrite fixed_cache_get.
  rewrite (last_sat_ext _ (fun e => str_eqb (pe_base e) (p_comm p) && str_eqb (pe_eq e) tgt && before_ref ref e))
    by (intros e _; apply fixed_keep_mcand; assumption).
  destruct (last_sat (fun e => str_eqb (pe_base e) (p_comm p) && str_eqb (pe_eq e) tgt && before_ref ref e) db) as [e|] eqn:El.
  - exists e. destruct (last_sat_some _ _ _ El) as [H1 H2]. split; [exact H1|]. split; [exact H2|].
    split; [|reflexivity]. intros e' He' Pe'.
    apply (last_sat_max _ db e Hs El e' He' Pe').
  - exfalso. rewrite (proj1 (last_sat_none _ _) El e0 Hin0) in Hc0. discriminate.
Qed.

Lemma timed_rate used tgt db t p e0 :
  p_comm p <> [] -> p_comm p <> tgt -> mem_str (p_comm p) used = true ->
  In e0 db -> str_eqb (pe_base e0) (p_comm p) && str_eqb (pe_eq e0) tgt && (pe_ts e0 <=? t) = true ->
  exists e, In e db /\ str_eqb (pe_base e) (p_comm p) && str_eqb (pe_eq e) tgt && (pe_ts e <=? t) = true /\
    (forall e', In e' db -> str_eqb (pe_base e') (p_comm p) && str_eqb (pe_eq e') tgt && (pe_ts e' <=? t) = true ->
                pe_ts e' <= pe_ts e) /\
    convert_post (CTimed (timed_cache used tgt db)) tgt t p
    = mkConv (p_acc p) tgt (dmul (p_amount p) (pe_rate e)) (Some (pe_rate e)).
Proof.
  intros Hc Htg Hu Hin0 Hc0. rewrite convert_post_nonempty by assumption. rewrite timed_cache_get, Hu.
  rewrite !andb_true_iff, !str_eqb_eq, Z.leb_le in Hc0. destruct Hc0 as [[Hb0 He0] Ht0].
  assert (In e0 (comm_cache tgt (p_comm p) db)) as Hcc0 by (apply comm_cache_in_bwd; tauto).
  destruct (comm_cache tgt (p_comm p) db) as [|x cc] eqn:Ec; [destruct Hcc0|].
  destruct (search_le_spec t (p_comm p) (x :: cc) None) as [[_ H2]|[e [H1 [H2 [H3 H4]]]]].
  - rewrite <- Ec. apply comm_cache_sorted.
  - intros e He. rewrite <- Ec in He. apply comm_cache_in_fwd in He. tauto.
  - specialize (H2 e0 Hcc0). lia.
  - exists e. rewrite <- Ec in H2. apply comm_cache_in_fwd in H2. destruct H2 as [Hd [Hb He]].
    split; [exact Hd|]. split.
    { rewrite Hb, He, !str_eqb_refl. cbn [andb]. apply Z.leb_le. exact H3. }
    split; [|rewrite H1; reflexivity].
    intros e' He' Pe'. rewrite !andb_true_iff, !str_eqb_eq, Z.leb_le in Pe'. destruct Pe' as [[Hb' Heq'] Ht'].
    apply H4; [|exact Ht']. rewrite <- Ec. apply comm_cache_in_bwd; tauto.
Qed.

Lemma make_ctx_rate lk txns tgt db t p e0 :
  ts_sorted db -> p_comm p <> [] -> p_comm p <> tgt -> In (p_comm p) (posting_comms txns) ->
  In e0 db -> mcand lk tgt (p_comm p) t e0 = true ->
  exists e, In e db /\ mcand lk tgt (p_comm p) t e = true /\
    (forall e', In e' db -> mcand lk tgt (p_comm p) t e' = true -> pe_ts e' <= pe_ts e) /\
    convert_post (c_cache (make_ctx lk txns (Some tgt) db)) tgt t p = converted lk tgt p e.
Proof.
  intros Hs Hc Htg Hu Hin0 Hc0. apply used_commodities_in in Hu.
  unfold make_ctx, converted, mcand in *. destruct lk; cbn [c_cache shown model_time] in *.
  - rewrite andb_false_r in Hc0. discriminate.
  - apply (timed_rate _ tgt db t p e0); assumption.
  - apply (fixed_rate _ tgt None db t p e0); assumption.
  - apply (fixed_rate _ tgt (Some t0) db t p e0); assumption.
Qed.

(* ------------------------------------------------------------------ *)
(* E. from the loaded data base to the price file *)

Lemma mcand_imp_candidate lk tgt c t e : mcand lk tgt c t e = true -> candidate lk tgt c t e = true.
Proof.
  unfold mcand, candidate. rewrite !andb_true_iff. intros [H1 H2]. split; [exact H1|].
  destruct lk; cbn [model_time in_time] in *; exact H2.
Qed.

Lemma mcand_candidate lk tgt c t e : mcand lk tgt c t e = candidate lk tgt c t e.
Proof. reflexivity. Qed.

Lemma RateAt_unique lk f tgt c t e1 e2 : distinct_keys f ->
  RateAt lk f tgt c t e1 -> RateAt lk f tgt c t e2 -> e1 = e2.
Proof.
  intros Hd [I1 [C1 M1]] [I2 [C2 M2]].
  apply (NoDup_map_key_eq pe_key f); try assumption.
  pose proof (M1 e2 I2 C2). pose proof (M2 e1 I1 C1).
  unfold candidate in C1, C2. rewrite !andb_true_iff, !str_eqb_eq in C1, C2.
  unfold pe_key. destruct C1 as [[B1 Q1] _], C2 as [[B2 Q2] _].
  assert (pe_ts e1 = pe_ts e2) as Et by lia. rewrite Et, B1, B2, Q1, Q2. reflexivity.
Qed.

(* the executable rate_at decides RateAt / NoRate *)
Lemma rate_at_gen lk tgt c t l : forall best,
  (forall b, best = Some b -> candidate lk tgt c t b = true) ->
  match fold_left (fun best e =>
               if candidate lk tgt c t e
               then match best with
                    | None => Some e
                    | Some b => if pe_ts b <? pe_ts e then Some e else best
                    end
               else best) l best with
  | None => best = None /\ forall e, In e l -> candidate lk tgt c t e = false
  | Some e => candidate lk tgt c t e = true /\ (In e l \/ best = Some e) /\
              (forall e', In e' l -> candidate lk tgt c t e' = true -> pe_ts e' <= pe_ts e) /\
              (forall b, best = Some b -> pe_ts b <= pe_ts e)
  end.
Proof.
  induction l as [|x l IH]; intros best Hb; cbn [fold_left].
  - destruct best as [b|].
    + split; [apply Hb; reflexivity|]. split; [right; reflexivity|]. split; [intros e' []|].
      intros b' E. inversion E. lia.
    + split; [reflexivity|intros e []].
  - set (best' := if candidate lk tgt c t x
                  then match best with None => Some x | Some b => if pe_ts b <? pe_ts x then Some x else best end
                  else best).
    assert (forall b, best' = Some b -> candidate lk tgt c t b = true) as Hb'.
    { intros b. unfold best'. destruct (candidate lk tgt c t x) eqn:Cx; [|apply Hb].
      destruct best as [b0|]; [|intros E; inversion E; subst; exact Cx].
      destruct (pe_ts b0 <? pe_ts x); [intros E; inversion E; subst; exact Cx|apply Hb]. }
    specialize (IH best' Hb'). fold best'.
    destruct (fold_left _ l best') as [e|].
    + destruct IH as [Ce [Hin [Hmax Hbest]]]. split; [exact Ce|].
      assert (forall b, best = Some b -> pe_ts b <= pe_ts e) as Hbe.
      { intros b E. unfold best' in Hbest. rewrite E in Hbest.
        destruct (candidate lk tgt c t x); [|apply Hbest; reflexivity].
        destruct (pe_ts b <? pe_ts x) eqn:Elt; [|apply Hbest; reflexivity].
        rewrite Z.ltb_lt in Elt. specialize (Hbest x eq_refl). lia. }
      assert (candidate lk tgt c t x = true -> pe_ts x <= pe_ts e) as Hxe.
      { intros Cx. unfold best' in Hbest. rewrite Cx in Hbest. destruct best as [b0|].
        - destruct (pe_ts b0 <? pe_ts x) eqn:Elt; [apply Hbest; reflexivity|].
          rewrite Z.ltb_ge in Elt. specialize (Hbest b0 eq_refl). lia.
        - apply Hbest. reflexivity. }
      split; [|split; [|exact Hbe]].
      * destruct Hin as [Hin|Hin]; [left; right; exact Hin|].
        unfold best' in Hin. destruct (candidate lk tgt c t x); [|right; exact Hin].
        destruct best as [b0|]; [|left; left; congruence].
        destruct (pe_ts b0 <? pe_ts x); [left; left; congruence|right; exact Hin].
      * intros e' [He'|He'] Ce'; [subst; apply Hxe; exact Ce'|apply Hmax; assumption].
    + destruct IH as [Eb Hall]. unfold best' in Eb.
      destruct (candidate lk tgt c t x) eqn:Cx.
      * destruct best as [b0|]; [|discriminate]. destruct (pe_ts b0 <? pe_ts x); discriminate.
      * split; [exact Eb|]. intros e [He|He]; [subst; exact Cx|apply Hall; exact He].
Qed.

Lemma rate_at_some lk f tgt c t e : rate_at lk f tgt c t = Some e -> RateAt lk f tgt c t e.
Proof.
  unfold rate_at. intros H. pose proof (rate_at_gen lk tgt c t f None) as G. cbv beta in G.
  rewrite H in G. destruct G as [Ce [Hin [Hmax _]]]; [discriminate|].
  split; [destruct Hin as [Hin|Hin]; [exact Hin|discriminate]|]. split; [exact Ce|exact Hmax].
Qed.

Lemma rate_at_none lk f tgt c t : rate_at lk f tgt c t = None -> NoRate lk f tgt c t.
Proof.
  unfold rate_at. intros H. pose proof (rate_at_gen lk tgt c t f None) as G. cbv beta in G.
  rewrite H in G. destruct G as [_ Hall]; [discriminate|]. exact Hall.
Qed.

Lemma RateAt_NoRate lk f tgt c t e : RateAt lk f tgt c t e -> NoRate lk f tgt c t -> False.
Proof. intros [I [C _]] H. rewrite (H e I) in C. discriminate. Qed.

(* the theorems about one posting *)
Lemma convert_unchanged lk txns tgt f t p :
  (p_comm p = [] \/ p_comm p = tgt \/ ~ In (p_comm p) (posting_comms txns) \/ NoRate lk f tgt (p_comm p) t) ->
  convert_one lk txns tgt f t p = unconverted p.
Proof.
  intros H. unfold convert_one. apply make_ctx_unchanged.
  destruct H as [H|[H|[H|H]]]; [left; exact H|right; left; exact H|right; right; left; exact H|right; right; right].
  intros e He. apply load_db_in in He. specialize (H e He).
  destruct (mcand lk tgt (p_comm p) t e) eqn:E; [|reflexivity].
  apply mcand_imp_candidate in E. congruence.
Qed.

Lemma convert_rate lk txns tgt f t p e :
  distinct_keys f -> p_comm p <> [] -> p_comm p <> tgt -> In (p_comm p) (posting_comms txns) ->
  RateAt lk f tgt (p_comm p) t e ->
  convert_one lk txns tgt f t p = converted lk tgt p e.
Proof.
  intros Hd Hc Htg Hu HR. destruct HR as [I [C M]].
  destruct (make_ctx_rate lk txns tgt (load_db f) t p e) as [e' [I' [C' [M' Hconv]]]].
  - apply load_db_ts_sorted. exact Hd.
  - exact Hc.
  - exact Htg.
  - exact Hu.
  - apply (proj2 (load_db_in_iff f e Hd)). exact I.
  - rewrite mcand_candidate. exact C.
  - unfold convert_one. rewrite Hconv. f_equal.
    apply (RateAt_unique lk f tgt (p_comm p) t); [exact Hd| |split; [exact I|split; [exact C|exact M]]].
    apply (proj1 (load_db_in_iff f e' Hd)) in I'.
    split; [exact I'|]. split; [rewrite <- mcand_candidate; exact C'|].
    intros e2 I2 C2. apply M'; [apply (proj2 (load_db_in_iff f e2 Hd)); exact I2|].
    rewrite mcand_candidate. exact C2.
Qed.

Lemma convert_rate_value lk txns tgt f t p e :
  distinct_keys f -> p_comm p <> [] -> p_comm p <> tgt -> In (p_comm p) (posting_comms txns) ->
  RateAt lk f tgt (p_comm p) t e -> (ds (p_amount p) + ds (pe_rate e) <= 28)%N ->
  d28 (cv_amount (convert_one lk txns tgt f t p)) * pow10 28 = d28 (p_amount p) * d28 (pe_rate e).
Proof.
  intros Hok Hc Htg Hu HR Hs. rewrite (convert_rate lk txns tgt f t p e) by assumption.
  unfold converted. cbn [cv_amount]. apply d28_dmul. exact Hs.
Qed.

Lemma no_self_pair_norate lk f tgt t : no_self_pair tgt f -> NoRate lk f tgt tgt t.
Proof.
  intros H e He. specialize (H e He). unfold candidate, is_self_pair in *. rewrite H. reflexivity.
Qed.

Lemma convert_target_unchanged lk txns tgt f t p :
  p_comm p = tgt -> convert_one lk txns tgt f t p = unconverted p.
Proof. intros E. apply convert_unchanged. right. left. exact E. Qed.

Lemma NoDup_map_filter {A B} (key : A -> B) q l : NoDup (map key l) -> NoDup (map key (filter q l)).
Proof.
  induction l as [|x l IH]; cbn [map filter]; intros H; [constructor|].
  inversion H as [|? ? Hni Hnd]; subst. destruct (q x); cbn [map]; [|apply IH; exact Hnd].
  constructor; [|apply IH; exact Hnd]. intros Hin. apply Hni.
  apply in_map_iff in Hin. destruct Hin as [y [E Hy]]. apply filter_In in Hy.
  apply in_map_iff. exists y. tauto.
Qed.

Definition relevant (tgt c : list N) (e : pentry) : bool := str_eqb (pe_base e) c && str_eqb (pe_eq e) tgt.

Lemma distinct_keys_filter f q : distinct_keys f -> distinct_keys (filter q f).
Proof. apply NoDup_map_filter. Qed.

Lemma convert_no_invention lk txns tgt f t p :
  distinct_keys f ->
  convert_one lk txns tgt f t p = convert_one lk txns tgt (filter (relevant tgt (p_comm p)) f) t p.
Proof.
  intros Hok. set (f' := filter (relevant tgt (p_comm p)) f).
  assert (distinct_keys f') as Hok' by (apply distinct_keys_filter; exact Hok).
  destruct (str_eqb (p_comm p) tgt) eqn:Et.
  { apply str_eqb_eq in Et. rewrite !convert_unchanged by (right; left; exact Et). reflexivity. }
  apply str_eqb_neq in Et.
  assert (p_comm p = [] \/ p_comm p <> []) as [Ec|Hne]
    by (destruct (p_comm p); [left; reflexivity|right; discriminate]).
  { rewrite !convert_unchanged by (left; exact Ec). reflexivity. }
  destruct (mem_str (p_comm p) (used_commodities txns)) eqn:Hu.
  2:{ assert (~ In (p_comm p) (posting_comms txns)) as Hn.
      { intros Hin. apply used_commodities_in in Hin. congruence. }
      rewrite !convert_unchanged by (right; right; left; exact Hn). reflexivity. }
  apply used_commodities_in in Hu.
  destruct (rate_at lk f tgt (p_comm p) t) as [e|] eqn:Er.
  - apply rate_at_some in Er. rewrite (convert_rate lk txns tgt f t p e) by assumption.
    symmetry. apply convert_rate; try assumption.
    destruct Er as [I [C M]]. split; [|split; [exact C|]].
    + apply filter_In. split; [exact I|]. unfold relevant. unfold candidate in C.
      rewrite !andb_true_iff in C. rewrite andb_true_iff. tauto.
    + intros e' He'. apply filter_In in He'. apply M. tauto.
  - apply rate_at_none in Er. rewrite (convert_unchanged lk txns tgt f) by (right; right; right; exact Er).
    symmetry. apply convert_unchanged. right. right. right. intros e He. apply filter_In in He. apply Er. tauto.
Qed.

(* ------------------------------------------------------------------ *)
(* F. metadata records *)

Lemma assoc_get_keys {V} (m : list (list N * V)) k : In k (map fst m) <-> exists v, assoc_get k m = Some v.
Proof.
  induction m as [|[k' v'] m IH]; cbn [map assoc_get fst].
  - split; [intros []|intros [v H]; discriminate].
  - destruct (str_eqb k k') eqn:E.
    + apply str_eqb_eq in E. subst. split; [intros _; exists v'; reflexivity|intros _; left; reflexivity].
    + apply str_eqb_neq in E. rewrite <- IH. split; [intros [H|H]; [congruence|exact H]|intros H; right; exact H].
Qed.

Lemma assoc_get_in {V} (m : list (list N * V)) k v : NoDup (map fst m) -> (In (k, v) m <-> assoc_get k m = Some v).
Proof.
  induction m as [|[k' v'] m IH]; cbn [map assoc_get fst]; intros Hnd.
  - split; [intros []|discriminate].
  - inversion Hnd as [|? ? Hni Hnd']; subst. destruct (str_eqb k k') eqn:E.
    + apply str_eqb_eq in E. subst k'. split.
      * intros [H|H]; [congruence|]. exfalso. apply Hni. apply in_map_iff. exists (k, v). split; [reflexivity|exact H].
      * intros H. left. congruence.
    + apply str_eqb_neq in E. rewrite <- (IH Hnd'). split; [intros [H|H]; [congruence|exact H]|intros H; right; exact H].
Qed.

Lemma upsert_keys_in {V} k (v : V) m x : In x (map fst (upsert k v m)) -> x = k \/ In x (map fst m).
Proof.
  induction m as [|[k' v'] m IH]; cbn [upsert map fst].
  - intros [H|[]]. left. congruence.
  - destruct (str_eqb k k'); cbn [map fst].
    + intros H. right. exact H.
    + intros [H|H]; [right; left; exact H|]. destruct (IH H) as [E|Hin]; [left; exact E|right; right; exact Hin].
Qed.

Lemma upsert_NoDup {V} k (v : V) m : NoDup (map fst m) -> NoDup (map fst (upsert k v m)).
Proof.
  induction m as [|[k' v'] m IH]; cbn [upsert map fst]; intros Hnd.
  - constructor; [intros []|constructor].
  - inversion Hnd as [|? ? Hni Hnd']; subst. destruct (str_eqb k k') eqn:E; cbn [map fst].
    + constructor; assumption.
    + constructor; [|apply IH; exact Hnd'].
      intros H. destruct (upsert_keys_in _ _ _ _ H) as [E'|Hin]; [|contradiction].
      subst k'. rewrite str_eqb_refl in E. discriminate.
Qed.

Lemma fixed_cache_NoDup used tgt ref db : NoDup (map fst (fixed_cache used tgt ref db)).
Proof.
  unfold fixed_cache.
  assert (forall m, NoDup (map fst m) ->
            NoDup (map fst (fold_left (fun m e => if fixed_keep used tgt ref e
                                                  then upsert (pe_base e) (pe_ts e, pe_rate e) m else m) db m))) as G.
  { induction db as [|x db IH]; intros m Hm; cbn [fold_left]; [exact Hm|].
    apply IH. destruct (fixed_keep used tgt ref x); [apply upsert_NoDup; exact Hm|exact Hm]. }
  apply G. constructor.
Qed.

Lemma timed_cache_keys used tgt db :
  map fst (timed_cache used tgt db)
  = filter (fun c => match comm_cache tgt c db with [] => false | _ => true end) used.
Proof.
  unfold timed_cache. induction used as [|a used IH]; cbn [flat_map filter]; [reflexivity|].
  rewrite map_app, IH. destruct (comm_cache tgt a db); reflexivity.
Qed.

Lemma used_commodities_NoDup txns : NoDup (used_commodities txns).
Proof. unfold used_commodities. apply dedup_by_NoDup. intros x _. apply str_eqb_refl. Qed.

Definition fst_leb {V} (a b : list N * V) : bool := str_leb (fst a) (fst b).

Lemma by_key_sorted {V} (m : list (list N * V)) : NoDup (map fst m) -> StronglySorted str_lt (map fst (by_key m)).
Proof.
  intros Hnd. apply (proj1 (StronglySorted_map str_lt (@fst (list N) V) (by_key m))).
  apply (StronglySorted_impl (fun a b => fst_leb a b = true /\ fst a <> fst b)).
  - intros a b _ _ [H1 H2]. unfold fst_leb, str_leb, cmp_leb, str_lt in *.
    destruct (str_cmp (fst a) (fst b)) eqn:E; [|reflexivity|discriminate].
    apply str_cmp_eq in E. contradiction.
  - apply sorted_nodup_key_strict.
    + unfold by_key. apply (sort_by_sorted (@fst_leb V)).
      * intros a b. unfold fst_leb, str_leb. apply (co_leb_total str_cmp str_cmp_ord).
      * intros a b c. unfold fst_leb, str_leb. apply (co_leb_trans str_cmp str_cmp_ord).
    + apply (Permutation_NoDup (l := map fst m)); [|exact Hnd].
      apply Permutation_map, Permutation_sym. unfold by_key. apply sort_by_perm.
Qed.

Lemma by_key_in {V} (m : list (list N * V)) kv : In kv (by_key m) <-> In kv m.
Proof. unfold by_key. apply sort_by_in. Qed.

Lemma by_key_keys {V} (m : list (list N * V)) k : In k (map fst (by_key m)) <-> In k (map fst m).
Proof.
  rewrite !in_map_iff. split; intros [kv [E H]]; exists kv; (split; [exact E|]); apply by_key_in; exact H.
Qed.

(* lookup-independent statement for the two fixed modes, on the file *)
Definition FixedMeta (tgt : list N) (f : list pentry) (txns : list txn) (ref : option Z) (recs : list prec) : Prop :=
  StronglySorted str_lt (map pr_source recs) /\
  (forall c, In c (map pr_source recs) <->
             In c (posting_comms txns) /\ c <> tgt /\
             exists e, In e f /\ pe_base e = c /\ pe_eq e = tgt /\ before_ref ref e = true) /\
  (forall r, In r recs ->
     pr_target r = tgt /\
     exists e, In e f /\ pe_base e = pr_source r /\ pe_eq e = tgt /\ before_ref ref e = true /\
               (forall e', In e' f -> pe_base e' = pr_source r -> pe_eq e' = tgt -> before_ref ref e' = true -> pe_ts e' <= pe_ts e) /\
               pr_used r = Some (pe_ts e, pe_rate e)).

Lemma fixed_meta tgt f txns ref : distinct_keys f ->
  FixedMeta tgt f txns ref
    (map (fun kv => mkPrec (fst kv) tgt (Some (snd kv)))
         (by_key (fixed_cache (used_commodities txns) tgt ref (load_db f)))).
Proof.
  intros Hd. set (used := used_commodities txns). set (db := load_db f).
  set (m := fixed_cache used tgt ref db).
  assert (forall c ts r, assoc_get c m = Some (ts, r) ->
            mem_str c used = true /\ c <> tgt /\
            exists e, In e db /\ pe_base e = c /\ pe_eq e = tgt /\ before_ref ref e = true /\
              (forall e', In e' db -> pe_base e' = c -> pe_eq e' = tgt -> before_ref ref e' = true -> pe_ts e' <= pe_ts e) /\
              ts = pe_ts e /\ r = pe_rate e) as Hget.
  { intros c ts r H. unfold m in H. rewrite fixed_cache_get in H.
    destruct (last_sat (fun e => fixed_keep used tgt ref e && str_eqb c (pe_base e)) db) as [e|] eqn:El; [|discriminate].
    inversion H; subst ts r. destruct (last_sat_some _ _ _ El) as [Hin Pe].
    assert (mem_str c used = true /\ c <> tgt) as [Hu Hne].
    { unfold fixed_keep in Pe. rewrite !andb_true_iff, negb_true_iff, str_eqb_neq in Pe.
      destruct Pe as [[[[Hm _] Hn] _] Ec].
      apply str_eqb_eq in Ec. subst c. split; assumption. }
    split; [exact Hu|]. split; [exact Hne|]. exists e. split; [exact Hin|].
    rewrite (last_sat_ext _ (fun e => str_eqb (pe_base e) c && str_eqb (pe_eq e) tgt && before_ref ref e)) in El
      by (intros x _; apply fixed_keep_mcand; assumption).
    destruct (last_sat_some _ _ _ El) as [_ Pe'].
    rewrite !andb_true_iff, !str_eqb_eq in Pe'. destruct Pe' as [[Hb He] Ht].
    repeat split; try assumption.
    intros e' Hin' Hb' He' Ht'.
    apply (last_sat_max _ db e (load_db_ts_sorted f Hd) El e' Hin').
    rewrite Hb', He', !str_eqb_refl. cbn [andb]. exact Ht'. }
  assert (NoDup (map fst m)) as Hnd by apply fixed_cache_NoDup.
  assert (forall e, In e db <-> In e f) as Hdb by (intros e; apply load_db_in_iff; exact Hd).
  unfold FixedMeta. rewrite map_map. cbn [pr_source]. split; [apply by_key_sorted; exact Hnd|]. split.
  - intros c. rewrite by_key_keys, assoc_get_keys. split.
    + intros [[ts r] H]. destruct (Hget c ts r H) as [Hu [Hne [e [Hin [Hb [He [Ht _]]]]]]].
      split; [apply used_commodities_in; exact Hu|]. split; [exact Hne|]. exists e. rewrite <- Hdb. tauto.
    + intros [Hu [Hne [e [Hin [Hb [He Ht]]]]]]. apply used_commodities_in in Hu. fold used in Hu.
      unfold m. rewrite fixed_cache_get.
      destruct (last_sat (fun e => fixed_keep used tgt ref e && str_eqb c (pe_base e)) db) as [e'|] eqn:El;
        [eexists; reflexivity|].
      exfalso. apply Hdb in Hin. pose proof (proj1 (last_sat_none _ _) El e Hin) as Hf. cbv beta in Hf.
      rewrite fixed_keep_mcand in Hf by assumption.
      rewrite Hb, He, !str_eqb_refl in Hf. cbn [andb] in Hf. congruence.
  - intros r Hr. apply in_map_iff in Hr. destruct Hr as [[k [ts rt]] [Er Hkv]]. subst r. cbn [pr_target pr_source pr_used fst snd].
    split; [reflexivity|]. apply (proj1 (by_key_in m _)) in Hkv. apply (proj1 (assoc_get_in m k (ts, rt) Hnd)) in Hkv.
    destruct (Hget k ts rt Hkv) as [_ [_ [e [Hin [Hb [He [Ht [Hmax [Ets Er]]]]]]]]].
    exists e. rewrite <- Hdb. repeat split; try assumption.
    + intros e' Hin'. apply Hmax. apply Hdb. exact Hin'.
    + congruence.
Qed.

Lemma metadata_spec lk txns tgt f : distinct_keys f ->
  MetaSpec lk tgt f txns (metadata (make_ctx lk txns (Some tgt) (load_db f))).
Proof.
  intros Hd. unfold make_ctx, metadata. destruct lk; cbn [c_target c_cache default_ctx].
  - (* none *)
    split; [constructor|]. split; [|intros r []].
    intros c. cbn [map]. split; [intros []|]. intros [_ [_ [e [_ [_ [_ F]]]]]]. exact F.
  - (* txn-time *)
    set (m := timed_cache (used_commodities txns) tgt (load_db f)).
    assert (NoDup (map fst m)) as Hnd.
    { unfold m. rewrite timed_cache_keys. apply NoDup_filter. apply used_commodities_NoDup. }
    unfold MetaSpec. rewrite map_map. cbn [pr_source]. split; [apply by_key_sorted; exact Hnd|]. split.
    + intros c. rewrite by_key_keys. unfold m. rewrite timed_cache_keys, filter_In, <- mem_str_in, used_commodities_in.
      split; intros [Hu H]; (split; [exact Hu|]).
      * destruct (comm_cache tgt c (load_db f)) as [|e cc] eqn:Ec; [discriminate|].
        assert (In e (comm_cache tgt c (load_db f))) as Hin by (rewrite Ec; left; reflexivity).
        split; [apply (comm_cache_ne tgt c (load_db f) e Hin)|].
        apply comm_cache_in_fwd in Hin. destruct Hin as [Hin [Hb He]]. apply load_db_in in Hin.
        exists e. rewrite Hb, He, !str_eqb_refl. tauto.
      * destruct H as [Hne [e [Hin [Hb [He _]]]]]. apply str_eqb_eq in Hb, He.
        assert (In e (comm_cache tgt c (load_db f))) as Hcc.
        { apply comm_cache_in_bwd; try assumption. apply (proj2 (load_db_in_iff f e Hd)); exact Hin. }
        destruct (comm_cache tgt c (load_db f)); [destruct Hcc|reflexivity].
    + intros r Hin. apply in_map_iff in Hin. destruct Hin as [kv [E _]]. subst r. split; reflexivity.
  - (* last-price *)
    destruct (fixed_meta tgt f txns None Hd) as [H1 [H2 H3]]. split; [exact H1|]. split.
    + intros c. rewrite H2. split; intros [Hu [Hne [e [Hin [Hb [He Ht]]]]]]; (split; [exact Hu|split; [exact Hne|]]); exists e.
      * rewrite Hb, He, !str_eqb_refl. tauto.
      * apply str_eqb_eq in Hb, He. cbn [before_ref]. tauto.
    + intros r Hin. destruct (H3 r Hin) as [Et [e [Hin' [Hb [He [Ht [Hmax Hu]]]]]]]. split; [exact Et|].
      exists e, (pe_rate e). split; [|split; [exact Hu|apply dcmp_refl]]. split; [exact Hin'|]. split.
      * unfold candidate. rewrite Hb, He, !str_eqb_refl. reflexivity.
      * intros e' Hin2 C2. unfold candidate in C2. rewrite !andb_true_iff, !str_eqb_eq in C2.
        destruct C2 as [[Hb2 He2] _]. apply Hmax; try assumption; try reflexivity.
  - (* given-time *)
    destruct (fixed_meta tgt f txns (Some t) Hd) as [H1 [H2 H3]]. split; [exact H1|]. split.
    + intros c. rewrite H2.
      split; intros [Hu [Hne [e [Hin [Hb [He Ht]]]]]]; (split; [exact Hu|split; [exact Hne|]]); exists e.
      * rewrite Hb, He, !str_eqb_refl. cbn [before_ref] in Ht. apply Z.ltb_lt in Ht. tauto.
      * apply str_eqb_eq in Hb, He. cbn [before_ref]. apply Z.ltb_lt in Ht. tauto.
    + intros r Hin. destruct (H3 r Hin) as [Et [e [Hin' [Hb [He [Ht [Hmax Hu]]]]]]]. split; [exact Et|].
      exists e, (pe_rate e). split; [|split; [exact Hu|apply dcmp_refl]]. split; [exact Hin'|]. split.
      * unfold candidate. rewrite Hb, He, !str_eqb_refl. cbn [andb in_time]. exact Ht.
      * intros e' Hin2 C2. unfold candidate in C2. cbn [in_time] in C2.
        rewrite !andb_true_iff, !str_eqb_eq in C2.
        destruct C2 as [[Hb2 He2] Ht2]. apply Hmax; assumption.
Qed.

(* ------------------------------------------------------------------ *)
(* G. soundness of the boolean oracles *)

Lemma c07_acct_eqb_eq (a b : acct) : acct_eqb a b = true <-> a = b.
Proof. unfold acct_eqb. apply list_eqb_eq. exact str_eqb_eq. Qed.

Lemma c07_drepr_eqb_eq a b : drepr_eqb a b = true <-> a = b.
Proof.
  destruct a as [ma sa], b as [mb sb]. unfold drepr_eqb. cbn [dm ds].
  rewrite andb_true_iff, Z.eqb_eq, N.eqb_eq. split.
  - intros [H1 H2]. subst. reflexivity.
  - intros H. inversion H. split; reflexivity.
Qed.

Lemma conv_eqb_eq a b : conv_eqb a b = true <-> a = b.
Proof.
  destruct a as [a1 a2 a3 a4], b as [b1 b2 b3 b4]. unfold conv_eqb. cbn [cv_acc cv_comm cv_amount cv_rate].
  rewrite !andb_true_iff, c07_acct_eqb_eq, str_eqb_eq, c07_drepr_eqb_eq.
  assert (opt_eqb drepr_eqb a4 b4 = true <-> a4 = b4) as Ho.
  { destruct a4 as [x|], b4 as [y|]; cbn [opt_eqb]; try (split; [discriminate|discriminate]); try tauto.
    rewrite c07_drepr_eqb_eq. split; [intros ->; reflexivity|intros H; inversion H; reflexivity]. }
  rewrite Ho. split.
  - intros [[[H1 H2] H3] H4]. subst. reflexivity.
  - intros H. inversion H. tauto.
Qed.

Lemma post_ok_b_nonempty lk tgt f t p c : p_comm p <> [] ->
  post_ok_b lk tgt f t p c =
  if str_eqb (p_comm p) tgt then conv_eqb c (unconverted p)
  else match rate_at lk f tgt (p_comm p) t with
       | None => conv_eqb c (unconverted p)
       | Some e =>
           acct_eqb (cv_acc c) (p_acc p) && str_eqb (cv_comm c) tgt
           && drepr_eqb (cv_amount c) (dmul (p_amount p) (pe_rate e))
           && match cv_rate c with None => true | Some r => drepr_eqb r (pe_rate e) end
       end.
Proof. unfold post_ok_b. destruct (p_comm p); [congruence|reflexivity]. Qed.

Lemma post_ok_b_sound lk tgt f t p c : distinct_keys f ->
  post_ok_b lk tgt f t p c = true -> PostSpec lk tgt f t p c.
Proof.
  intros Hd H.
  assert (p_comm p = [] \/ p_comm p <> []) as [Ec|Hne]
    by (destruct (p_comm p); [left; reflexivity|right; discriminate]).
  { unfold post_ok_b in H. rewrite Ec in H. apply conv_eqb_eq in H.
    split; [intros _; exact H|]. intros e Hc. contradiction. }
  rewrite post_ok_b_nonempty in H by exact Hne.
  destruct (str_eqb (p_comm p) tgt) eqn:Et.
  { apply str_eqb_eq in Et. apply conv_eqb_eq in H. split; [intros _; exact H|]. intros e _ Hc. contradiction. }
  apply str_eqb_neq in Et.
  destruct (rate_at lk f tgt (p_comm p) t) as [e|] eqn:Er.
  - apply rate_at_some in Er. split.
    + intros [E|[E|E]]; [contradiction|contradiction|]. exfalso. apply (RateAt_NoRate _ _ _ _ _ _ Er E).
    + intros e0 _ _ HR. rewrite (RateAt_unique lk f tgt (p_comm p) t e0 e Hd HR Er).
      rewrite !andb_true_iff, c07_acct_eqb_eq, str_eqb_eq, c07_drepr_eqb_eq in H.
      destruct H as [[[H1 H2] H3] H4]. unfold converted_with. repeat split; try assumption.
      intros r Hr. rewrite Hr in H4. apply c07_drepr_eqb_eq in H4. exact H4.
  - apply rate_at_none in Er. apply conv_eqb_eq in H. split; [intros _; exact H|].
    intros e _ _ HR. exfalso. apply (RateAt_NoRate _ _ _ _ _ _ HR Er).
Qed.

Lemma all2b_Forall2 {A B} (q : A -> B -> bool) (P : A -> B -> Prop) :
  (forall a b, q a b = true -> P a b) -> forall l1 l2, all2b q l1 l2 = true -> Forall2 P l1 l2.
Proof.
  intros Hq. induction l1 as [|a l1 IH]; intros [|b l2]; cbn [all2b]; try discriminate.
  - intros _. constructor.
  - rewrite andb_true_iff. intros [H1 H2]. constructor; [apply Hq; exact H1|apply IH; exact H2].
Qed.

Lemma txn_ok_b_sound lk tgt f tx cs : distinct_keys f ->
  txn_ok_b lk tgt f tx cs = true -> Forall2 (PostSpec lk tgt f (h_inst (t_hdr tx))) (t_posts tx) cs.
Proof.
  intros Hd. unfold txn_ok_b. apply all2b_Forall2. intros p c. apply post_ok_b_sound. exact Hd.
Qed.

Lemma strictly_ascending_sorted l : strictly_ascending l = true -> StronglySorted str_lt l.
Proof.
  induction l as [|x l IH]; cbn [strictly_ascending]; [constructor|].
  rewrite andb_true_iff. intros [H1 H2]. specialize (IH H2). constructor; [exact IH|].
  destruct l as [|y l]; [constructor|].
  assert (str_lt x y) as Hxy by (unfold str_lt; destruct (str_cmp x y); [discriminate|reflexivity|discriminate]).
  constructor; [exact Hxy|]. inversion IH as [|? ? _ Hf]; subst.
  apply Forall_forall. intros z Hz. rewrite Forall_forall in Hf. unfold str_lt in *.
  apply (str_cmp_lt_trans x y z Hxy). apply Hf. exact Hz.
Qed.

Lemma has_rate_b_iff lk f tgt c : has_rate_b lk f tgt c = true <-> has_rate lk f tgt c.
Proof.
  unfold has_rate_b, has_rate. rewrite existsb_exists. split.
  - intros [e [Hin H]]. exists e. rewrite !andb_true_iff in H. destruct H as [[H1 H2] H3].
    repeat split; try assumption. destruct lk; try exact I; [discriminate|apply Z.ltb_lt; exact H3].
  - intros [e [Hin [H1 [H2 H3]]]]. exists e. split; [exact Hin|]. rewrite H1, H2. cbn [andb].
    destruct lk; try reflexivity; [destruct H3|apply Z.ltb_lt; exact H3].
Qed.

Lemma meta_ok_b_sound lk tgt f txns recs :
  meta_ok_b lk tgt f txns recs = true -> MetaSpec lk tgt f txns recs.
Proof.
  unfold meta_ok_b. rewrite !andb_true_iff, !forallb_forall. intros [[[H1 H2] H3] H4].
  split; [apply strictly_ascending_sorted; exact H1|]. split.
  - intros c. split.
    + intros Hc. apply in_map_iff in Hc. destruct Hc as [r [E Hr]]. subst c.
      specialize (H2 r Hr). rewrite !andb_true_iff, negb_true_iff, str_eqb_neq in H2. destruct H2 as [[Ha Hn] Hb].
      split; [apply mem_str_in; exact Ha|]. split; [exact Hn|apply has_rate_b_iff; exact Hb].
    + intros [Hc [Hn Hh]]. specialize (H3 c Hc). apply has_rate_b_iff in Hh. apply str_eqb_neq in Hn.
      rewrite Hh, Hn in H3. cbn [negb orb] in H3.
      apply mem_str_in. exact H3.
  - intros r Hr. specialize (H4 r Hr). unfold rec_ok_b in H4. rewrite andb_true_iff, str_eqb_eq in H4.
    destruct H4 as [Ht Hu]. split; [exact Ht|].
    assert (match rate_at lk f tgt (pr_source r) 0, pr_used r with
            | Some e, Some (ts, rate) => (ts =? pe_ts e) && deqb rate (pe_rate e)
            | _, _ => false end = true ->
            exists e rate, RateAt lk f tgt (pr_source r) 0 e /\
                           pr_used r = Some (pe_ts e, rate) /\ dcmp rate (pe_rate e) = Eq) as G.
    { destruct (rate_at lk f tgt (pr_source r) 0) as [e|] eqn:Er; [|discriminate].
      destruct (pr_used r) as [[ts rate]|]; [|discriminate].
      rewrite andb_true_iff, Z.eqb_eq. intros [-> Hq].
      exists e, rate. split; [apply rate_at_some; exact Er|]. split; [reflexivity|].
      unfold deqb in Hq. destruct (dcmp rate (pe_rate e)); [reflexivity|discriminate|discriminate]. }
    destruct lk; try (apply G; exact Hu).
    destruct (pr_used r); [discriminate|reflexivity].
Qed.

(* ------------------------------------------------------------------ *)
(* H. order of the lines of the price file *)

Lemma price_run_file_order lk target f f' txns : Permutation f f' -> distinct_keys f ->
  load_db f = load_db f' /\
  price_run lk target f txns = price_run lk target f' txns /\
  metadata (make_ctx lk txns target (load_db f)) = metadata (make_ctx lk txns target (load_db f')).
Proof.
  intros Hp Hd. pose proof (load_db_perm f f' Hp Hd) as E. unfold price_run. rewrite E. repeat split.
Qed.

(* ------------------------------------------------------------------ *)
(* I. concrete instances: non-vacuity and the two refutations *)

Definition EUR : list N := [69; 85; 82]%N.
Definition USD : list N := [85; 83; 68]%N.
Definition ACME : list N := [65; 67; 77; 69]%N.

Definition ex_hdr (t : Z) : header := mkHeader t 0 None None None None [] [].
Definition ex_post (a : N) (c : list N) (m : Z) (s : N) : posting :=
  mkPosting [[a]] c (mkDec m s) (mkDec m s) false c.

(* a shuffled file with an inverse pair (EUR->USD), a chained pair (ACME->USD), and several instants *)
Definition ex_file : list pentry :=
  [ mkPE 300 ACME (mkDec 35 1) EUR;
    mkPE 100 USD (mkDec 9 1) EUR;
    mkPE 200 EUR (mkDec 11 1) USD;
    mkPE 100 ACME (mkDec 3 0) EUR;
    mkPE 150 ACME (mkDec 100 0) USD;
    mkPE 200 ACME (mkDec 325 2) EUR ].
Definition ex_txns : list txn :=
  [ mkTxn (ex_hdr 99)  [ex_post 97 ACME 2 0; ex_post 98 EUR (-6) 0];
    mkTxn (ex_hdr 200) [ex_post 99 ACME 2 0; ex_post 100 USD 10 0; ex_post 101 [] 5 0; ex_post 102 EUR (-1) 1] ].

Definition ex_show (l : list (list conv)) : list (list (list N * Z * N * option (Z * N))) :=
  map (map (fun c => (cv_comm c, dm (cv_amount c), ds (cv_amount c),
                      option_map (fun r => (dm r, ds r)) (cv_rate c)))) l.

Lemma ex_file_ok : distinct_keys ex_file /\ no_self_pair EUR ex_file.
Proof.
  split.
  - unfold distinct_keys. cbn.
    repeat (constructor; [cbn; intros H; repeat (destruct H as [H|H]; [discriminate H|]); exact H|]).
    constructor.
  - intros e H. cbn in H. repeat (destruct H as [H|H]; [subst e; reflexivity|]). destruct H.
Qed.

(* regression inputs of the two fixed findings:
   F12: a self pair in the price file; F19: a line stamped exactly jiff Timestamp::MAX *)
Definition TS_MAX : Z := 253402207200999999999.
Definition f12_file : list pentry := [ mkPE 100 EUR (mkDec 2 0) EUR; mkPE 100 ACME (mkDec 3 0) EUR ].
Definition f12_txns : list txn :=
  [ mkTxn (ex_hdr 200) [ex_post 97 EUR 1 0; ex_post 98 EUR (-1) 0];
    mkTxn (ex_hdr 300) [ex_post 99 ACME 1 0; ex_post 100 EUR (-3) 0] ].
Definition tsmax_file : list pentry := [ mkPE 100 ACME (mkDec 3 0) EUR; mkPE TS_MAX ACME (mkDec 7 0) EUR ].
Definition tsmax_txns : list txn := [ mkTxn (ex_hdr 200) [ex_post 97 ACME 1 0; ex_post 98 ACME (-1) 0] ].

Lemma price_example :
  distinct_keys ex_file /\ no_self_pair EUR ex_file /\
  ex_show (price_run LkTxnTime (Some EUR) ex_file ex_txns)
  = [ [ (ACME, 2, 0%N, None); (EUR, -6, 0%N, None) ];
      [ (EUR, 650, 2%N, Some (325, 2%N)); (EUR, 90, 1%N, Some (9, 1%N)); ([], 5, 0%N, None); (EUR, -1, 1%N, None) ] ] /\
  ex_show (price_run (LkGivenTime 200) (Some EUR) ex_file ex_txns)
  = [ [ (EUR, 6, 0%N, None); (EUR, -6, 0%N, None) ];
      [ (EUR, 6, 0%N, None); (EUR, 90, 1%N, None); ([], 5, 0%N, None); (EUR, -1, 1%N, None) ] ] /\
  ex_show (price_run LkLastPrice (Some EUR) ex_file ex_txns)
  = [ [ (EUR, 70, 1%N, None); (EUR, -6, 0%N, None) ];
      [ (EUR, 70, 1%N, None); (EUR, 90, 1%N, None); ([], 5, 0%N, None); (EUR, -1, 1%N, None) ] ] /\
  map (fun r => (pr_source r, pr_used r)) (metadata (make_ctx LkLastPrice ex_txns (Some EUR) (load_db ex_file)))
  = [ (ACME, Some (300, mkDec 35 1)); (USD, Some (100, mkDec 9 1)) ] /\
  RateAt LkTxnTime ex_file EUR ACME 200 (mkPE 200 ACME (mkDec 325 2) EUR) /\
  (* F12 regression: EUR postings stay, ACME is converted, although the file has `EUR 2 EUR` *)
  ex_show (price_run LkTxnTime (Some EUR) f12_file f12_txns)
  = [ [ (EUR, 1, 0%N, None); (EUR, -1, 0%N, None) ]; [ (EUR, 3, 0%N, Some (3, 0%N)); (EUR, -3, 0%N, None) ] ] /\
  (* F19 regression: last-price applies the line stamped Timestamp::MAX *)
  ex_show (price_run LkLastPrice (Some EUR) tsmax_file tsmax_txns)
  = [ [ (EUR, 7, 0%N, None); (EUR, -7, 0%N, None) ] ] /\
  (* F21 regression: the self pair EUR -> EUR is not listed in the metadata *)
  map (fun r => (pr_source r, pr_used r)) (metadata (make_ctx LkLastPrice f12_txns (Some EUR) (load_db f12_file)))
  = [ (ACME, Some (100, mkDec 3 0)) ].
Proof.
  split; [apply ex_file_ok|]. split; [apply ex_file_ok|].
  split; [vm_compute; reflexivity|]. split; [vm_compute; reflexivity|]. split; [vm_compute; reflexivity|].
  split; [vm_compute; reflexivity|].
  split; [apply rate_at_some; vm_compute; reflexivity|].
  split; [vm_compute; reflexivity|]. split; vm_compute; reflexivity.
Qed.

(* ------------------------------------------------------------------ *)
(* J. the report-facing function convert_prices meets the specification *)

Lemma convert_prices_one lk txns tgt f tx :
  convert_prices (make_ctx lk txns (Some tgt) (load_db f)) tx
  = map (convert_one lk txns tgt f (h_inst (t_hdr tx))) (t_posts tx).
Proof.
  unfold convert_prices, convert_one. destruct lk; cbn [make_ctx c_target c_cache default_ctx]; try reflexivity.
  apply map_ext. intros p. symmetry.
  apply (make_ctx_unchanged LkNone txns tgt (load_db f)). right. right. right. intros e _.
  unfold mcand. cbn [model_time]. apply andb_false_r.
Qed.

Lemma posting_comms_in txns tx p : In tx txns -> In p (t_posts tx) -> In (p_comm p) (posting_comms txns).
Proof.
  intros H1 H2. unfold posting_comms. apply in_map. apply in_flat_map. exists tx. split; assumption.
Qed.

Lemma convert_one_spec lk txns tgt f t p :
  distinct_keys f -> In (p_comm p) (posting_comms txns) ->
  PostSpec lk tgt f t p (convert_one lk txns tgt f t p).
Proof.
  intros Hok Hu. split.
  - intros [H|[H|H]]; apply convert_unchanged; tauto.
  - intros e Hne Htg HR. rewrite (convert_rate lk txns tgt f t p e) by assumption.
    unfold converted, converted_with. cbn [cv_acc cv_comm cv_amount cv_rate]. repeat split.
    intros r Hr. destruct lk; cbn [shown] in Hr; congruence.
Qed.

Lemma model_meets_spec lk txns tgt f tx :
  distinct_keys f -> In tx txns ->
  Forall2 (PostSpec lk tgt f (h_inst (t_hdr tx))) (t_posts tx)
          (convert_prices (make_ctx lk txns (Some tgt) (load_db f)) tx).
Proof.
  intros Hok Hin. rewrite convert_prices_one.
  assert (forall ps, (forall p, In p ps -> In p (t_posts tx)) ->
            Forall2 (PostSpec lk tgt f (h_inst (t_hdr tx))) ps
                    (map (convert_one lk txns tgt f (h_inst (t_hdr tx))) ps)) as G.
  { induction ps as [|p ps IH]; intros Hs; cbn [map]; constructor.
    - apply convert_one_spec; try assumption. apply (posting_comms_in txns tx); [exact Hin|apply Hs; left; reflexivity].
    - apply IH. intros q Hq. apply Hs. right. exact Hq. }
  apply G. intros p Hp. exact Hp.
Qed.

(* without a report commodity, or with lookup none, nothing is converted *)
Lemma no_conversion lk txns target db tx :
  (target = None \/ lk = LkNone) ->
  convert_prices (make_ctx lk txns target db) tx = map unconverted (t_posts tx).
Proof.
  intros [H|H]; subst; unfold make_ctx, convert_prices.
  - reflexivity.
  - destruct target; reflexivity.
Qed.

(* ------------------------------------------------------------------ *)
(* K. "the rates shown in the metadata are the ones applied" (fixed modes) *)

Lemma RateAt_fixed_time lk f tgt c t t' e : is_fixed lk -> RateAt lk f tgt c t e -> RateAt lk f tgt c t' e.
Proof. destruct lk; cbn [is_fixed]; intros F H; try destruct F; exact H. Qed.

(* every listed record is applied to every posting of the set in its commodity *)
Lemma metadata_applied lk txns tgt f r :
  distinct_keys f -> is_fixed lk ->
  In r (metadata (make_ctx lk txns (Some tgt) (load_db f))) ->
  RecordApplied lk txns tgt f r.
Proof.
  intros Hd Hfix Hr tx p Htx Hp Ec Hc.
  destruct (metadata_spec lk txns tgt f Hd) as [_ [H2 H3]]. destruct (H3 r Hr) as [_ Hx].
  assert (pr_source r <> tgt) as Hne.
  { apply (H2 (pr_source r)). apply in_map. exact Hr. }
  assert (exists e rate, RateAt lk f tgt (pr_source r) 0 e /\ pr_used r = Some (pe_ts e, rate) /\ dcmp rate (pe_rate e) = Eq)
    as [e [rate [HR [Hu Hq]]]] by (destruct lk; cbn [is_fixed] in Hfix; try destruct Hfix; exact Hx).
  exists e, rate. split; [exact Hu|]. split; [exact Hq|].
  apply convert_rate; try assumption.
  - rewrite Ec. exact Hne.
  - apply (posting_comms_in txns tx); assumption.
  - rewrite Ec. apply (RateAt_fixed_time lk f tgt _ 0); assumption.
Qed.

(* regression of F21: a self pair of the report commodity is not listed *)
Lemma metadata_no_self_record lk txns tgt f r :
  distinct_keys f -> In r (metadata (make_ctx lk txns (Some tgt) (load_db f))) -> pr_source r <> tgt.
Proof.
  intros Hd Hr. destruct (metadata_spec lk txns tgt f Hd) as [_ [H2 _]].
  apply (H2 (pr_source r)). apply in_map. exact Hr.
Qed.
