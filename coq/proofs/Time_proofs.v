(* Time_proofs.v — closed-form facts about TkModel.Time: 400-year periodicity of the
   calendar functions, fixed-width numerals and their order, lifting of a one-cycle sweep. *)
From TkModel Require Import Base Time.
From TkSpec Require Import Balance_spec Group_spec.
From TkProofs Require Import Base_proofs.
Local Open Scope Z_scope.

(* ---------------- ranges checked by computation ---------------- *)
Fixpoint range_all (f : Z -> bool) (n : nat) (lo : Z) : bool :=
  match n with
  | O => true
  | S n' => f lo && range_all f n' (lo + 1)
  end.

Lemma range_all_spec f n : forall lo, range_all f n lo = true ->
  forall z, lo <= z < lo + Z.of_nat n -> f z = true.
Proof.
  induction n as [|n IH]; intros lo H z Hz; [lia|].
  cbn [range_all] in H. apply andb_true_iff in H. destruct H as [H0 H1].
  destruct (Z.eq_dec z lo) as [->|Hne]; [exact H0|].
  apply (IH (lo + 1) H1). lia.
Qed.

(* ---------------- periodicity ---------------- *)
Lemma civil_shift z q :
  civil_of_days (z + 146097 * q) =
  (fst (fst (civil_of_days z)) + 400 * q, snd (fst (civil_of_days z)), snd (civil_of_days z)).
Proof.
  unfold civil_of_days.
  replace (z + 146097 * q + 719468) with (z + 719468 + q * 146097) by ring.
  rewrite Z.div_add, Z.mod_add by lia.
  cbv zeta.
  set (doe := (z + 719468) mod 146097).
  set (yoe := (doe - doe / 1460 + doe / 36524 - doe / 146096) / 365).
  set (doy := doe - (365 * yoe + yoe / 4 - yoe / 100)).
  set (mp := (5 * doy + 2) / 153).
  destruct (mp <? 10); cbn [fst snd];
  match goal with |- context [?a <=? 2] => destruct (a <=? 2) end; cbn [fst snd]; f_equal; f_equal; ring.
Qed.

Lemma year_shift z q : year_of_days (z + 146097 * q) = year_of_days z + 400 * q.
Proof. unfold year_of_days. rewrite civil_shift. reflexivity. Qed.

Lemma days_of_civil_shift y m d q :
  days_of_civil (y + 400 * q) m d = days_of_civil y m d + 146097 * q.
Proof.
  unfold days_of_civil. cbv zeta.
  destruct (m <=? 2).
  - replace (y + 400 * q - 1) with (y - 1 + q * 400) by ring.
    rewrite Z.div_add, Z.mod_add by lia. ring.
  - replace (y + 400 * q) with (y + q * 400) by ring.
    rewrite Z.div_add, Z.mod_add by lia. ring.
Qed.

Lemma weekday_shift z q : weekday (z + 146097 * q) = weekday z.
Proof.
  unfold weekday. replace (z + 146097 * q + 3) with (z + 3 + (20871 * q) * 7) by ring.
  rewrite Z.mod_add by lia. reflexivity.
Qed.

Lemma iso_shift z q :
  iso_of_days (z + 146097 * q) =
  (fst (fst (iso_of_days z)) + 400 * q, snd (fst (iso_of_days z)), snd (iso_of_days z)).
Proof.
  unfold iso_of_days. cbv zeta. rewrite weekday_shift. cbn [fst snd].
  replace (z + 146097 * q - weekday z + 4) with (z - weekday z + 4 + 146097 * q) by ring.
  rewrite year_shift, days_of_civil_shift.
  f_equal. f_equal. f_equal. f_equal. ring.
Qed.

Lemma is_leap_shift y q : is_leap (y + 400 * q) = is_leap y.
Proof.
  unfold is_leap.
  replace (y + 400 * q) with (y + (100 * q) * 4) at 1 by ring.
  replace (y + 400 * q) with (y + (4 * q) * 100) at 1 by ring.
  replace (y + 400 * q) with (y + q * 400) by ring.
  rewrite !Z.mod_add by lia. reflexivity.
Qed.

Lemma days_in_month_shift y m q : days_in_month (y + 400 * q) m = days_in_month y m.
Proof. unfold days_in_month. rewrite is_leap_shift. reflexivity. Qed.

Lemma days_of_iso_shift y w wd q :
  days_of_iso (y + 400 * q) w wd = days_of_iso y w wd + 146097 * q.
Proof.
  unfold days_of_iso. cbv zeta. rewrite days_of_civil_shift, weekday_shift. ring.
Qed.

(* every day number is a day of the cycle [0, 146097) shifted by whole cycles *)
Lemma cycle_decomp z : exists q r, z = r + 146097 * q /\ 0 <= r < 146097.
Proof.
  exists (z / 146097), (z mod 146097). split.
  - rewrite Z.add_comm. apply Z.div_mod. lia.
  - apply Z.mod_pos_bound. lia.
Qed.

(* ---------------- fixed-width numerals ---------------- *)
(* w digits of n, most significant first *)
Fixpoint fixw (w : nat) (n : Z) : str :=
  match w with
  | O => []
  | S w' => fixw w' (n / 10) ++ [digit (n mod 10)]
  end.

Lemma fixw_length w : forall n, length (fixw w n) = w.
Proof.
  induction w as [|w IH]; intros n; cbn [fixw]; [reflexivity|].
  rewrite app_length, IH. cbn. lia.
Qed.

Lemma str_cmp_app_len a : forall a' b b', length a = length a' ->
  str_cmp (a ++ b) (a' ++ b') = cmp_then (str_cmp a a') (str_cmp b b').
Proof.
  induction a as [|x a IH]; intros [|x' a'] b b' H; cbn in H; try discriminate.
  - reflexivity.
  - cbn [app str_cmp]. destruct (N.compare x x'); try reflexivity.
    apply IH. congruence.
Qed.

Lemma str_cmp_cons_same c b b' : str_cmp (c :: b) (c :: b') = str_cmp b b'.
Proof. cbn [str_cmp]. rewrite N.compare_refl. reflexivity. Qed.

Lemma lex_cmp a a' b b' K : 0 <= b < K -> 0 <= b' < K ->
  cmp_then (a ?= a') (b ?= b') = (a * K + b ?= a' * K + b').
Proof.
  intros Hb Hb'. symmetry.
  destruct (Z.compare_spec a a') as [->|H|H]; cbn [cmp_then].
  - apply Z.add_compare_mono_l.
  - apply Z.compare_lt_iff. nia.
  - apply Z.compare_gt_iff. nia.
Qed.

Lemma digit_cmp a b : 0 <= a -> 0 <= b -> str_cmp [digit a] [digit b] = (a ?= b).
Proof.
  intros Ha Hb. cbn [str_cmp]. unfold digit.
  rewrite Z2N.inj_compare by lia. rewrite Z.add_compare_mono_l.
  destruct (a ?= b); reflexivity.
Qed.

Lemma fixw_cmp w : forall n n', 0 <= n < 10 ^ Z.of_nat w -> 0 <= n' < 10 ^ Z.of_nat w ->
  str_cmp (fixw w n) (fixw w n') = (n ?= n').
Proof.
  induction w as [|w IH]; intros n n' Hn Hn'.
  - cbn in Hn, Hn'. assert (n = 0) by lia. assert (n' = 0) by lia. subst. reflexivity.
  - rewrite Nat2Z.inj_succ, Z.pow_succ_r in Hn, Hn' by lia.
    cbn [fixw]. rewrite str_cmp_app_len by (rewrite !fixw_length; reflexivity).
    pose proof (Z.mod_pos_bound n 10 ltac:(lia)) as Hm.
    pose proof (Z.mod_pos_bound n' 10 ltac:(lia)) as Hm'.
    rewrite IH, digit_cmp; try lia.
    + rewrite (lex_cmp _ _ _ _ 10) by lia.
      rewrite (Z.mul_comm (n / 10)), (Z.mul_comm (n' / 10)).
      rewrite <- !Z.div_mod by lia. reflexivity.
    + split; [apply Z.div_pos; lia|apply Z.div_lt_upper_bound; lia].
    + split; [apply Z.div_pos; lia|apply Z.div_lt_upper_bound; lia].
Qed.

(* a function on Z that increases at every step is monotone *)
Lemma mono_of_step (f : Z -> Z) : (forall z, f z < f (z + 1)) ->
  forall a b, a <= b -> f a <= f b.
Proof.
  intros Hs a b Hab. replace b with (a + Z.of_nat (Z.to_nat (b - a))) by lia.
  induction (Z.to_nat (b - a)) as [|n IH]; [rewrite Z.add_0_r; lia|].
  rewrite Nat2Z.inj_succ. replace (a + Z.succ (Z.of_nat n)) with (a + Z.of_nat n + 1) by lia.
  specialize (Hs (a + Z.of_nat n)). lia.
Qed.
