(* Codec_cal_proofs.v — proleptic Gregorian calendar of TkModel.Codec: one 400-year cycle checked by
   computation, lifted to every day number by periodicity. *)
From TkModel Require Import Base Dec Codec.
Local Open Scope Z_scope.

(* ------------------------------------------------------------------ calendar *)

Fixpoint c18_range_all (f : Z -> bool) (n : nat) (lo : Z) : bool :=
  match n with
  | O => true
  | S n' => f lo && c18_range_all f n' (lo + 1)
  end.

Lemma c18_range_all_spec f n : forall lo, c18_range_all f n lo = true ->
  forall z, lo <= z < lo + Z.of_nat n -> f z = true.
Proof.
  induction n as [|n IH]; intros lo H z Hz; [lia|].
  cbn [c18_range_all] in H. apply andb_true_iff in H. destruct H as [H0 H1].
  destruct (Z.eq_dec z lo) as [->|Hne]; [exact H0|].
  apply (IH (lo + 1) H1). lia.
Qed.

(* one 400-year cycle, by computation *)
Definition c18_day_check (r : Z) : bool :=
  let '(y, m, d) := cd_civil_of_days r in
  (1 <=? m) && (m <=? 12) && (1 <=? d) && (d <=? cd_days_in_month y m)
  && (cd_days_of_civil y m d =? r) && (1970 <=? y) && (y <=? 2369)
  && Bool.eqb (r <? 10957) (y <? 2000).

Lemma c18_cycle_sweep : c18_range_all c18_day_check (Z.to_nat 146097) 0 = true.
Proof. vm_compute. reflexivity. Qed.

Lemma c18_civil_shift z q :
  cd_civil_of_days (z + 146097 * q) =
  (fst (fst (cd_civil_of_days z)) + 400 * q, snd (fst (cd_civil_of_days z)), snd (cd_civil_of_days z)).
Proof.
  unfold cd_civil_of_days.
  replace (z + 146097 * q + 719468) with (z + 719468 + q * 146097) by ring.
  rewrite Z.div_add, Z.mod_add by lia.
  cbv zeta.
  set (doe := (z + 719468) mod 146097).
  set (yoe := (doe - doe / 1460 + doe / 36524 - doe / 146096) / 365).
  set (doy := doe - (365 * yoe + yoe / 4 - yoe / 100)).
  set (mp := (5 * doy + 2) / 153).
  destruct (mp <? 10); cbn [fst snd];
  match goal with |- context [?a <=? 2] => destruct (a <=? 2) end; cbn [fst snd]; f_equal; f_equal; ring.
Qed.

Lemma c18_days_of_civil_shift y m d q :
  cd_days_of_civil (y + 400 * q) m d = cd_days_of_civil y m d + 146097 * q.
Proof.
  unfold cd_days_of_civil. cbv zeta.
  destruct (m <=? 2).
  - replace (y + 400 * q - 1) with (y - 1 + q * 400) by ring.
    rewrite Z.div_add, Z.mod_add by lia. ring.
  - replace (y + 400 * q) with (y + q * 400) by ring.
    rewrite Z.div_add, Z.mod_add by lia. ring.
Qed.

Lemma c18_days_in_month_shift y m q : cd_days_in_month (y + 400 * q) m = cd_days_in_month y m.
Proof.
  unfold cd_days_in_month, cd_is_leap.
  replace (y + 400 * q) with (y + (100 * q) * 4) at 1 by ring.
  replace (y + 400 * q) with (y + (4 * q) * 100) at 1 by ring.
  replace (y + 400 * q) with (y + q * 400) by ring.
  now rewrite !Z.mod_add by lia.
Qed.

Lemma c18_civil_spec z :
  let '(y, m, d) := cd_civil_of_days z in
  1 <= m <= 12 /\ 1 <= d <= cd_days_in_month y m /\ cd_days_of_civil y m d = z
  /\ (-719528 <= z <= 2932896 -> 0 <= y <= 9999).
Proof.
  set (q := z / 146097). set (r := z mod 146097).
  assert (Hz : z = r + 146097 * q) by (unfold q, r; rewrite Z.add_comm; apply Z.div_mod; lia).
  assert (Hr : 0 <= r < 146097) by (unfold r; apply Z.mod_pos_bound; lia).
  pose proof (c18_range_all_spec _ _ _ c18_cycle_sweep r ltac:(lia)) as C.
  rewrite Hz, c18_civil_shift. unfold c18_day_check in C.
  destruct (cd_civil_of_days r) as [[y m] d]. cbn [fst snd].
  rewrite !andb_true_iff in C. destruct C as [[[[[[[C1 C2] C3] C4] C5] C6] C7] C8].
  rewrite c18_days_in_month_shift, c18_days_of_civil_shift.
  apply Z.leb_le in C1, C2, C3, C4, C6, C7. apply Z.eqb_eq in C5.
  apply eqb_prop in C8.
  destruct (Z.ltb_spec r 10957), (Z.ltb_spec y 2000); try discriminate; repeat split; lia.
Qed.

