(* Filter_proofs.v — lemmas for C05: eval = sat_b (on well-formed decimals), sat_b decides sat,
   filtering selects / partitions / keeps order, metadata size and checksum pre-image. *)
From Coq Require Import Permutation.
From TkModel Require Import Base Dec Acct Txn Filter.
From TkSpec Require Import Filter_spec.
From TkProofs Require Import Base_proofs Dec_proofs.
Local Open Scope Z_scope.

(* ------------------------------------------------------------------ *)
(* induction principle for the nested type *)

Definition c05_leaf (f : tfilter) : Prop :=
  match f with FAnd _ | FOr _ | FNot _ => False | _ => True end.

Section FilterInd.
  Variable P : tfilter -> Prop.
  Hypothesis Hleaf : forall f, c05_leaf f -> P f.
  Hypothesis HAnd : forall fs, Forall P fs -> P (FAnd fs).
  Hypothesis HOr : forall fs, Forall P fs -> P (FOr fs).
  Hypothesis HNot : forall g, P g -> P (FNot g).

  Lemma tfilter_ind' : forall f, P f.
  Proof.
    fix IH 1. intros f. destruct f; try (apply Hleaf; exact I).
    - apply HAnd. induction fs as [|g fs IHfs]; constructor; [apply IH | exact IHfs].
    - apply HOr. induction fs as [|g fs IHfs]; constructor; [apply IH | exact IHfs].
    - apply HNot. apply IH.
  Qed.
End FilterInd.

(* ------------------------------------------------------------------ *)
(* unfolding the nested fixpoints *)

Lemma c05_sat_and re fs t : sat re (FAnd fs) t <-> Forall (fun g => sat re g t) fs.
Proof.
  induction fs as [|g fs IH].
  - cbn. split; [constructor | trivial].
  - change (sat re (FAnd (g :: fs)) t) with (sat re g t /\ sat re (FAnd fs) t).
    rewrite IH. split.
    + intros [H1 H2]. constructor; assumption.
    + intros H. inversion H; subst. split; assumption.
Qed.

Lemma c05_sat_or re fs t : sat re (FOr fs) t <-> Exists (fun g => sat re g t) fs.
Proof.
  induction fs as [|g fs IH].
  - cbn. split; [contradiction | intros H; inversion H].
  - change (sat re (FOr (g :: fs)) t) with (sat re g t \/ sat re (FOr fs) t).
    rewrite IH. split.
    + intros [H|H]; [apply Exists_cons_hd | apply Exists_cons_tl]; assumption.
    + intros H. inversion H; subst; [left | right]; assumption.
Qed.

Lemma c05_satb_and re fs t : sat_b re (FAnd fs) t = forallb (fun g => sat_b re g t) fs.
Proof.
  induction fs as [|g fs IH]; [reflexivity|].
  change (sat_b re (FAnd (g :: fs)) t) with (sat_b re g t && sat_b re (FAnd fs) t).
  rewrite IH. reflexivity.
Qed.

Lemma c05_satb_or re fs t : sat_b re (FOr fs) t = existsb (fun g => sat_b re g t) fs.
Proof.
  induction fs as [|g fs IH]; [reflexivity|].
  change (sat_b re (FOr (g :: fs)) t) with (sat_b re g t || sat_b re (FOr fs) t).
  rewrite IH. reflexivity.
Qed.

Lemma c05_wf_and fs : filter_wf (FAnd fs) <-> Forall filter_wf fs.
Proof.
  induction fs as [|g fs IH].
  - cbn. split; [constructor | trivial].
  - change (filter_wf (FAnd (g :: fs))) with (filter_wf g /\ filter_wf (FAnd fs)).
    rewrite IH. split.
    + intros [H1 H2]. constructor; assumption.
    + intros H. inversion H; subst. split; assumption.
Qed.

Lemma c05_wf_or fs : filter_wf (FOr fs) <-> Forall filter_wf fs.
Proof. exact (c05_wf_and fs). Qed.

Lemma c05_wfb_and fs : filter_wf_b (FAnd fs) = forallb filter_wf_b fs.
Proof.
  induction fs as [|g fs IH]; [reflexivity|].
  change (filter_wf_b (FAnd (g :: fs))) with (filter_wf_b g && filter_wf_b (FAnd fs)).
  rewrite IH. reflexivity.
Qed.

(* ------------------------------------------------------------------ *)
(* Decimal comparisons as comparisons of exact values *)

Lemma c05_dleb_Z a b : dwf a -> dwf b -> dleb a b = (d28 a <=? d28 b).
Proof. intros Ha Hb. unfold dleb, Z.leb. rewrite (dcmp_d28 a b Ha Hb). reflexivity. Qed.

Lemma c05_dltb_Z a b : dwf a -> dwf b -> dltb a b = (d28 a <? d28 b).
Proof. intros Ha Hb. unfold dltb, Z.ltb. rewrite (dcmp_d28 a b Ha Hb). reflexivity. Qed.

Lemma c05_deqb_Z a b : dwf a -> dwf b -> deqb a b = (d28 a =? d28 b).
Proof.
  intros Ha Hb. pose proof (deqb_d28 a b Ha Hb) as H.
  destruct (deqb a b), (Z.eqb_spec (d28 a) (d28 b)); try reflexivity.
  - exfalso. apply n. apply H. reflexivity.
  - apply H in e. discriminate.
Qed.

Lemma c05_lon_in_box_b w e lon : dwf w -> dwf e -> dwf lon ->
  lon_in_box w e lon = lon_spec_b w e lon.
Proof.
  intros Hw He Hl. unfold lon_in_box, lon_spec_b.
  rewrite (c05_dleb_Z w e), (c05_dleb_Z w lon), (c05_dleb_Z lon e) by assumption. reflexivity.
Qed.

Lemma c05_bbox2d_b s w n e g : dwf s -> dwf w -> dwf n -> dwf e -> geo_wf g ->
  bbox2d s w n e g = box_spec_b s w n e g.
Proof.
  intros Hs Hw Hn He (Hlat & Hlon & _). unfold bbox2d, box_spec_b, lat_in_box.
  rewrite (c05_lon_in_box_b w e (g_lon g)), (c05_dleb_Z s (g_lat g)), (c05_dleb_Z (g_lat g) n)
    by assumption. reflexivity.
Qed.

Lemma c05_existsb_ext_Forall {A} (f g : A -> bool) (P : A -> Prop) l :
  Forall P l -> (forall x, P x -> f x = g x) -> existsb f l = existsb g l.
Proof.
  intros HF Hfg. induction HF as [|x l Hx HF IH]; [reflexivity|].
  cbn [existsb]. rewrite (Hfg x Hx), IH. reflexivity.
Qed.

(* ------------------------------------------------------------------ *)
(* the implementation's predicate computes the oracle (scale <= 28 everywhere) *)

Lemma c05_eval_satb re t : ftxn_wf t -> forall f, filter_wf f -> eval re f t = sat_b re f t.
Proof.
  intros [Hposts Hloc]. induction f using tfilter_ind'; intros Hwf.
  - destruct f; try contradiction; try reflexivity.
    + (* FBBox *) destruct Hwf as (Hs & Hw & Hn & He).
      cbn [eval sat_b]. destruct (h_loc (ft_hdr t)) as [g|]; [|reflexivity].
      cbn [is_some_and]. apply c05_bbox2d_b; assumption.
    + (* FBBoxAlt *) destruct Hwf as (Hs & Hw & Hd & Hn & He & Hh).
      cbn [eval sat_b]. destruct (h_loc (ft_hdr t)) as [g|]; [|reflexivity].
      cbn [is_some_and]. rewrite (c05_bbox2d_b south west north east g) by assumption.
      destruct Hloc as (_ & _ & Halt).
      destruct (g_alt g) as [z|].
      * rewrite (c05_dleb_Z depth z), (c05_dleb_Z z height) by assumption.
        destruct (box_spec_b south west north east g); reflexivity.
      * destruct (box_spec_b south west north east g); reflexivity.
    + (* FPAmountEq *) cbn [eval sat_b filter_wf] in *.
      apply (c05_existsb_ext_Forall _ _ _ _ Hposts). intros p Hp. cbv beta in Hp.
      unfold post_account_str. rewrite (c05_deqb_Z (p_amount p) a) by assumption. apply andb_comm.
    + (* FPAmountLt *) cbn [eval sat_b filter_wf] in *.
      apply (c05_existsb_ext_Forall _ _ _ _ Hposts). intros p Hp. cbv beta in Hp.
      unfold post_account_str. rewrite (c05_dltb_Z (p_amount p) a) by assumption. apply andb_comm.
    + (* FPAmountGt *) cbn [eval sat_b filter_wf] in *.
      apply (c05_existsb_ext_Forall _ _ _ _ Hposts). intros p Hp. cbv beta in Hp.
      unfold post_account_str. rewrite (c05_dltb_Z a (p_amount p)) by assumption. apply andb_comm.
  - (* FAnd *) rewrite c05_satb_and. cbn [eval]. apply c05_wf_and in Hwf.
    induction H as [|g fs Hg HF IH]; [reflexivity|].
    inversion Hwf; subst. cbn [forallb]. rewrite Hg, IH by assumption. reflexivity.
  - (* FOr *) rewrite c05_satb_or. cbn [eval]. apply c05_wf_or in Hwf.
    induction H as [|g fs Hg HF IH]; [reflexivity|].
    inversion Hwf; subst. cbn [existsb]. rewrite Hg, IH by assumption. reflexivity.
  - (* FNot *) cbn [eval sat_b]. rewrite IHf by exact Hwf. reflexivity.
Qed.

(* ------------------------------------------------------------------ *)
(* the oracle decides the documented predicate (no side condition) *)

Lemma c05_lon_spec_b w e lon : lon_spec_b w e lon = true <-> lon_spec w e lon.
Proof.
  unfold lon_spec_b, lon_spec.
  destruct (Z.leb_spec (d28 w) (d28 e)).
  - rewrite andb_true_iff, !Z.leb_le. lia.
  - rewrite orb_true_iff, !Z.leb_le. lia.
Qed.

Lemma c05_box_spec_b s w n e g : box_spec_b s w n e g = true <-> box_spec s w n e g.
Proof.
  unfold box_spec_b, box_spec, lat_spec.
  rewrite !andb_true_iff, !Z.leb_le, c05_lon_spec_b. tauto.
Qed.

Lemma c05_satb_sat re t : forall f, sat_b re f t = true <-> sat re f t.
Proof.
  induction f using tfilter_ind'.
  - destruct f; try contradiction; cbn [sat_b sat].
    + (* FTrue *) tauto.
    + (* FFalse *) split; [discriminate | contradiction].
    + (* FTsBegin *) apply Z.leb_le.
    + (* FTsEnd *) apply Z.ltb_lt.
    + (* FCode *) destruct (h_code (ft_hdr t)) as [c|].
      * split; [intros E; exists c; auto | intros (c' & E & M); injection E as <-; exact M].
      * split; [discriminate | intros (c' & E & _); discriminate].
    + (* FDesc *) destruct (h_desc (ft_hdr t)) as [c|].
      * split; [intros E; exists c; auto | intros (c' & E & M); injection E as <-; exact M].
      * split; [discriminate | intros (c' & E & _); discriminate].
    + (* FUuid *) destruct (h_uuid (ft_hdr t)) as [x|].
      * rewrite str_eqb_eq. split; [intros ->; reflexivity | intros E; injection E; auto].
      * split; discriminate.
    + (* FBBox *) destruct (h_loc (ft_hdr t)) as [g|].
      * rewrite c05_box_spec_b.
        split; [intros B; exists g; auto | intros (g' & E & B); injection E as <-; exact B].
      * split; [discriminate | intros (g' & E & _); discriminate].
    + (* FBBoxAlt *) destruct (h_loc (ft_hdr t)) as [g|].
      * destruct (g_alt g) as [z|] eqn:Ez.
        -- rewrite !andb_true_iff, c05_box_spec_b, !Z.leb_le. split.
           ++ intros [[B D] D2]. exists g, z. auto.
           ++ intros (g' & z' & E & Ez' & B & D & D2). injection E as <-.
              rewrite Ez in Ez'. injection Ez' as <-. auto.
        -- split; [discriminate|].
           intros (g' & z' & E & Ez' & _). injection E as <-. rewrite Ez in Ez'. discriminate.
      * split; [discriminate | intros (g' & z' & E & _); discriminate].
    + (* FTags *) rewrite existsb_exists. tauto.
    + (* FComments *) rewrite existsb_exists. tauto.
    + (* FPAccount *) rewrite existsb_exists. tauto.
    + (* FPComment *) rewrite existsb_exists. split.
      * intros ([c|] & Hin & M); [exists c; auto | discriminate].
      * intros (c & Hin & M). exists (Some c). auto.
    + (* FPAmountEq *) rewrite existsb_exists. split.
      * intros (p & Hin & M). apply andb_true_iff in M as [M1 M2]. apply Z.eqb_eq in M2. exists p; auto.
      * intros (p & Hin & M1 & M2). exists p. rewrite andb_true_iff, Z.eqb_eq. auto.
    + (* FPAmountLt *) rewrite existsb_exists. split.
      * intros (p & Hin & M). apply andb_true_iff in M as [M1 M2]. apply Z.ltb_lt in M2. exists p; auto.
      * intros (p & Hin & M1 & M2). exists p. rewrite andb_true_iff, Z.ltb_lt. auto.
    + (* FPAmountGt *) rewrite existsb_exists. split.
      * intros (p & Hin & M). apply andb_true_iff in M as [M1 M2]. apply Z.ltb_lt in M2. exists p; auto.
      * intros (p & Hin & M1 & M2). exists p. rewrite andb_true_iff, Z.ltb_lt. auto.
    + (* FPCommodity *) rewrite existsb_exists. tauto.
  - (* FAnd *) rewrite c05_satb_and, c05_sat_and.
    induction H as [|g fs Hg HF IH].
    + cbn. split; [constructor | reflexivity].
    + cbn [forallb]. rewrite andb_true_iff, Hg, IH. split.
      * intros [H1 H2]. constructor; assumption.
      * intros H. inversion H; subst. split; assumption.
  - (* FOr *) rewrite c05_satb_or, c05_sat_or.
    induction H as [|g fs Hg HF IH].
    + cbn. split; [discriminate | intros H; inversion H].
    + cbn [existsb]. rewrite orb_true_iff, Hg, IH. split.
      * intros [H|H]; [apply Exists_cons_hd | apply Exists_cons_tl]; assumption.
      * intros H. inversion H; subst; [left | right]; assumption.
  - (* FNot *) cbn [sat_b sat]. rewrite <- IHf. destruct (sat_b re f t); cbn [negb]; split.
    + discriminate.
    + intros H0. exfalso. apply H0. reflexivity.
    + intros _ H0. discriminate.
    + intros _. reflexivity.
Qed.

(* the main statement: the implementation's predicate is the documented predicate *)
Lemma c05_eval_sat re f t : filter_wf f -> ftxn_wf t -> (eval re f t = true <-> sat re f t).
Proof. intros Hf Ht. rewrite (c05_eval_satb re t Ht f Hf). apply c05_satb_sat. Qed.

Lemma c05_eval_sat_false re f t : filter_wf f -> ftxn_wf t -> (eval re f t = false <-> ~ sat re f t).
Proof.
  intros Hf Ht. rewrite <- (c05_eval_sat re f t Hf Ht).
  destruct (eval re f t); split; congruence.
Qed.

(* Boolean connectives, stated on the implementation's predicate itself *)
Lemma c05_eval_and re fs t : eval re (FAnd fs) t = true <-> Forall (fun g => eval re g t = true) fs.
Proof. cbn [eval]. rewrite forallb_forall, Forall_forall. tauto. Qed.
Lemma c05_eval_or re fs t : eval re (FOr fs) t = true <-> Exists (fun g => eval re g t = true) fs.
Proof. cbn [eval]. rewrite existsb_exists, Exists_exists. tauto. Qed.
Lemma c05_eval_not re g t : eval re (FNot g) t = negb (eval re g t).
Proof. reflexivity. Qed.

(* ------------------------------------------------------------------ *)
(* selection, sub-sequence, interleaving *)

Lemma c05_filter_selects {A} (p : A -> bool) (P : A -> Prop) l :
  (forall x, In x l -> (p x = true <-> P x)) -> Selects P l (filter p l).
Proof.
  induction l as [|x l IH]; intros H; cbn [filter]; [constructor|].
  assert (IH' : Selects P l (filter p l)) by (apply IH; intros y Hy; apply H; right; exact Hy).
  pose proof (H x (or_introl eq_refl)) as Hx.
  destruct (p x).
  - apply Sel_in; [apply Hx; reflexivity | exact IH'].
  - apply Sel_out; [intros HP; apply Hx in HP; discriminate | exact IH'].
Qed.

Lemma c05_selects_unique {A} (P : A -> Prop) l o1 o2 :
  Selects P l o1 -> Selects P l o2 -> o1 = o2.
Proof.
  intros H1. revert o2. induction H1; intros o2 H2; inversion H2; subst;
    try reflexivity; try contradiction.
  - f_equal. apply IHSelects. assumption.
  - apply IHSelects. assumption.
Qed.

Lemma c05_selects_subseq {A} (P : A -> Prop) l o : Selects P l o -> Subseq o l.
Proof. induction 1; constructor; assumption. Qed.

Lemma c05_selects_in {A} (P : A -> Prop) l o : Selects P l o ->
  (forall x, In x o -> In x l /\ P x) /\ (forall x, In x l -> P x -> In x o).
Proof.
  induction 1 as [|x l o Hx HS [IH1 IH2]|x l o Hx HS [IH1 IH2]].
  - split; intros x []; contradiction.
  - split.
    + intros y [<-|Hy]; [split; [left; reflexivity | exact Hx]|].
      destruct (IH1 y Hy). split; [right|]; assumption.
    + intros y [<-|Hy] Py; [left; reflexivity | right; apply IH2; assumption].
  - split.
    + intros y Hy. destruct (IH1 y Hy). split; [right|]; assumption.
    + intros y [<-|Hy] Py; [contradiction | apply IH2; assumption].
Qed.

Lemma c05_filter_subseq {A} (p : A -> bool) l : Subseq (filter p l) l.
Proof.
  induction l as [|x l IH]; cbn [filter]; [constructor|].
  destruct (p x); constructor; exact IH.
Qed.

Lemma c05_filter_interleave {A} (p : A -> bool) l :
  Interleave (filter p l) (filter (fun x => negb (p x)) l) l.
Proof.
  induction l as [|x l IH]; cbn [filter]; [constructor|].
  destruct (p x); cbn [negb]; constructor; exact IH.
Qed.

Lemma c05_interleave_length {A} (a b l : list A) :
  Interleave a b l -> (length a + length b = length l)%nat.
Proof. induction 1; cbn [length]; lia. Qed.

Lemma c05_txn_filter_not re f l :
  txn_filter re (FNot f) l = filter (fun t => negb (eval re f t)) l.
Proof. reflexivity. Qed.

Lemma c05_partition re f l :
  let a := txn_filter re f l in
  let b := txn_filter re (FNot f) l in
  Interleave a b l /\ Subseq a l /\ Subseq b l /\ (length a + length b = length l)%nat
  /\ (forall x, In x l -> (In x a /\ ~ In x b) \/ (In x b /\ ~ In x a)).
Proof.
  cbv zeta. rewrite c05_txn_filter_not. unfold txn_filter.
  pose proof (c05_filter_interleave (eval re f) l) as HI.
  split; [exact HI|]. split; [apply c05_filter_subseq|]. split; [apply c05_filter_subseq|].
  split; [apply c05_interleave_length; exact HI|].
  intros x Hx. rewrite !filter_In.
  destruct (eval re f x) eqn:E; [left | right]; cbn [negb]; split; try tauto;
    intros [_ H]; discriminate.
Qed.

(* the filtered set is exactly the documented selection *)
Lemma c05_filter_exact re f l : filter_wf f -> Forall ftxn_wf l ->
  Selects (sat re f) l (txn_filter re f l).
Proof.
  intros Hf Hl. apply c05_filter_selects. intros x Hx.
  apply c05_eval_sat; [exact Hf|]. rewrite Forall_forall in Hl. apply Hl. exact Hx.
Qed.

(* a filter and its negation: the two results are the documented selection and its complement *)
Lemma c05_partition_sat re f l : filter_wf f -> Forall ftxn_wf l ->
  Selects (sat re f) l (txn_filter re f l)
  /\ Selects (fun t => ~ sat re f t) l (txn_filter re (FNot f) l).
Proof.
  intros Hf Hl. split; [apply c05_filter_exact; assumption|].
  exact (c05_filter_exact re (FNot f) l Hf Hl).
Qed.

(* order: TxnData::from sorts (a permutation), filtering keeps a sub-sequence of it *)
Lemma c05_order re f l :
  Subseq (txn_filter re f (txn_data_from l)) (txn_data_from l)
  /\ Permutation (txn_data_from l) l.
Proof. split; [apply c05_filter_subseq | apply sort_by_perm]. Qed.

(* ------------------------------------------------------------------ *)
(* metadata *)

Lemma c05_mapM_ok {A B} (f : A -> res B) l ys :
  mapM f l = Ok ys -> Forall2 (fun x y => f x = Ok y) l ys.
Proof.
  revert ys. induction l as [|x l IH]; intros ys; cbn [mapM].
  - intros E. injection E as <-. constructor.
  - destruct (f x) as [y|c] eqn:Ex; [|discriminate].
    destruct (mapM f l) as [ys'|c]; [|discriminate].
    intros E. injection E as <-. constructor; [exact Ex | apply IH; reflexivity].
Qed.

Lemma c05_has_dup_false l : has_dup l = false -> NoDup l.
Proof.
  induction l as [|x l IH]; cbn [has_dup]; intros H; constructor.
  - apply orb_false_iff in H as [H _]. intros Hin.
    assert (existsb (str_eqb x) l = true) by (apply existsb_exists; exists x; split; [exact Hin | apply str_eqb_refl]).
    congruence.
  - apply IH. apply orb_false_iff in H as [_ H]. exact H.
Qed.

Lemma c05_preimage_ok txns u : checksum_preimage txns = Ok u ->
  Permutation (map Some u) (map (fun t => h_uuid (ft_hdr t)) txns) /\ NoDup u.
Proof.
  unfold checksum_preimage, res_bind.
  destruct (mapM _ txns) as [us|c] eqn:EM; [|discriminate].
  destruct (has_dup (sort_by str_leb us)) eqn:ED; [discriminate|].
  intros E. injection E as <-. split; [|apply c05_has_dup_false; exact ED].
  apply c05_mapM_ok in EM. clear ED.
  assert (Hmap : map Some us = map (fun t => h_uuid (ft_hdr t)) txns).
  { induction EM as [|t y l ys Hy HF IH]; [reflexivity|]. cbn [map]. rewrite IH. cbv beta in Hy.
    destruct (h_uuid (ft_hdr t)) as [u0|]; [|discriminate]. injection Hy as <-. reflexivity. }
  rewrite <- Hmap. apply Permutation_map. apply sort_by_perm.
Qed.

Lemma c05_metadata re audit f data out md :
  txn_data_filter re audit f data = Ok (out, md) ->
  out = filter (eval re f) data
  /\ match md with
     | Some m => audit = true /\ md_size m = length out
                 /\ Permutation (map Some (md_preimage m)) (map (fun t => h_uuid (ft_hdr t)) out)
                 /\ NoDup (md_preimage m)
     | None => audit = false
     end.
Proof.
  unfold txn_data_filter, make_metadata, txn_filter, res_map. destruct audit.
  - destruct (checksum_preimage _) as [u|c] eqn:EP; [|discriminate].
    intros E. injection E as <- <-. split; [reflexivity|].
    cbn [md_size md_preimage]. destruct (c05_preimage_ok _ _ EP). auto.
  - intros E. injection E as <- <-. auto.
Qed.

Lemma c05_metadata_size re f data out m :
  txn_data_filter re true f data = Ok (out, Some m) ->
  md_size m = length (filter (eval re f) data).
Proof. intros H. apply c05_metadata in H as [-> (_ & H & _)]. exact H. Qed.

(* ------------------------------------------------------------------ *)
(* oracle soundness *)

Lemma c05_pick_map {A} (p : A -> bool) l : pick (map p l) l = filter p l.
Proof.
  induction l as [|x l IH]; [reflexivity|]. cbn [map pick filter]. rewrite IH. reflexivity.
Qed.

Lemma c05_count_true_map {A} (p : A -> bool) l : count_true (map p l) = length (filter p l).
Proof.
  induction l as [|x l IH]; [reflexivity|]. cbn [map count_true filter].
  destruct (p x); cbn [length]; lia.
Qed.

Lemma c05_bool_eqb_eq x y : Bool.eqb x y = true <-> x = y.
Proof. destruct x, y; cbn; split; congruence. Qed.

Lemma c05_oracle_sound re f all mask :
  select_oracle re f all mask = true ->
  length mask = length all /\ Selects (sat re f) all (pick mask all).
Proof.
  unfold select_oracle. intros H. apply (list_eqb_eq _ c05_bool_eqb_eq) in H. subst mask.
  split; [apply map_length|]. rewrite c05_pick_map.
  apply c05_filter_selects. intros x _. apply c05_satb_sat.
Qed.

Lemma c05_size_oracle_sound re f all mask n :
  select_oracle re f all mask = true -> size_oracle mask (Some n) = true ->
  n = N.of_nat (length (pick mask all)).
Proof.
  unfold select_oracle, size_oracle. intros H Hn.
  apply (list_eqb_eq _ c05_bool_eqb_eq) in H. subst mask.
  apply N.eqb_eq in Hn. rewrite c05_pick_map, <- c05_count_true_map. exact Hn.
Qed.

(* model and oracle agree on well-formed input: a correspondence failure with a clean
   oracle can only come from the model, never from the specification *)
Lemma c05_model_meets_oracle re f l : filter_wf f -> Forall ftxn_wf l ->
  select_oracle re f l (map (eval re f) l) = true.
Proof.
  intros Hf Hl. unfold select_oracle. apply (list_eqb_eq _ c05_bool_eqb_eq).
  apply map_ext_in. intros x Hx. symmetry. apply c05_eval_satb; [|exact Hf].
  rewrite Forall_forall in Hl. apply Hl. exact Hx.
Qed.

(* boolean well-formedness reflects the propositions *)
Lemma c05_dwf_b d : dwf_b d = true <-> dwf d.
Proof. unfold dwf_b, dwf. apply N.leb_le. Qed.

Lemma c05_ftxn_wf_b t : ftxn_wf_b t = true -> ftxn_wf t.
Proof.
  unfold ftxn_wf_b, ftxn_wf, geo_wf. rewrite andb_true_iff, forallb_forall, Forall_forall.
  intros [H1 H2]. split.
  - intros p Hp. apply c05_dwf_b. apply H1. exact Hp.
  - destruct (h_loc (ft_hdr t)) as [g|]; [|exact I].
    rewrite !andb_true_iff in H2. destruct H2 as [[Ha Hb] Hc].
    rewrite !c05_dwf_b in *. split; [exact Ha|]. split; [exact Hb|].
    destruct (g_alt g); [apply c05_dwf_b; exact Hc | exact I].
Qed.

Lemma c05_filter_wf_b : forall f, filter_wf_b f = true -> filter_wf f.
Proof.
  induction f using tfilter_ind'.
  - destruct f; try contradiction; cbn [filter_wf_b filter_wf]; try (intros _; exact I);
      rewrite ?andb_true_iff, ?c05_dwf_b; tauto.
  - rewrite c05_wfb_and, c05_wf_and, forallb_forall, Forall_forall.
    rewrite Forall_forall in H. intros Hb g Hg. apply H; [exact Hg | apply Hb; exact Hg].
  - change (filter_wf_b (FOr fs)) with (filter_wf_b (FAnd fs)).
    rewrite c05_wfb_and, c05_wf_or, forallb_forall, Forall_forall.
    rewrite Forall_forall in H. intros Hb g Hg. apply H; [exact Hg | apply Hb; exact Hg].
  - cbn [filter_wf_b filter_wf]. exact IHf.
Qed.

(* ------------------------------------------------------------------ *)
(* non-vacuity: a nested definition over several leaf kinds on three transactions *)

Definition c05_ex_re (r : N) (s : list N) : bool :=
  match r with
  | 0%N => str_eqb s [97; 58; 98]%N          (* "a:b" *)
  | 1%N => str_eqb s [116; 49]%N             (* "t1" *)
  | _ => false
  end.

Definition c05_ex_post (a : list (list N)) (m : Z) (s : N) : posting :=
  mkPosting a [69; 85; 82]%N (mkDec m s) (mkDec m s) false [69; 85; 82]%N.

Definition c05_ex_txns : list ftxn :=
  [ mkFtxn (mkTxn (mkHeader 1000 7200 None None None
                     (Some (mkGeo (mkDec 601 1) (mkDec 249 1) (Some (mkDec 5 0)))) [[116; 49]%N] [])
                  [c05_ex_post [[97]; [98]]%N 100 2; c05_ex_post [[101]]%N (-100) 2])
           [None; None];
    mkFtxn (mkTxn (mkHeader 1000 0 None None None
                     (Some (mkGeo (mkDec 10 0) (mkDec 100 0) None)) [] [])
                  [c05_ex_post [[97]; [98]]%N 2 0; c05_ex_post [[101]]%N (-2) 0])
           [None; None];
    mkFtxn (mkTxn (mkHeader 999 0 None None None None [] [])
                  [c05_ex_post [[97]]%N 1 0; c05_ex_post [[101]]%N (-1) 0])
           [Some [120]%N; None] ].

Definition c05_ex_filter : tfilter :=
  FOr [ FAnd [ FTsBegin 1000; FTsEnd 1001; FPAmountEq 0 (mkDec 10 1);
               FBBox (mkDec 0 0) (mkDec 249 1) (mkDec 90 0) (mkDec 2490 2) ];
        FNot (FOr [ FTsBegin 1000; FAnd [] ]);
        FBBoxAlt (mkDec 0 0) (mkDec 170 0) (mkDec 0 0) (mkDec 90 0) (mkDec (-170) 0) (mkDec 10 0) ].

Lemma c05_example :
  filter_wf c05_ex_filter /\ Forall ftxn_wf c05_ex_txns
  /\ map (eval c05_ex_re c05_ex_filter) c05_ex_txns = [true; false; false]
  /\ map (eval c05_ex_re (FTsBegin 1000)) c05_ex_txns = [true; true; false]
  /\ map (eval c05_ex_re (FBBox (mkDec 0 0) (mkDec 170 0) (mkDec 90 0) (mkDec (-170) 0))) c05_ex_txns
     = [false; false; false]
  /\ map (eval c05_ex_re (FBBox (mkDec 0 0) (mkDec 20 0) (mkDec 90 0) (mkDec 200 1))) c05_ex_txns
     = [false; false; false].
Proof.
  split.
  { apply c05_filter_wf_b. vm_compute. reflexivity. }
  split.
  { apply Forall_forall. intros t Ht. apply c05_ftxn_wf_b.
    cbn [c05_ex_txns In] in Ht. destruct Ht as [<-|[<-|[<-|[]]]]; vm_compute; reflexivity. }
  repeat split; vm_compute; reflexivity.
Qed.
