From TkModel Require Import Base Config.

Lemma effective_metamorphic f c : effective f c = effective (merge f c) (only_before c).
Proof.
  unfold effective, merge, only_before, sel, file_sel, cli_accounts, or_else, or_opt. cbn.
  destruct (c_lookup c), (c_db c), (c_commodity c), (c_before c), (c_strict c), (c_audit c),
    (c_reports c), (c_exports c), (c_group_by c), (c_accounts c); cbn; reflexivity.
Qed.

Lemma effective_precedence f c e : effective f c = Ok e ->
  e_strict e = or_else (c_strict c) (f_strict f)
  /\ e_audit e = or_else (c_audit c) (f_audit f)
  /\ e_reports e = or_else (c_reports c) (f_reports f)
  /\ e_exports e = or_else (c_exports c) (f_exports f)
  /\ e_commodity e = or_opt (c_commodity c) (f_commodity f)
  /\ e_lookup e = or_else (c_lookup c) (f_lookup f)
  /\ e_group_by e = or_else (c_group_by c) (f_group_by f)
  /\ (e_lookup e <> 0%N -> e_db e = or_opt (c_db c) (f_db f)).
Proof.
  unfold effective. intros H.
  repeat match type of H with (if ?b then _ else _) = _ => destruct b eqn:?; [discriminate|] end.
  inversion H; subst e; cbn. repeat split; try reflexivity.
  intros Hl. destruct (N.eqb (or_else (c_lookup c) (f_lookup f)) 0) eqn:E; [|reflexivity].
  apply N.eqb_eq in E. contradiction.
Qed.

Lemma effective_selectors f c e : effective f c = Ok e ->
  (forall g, cli_accounts c = Some g ->
     e_ras_bal e = g /\ e_ras_balgrp e = g /\ e_ras_reg e = g /\ e_ras_eq e = g)
  /\ (cli_accounts c = None ->
     e_ras_bal e = file_sel f (f_bal_acc f) /\ e_ras_balgrp e = file_sel f (f_balgrp_acc f)
     /\ e_ras_reg e = file_sel f (f_reg_acc f) /\ e_ras_eq e = file_sel f (f_eq_acc f)).
Proof.
  unfold effective. intros H.
  repeat match type of H with (if ?b then _ else _) = _ => destruct b eqn:?; [discriminate|] end.
  inversion H; subst e; cbn. unfold sel. split.
  - intros g Hg. rewrite Hg. repeat split; reflexivity.
  - intros Hn. rewrite Hn. repeat split; reflexivity.
Qed.

Lemma file_sel_rules f :
  (forall l, file_sel f (Some l) = l)
  /\ (forall g, f_accounts f = Some g -> file_sel f None = g)
  /\ (f_accounts f = None -> file_sel f None = []).
Proof. unfold file_sel, or_else. repeat split; intros; try rewrite H; reflexivity. Qed.

Lemma empty_selector_means_all f c e k :
  c_accounts c = Some (repeat [] k) -> effective f c = Ok e ->
  e_ras_bal e = [] /\ e_ras_balgrp e = [] /\ e_ras_reg e = [] /\ e_ras_eq e = [].
Proof.
  intros Hc H. assert (cli_accounts c = Some []) as Hg.
  { unfold cli_accounts. rewrite Hc. cbn. f_equal. clear Hc. induction k as [|k IH]; [reflexivity|exact IH]. }
  destruct (effective_selectors f c e H) as [H1 _]. exact (H1 [] Hg).
Qed.

Lemma effective_rejects f c :
  let lookup := or_else (c_lookup c) (f_lookup f) in
  (or_opt (c_commodity c) (f_commodity f) = None -> lookup <> 0%N -> exists x, effective f c = Err x)
  /\ (lookup <> 3%N -> c_before c <> None -> exists x, effective f c = Err x)
  /\ (lookup = 3%N -> c_before c = None -> exists x, effective f c = Err x)
  /\ (or_else (c_strict c) (f_strict f) = true -> In 0%N (or_else (c_exports c) (f_exports f)) ->
      f_eq_declared f = false -> exists x, effective f c = Err x).
Proof.
  cbv zeta. unfold effective.
  destruct (or_else (c_strict c) (f_strict f) && existsb (N.eqb 0) (or_else (c_exports c) (f_exports f))
            && negb (f_eq_declared f)) eqn:Eq.
  { repeat split; intros; eexists; reflexivity. }
  repeat split.
  - intros Hc Hl. rewrite Hc. apply N.eqb_neq in Hl. rewrite Hl. cbn. eexists; reflexivity.
  - intros Hl Hb. apply N.eqb_neq in Hl. rewrite Hl.
    destruct (c_before c) eqn:Eb; [|congruence].
    destruct ((match or_opt (c_commodity c) (f_commodity f) with None => true | Some _ => false end)
              && negb (N.eqb (or_else (c_lookup c) (f_lookup f)) 0)); eexists; cbn; reflexivity.
  - intros Hl Hb. rewrite Hl, Hb. cbn.
    destruct (or_opt (c_commodity c) (f_commodity f)); eexists; cbn; reflexivity.
  - intros Hs Hin Hd. exfalso. rewrite Hs, Hd in Eq. cbn in Eq.
    assert (existsb (N.eqb 0) (or_else (c_exports c) (f_exports f)) = true) as He.
    { apply existsb_exists. exists 0%N. split; [exact Hin|reflexivity]. }
    rewrite He in Eq. discriminate.
Qed.

Lemma config_example :
  let f := mkFile false false [0%N] [] (Some [[97%N]]) (Some [[98%N]]) None None None None 0%N None 2%N false in
  let c := mkCli (Some true) None None None (Some [[]; [99%N]]) None None None None None in
  option_map (fun e => (e_strict e, e_ras_bal e, e_ras_reg e))
             (match effective f c with Ok e => Some e | Err _ => None end)
  = Some (true, [[99%N]], [[99%N]])
  /\ option_map e_ras_bal (match effective f no_opts with Ok e => Some e | Err _ => None end) = Some [[98%N]]
  /\ option_map e_ras_reg (match effective f no_opts with Ok e => Some e | Err _ => None end) = Some [[97%N]].
Proof. cbv zeta. repeat split; reflexivity. Qed.
