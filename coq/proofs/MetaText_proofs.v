(* MetaText_proofs.v — lemmas of extension T04 (metadata text block). Stdlib only. *)
From Coq Require Import Permutation Sorted.
From TkModel Require Import Base Dec MetaText.
From TkModel Require Audit Codec Journal Price.
From TkSpec Require Import MetaText_spec.
From TkSpec Require Audit_spec Journal_spec EquityText_spec.
From TkProofs Require Import Base_proofs.
From TkProofs Require Codec_proofs Audit_proofs.

(* ------------------------------------------------------------------ small facts *)
Definition nlf (s : list N) : Prop := nl_free s = true.
Definition spf (s : list N) : Prop := sp_free s = true.

Lemma mt_nlf_app a b : nlf (a ++ b) <-> nlf a /\ nlf b.
Proof. unfold nlf, nl_free. rewrite forallb_app, andb_true_iff. reflexivity. Qed.
Lemma mt_nlf_cons c s : nlf (c :: s) <-> c <> 10%N /\ nlf s.
Proof.
  unfold nlf, nl_free, rd_is_nl. cbn [forallb]. rewrite andb_true_iff, negb_true_iff, N.eqb_neq. reflexivity.
Qed.
Lemma mt_nlf_repeat n : nlf (repeat ch_sp n).
Proof. induction n as [|n IH]; [reflexivity|]. cbn [repeat]. apply mt_nlf_cons. split; [discriminate|exact IH]. Qed.
Lemma mt_nlf_pad w s : nlf s -> nlf (pad_left w s).
Proof. intros H. unfold pad_left. apply mt_nlf_app. split; [apply mt_nlf_repeat|exact H]. Qed.
Lemma mt_nlf_kv k v : nlf k -> nlf v -> nlf (kv k v).
Proof.
  intros Hk Hv. unfold kv. apply mt_nlf_app. split; [apply mt_nlf_pad; exact Hk|].
  apply mt_nlf_app. split; [reflexivity|exact Hv].
Qed.
Lemma mt_kv_nonempty k v : kv k v <> [].
Proof.
  unfold kv, s_sep. intros E. apply app_eq_nil in E. destruct E as [_ E]. discriminate.
Qed.

Lemma mt_digits_nlf s : Codec_proofs.digits s -> nlf s.
Proof.
  induction 1 as [|c s Hc _ IH]; [reflexivity|]. apply mt_nlf_cons. split; [|exact IH].
  intros ->. discriminate.
Qed.

(* ------------------------------------------------------------------ lines of a text *)
Lemma mt_rd_lines_nlf s : nlf s -> rd_lines s = [s].
Proof.
  induction s as [|c s IH]; intros H; [reflexivity|].
  apply mt_nlf_cons in H. destruct H as [Hc Hs]. cbn [rd_lines]. unfold rd_is_nl.
  destruct (N.eqb_spec c 10); [contradiction|]. rewrite (IH Hs). reflexivity.
Qed.
Lemma mt_rd_lines_app x s : nlf x -> rd_lines (x ++ ch_nl :: s) = x :: rd_lines s.
Proof.
  induction x as [|c x IH]; intros H.
  - reflexivity.
  - apply mt_nlf_cons in H. destruct H as [Hc Hx]. cbn [app rd_lines]. unfold rd_is_nl.
    destruct (N.eqb_spec c 10); [contradiction|]. rewrite (IH Hx). reflexivity.
Qed.
Lemma mt_rd_lines_join ls : ls <> [] -> Forall nlf ls -> rd_lines (join_nl ls) = ls.
Proof.
  induction ls as [|x r IH]; intros NE H; [contradiction|].
  inversion H as [|? ? Hx Hr]; subst. destruct r as [|y r'].
  - cbn [join_nl]. apply mt_rd_lines_nlf. exact Hx.
  - change (join_nl (x :: y :: r')) with (x ++ ch_nl :: join_nl (y :: r')).
    rewrite (mt_rd_lines_app _ _ Hx), IH; [reflexivity|discriminate|exact Hr].
Qed.

(* split_nl of the model is the same function *)
Lemma mt_split_nl_rd s : split_nl s = rd_lines s.
Proof.
  induction s as [|c s IH]; [reflexivity|]. cbn [split_nl rd_lines]. unfold rd_is_nl, ch_nl. rewrite IH. reflexivity.
Qed.

Lemma mt_rd_blocks_app b rest bs :
  Forall (fun l => l <> []) b -> rd_blocks rest = Some bs -> rd_blocks (b ++ [] :: rest) = Some (b :: bs).
Proof.
  intros Hb Hr. induction Hb as [|l b Hl _ IH].
  - cbn [app rd_blocks]. rewrite Hr. reflexivity.
  - cbn [app rd_blocks]. rewrite IH. destruct l; [contradiction|reflexivity].
Qed.

Lemma mt_md_lines_cons it items : md_lines (it :: items) = item_lines it ++ [] :: md_lines items.
Proof. unfold md_lines. cbn [flat_map]. rewrite <- app_assoc. reflexivity. Qed.

Lemma mt_rd_blocks_md items :
  Forall (fun it => Forall (fun l => l <> []) (item_lines it)) items ->
  rd_blocks (md_lines items) = Some (map item_lines items).
Proof.
  induction 1 as [|it items Hit _ IH]; [reflexivity|].
  rewrite mt_md_lines_cons. cbn [map]. apply mt_rd_blocks_app; assumption.
Qed.

(* ------------------------------------------------------------------ one line *)
Lemma mt_rd_strip_app p s : rd_strip p (p ++ s) = Some s.
Proof. induction p as [|a p IH]; [reflexivity|]. cbn [app rd_strip]. rewrite N.eqb_refl. exact IH. Qed.

Lemma mt_rd_label_kv k v : rd_label k (kv k v) = Some v.
Proof. unfold rd_label, kv. rewrite app_assoc. apply mt_rd_strip_app. Qed.

Lemma mt_rd_drop_repeat n s : rd_drop rd_is_sp (repeat ch_sp n ++ s) = rd_drop rd_is_sp s.
Proof. induction n as [|n IH]; [reflexivity|]. cbn [repeat app rd_drop]. exact IH. Qed.

Lemma mt_spf_cons c s : spf (c :: s) <-> c <> 32%N /\ spf s.
Proof.
  unfold spf, sp_free, rd_is_sp. cbn [forallb]. rewrite andb_true_iff, negb_true_iff, N.eqb_neq. reflexivity.
Qed.

Lemma mt_rd_span_sp a r :
  spf a -> rd_span (fun c => negb (rd_is_sp c)) (a ++ 32%N :: r) = (a, 32%N :: r).
Proof.
  induction a as [|c a IH]; intros H.
  - reflexivity.
  - apply mt_spf_cons in H. destruct H as [Hc Ha]. cbn [app rd_span]. unfold rd_is_sp at 1.
    destruct (N.eqb_spec c 32); [contradiction|]. cbn [negb]. rewrite (IH Ha). reflexivity.
Qed.

Lemma mt_name_ok_inv a : name_ok a = true -> exists c a', a = c :: a' /\ c <> 32%N /\ spf a /\ nlf a.
Proof.
  unfold name_ok. rewrite !andb_true_iff. intros [[H1 H2] H3].
  destruct a as [|c a']; [discriminate|]. exists c, a'. split; [reflexivity|].
  split; [|split; assumption]. apply (proj1 (mt_spf_cons c a')) in H2. tauto.
Qed.

Lemma mt_rd_named_kv a v : name_ok a = true -> rd_named (kv a v) = Some (a, v).
Proof.
  intros H. destruct (mt_name_ok_inv _ H) as (c & a' & -> & Hc & Hsp & _).
  unfold rd_named, kv, pad_left. rewrite <- app_assoc, mt_rd_drop_repeat.
  assert (E : rd_drop rd_is_sp ((c :: a') ++ s_sep ++ v) = (c :: a') ++ 32%N :: ([58; 32]%N ++ v)).
  { cbn [app rd_drop]. unfold rd_is_sp at 1. destruct (N.eqb_spec c 32); [contradiction|]. reflexivity. }
  rewrite E, (mt_rd_span_sp _ _ Hsp). cbn [rd_strip s_sep app]. rewrite !N.eqb_refl. reflexivity.
Qed.

Lemma mt_fold_digits s : forall acc,
  fold_left (fun a c => (a * 10 + (c - 48))%N) s acc = Codec.val_digits acc s.
Proof. induction s as [|c s IH]; intros acc; [reflexivity|]. cbn [fold_left Codec.val_digits]. apply IH. Qed.

Lemma mt_rd_num_show n : rd_num (Codec.show_N n) = Some n.
Proof.
  destruct (Codec_proofs.c18_show_N_spec n) as (D & V & NE). unfold rd_num.
  destruct (Codec.show_N n) as [|c s] eqn:E; [contradiction|].
  assert (F : forallb rd_is_digit (c :: s) = true).
  { apply forallb_forall. intros x Hx. unfold Codec_proofs.digits in D. rewrite Forall_forall in D. exact (D x Hx). }
  rewrite F, mt_fold_digits, V. reflexivity.
Qed.

(* ------------------------------------------------------------------ label texts: which is which *)
Lemma mt_e11 : str_eqb s_txn_set s_txn_set = true. Proof. reflexivity. Qed.
Lemma mt_e21 : str_eqb s_acc_sel s_txn_set = false. Proof. reflexivity. Qed.
Lemma mt_e22 : str_eqb s_acc_sel s_acc_sel = true. Proof. reflexivity. Qed.
Lemma mt_e31 : str_eqb s_zone s_txn_set = false. Proof. reflexivity. Qed.
Lemma mt_e32 : str_eqb s_zone s_acc_sel = false. Proof. reflexivity. Qed.
Lemma mt_e33 : str_eqb s_zone s_zone = true. Proof. reflexivity. Qed.
Lemma mt_e41 : str_eqb s_git s_txn_set = false. Proof. reflexivity. Qed.
Lemma mt_e42 : str_eqb s_git s_acc_sel = false. Proof. reflexivity. Qed.
Lemma mt_e43 : str_eqb s_git s_zone = false. Proof. reflexivity. Qed.
Lemma mt_e44 : str_eqb s_git s_git = true. Proof. reflexivity. Qed.
Lemma mt_e51 : str_eqb s_prices s_txn_set = false. Proof. reflexivity. Qed.
Lemma mt_e52 : str_eqb s_prices s_acc_sel = false. Proof. reflexivity. Qed.
Lemma mt_e53 : str_eqb s_prices s_zone = false. Proof. reflexivity. Qed.
Lemma mt_e54 : str_eqb s_prices s_git = false. Proof. reflexivity. Qed.
Lemma mt_e55 : str_eqb s_prices s_prices = true. Proof. reflexivity. Qed.
Lemma mt_e61 : str_eqb s_filter s_txn_set = false. Proof. reflexivity. Qed.
Lemma mt_e62 : str_eqb s_filter s_acc_sel = false. Proof. reflexivity. Qed.
Lemma mt_e63 : str_eqb s_filter s_zone = false. Proof. reflexivity. Qed.
Lemma mt_e64 : str_eqb s_filter s_git = false. Proof. reflexivity. Qed.
Lemma mt_e65 : str_eqb s_filter s_prices = false. Proof. reflexivity. Qed.
Lemma mt_e66 : str_eqb s_filter s_filter = true. Proof. reflexivity. Qed.

(* ------------------------------------------------------------------ price records *)
Lemma mt_price_ok_inv r : price_ok r = true ->
  match pr_time r with Some t => nlf t /\ t <> s_at_txn | None => True end /\ nlf (pr_source r) /\
  match pr_rate r with Some v => nlf v /\ spf v /\ v <> s_dash | None => True end /\ nlf (pr_target r).
Proof.
  unfold price_ok. rewrite !andb_true_iff. intros [[[H1 H2] H3] H4]. repeat split; try assumption.
  - destruct (pr_time r) as [t|]; [|exact I]. apply andb_true_iff in H1. destruct H1 as [Ha Hb].
    split; [exact Ha|]. apply negb_true_iff, str_eqb_neq in Hb. exact Hb.
  - destruct (pr_rate r) as [v|]; [|exact I]. rewrite !andb_true_iff in H3. destruct H3 as [[Ha Hb] Hc].
    repeat split; try assumption. apply negb_true_iff, str_eqb_neq in Hc. exact Hc.
Qed.

Lemma mt_rd_price r : price_ok r = true ->
  match price_lines r with [a; b; c] => rd_price a b c = Some r | _ => False end.
Proof.
  intros H. apply mt_price_ok_inv in H. destruct H as (Ht & _ & Hr & _).
  destruct r as [t src rate tgt]. cbn [pr_time pr_source pr_rate pr_target] in *.
  unfold price_lines, rd_price. cbn [pr_time pr_source pr_rate pr_target]. rewrite !mt_rd_label_kv.
  assert (Es : rd_span (fun x => negb (rd_is_sp x)) ((match rate with Some v => v | None => s_dash end) ++ ch_sp :: tgt)
               = (match rate with Some v => v | None => s_dash end, 32%N :: tgt)).
  { apply mt_rd_span_sp. destruct rate as [v|]; [tauto|reflexivity]. }
  rewrite Es. f_equal. f_equal.
  - destruct t as [t|].
    + destruct Ht as [_ Ht]. apply str_eqb_neq in Ht. rewrite Ht. reflexivity.
    + rewrite str_eqb_refl. reflexivity.
  - destruct rate as [v|].
    + destruct Hr as (_ & _ & Hr). apply str_eqb_neq in Hr. rewrite Hr. reflexivity.
    + rewrite str_eqb_refl. reflexivity.
Qed.

Lemma mt_rd_more_prices rs : forallb price_ok rs = true ->
  rd_more_prices (flat_map (fun r' => price_sep :: price_lines r') rs) = Some rs.
Proof.
  induction rs as [|r rs IH]; intros H; [reflexivity|].
  cbn [forallb] in H. apply andb_true_iff in H. destruct H as [Hr Hrs].
  cbn [flat_map]. pose proof (mt_rd_price r Hr) as P.
  destruct (price_lines r) as [|a [|b [|c [|d l]]]] eqn:E; try contradiction.
  cbn [app rd_more_prices]. rewrite str_eqb_refl, P, (IH Hrs). reflexivity.
Qed.

Lemma mt_price_lines_shape r : exists a b c, price_lines r = [a; b; c].
Proof. unfold price_lines. eauto. Qed.

Lemma mt_price_lines_ok r : price_ok r = true ->
  Forall (fun l => l <> [] /\ nlf l) (price_lines r).
Proof.
  intros H. apply mt_price_ok_inv in H. destruct H as (Ht & Hs & Hr & Hg).
  unfold price_lines. repeat constructor; try apply mt_kv_nonempty; apply mt_nlf_kv; try reflexivity.
  - destruct (pr_time r); [tauto|reflexivity].
  - exact Hs.
  - apply mt_nlf_app. split; [destruct (pr_rate r); [tauto|reflexivity]|].
    apply mt_nlf_cons. split; [discriminate|exact Hg].
Qed.

(* ------------------------------------------------------------------ one_line: no line break, whatever the message *)
Definition eolfp (s : list N) : Prop := eolf s = true.
Lemma mt_eolf_cons c s : eolfp (c :: s) <-> is_eol c = false /\ eolfp s.
Proof.
  unfold eolfp, eolf, Journal_spec.no_eol, is_eol. cbn [forallb]. rewrite andb_true_iff, negb_true_iff. reflexivity.
Qed.
Lemma mt_eolf_app a b : eolfp (a ++ b) <-> eolfp a /\ eolfp b.
Proof. unfold eolfp, eolf, Journal_spec.no_eol. rewrite forallb_app, andb_true_iff. reflexivity. Qed.
Lemma mt_eolf_Forall s : eolfp s <-> Forall (fun c => is_eol c = false) s.
Proof.
  induction s as [|c s IH]; [split; [constructor|reflexivity]|].
  rewrite mt_eolf_cons, IH. split; [intros [A B]; constructor; assumption|intros F; inversion F; tauto].
Qed.
Lemma mt_eolf_nlf s : eolfp s -> nlf s.
Proof.
  induction s as [|c s IH]; intros H; [reflexivity|]. apply mt_eolf_cons in H. destruct H as [Hc Hs].
  apply mt_nlf_cons. split; [|exact (IH Hs)]. intros ->. discriminate.
Qed.
Lemma mt_split_eol_free s : Forall eolfp (split_eol s).
Proof.
  induction s as [|c s IH]; [repeat constructor|]. cbn [split_eol]. destruct (is_eol c) eqn:E.
  - constructor; [reflexivity|exact IH].
  - destruct (split_eol s) as [|l ls]; [repeat constructor; apply mt_eolf_cons; split; [exact E|reflexivity]|].
    inversion IH; subst. constructor; [apply mt_eolf_cons; split; assumption|assumption].
Qed.
Lemma mt_Forall_drop_while {P : N -> Prop} p s : Forall P s -> Forall P (Journal.drop_while p s).
Proof.
  induction 1 as [|c s Hc Hs IH]; [constructor|]. cbn [Journal.drop_while]. destruct (p c); [exact IH|constructor; assumption].
Qed.
Lemma mt_trim_eolf s : eolfp s -> eolfp (Journal.trim s).
Proof.
  rewrite !mt_eolf_Forall. intros H. unfold Journal.trim, Journal.trim_end.
  apply Forall_rev, mt_Forall_drop_while, Forall_rev, mt_Forall_drop_while. exact H.
Qed.
Lemma mt_join_sp_eolf ls : Forall eolfp ls -> eolfp (join_sp ls).
Proof.
  induction 1 as [|x r Hx Hr IH]; [reflexivity|]. destruct r as [|y r']; [exact Hx|].
  change (join_sp (x :: y :: r')) with (x ++ ch_sp :: join_sp (y :: r')).
  apply mt_eolf_app. split; [exact Hx|]. apply mt_eolf_cons. split; [reflexivity|exact IH].
Qed.
(* T04_git_message_one_line *)
Theorem mt_one_line_eolf m : eolf (one_line m) = true.
Proof.
  unfold one_line. apply mt_join_sp_eolf. apply Forall_forall. intros l Hl.
  apply filter_In in Hl. destruct Hl as [Hl _]. apply in_map_iff in Hl. destruct Hl as (x & <- & Hx).
  apply mt_trim_eolf. pose proof (mt_split_eol_free m) as F. rewrite Forall_forall in F. exact (F x Hx).
Qed.
Theorem mt_git_message_one_line m : eolf (one_line m) = true /\ eolf (kv s_message (one_line m)) = true.
Proof.
  split; [apply mt_one_line_eolf|]. unfold kv, pad_left. change (eolfp ((repeat ch_sp (item_pad - length s_message) ++ s_message) ++ s_sep ++ one_line m)).
  rewrite !mt_eolf_app. repeat split; try reflexivity. apply mt_one_line_eolf.
Qed.
Lemma mt_one_line_nlf m : nlf (one_line m).
Proof. apply mt_eolf_nlf. apply mt_one_line_eolf. Qed.

(* ------------------------------------------------------------------ one item *)
Lemma mt_ck_ok_inv ck : ck_ok ck = true -> name_ok (ck_algo ck) = true /\ nlf (ck_value ck).
Proof. unfold ck_ok. rewrite andb_true_iff. tauto. Qed.

Lemma mt_rd_item it : item_wf it = true -> rd_item (item_lines it) = Some (norm_item it).
Proof.
  destruct it as [n ck|ck|nm|ls|g|rs]; intros H; cbn [item_wf] in H.
  - destruct (mt_ck_ok_inv _ H) as [Ha _]. destruct ck as [algo v]. cbn [ck_algo ck_value] in *.
    cbn [item_lines rd_item norm_item ck_algo ck_value]. rewrite mt_e11, (mt_rd_named_kv _ _ Ha), mt_rd_label_kv, mt_rd_num_show.
    reflexivity.
  - destruct (mt_ck_ok_inv _ H) as [Ha _]. destruct ck as [algo v]. cbn [ck_algo ck_value] in *.
    cbn [item_lines rd_item norm_item ck_algo ck_value]. rewrite mt_e21, mt_e22, (mt_rd_named_kv _ _ Ha). reflexivity.
  - cbn [item_lines rd_item norm_item]. rewrite mt_e31, mt_e32, mt_e33, mt_rd_label_kv. reflexivity.
  - destruct ls as [|l0 ls']; [discriminate|]. apply andb_true_iff in H. destruct H as [H0 _].
    apply str_eqb_eq in H0. subst l0. cbn [item_lines rd_item norm_item].
    rewrite mt_e61, mt_e62, mt_e63, mt_e64, mt_e65, mt_e66. reflexivity.
  - rewrite !andb_true_iff in H. destruct H as [[[_ Hr] _] _].
    destruct g as [c r d s m]. cbn [g_commit g_reference g_dir g_suffix g_message] in *.
    cbn [item_lines rd_item norm_item g_commit g_reference g_dir g_suffix g_message].
    rewrite mt_e41, mt_e42, mt_e43, mt_e44, !mt_rd_label_kv, mt_rd_strip_app.
    destruct r as [r|].
    + apply andb_true_iff in Hr. destruct Hr as [_ Hr]. apply negb_true_iff in Hr. rewrite Hr. reflexivity.
    + rewrite str_eqb_refl. reflexivity.
  - apply andb_true_iff in H. destruct H as [Hn Hf]. destruct rs as [|r rs]; [discriminate|].
    cbn [forallb] in Hf. apply andb_true_iff in Hf. destruct Hf as [Hr Hrs].
    cbn [item_lines norm_item]. pose proof (mt_rd_price r Hr) as P.
    destruct (price_lines r) as [|a [|b [|c [|d l]]]] eqn:E; try contradiction.
    cbn [app rd_item]. rewrite mt_e51, mt_e52, mt_e53, mt_e54, mt_e55, P, (mt_rd_more_prices _ Hrs). reflexivity.
Qed.

Lemma mt_forallb_Forall {A} (p : A -> bool) l : forallb p l = true <-> Forall (fun x => p x = true) l.
Proof. rewrite forallb_forall, Forall_forall. reflexivity. Qed.

(* every line of a well-formed item is non-empty and newline-free, and there is at least one *)
Lemma mt_item_lines_ok it : item_wf it = true ->
  Forall (fun l => l <> [] /\ nlf l) (item_lines it) /\ item_lines it <> [].
Proof.
  destruct it as [n ck|ck|nm|ls|g|rs]; intros H; cbn [item_wf] in H; cbn [item_lines].
  - destruct (mt_ck_ok_inv _ H) as [Ha Hv]. destruct (mt_name_ok_inv _ Ha) as (c & a' & E & _ & _ & Hn).
    split; [|discriminate]. repeat constructor; try apply mt_kv_nonempty; try discriminate; try reflexivity.
    + apply mt_nlf_kv; assumption.
    + apply mt_nlf_kv; [reflexivity|]. apply mt_digits_nlf. apply Codec_proofs.c18_show_N_spec.
  - destruct (mt_ck_ok_inv _ H) as [Ha Hv]. destruct (mt_name_ok_inv _ Ha) as (c & a' & E & _ & _ & Hn).
    split; [|discriminate]. repeat constructor; try apply mt_kv_nonempty; try discriminate; try reflexivity.
    apply mt_nlf_kv; assumption.
  - split; [|discriminate]. repeat constructor; try apply mt_kv_nonempty; try discriminate; try reflexivity.
    apply mt_nlf_kv; [reflexivity|exact H].
  - destruct ls as [|l0 ls']; [discriminate|]. apply andb_true_iff in H. destruct H as [_ H].
    split; [|discriminate]. apply mt_forallb_Forall in H. eapply Forall_impl; [|exact H].
    intros l Hl. cbv beta in Hl. apply andb_true_iff in Hl. destruct Hl as [Hne Hnl].
    split; [destruct l; [discriminate|discriminate]|exact Hnl].
  - rewrite !andb_true_iff in H. destruct H as [[[Hc Hr] Hd] Hs].
    pose proof (mt_one_line_nlf (g_message g)) as Hm.
    split; [|discriminate].
    repeat constructor; try apply mt_kv_nonempty; try discriminate; try reflexivity; apply mt_nlf_kv; try reflexivity;
      try assumption.
    destruct (g_reference g) as [r|]; [|reflexivity]. apply andb_true_iff in Hr. destruct Hr as [Hr _]. exact Hr.
  - apply andb_true_iff in H. destruct H as [Hn Hf]. destruct rs as [|r rs]; [discriminate|].
    cbn [forallb] in Hf. apply andb_true_iff in Hf. destruct Hf as [Hr Hrs].
    split; [|discriminate]. constructor; [split; [discriminate|reflexivity]|].
    apply Forall_app. split; [apply mt_price_lines_ok; exact Hr|].
    apply mt_forallb_Forall in Hrs. clear Hn. induction Hrs as [|r' rs' Hr' _ IH]; [constructor|].
    cbn [flat_map]. constructor; [split; [discriminate|reflexivity]|].
    apply Forall_app. split; [apply mt_price_lines_ok; exact Hr'|exact IH].
Qed.

Lemma mt_rd_all_items items : Forall (fun it => item_wf it = true) items ->
  rd_all rd_item (map item_lines items) = Some (map norm_item items).
Proof.
  induction 1 as [|it items Hit _ IH]; [reflexivity|].
  cbn [map rd_all]. rewrite (mt_rd_item _ Hit), IH. reflexivity.
Qed.

Lemma mt_md_lines_ok items : Forall (fun it => item_wf it = true) items -> Forall nlf (md_lines items).
Proof.
  induction 1 as [|it items Hit _ IH]; [constructor|]. rewrite mt_md_lines_cons.
  apply Forall_app. split.
  - destruct (mt_item_lines_ok _ Hit) as [F _]. eapply Forall_impl; [|exact F]. cbv beta. tauto.
  - constructor; [reflexivity|exact IH].
Qed.

(* the lines of the text are the vector Metadata::text joins *)
Lemma mt_text_lines items : items <> [] -> Forall (fun it => item_wf it = true) items ->
  rd_lines (meta_text items) = md_lines items.
Proof.
  intros NE H. unfold meta_text. apply mt_rd_lines_join; [|apply mt_md_lines_ok; exact H].
  destruct items as [|it items]; [contradiction|]. rewrite mt_md_lines_cons.
  intros E. apply app_eq_nil in E. destruct E as [_ E]. discriminate.
Qed.

Lemma mt_join_two_nonempty x y r : join_nl (x :: y :: r) <> [].
Proof. change (join_nl (x :: y :: r)) with (x ++ ch_nl :: join_nl (y :: r)). intros E. apply app_eq_nil in E. destruct E; discriminate. Qed.

Lemma mt_meta_text_nonempty it items : item_wf it = true -> meta_text (it :: items) <> [].
Proof.
  intros H. destruct (mt_item_lines_ok _ H) as [_ NE]. unfold meta_text. rewrite mt_md_lines_cons.
  destruct (item_lines it) as [|l ls]; [contradiction|]. cbn [app].
  destruct ls as [|l' ls']; cbn [app]; apply mt_join_two_nonempty.
Qed.

(* T04_read_back *)
Theorem mt_read_back items : Forall (fun it => item_wf it = true) items ->
  read_meta (meta_text items) = Some (map norm_item items).
Proof.
  intros H. destruct items as [|it items]; [reflexivity|].
  inversion H as [|? ? Hit Hr]; subst.
  unfold read_meta. destruct (meta_text (it :: items)) as [|c t] eqn:E.
  - exfalso. exact (mt_meta_text_nonempty it items Hit E).
  - rewrite <- E. rewrite mt_text_lines; [|discriminate|exact H]. unfold read_lines.
    rewrite mt_rd_blocks_md.
    + apply mt_rd_all_items. exact H.
    + eapply Forall_impl; [|exact H]. intros x Hx. destruct (mt_item_lines_ok _ Hx) as [F _].
      eapply Forall_impl; [|exact F]. cbv beta. tauto.
Qed.

Lemma mt_norm_exact it : item_exact it -> norm_item it = it.
Proof. destruct it as [| | | |g|]; cbn [item_exact norm_item]; try reflexivity. intros E. rewrite E. destruct g; reflexivity. Qed.

Lemma mt_map_norm_exact items : Forall item_exact items -> map norm_item items = items.
Proof. induction 1 as [|it items Hit _ IH]; [reflexivity|]. cbn [map]. rewrite (mt_norm_exact _ Hit), IH. reflexivity. Qed.

(* T04_injective *)
Theorem mt_injective a b :
  Forall (fun it => item_wf it = true) a -> Forall (fun it => item_wf it = true) b ->
  meta_text a = meta_text b -> map norm_item a = map norm_item b.
Proof.
  intros Ha Hb E. pose proof (mt_read_back a Ha) as Ra. rewrite E, (mt_read_back b Hb) in Ra. congruence.
Qed.
Theorem mt_injective_exact a b :
  Forall (fun it => item_wf it = true) a -> Forall (fun it => item_wf it = true) b ->
  Forall item_exact a -> Forall item_exact b -> a <> b -> meta_text a <> meta_text b.
Proof.
  intros Ha Hb Ea Eb NE E. apply NE. pose proof (mt_injective a b Ha Hb E) as M.
  rewrite (mt_map_norm_exact _ Ea), (mt_map_norm_exact _ Eb) in M. exact M.
Qed.

(* ------------------------------------------------------------------ which items, in which order *)
Definition cs_item (algo : list N) (nv : N * list N) : item := ITxnSet (fst nv) (mkCk algo (hex_text (snd nv))).

Lemma mt_make_items_shape H audit algo git flt us md :
  make_items H audit algo git flt us = Ok md ->
  exists cs, Audit.make_metadata H audit us = Ok cs /\
    (cs <> None <-> audit = true) /\
    match md with
    | Some items => items = opt_list (option_map git_item git) ++ opt_list (option_map (cs_item algo) cs)
                            ++ opt_list (option_map IFilter flt)
    | None => git = None /\ cs = None /\ flt = None
    end.
Proof.
  unfold make_items, make_metadata, txn_data_md.
  assert (A : forall cs, Audit.make_metadata H audit us = Ok cs -> (cs <> None <-> audit = true)).
  { unfold Audit.make_metadata. destruct audit.
    - destruct (Audit.calc_txn_checksum H us); cbn [res_map]; intros cs E; [|discriminate].
      injection E as <-. split; [reflexivity|discriminate].
    - intros cs E. injection E as <-. split; [intros X; contradiction|discriminate]. }
  destruct (Audit.make_metadata H audit us) as [cs|e] eqn:E.
  - specialize (A cs eq_refl). intros M. exists cs. split; [reflexivity|]. split; [exact A|].
    destruct flt as [ls|]; cbn [res_map] in M.
    + injection M as <-. destruct git as [g|], cs as [[n v]|]; reflexivity.
    + destruct git as [g|]; cbn [option_map is_some orb] in M.
      * rewrite orb_true_r in M. cbn [res_map] in M. injection M as <-. destruct cs as [[n v]|]; reflexivity.
      * rewrite orb_false_r in M. destruct audit.
        -- cbn [res_map] in M. injection M as <-. destruct cs as [[n v]|]; reflexivity.
        -- injection M as <-. destruct cs as [nv|]; [|repeat split].
           exfalso. assert (X : Some nv <> None) by discriminate. apply A in X. discriminate.
  - intros M. exfalso. destruct flt as [ls|]; cbn [res_map] in M; [discriminate|].
    destruct git as [g|]; cbn [option_map is_some] in M.
    + rewrite orb_true_r in M. discriminate.
    + rewrite orb_false_r in M. destruct audit; [discriminate|].
      unfold Audit.make_metadata in E. discriminate.
Qed.

(* T04_presence *)
Theorem mt_presence H audit algo git flt us items :
  make_items H audit algo git flt us = Ok (Some items) ->
  ((exists n ck, In (ITxnSet n ck) items) <-> audit = true) /\
  ((exists ls, In (IFilter ls) items) <-> flt <> None) /\
  ((exists g, In (IGit g) items) <-> git <> None) /\
  exists cs, Audit.make_metadata H audit us = Ok cs /\
    items = opt_list (option_map git_item git) ++ opt_list (option_map (cs_item algo) cs)
            ++ opt_list (option_map IFilter flt).
Proof.
  intros M. destruct (mt_make_items_shape _ _ _ _ _ _ _ M) as (cs & E & A & ->).
  split; [|split; [|split]].
  - rewrite <- A. split.
    + intros (n & ck & Hin). destruct cs; [discriminate|]. exfalso.
      destruct git, flt; cbn in Hin; repeat (destruct Hin as [Hin|Hin]; try discriminate); try contradiction.
    + intros Hc. destruct cs as [nv|]; [|contradiction]. exists (fst nv), (mkCk algo (hex_text (snd nv))).
      apply in_or_app. right. apply in_or_app. left. left. reflexivity.
  - split.
    + intros (ls & Hin). destruct flt; [discriminate|]. exfalso.
      destruct git, cs; cbn in Hin; repeat (destruct Hin as [Hin|Hin]; try discriminate); try contradiction.
    + intros Hc. destruct flt as [ls|]; [|contradiction]. exists ls.
      apply in_or_app. right. apply in_or_app. right. left. reflexivity.
  - split.
    + intros (g & Hin). destruct git; [discriminate|]. exfalso.
      destruct flt, cs; cbn in Hin; repeat (destruct Hin as [Hin|Hin]; try discriminate); try contradiction.
    + intros Hc. destruct git as [g|]; [|contradiction]. unfold git_item. eexists.
      apply in_or_app. left. left. reflexivity.
  - exists cs. split; [exact E|reflexivity].
Qed.

Theorem mt_no_metadata H audit algo git flt us :
  make_items H audit algo git flt us = Ok None <-> audit = false /\ git = None /\ flt = None.
Proof.
  split.
  - intros M. destruct (mt_make_items_shape _ _ _ _ _ _ _ M) as (cs & E & A & G & C & F). subst.
    repeat split. destruct audit; [|reflexivity]. exfalso. destruct A as [_ A]. apply A; reflexivity.
  - intros (-> & -> & ->). reflexivity.
Qed.

(* ------------------------------------------------------------------ the checksum line *)
Lemma mt_hex_digit_not_nl v : Audit.hex_digit v <> 10%N.
Proof. unfold Audit.hex_digit. destruct (N.ltb_spec v 10); lia. Qed.
Lemma mt_hex_text_nlf d : nlf (hex_text d).
Proof.
  induction d as [|b d IH]; [reflexivity|]. unfold hex_text. cbn [flat_map hex_byte app].
  apply mt_nlf_cons. split; [apply mt_hex_digit_not_nl|]. apply mt_nlf_cons. split; [apply mt_hex_digit_not_nl|exact IH].
Qed.
Lemma mt_cs_item_wf algo nv : name_ok algo = true -> item_wf (cs_item algo nv) = true.
Proof. intros Ha. cbn [cs_item item_wf]. unfold ck_ok. cbn [ck_algo ck_value]. rewrite Ha. apply mt_hex_text_nlf. Qed.

Lemma mt_md_lines_app a b : md_lines (a ++ b) = md_lines a ++ md_lines b.
Proof. unfold md_lines. apply flat_map_app. Qed.

(* T04_checksum_line: in audit mode, for duplicate-free well-formed uuids, the block contains the line
   "Txn Set Checksum" followed by `<pad><algorithm> : <hex of H of the pre-image of exactly these uuids>`
   and `Set size : <their number>` *)
Theorem mt_checksum_line H algo git flt ul :
  Forall Audit_spec.uuid_wf ul -> NoDup ul ->
  exists items P pre post,
    make_items H true algo git flt (map Some ul) = Ok (Some items) /\
    Audit_spec.is_preimage (Audit_spec.uuid_texts ul) P /\
    md_lines items
    = pre ++ s_txn_set :: (pad_left item_pad algo ++ s_sep ++ hex_text (H P))
          :: kv s_set_size (Codec.show_N (N.of_nat (length ul))) :: [] :: post /\
    (Forall (fun it => item_wf it = true) items -> rd_lines (meta_text items) = md_lines items).
Proof.
  intros Hwf Hnd.
  set (P := Audit_spec.lines_text (Audit.sort_strs (map Audit.uuid_print ul))).
  pose proof (Audit_proofs.c09_accepted H ul Hwf Hnd) as E. fold P in E.
  assert (M : make_items H true algo git flt (map Some ul)
              = Ok (Some (opt_list (option_map git_item git) ++ [cs_item algo (N.of_nat (length ul), H P)]
                          ++ opt_list (option_map IFilter flt)))).
  { unfold make_items, make_metadata, txn_data_md. rewrite E. cbn [res_map orb].
    destruct flt, git; reflexivity. }
  eexists. exists P, (md_lines (opt_list (option_map git_item git))), (md_lines (opt_list (option_map IFilter flt))).
  split; [exact M|]. split; [apply Audit_proofs.c09_sort_is_preimage|]. split.
  - rewrite !mt_md_lines_app. reflexivity.
  - intros W. apply mt_text_lines; [|exact W]. destruct git; discriminate.
Qed.

(* ------------------------------------------------------------------ boolean equalities *)
Lemma mt_opt_strb_eq a b : opt_strb a b = true <-> a = b.
Proof.
  destruct a as [a|], b as [b|]; cbn [opt_strb opt_eqb]; try (split; [discriminate|discriminate]).
  - rewrite str_eqb_eq. split; [intros ->; reflexivity|intros E; injection E; tauto].
  - split; reflexivity.
Qed.
Lemma mt_ck_eqb_eq a b : ck_eqb a b = true <-> a = b.
Proof.
  destruct a as [a1 a2], b as [b1 b2]. unfold ck_eqb. cbn [ck_algo ck_value]. rewrite andb_true_iff, !str_eqb_eq.
  split; [intros [-> ->]; reflexivity|intros E; injection E; tauto].
Qed.
Lemma mt_git_eqb_eq a b : git_eqb a b = true <-> a = b.
Proof.
  destruct a as [a1 a2 a3 a4 a5], b as [b1 b2 b3 b4 b5]. unfold git_eqb. cbn [g_commit g_reference g_dir g_suffix g_message].
  rewrite !andb_true_iff, !str_eqb_eq, mt_opt_strb_eq.
  split; [intros [[[[-> ->] ->] ->] ->]; reflexivity|intros E; injection E; tauto].
Qed.
Lemma mt_price_eqb_eq a b : price_eqb a b = true <-> a = b.
Proof.
  destruct a as [a1 a2 a3 a4], b as [b1 b2 b3 b4]. unfold price_eqb. cbn [pr_time pr_source pr_rate pr_target].
  rewrite !andb_true_iff, !str_eqb_eq, !mt_opt_strb_eq.
  split; [intros [[[-> ->] ->] ->]; reflexivity|intros E; injection E; tauto].
Qed.
Lemma mt_item_eqb_eq a b : item_eqb a b = true <-> a = b.
Proof.
  destruct a, b; cbn [item_eqb]; try (split; discriminate).
  - rewrite andb_true_iff, N.eqb_eq, mt_ck_eqb_eq. split; [intros [-> ->]; reflexivity|intros E; injection E; tauto].
  - rewrite mt_ck_eqb_eq. split; [intros ->; reflexivity|intros E; injection E; tauto].
  - rewrite str_eqb_eq. split; [intros ->; reflexivity|intros E; injection E; tauto].
  - rewrite (list_eqb_eq str_eqb str_eqb_eq). split; [intros ->; reflexivity|intros E; injection E; tauto].
  - rewrite mt_git_eqb_eq. split; [intros ->; reflexivity|intros E; injection E; tauto].
  - rewrite (list_eqb_eq price_eqb mt_price_eqb_eq). split; [intros ->; reflexivity|intros E; injection E; tauto].
Qed.

(* T04_oracle_sound *)
Theorem mt_observed_sound e obs : observed_b e obs = true -> Observed_spec e obs.
Proof.
  destruct obs as [text|]; cbn [observed_b Observed_spec].
  - destruct (read_meta text) as [items|]; [|discriminate]. intros Hb.
    apply (list_eqb_eq item_eqb mt_item_eqb_eq) in Hb. subst. reflexivity.
  - rewrite !andb_true_iff, !negb_true_iff. intros [[H1 H2] H3].
    destruct (e_git e), (e_cs e), (e_flt e); try discriminate. repeat split.
Qed.
Theorem mt_head_observed_sound sel zone prices title text :
  head_observed_b sel zone prices title text = true -> Head_observed_spec sel zone prices title text.
Proof.
  unfold head_observed_b, Head_observed_spec. destruct (read_head title text) as [items|]; [|discriminate].
  intros Hb. apply (list_eqb_eq item_eqb mt_item_eqb_eq) in Hb. subst. reflexivity.
Qed.

(* what the oracle demands really is in the model's text: the model's metadata text of a transaction set
   satisfies Observed_spec for the expectation that belongs to its inputs *)
Definition git_ref_of (g : git_in) : git_ref :=
  mkGit (gi_id g) (git_reference g) (gi_dir g) (gi_suffix g) (gi_title g).
Theorem mt_model_observed H audit algo git flt us md cs :
  make_items H audit algo git flt us = Ok md ->
  Audit.make_metadata H audit us = Ok cs ->
  (forall items, md = Some items -> Forall (fun it => item_wf it = true) items) ->
  Observed_spec (expect_of (option_map git_ref_of git)
                           (option_map (fun nv => (fst nv, mkCk algo (hex_text (snd nv)))) cs) flt)
                (option_map meta_text md).
Proof.
  intros M E W. destruct (mt_make_items_shape _ _ _ _ _ _ _ M) as (cs' & E' & _ & S).
  rewrite E in E'. injection E' as <-.
  destruct md as [items|]; cbn [option_map Observed_spec].
  - rewrite (mt_read_back items (W items eq_refl)). f_equal. subst items.
    unfold expected_items, expect_of. cbn [e_git e_cs e_flt]. rewrite !map_app.
    destruct git as [g|], cs as [[n v]|], flt as [ls|]; reflexivity.
  - destruct S as (-> & -> & ->). repeat split.
Qed.

(* ------------------------------------------------------------------ without the side conditions the block is ambiguous *)
(* the git message cannot do it any more (mt_one_line_eolf); a filter description with an EMPTY line still can:
   a pattern with an inner empty line (corpus/T04/b06) makes the Filter item continue as whatever it spells out *)
Theorem mt_empty_line_ambiguous :
  exists a b, a <> b /\ Forall item_exact a /\ Forall item_exact b /\ meta_text a = meta_text b.
Proof.
  exists [IFilter [s_filter; [32; 32; 65]%N; []; s_filter; [32; 32; 66]%N]],
         [IFilter [s_filter; [32; 32; 65]%N]; IFilter [s_filter; [32; 32; 66]%N]].
  split; [discriminate|]. split; [repeat constructor|]. split; [repeat constructor|]. vm_compute. reflexivity.
Qed.

(* ------------------------------------------------------------------ the head a report writes itself *)
Lemma mt_lines_nl_app a b : lines_nl (a ++ b) = lines_nl a ++ lines_nl b.
Proof. unfold lines_nl. rewrite map_app, concat_app. reflexivity. Qed.
Lemma mt_lines_nl_join ls : ls <> [] -> lines_nl ls = join_nl ls ++ [ch_nl].
Proof.
  induction ls as [|x r IH]; intros NE; [contradiction|]. destruct r as [|y r'].
  - unfold lines_nl. cbn [map concat join_nl]. rewrite app_nil_r. reflexivity.
  - change (lines_nl (x :: y :: r')) with ((x ++ [ch_nl]) ++ lines_nl (y :: r')).
    change (join_nl (x :: y :: r')) with (x ++ ch_nl :: join_nl (y :: r')).
    rewrite IH by discriminate. rewrite <- !app_assoc. reflexivity.
Qed.
Lemma mt_file_head_lines items : items <> [] -> file_head (Some items) = lines_nl (md_lines items).
Proof.
  intros NE. unfold file_head, meta_text. rewrite mt_lines_nl_join; [reflexivity|].
  destruct items as [|it r]; [contradiction|]. rewrite mt_md_lines_cons. intros E. apply app_eq_nil in E. destruct E; discriminate.
Qed.

(* report_head is the same layout as the set's metadata (every item followed by an empty line) over
   head_items, plus one more empty line — except in the balance report with price records *)
Theorem mt_report_head k sel zone prices :
  report_head k sel zone prices
  = lines_nl (md_lines (head_items k sel zone prices))
    ++ match k, prices with RBalance, _ :: _ => [] | _, _ => [ch_nl] end.
Proof.
  unfold report_head, head_items, sel_block, zone_block, price_block, head_tail.
  destruct sel as [s|], prices as [|p ps], k; cbn [opt_list app item_lines];
    rewrite ?app_nil_r; rewrite ?mt_md_lines_app; unfold md_lines; cbn [flat_map item_lines];
    rewrite ?app_nil_r; rewrite ?mt_lines_nl_app; unfold lines_nl; cbn [map concat app];
    rewrite ?app_nil_r; rewrite <- ?app_assoc; cbn [app]; try reflexivity.
Qed.

(* non-vacuity: audit mode, one transaction, a filter; the digest stays symbolic *)
Lemma mt_example : forall H,
  let u := [0;14;3;15;2;14;0;8;1;14;11;11;4;5;14;8;8;3;2;13;5;8;12;10;15;5;4;14;13;9;5;15]%N in
  let algo := [83;72;65;45;50;53;54]%N in
  let flt := [s_filter; [32;32;65;108;108;32;112;97;115;115]%N] in
  exists items,
    make_items H true algo None (Some flt) [Some u] = Ok (Some items) /\
    meta_text items
    = s_txn_set ++ [10]%N
      ++ repeat 32%N 8 ++ algo ++ s_sep ++ hex_text (H (Audit.uuid_print u ++ [10]%N)) ++ [10]%N
      ++ repeat 32%N 7 ++ s_set_size ++ s_sep ++ [49; 10; 10]%N
      ++ s_filter ++ [10; 32;32;65;108;108;32;112;97;115;115; 10]%N /\
    read_meta (meta_text items) = Some items /\
    make_items H false algo None None [Some u] = Ok None.
Proof.
  intros H u algo flt.
  eexists. split; [vm_compute; reflexivity|]. split; [|split].
  - unfold meta_text, md_lines. cbn [flat_map item_lines ck_algo ck_value app join_nl].
    unfold kv, pad_left, item_pad. cbn [length Nat.sub repeat app]. rewrite <- !app_assoc. cbn [app].
    reflexivity.
  - rewrite mt_read_back.
    + reflexivity.
    + repeat constructor. apply mt_cs_item_wf with (nv := (1%N, _)). reflexivity.
  - reflexivity.
Qed.

(* ------------------------------------------------------------------ reading the head of a report text *)
Lemma mt_read_lines_md items : Forall (fun it => item_wf it = true) items ->
  read_lines (md_lines items) = Some (map norm_item items).
Proof.
  intros H. unfold read_lines. rewrite mt_rd_blocks_md.
  - apply mt_rd_all_items. exact H.
  - eapply Forall_impl; [|exact H]. intros x Hx. destruct (mt_item_lines_ok _ Hx) as [F _].
    eapply Forall_impl; [|exact F]. cbv beta. tauto.
Qed.

Lemma mt_rd_lines_lines_nl ls s : Forall nlf ls -> rd_lines (lines_nl ls ++ s) = ls ++ rd_lines s.
Proof.
  induction 1 as [|x r Hx _ IH]; [reflexivity|].
  change (lines_nl (x :: r)) with ((x ++ [ch_nl]) ++ lines_nl r). rewrite <- !app_assoc. cbn [app].
  rewrite (mt_rd_lines_app _ _ Hx), IH. reflexivity.
Qed.

Lemma mt_rd_until_app t A R : ~ In t A -> rd_until t (A ++ t :: R) = A.
Proof.
  induction A as [|l A IH]; intros Hn.
  - cbn [app rd_until]. rewrite str_eqb_refl. reflexivity.
  - cbn [app rd_until]. assert (E : str_eqb l t = false).
    { apply str_eqb_neq. intros ->. apply Hn. left. reflexivity. }
    rewrite E, IH; [reflexivity|]. intros Hin. apply Hn. right. exact Hin.
Qed.

Lemma mt_last_nonempty (ls : list (list N)) :
  ls <> [] -> Forall (fun l => l <> []) ls -> exists C l, ls = C ++ [l] /\ l <> [].
Proof.
  intros NE F. destruct (exists_last NE) as (C & l & ->). exists C, l. split; [reflexivity|].
  apply Forall_app in F. destruct F as [_ F]. inversion F; assumption.
Qed.

Lemma mt_md_lines_last items : items <> [] -> Forall (fun it => item_wf it = true) items ->
  exists C l, md_lines items = C ++ [l] ++ [[]] /\ l <> [].
Proof.
  intros NE W. destruct (exists_last NE) as (its & it & ->).
  apply Forall_app in W. destruct W as [_ W]. inversion W as [|? ? Hit _]; subst.
  destruct (mt_item_lines_ok _ Hit) as [F NE'].
  assert (F' : Forall (fun l => l <> []) (item_lines it)) by (eapply Forall_impl; [|exact F]; cbv beta; tauto).
  destruct (mt_last_nonempty _ NE' F') as (C & l & E & Hl).
  exists (md_lines its ++ C), l. split; [|exact Hl].
  rewrite mt_md_lines_app. unfold md_lines at 2. cbn [flat_map]. rewrite app_nil_r, E, <- !app_assoc. reflexivity.
Qed.

(* the model's report text, read by read_head, gives back head_items *)
Theorem mt_read_head k sel zone prices title rest :
  Forall (fun it => item_wf it = true) (head_items k sel zone prices) ->
  nl_free title = true -> title <> [] -> ~ In title (md_lines (head_items k sel zone prices)) ->
  read_head title (report_head k sel zone prices ++ title ++ ch_nl :: rest)
  = Some (map norm_item (head_items k sel zone prices)).
Proof.
  intros W Ht Hne Hnot. rewrite mt_report_head.
  set (hi := head_items k sel zone prices) in *.
  set (E := match k, prices with RBalance, _ :: _ => [] | _, _ => [[]] end : list (list N)).
  assert (RL : rd_lines ((lines_nl (md_lines hi)
                          ++ match k, prices with RBalance, _ :: _ => [] | _, _ => [ch_nl] end) ++ title ++ ch_nl :: rest)
               = (md_lines hi ++ E) ++ title :: rd_lines rest).
  { rewrite <- !app_assoc. rewrite mt_rd_lines_lines_nl by (apply mt_md_lines_ok; exact W). f_equal.
    unfold E. destruct k, prices; cbn [app]; rewrite ?(mt_rd_lines_app title rest Ht);
      try (change (ch_nl :: title ++ ch_nl :: rest) with ([] ++ ch_nl :: (title ++ ch_nl :: rest));
           rewrite (mt_rd_lines_app [] _ eq_refl), (mt_rd_lines_app title rest Ht)); reflexivity. }
  unfold read_head. rewrite RL, mt_rd_until_app.
  2:{ intros Hin. apply in_app_or in Hin. destruct Hin as [Hin|Hin]; [exact (Hnot Hin)|].
      unfold E in Hin. destruct k, prices; cbn in Hin; try tauto; destruct Hin as [Hin|[]]; apply Hne; symmetry; exact Hin. }
  destruct hi as [|it its] eqn:Ehi.
  - cbn [md_lines flat_map app map]. unfold E. destruct k, prices; reflexivity.
  - assert (NE : it :: its <> []) by discriminate.
    destruct (mt_md_lines_last _ NE W) as (C & l & EL & Hl). rewrite EL.
    assert (D : rev (rd_drop_empty (rev ((C ++ [l] ++ [[]]) ++ E))) = C ++ [l]).
    { rewrite !rev_app_distr. cbn [rev app].
      assert (DE : forall X, rd_drop_empty (rev E ++ [] :: l :: X) = l :: X).
      { intros X. unfold E. destruct k, prices; cbn [rev app rd_drop_empty]; destruct l; try contradiction; reflexivity. }
      rewrite DE. cbn [rev]. rewrite rev_involutive. reflexivity. }
    rewrite D. destruct (C ++ [l]) as [|c0 cs] eqn:EC.
    + exfalso. apply app_eq_nil in EC. destruct EC; discriminate.
    + rewrite <- EC. replace ((C ++ [l]) ++ [[]]) with (C ++ [l] ++ [[]]) by (rewrite <- app_assoc; reflexivity).
      rewrite <- EL. apply mt_read_lines_md. exact W.
Qed.

(* ------------------------------------------------------------------ every line of every item is a line *)
Lemma mt_eolf_repeat n : eolfp (repeat ch_sp n).
Proof. induction n as [|n IH]; [reflexivity|]. cbn [repeat]. apply mt_eolf_cons. split; [reflexivity|exact IH]. Qed.
Lemma mt_eolf_kv k v : eolfp k -> eolfp v -> eolfp (kv k v).
Proof.
  intros Hk Hv. unfold kv, pad_left. rewrite !mt_eolf_app. repeat split; try assumption; try apply mt_eolf_repeat; reflexivity.
Qed.
Lemma mt_digits_eolf s : Codec_proofs.digits s -> eolfp s.
Proof.
  induction 1 as [|c s Hc _ IH]; [reflexivity|]. apply mt_eolf_cons. split; [|exact IH].
  unfold Codec.is_digit in Hc. apply andb_true_iff in Hc. destruct Hc as [H1 H2].
  apply N.leb_le in H1. unfold is_eol. destruct (N.eqb_spec c 10); [lia|]. destruct (N.eqb_spec c 13); [lia|reflexivity].
Qed.
Lemma mt_hex_digit_not_eol v : is_eol (Audit.hex_digit v) = false.
Proof.
  unfold is_eol, Audit.hex_digit. destruct (N.ltb_spec v 10);
    [destruct (N.eqb_spec (v + 48) 10); [lia|]; destruct (N.eqb_spec (v + 48) 13); [lia|reflexivity]
    |destruct (N.eqb_spec (v + 87) 10); [lia|]; destruct (N.eqb_spec (v + 87) 13); [lia|reflexivity]].
Qed.
Lemma mt_hex_text_eolf d : eolfp (hex_text d).
Proof.
  induction d as [|b d IH]; [reflexivity|]. unfold hex_text. cbn [flat_map hex_byte app].
  apply mt_eolf_cons. split; [apply mt_hex_digit_not_eol|]. apply mt_eolf_cons. split; [apply mt_hex_digit_not_eol|exact IH].
Qed.
Lemma mt_price_lines_eolf r :
  eolf_opt (pr_time r) && eolf (pr_source r) && eolf_opt (pr_rate r) && eolf (pr_target r) = true ->
  forallb eolf (price_lines r) = true.
Proof.
  rewrite !andb_true_iff. intros [[[Ht Hs] Hr] Hg]. unfold price_lines. cbn [forallb]. rewrite !andb_true_iff.
  repeat split; apply mt_eolf_kv; try reflexivity; try assumption.
  - destruct (pr_time r); [exact Ht|reflexivity].
  - apply mt_eolf_app. split; [destruct (pr_rate r); [exact Hr|reflexivity]|]. apply mt_eolf_cons. split; [reflexivity|exact Hg].
Qed.

Lemma mt_more_prices_eolf rs :
  forallb (fun r => eolf_opt (pr_time r) && eolf (pr_source r) && eolf_opt (pr_rate r) && eolf (pr_target r)) rs = true ->
  forallb eolf (flat_map (fun r' => price_sep :: price_lines r') rs) = true.
Proof.
  induction rs as [|r rs IH]; intros H; [reflexivity|]. cbn [forallb] in H. apply andb_true_iff in H. destruct H as [Hr Hrs].
  cbn [flat_map]. change (forallb eolf (([price_sep] ++ price_lines r) ++ flat_map (fun r' => price_sep :: price_lines r') rs) = true).
  rewrite !forallb_app, (mt_price_lines_eolf _ Hr), (IH Hrs). reflexivity.
Qed.

Lemma mt_item_lines_eolf it : item_eol_free it = true -> forallb eolf (item_lines it) = true.
Proof.
  destruct it as [n ck|ck|nm|ls|g|rs]; cbn [item_eol_free item_lines]; intros H.
  - apply andb_true_iff in H. destruct H as [Ha Hv]. cbn [forallb]. rewrite !andb_true_iff. repeat split; try reflexivity.
    + apply mt_eolf_kv; assumption.
    + apply mt_eolf_kv; [reflexivity|]. apply mt_digits_eolf. apply Codec_proofs.c18_show_N_spec.
  - apply andb_true_iff in H. destruct H as [Ha Hv]. cbn [forallb]. rewrite !andb_true_iff. repeat split; try reflexivity.
    apply mt_eolf_kv; assumption.
  - cbn [forallb]. rewrite !andb_true_iff. repeat split; try reflexivity. apply mt_eolf_kv; [reflexivity|exact H].
  - exact H.
  - rewrite !andb_true_iff in H. destruct H as [[[Hc Hr] Hd] Hs]. cbn [forallb]. rewrite !andb_true_iff.
    repeat split; try reflexivity; apply mt_eolf_kv; try reflexivity; try assumption;
      try apply mt_one_line_eolf; try (apply mt_eolf_app; split; [reflexivity|exact Hs]).
    destruct (g_reference g); [exact Hr|reflexivity].
  - destruct rs as [|r rs]; [reflexivity|]. cbn [forallb] in H. apply andb_true_iff in H. destruct H as [Hr Hrs].
    change (forallb eolf ([s_prices] ++ price_lines r ++ flat_map (fun r' => price_sep :: price_lines r') rs) = true).
    rewrite !forallb_app, (mt_price_lines_eolf _ Hr), (mt_more_prices_eolf _ Hrs). reflexivity.
Qed.

(* T04_equity_md_wf: the comment block of the equity export satisfies T02's hypothesis (EquityText_spec.md_wf),
   whatever the commit message *)
Theorem mt_equity_md_wf md sel :
  (forall items, md = Some items -> forallb item_eol_free items = true) ->
  (forall s, sel = Some s -> item_eol_free s = true) ->
  EquityText_spec.md_wf (equity_md md sel) = true.
Proof.
  intros Hm Hs. unfold EquityText_spec.md_wf, equity_md. destruct md as [items|]; [|reflexivity].
  rewrite forallb_forall. intros ls Hin. apply in_map_iff in Hin. destruct Hin as (it & <- & Hit).
  apply mt_item_lines_eolf. apply in_app_or in Hit. destruct Hit as [Hit|Hit].
  - specialize (Hm items eq_refl). rewrite forallb_forall in Hm. exact (Hm it Hit).
  - destruct sel as [s|]; [|contradiction]. destruct Hit as [<-|[]]. exact (Hs s eq_refl).
Qed.

(* ... in particular for what the model puts there: git input with ANY commit title *)
Lemma mt_sel_item_eol_free H audit equity algo pats s :
  eolf algo = true -> sel_item H audit equity algo pats = Some s -> item_eol_free s = true.
Proof.
  intros Ha. unfold sel_item. destruct (Audit.report_selector_md H audit equity pats); intros E; try discriminate;
    injection E as <-; cbn [item_eol_free ck_algo ck_value]; try reflexivity.
  rewrite Ha. apply mt_hex_text_eolf.
Qed.
Theorem mt_equity_md_wf_model H audit algo git flt us pats md :
  make_items H audit algo git flt us = Ok md ->
  eolf algo = true ->
  (forall g, git = Some g -> git_in_eol_free g = true) ->
  (forall ls, flt = Some ls -> forallb eolf ls = true) ->
  EquityText_spec.md_wf (equity_md md (sel_item H audit true algo pats)) = true.
Proof.
  intros M Ha Hg Hf. apply mt_equity_md_wf.
  - intros items ->. destruct (mt_make_items_shape _ _ _ _ _ _ _ M) as (cs & _ & _ & ->).
    rewrite !forallb_app. rewrite !andb_true_iff. repeat split.
    + destruct git as [g|]; [|reflexivity]. specialize (Hg g eq_refl). unfold git_in_eol_free in Hg.
      rewrite !andb_true_iff in Hg. destruct Hg as [[[H1 H2] H3] H4].
      cbn [option_map opt_list forallb git_item item_eol_free g_commit g_reference g_dir g_suffix].
      rewrite H2, H3, H4. unfold git_reference. destruct (gi_by_commit g); [reflexivity|].
      destruct (starts_with (gi_sel g) (gi_id g)); [reflexivity|]. cbn [eolf_opt]. rewrite H1. reflexivity.
    + destruct cs as [[n v]|]; [|reflexivity]. cbn [option_map opt_list forallb cs_item item_eol_free ck_algo ck_value fst snd].
      rewrite Ha. cbn [andb]. rewrite andb_true_r. apply mt_hex_text_eolf.
    + destruct flt as [ls|]; [|reflexivity]. cbn [option_map opt_list forallb item_eol_free]. rewrite (Hf ls eq_refl). reflexivity.
  - intros s. apply mt_sel_item_eol_free. exact Ha.
Qed.
