(* Group_proofs.v — chunking, grouping by period key, the balance-group report. *)
From Coq Require Import Permutation Sorted.
From TkModel Require Import Base Dec Acct Txn Balance Time Group.
From TkSpec Require Import Balance_spec Group_spec.
From TkProofs Require Import Base_proofs Time_proofs Time_cal_proofs.
Local Open Scope Z_scope.

Lemma str_lt_irrefl a : ~ str_lt a a.
Proof. unfold str_lt. rewrite str_cmp_refl. discriminate. Qed.

Lemma str_lt_neq a b : str_lt a b -> a <> b.
Proof. intros H E. subst. exact (str_lt_irrefl _ H). Qed.

Lemma str_le_neq_lt a b : str_le a b -> a <> b -> str_lt a b.
Proof.
  unfold str_le, str_lt. intros H N. destruct (str_cmp a b) eqn:E; [|reflexivity|congruence].
  apply str_cmp_eq in E. contradiction.
Qed.

Lemma str_lt_le a b : str_lt a b -> str_le a b.
Proof. unfold str_lt, str_le. intros ->. discriminate. Qed.

Lemma str_lt_trans a b c : str_lt a b -> str_lt b c -> str_lt a c.
Proof. apply str_cmp_lt_trans. Qed.

Lemma str_le_lt_trans a b c : str_le a b -> str_lt b c -> str_lt a c.
Proof.
  intros H1 H2. destruct (list_eq_dec N.eq_dec a b) as [->|N]; [exact H2|].
  apply (str_lt_trans a b c); [apply str_le_neq_lt; assumption|exact H2].
Qed.

(* ------------------------------------------------------------------ *)
(* chunk_by *)
Section Chunk.
  Context {A : Type} (kf : A -> str).

  Lemma chunk_nil l : chunk_by kf l = [] -> l = [].
  Proof.
    destruct l as [|x l]; [reflexivity|]. cbn [chunk_by].
    destruct (chunk_by kf l) as [|[k g] rest]; [discriminate|].
    destruct (str_eqb (kf x) k); discriminate.
  Qed.

  Lemma chunk_head x l k g rest : chunk_by kf (x :: l) = (k, g) :: rest -> k = kf x.
  Proof.
    cbn [chunk_by]. destruct (chunk_by kf l) as [|[k0 g0] rest0].
    - intros E. congruence.
    - destruct (str_eqb (kf x) k0) eqn:Q; intros E.
      + apply str_eqb_eq in Q. congruence.
      + congruence.
  Qed.

  Lemma chunk_concat l : concat (map snd (chunk_by kf l)) = l.
  Proof.
    induction l as [|x l IH]; [reflexivity|]. cbn [chunk_by].
    destruct (chunk_by kf l) as [|[k g] rest].
    - cbn in IH. subst l. reflexivity.
    - destruct (str_eqb (kf x) k); cbn [map snd concat app] in *; rewrite IH; reflexivity.
  Qed.

  Lemma chunk_wf l :
    Forall (fun c => snd c <> [] /\ Forall (fun x => kf x = fst c) (snd c)) (chunk_by kf l).
  Proof.
    induction l as [|x l IH]; [constructor|]. cbn [chunk_by].
    destruct (chunk_by kf l) as [|[k g] rest].
    - constructor; [|constructor]. cbn. split; [discriminate|]. constructor; [reflexivity|constructor].
    - inversion IH as [|? ? [H1 H2] H3]; subst. cbn [fst snd] in *.
      destruct (str_eqb (kf x) k) eqn:Q.
      + apply str_eqb_eq in Q. constructor; [|exact H3]. cbn [fst snd]. split; [discriminate|].
        constructor; assumption.
      + constructor; [|exact IH]. cbn. split; [discriminate|]. constructor; [reflexivity|constructor].
  Qed.

  (* keys never decreasing along the list: one chunk per key, keys strictly ascending *)
  Lemma chunk_keys_sorted l :
    StronglySorted str_le (map kf l) -> StronglySorted str_lt (map fst (chunk_by kf l)).
  Proof.
    induction l as [|x l IH]; intros H; [constructor|].
    cbn [map] in H. inversion H as [|? ? Hs Hf]; subst. specialize (IH Hs).
    cbn [chunk_by]. destruct (chunk_by kf l) as [|[k g] rest] eqn:E.
    - cbn. constructor; constructor.
    - destruct l as [|y l']; [discriminate|].
      pose proof (chunk_head _ _ _ _ _ E) as Hk. subst k.
      cbn [map] in Hf. inversion Hf as [|? ? Hxy _]; subst.
      destruct (str_eqb (kf x) (kf y)) eqn:Q; [exact IH|].
      apply str_eqb_neq in Q. pose proof (str_le_neq_lt _ _ Hxy Q) as Hlt.
      cbn [map fst] in *. constructor; [exact IH|].
      constructor; [exact Hlt|]. inversion IH as [|? ? _ Hf2]; subst.
      eapply Forall_impl; [|exact Hf2]. intros z Hz. apply (str_lt_trans _ _ _ Hlt Hz).
  Qed.

  Lemma chunk_members l :
    StronglySorted str_le (map kf l) ->
    forall k g, In (k, g) (chunk_by kf l) -> g = filter (fun x => str_eqb (kf x) k) l.
  Proof.
    induction l as [|x l IH]; intros H k g Hin; [contradiction|].
    cbn [map] in H. inversion H as [|? ? Hs Hf]; subst. specialize (IH Hs).
    pose proof (chunk_keys_sorted l Hs) as Hks.
    cbn [chunk_by] in Hin. cbn [filter].
    destruct (chunk_by kf l) as [|[k0 g0] rest] eqn:E.
    - apply chunk_nil in E. subst l. destruct Hin as [Hin|[]]. inversion Hin; subst.
      rewrite str_eqb_refl. reflexivity.
    - destruct l as [|y l']; [discriminate|].
      pose proof (chunk_head _ _ _ _ _ E) as Hk. subst k0.
      cbn [map] in Hf. inversion Hf as [|? ? Hxy Hf']; subst.
      cbn [map fst] in Hks. inversion Hks as [|? ? _ Hrest]; subst.
      rewrite Forall_forall in Hrest.
      destruct (str_eqb (kf x) (kf y)) eqn:Q.
      + apply str_eqb_eq in Q. destruct Hin as [Hin|Hin].
        * inversion Hin; subst. rewrite Q, str_eqb_refl. f_equal.
          apply IH. left. reflexivity.
        * assert (str_lt (kf y) k) as Hlt.
          { apply Hrest. apply in_map_iff. exists (k, g). split; [reflexivity|exact Hin]. }
          rewrite Q. destruct (str_eqb (kf y) k) eqn:Q2.
          -- apply str_eqb_eq in Q2. exfalso. exact (str_lt_neq _ _ Hlt Q2).
          -- apply IH. right. exact Hin.
      + apply str_eqb_neq in Q. pose proof (str_le_neq_lt _ _ Hxy Q) as Hlt.
        destruct Hin as [Hin|Hin].
        * inversion Hin; subst. rewrite str_eqb_refl. f_equal.
          symmetry.
          clear IH Hin.
          assert (forall t, In t (y :: l') -> str_eqb (kf t) (kf x) = false) as Hno.
          { intros t Ht. apply str_eqb_neq. intros Et.
            assert (str_le (kf y) (kf t)) as Hyt.
            { destruct Ht as [->|Ht]; [unfold str_le; rewrite str_cmp_refl; discriminate|].
              cbn [map] in Hs. inversion Hs as [|? ? _ Hfy]; subst.
              rewrite Forall_forall in Hfy. apply Hfy. apply in_map. exact Ht. }
            rewrite Et in Hyt. apply Q. apply str_cmp_antisym; assumption. }
          clear - Hno. induction (y :: l') as [|t l IH]; [reflexivity|].
          cbn [filter]. rewrite (Hno t (or_introl eq_refl)). apply IH.
          intros t' Ht'. apply Hno. right. exact Ht'.
        * assert (str_lt (kf x) k) as Hxk.
          { destruct Hin as [Hin|Hin].
            - inversion Hin; subst. exact Hlt.
            - apply (str_lt_trans _ _ _ Hlt). apply Hrest. apply in_map_iff.
              exists (k, g). split; [reflexivity|exact Hin]. }
          destruct (str_eqb (kf x) k) eqn:Q2.
          -- apply str_eqb_eq in Q2. exfalso. exact (str_lt_neq _ _ Hxk Q2).
          -- apply IH. exact Hin.
  Qed.

  (* every element's key has a chunk *)
  Lemma chunk_complete l x : In x l -> exists g, In (kf x, g) (chunk_by kf l).
  Proof.
    induction l as [|y l IH]; intros Hin; [contradiction|].
    cbn [chunk_by]. destruct Hin as [->|Hin].
    - destruct (chunk_by kf l) as [|[k g] rest].
      + eexists. left. reflexivity.
      + destruct (str_eqb (kf x) k) eqn:Q.
        * apply str_eqb_eq in Q. subst k. eexists. left. reflexivity.
        * eexists. left. reflexivity.
    - destruct (IH Hin) as [g Hg]. destruct (chunk_by kf l) as [|[k g0] rest]; [contradiction|].
      destruct (str_eqb (kf y) k) eqn:Q.
      + destruct Hg as [Hg|Hg].
        * inversion Hg; subst. eexists. left. reflexivity.
        * exists g. right. exact Hg.
      + exists g. right. exact Hg.
  Qed.
End Chunk.

(* ------------------------------------------------------------------ *)
(* group_members: sort the (key, txn) pairs by key, chunk *)

Lemma keyed_cmp_ord : cmp_ord (fun a b : str * txn => str_cmp (fst a) (fst b)).
Proof. apply (cmp_ord_preimage fst str_cmp str_cmp_ord). Qed.

Lemma keyed_leb_total a b : keyed_leb a b = false -> keyed_leb b a = true.
Proof. apply (co_leb_total _ keyed_cmp_ord). Qed.

Lemma keyed_leb_trans a b c : keyed_leb a b = true -> keyed_leb b c = true -> keyed_leb a c = true.
Proof. apply (co_leb_trans _ keyed_cmp_ord). Qed.

Definition keyed (kf : txn -> str) (txns : list txn) : list (str * txn) :=
  map (fun t => (kf t, t)) txns.

Lemma keyed_sorted kf txns :
  StronglySorted str_le (map fst (sort_by keyed_leb (keyed kf txns))).
Proof.
  apply (proj1 (StronglySorted_map str_le fst _)).
  eapply StronglySorted_impl; [|apply (sort_by_sorted keyed_leb keyed_leb_total keyed_leb_trans)].
  intros a b _ _ H. unfold keyed_leb in H. apply cmp_leb_true in H. exact H.
Qed.

Lemma filter_keyed kf k txns :
  filter (fun p : str * txn => str_eqb (fst p) k) (keyed kf txns)
  = keyed kf (period_members kf txns k).
Proof.
  unfold keyed, period_members. induction txns as [|t l IH]; [reflexivity|].
  cbn [map filter fst]. destruct (str_eqb (kf t) k); cbn [map]; rewrite IH; reflexivity.
Qed.

Lemma sort_same_key k (l : list (str * txn)) :
  Forall (fun p => fst p = k) l -> sort_by keyed_leb l = l.
Proof.
  intros H. apply sort_by_id. induction H as [|p l Hp Hl IH]; constructor; [exact IH|].
  eapply Forall_impl; [|exact Hl]. intros q Hq. unfold keyed_leb. rewrite Hp, Hq, str_cmp_refl.
  reflexivity.
Qed.

Lemma map_snd_keyed kf l : map snd (keyed kf l) = l.
Proof. unfold keyed. rewrite map_map. cbn. apply map_id. Qed.

(* the members of a group are exactly the transactions of that period, in input order *)
Lemma gm_members kf txns k g :
  In (k, g) (group_members kf txns) -> g = period_members kf txns k /\ g <> [].
Proof.
  unfold group_members. intros H. apply in_map_iff in H. destruct H as ([k' g'] & E & Hin).
  cbn [fst snd] in E. inversion E; subst. clear E.
  pose proof (chunk_members fst _ (keyed_sorted kf txns) _ _ Hin) as Hg.
  fold (keyed kf txns) in Hg.
  rewrite (filter_sort_by keyed_leb keyed_leb_total keyed_leb_trans) in Hg.
  rewrite filter_keyed in Hg.
  rewrite (sort_same_key k) in Hg.
  - subst g'. rewrite map_snd_keyed. split; [reflexivity|].
    pose proof (chunk_wf fst (sort_by keyed_leb (map (fun t => (kf t, t)) txns))) as W.
    rewrite Forall_forall in W. destruct (W _ Hin) as [Hne _]. cbn [snd] in Hne.
    intros E. apply Hne. rewrite E. reflexivity.
  - unfold keyed, period_members. apply Forall_forall. intros p Hp.
    apply in_map_iff in Hp. destruct Hp as (t & <- & Ht). apply filter_In in Ht.
    cbn [fst]. apply str_eqb_eq. tauto.
Qed.

Lemma gm_keys_ascending kf txns : StronglySorted str_lt (map fst (group_members kf txns)).
Proof.
  unfold group_members. rewrite map_map. cbn [fst].
  apply (chunk_keys_sorted fst). apply keyed_sorted.
Qed.

Lemma gm_complete kf txns t :
  In t txns -> In (kf t, period_members kf txns (kf t)) (group_members kf txns).
Proof.
  intros Ht.
  assert (In (kf t, t) (sort_by keyed_leb (keyed kf txns))) as Hin.
  { apply sort_by_in. unfold keyed. apply in_map_iff. exists t. split; [reflexivity|exact Ht]. }
  destruct (chunk_complete fst _ _ Hin) as [g' Hg']. cbn [fst] in Hg'.
  assert (In (kf t, map snd g') (group_members kf txns)) as H.
  { unfold group_members. apply in_map_iff. exists (kf t, g'). split; [reflexivity|exact Hg']. }
  destruct (gm_members _ _ _ _ H) as [E _]. rewrite <- E. exact H.
Qed.

Lemma gm_concat_perm kf txns : Permutation (concat (map snd (group_members kf txns))) txns.
Proof.
  unfold group_members.
  assert (forall cs : list (str * list (str * txn)),
            concat (map snd (map (fun c => (fst c, map snd (snd c))) cs))
            = map snd (concat (map snd cs))) as E.
  { induction cs as [|c cs IH]; [reflexivity|]. cbn [map concat snd]. rewrite map_app, IH. reflexivity. }
  rewrite E, chunk_concat.
  rewrite <- (map_snd_keyed kf txns) at 2. apply Permutation_map. apply sort_by_perm.
Qed.

(* sums over the groups add up to the sums over all selected transactions *)
Lemma spec_own_app a b k : spec_own (a ++ b) k = spec_own a k + spec_own b k.
Proof. unfold spec_own. rewrite filter_app, map_app, zsum_app. reflexivity. Qed.

Lemma spec_own_perm a b k : Permutation a b -> spec_own a k = spec_own b k.
Proof. intros H. unfold spec_own. apply zsum_map_perm. apply filter_perm. exact H. Qed.

Lemma spec_own_concat (conv : txn -> list bpost) (gs : list (list txn)) k :
  zsum (map (fun g => spec_own (flat_map conv g) k) gs) = spec_own (flat_map conv (concat gs)) k.
Proof.
  induction gs as [|g gs IH]; [reflexivity|].
  cbn [map concat]. rewrite zsum_cons, flat_map_app, spec_own_app, IH. reflexivity.
Qed.

Lemma sum_over_groups conv kf txns k :
  zsum (map (fun c => spec_own (flat_map conv (snd c)) k) (group_members kf txns))
  = spec_own (flat_map conv txns) k.
Proof.
  rewrite <- (map_map snd (fun g => spec_own (flat_map conv g) k)).
  rewrite spec_own_concat. apply spec_own_perm. apply Permutation_flat_map. apply gm_concat_perm.
Qed.

(* ------------------------------------------------------------------ *)
(* balance_groups *)

Lemma opt_all_forall2 {A B} (f : A -> option B) l : forall gs,
  opt_all (map f l) = Some gs -> Forall2 (fun c g => f c = Some g) l gs.
Proof.
  induction l as [|c l IH]; intros gs H; cbn [map opt_all] in H.
  - inversion H. constructor.
  - destruct (f c) as [g|] eqn:E; [|discriminate].
    destruct (opt_all (map f l)) as [gs'|]; [|discriminate]. cbn in H. inversion H; subst.
    constructor; [exact E|]. apply IH. reflexivity.
Qed.

Lemma group_of_title known ord sel conv c g : group_of known ord sel conv c = Some g ->
  g_title g = fst c /\ balance_report known ord sel (flat_map conv (snd c)) = Some (g_rep g).
Proof.
  unfold group_of. destruct (balance_report known ord sel (flat_map conv (snd c))) as [rep|]; [|discriminate].
  cbn. intros E. inversion E; subst. cbn. split; reflexivity.
Qed.

Lemma forall2_titles known ord sel conv cs gs :
  Forall2 (fun c g => group_of known ord sel conv c = Some g) cs gs -> map g_title gs = map fst cs.
Proof.
  induction 1 as [|c g cs gs H _ IH]; [reflexivity|]. cbn [map].
  rewrite IH, (proj1 (group_of_title _ _ _ _ _ _ H)). reflexivity.
Qed.

Lemma forall2_in_r {A B} (R : A -> B -> Prop) l1 l2 b :
  Forall2 R l1 l2 -> In b l2 -> exists a, In a l1 /\ R a b.
Proof.
  induction 1 as [|x y l1 l2 H _ IH]; intros Hin; [contradiction|].
  destruct Hin as [->|Hin]; [exists x; split; [left; reflexivity|exact H]|].
  destruct (IH Hin) as (a & Ha & Hr). exists a. split; [right; exact Ha|exact Hr].
Qed.

Lemma forall2_in_l {A B} (R : A -> B -> Prop) l1 l2 a :
  Forall2 R l1 l2 -> In a l1 -> exists b, In b l2 /\ R a b.
Proof.
  induction 1 as [|x y l1 l2 H _ IH]; intros Hin; [contradiction|].
  destruct Hin as [->|Hin]; [exists y; split; [left; reflexivity|exact H]|].
  destruct (IH Hin) as (b & Hb & Hr). exists b. split; [right; exact Hb|exact Hr].
Qed.

Lemma group_is_empty_iff g : group_is_empty g = true <-> b_rows (g_rep g) = [].
Proof. unfold group_is_empty. destruct (b_rows (g_rep g)); split; intros; congruence. Qed.

(* the listed groups are the non-empty ones, in the order of the chunks *)
Lemma balance_groups_out known ord sel conv kf txns out :
  balance_groups known ord sel conv kf txns = Some out ->
  exists gs, Forall2 (fun c g => group_of known ord sel conv c = Some g) (group_members kf txns) gs
             /\ out = filter (fun g => negb (group_is_empty g)) gs
             /\ StronglySorted str_lt (map g_title gs).
Proof.
  unfold balance_groups.
  destruct (opt_all (map (group_of known ord sel conv) (group_members kf txns))) as [gs|] eqn:E; [|discriminate].
  intros H. inversion H; subst. clear H. exists gs.
  pose proof (opt_all_forall2 _ _ _ E) as F.
  assert (StronglySorted str_lt (map g_title gs)) as S.
  { rewrite (forall2_titles _ _ _ _ _ _ F). apply gm_keys_ascending. }
  split; [exact F|]. split; [|exact S].
  apply sort_by_id.
  apply StronglySorted_filter.
  apply (proj2 (StronglySorted_map str_lt g_title gs)) in S.
  eapply StronglySorted_impl; [|exact S].
  intros a b _ _ Hab. unfold title_leb. apply cmp_leb_true. apply str_lt_le. exact Hab.
Qed.

Lemma titles_ascending known ord sel conv kf txns out :
  balance_groups known ord sel conv kf txns = Some out ->
  StronglySorted str_lt (map g_title out).
Proof.
  intros H. destruct (balance_groups_out _ _ _ _ _ _ _ H) as (gs & _ & -> & S).
  apply (proj1 (StronglySorted_map str_lt g_title _)). apply StronglySorted_filter.
  apply (proj2 (StronglySorted_map str_lt g_title gs)). exact S.
Qed.

Lemma titles_nodup known ord sel conv kf txns out :
  balance_groups known ord sel conv kf txns = Some out -> NoDup (map g_title out).
Proof.
  intros H. eapply StronglySorted_NoDup; [|eapply titles_ascending; exact H].
  apply str_lt_irrefl.
Qed.

(* a listed group shows the balance report of exactly the transactions of its period *)
Lemma group_is_balance known ord sel conv kf txns out g :
  balance_groups known ord sel conv kf txns = Some out -> In g out ->
  balance_report known ord sel (flat_map conv (period_members kf txns (g_title g))) = Some (g_rep g)
  /\ b_rows (g_rep g) <> []
  /\ (exists t, In t txns /\ kf t = g_title g).
Proof.
  intros H Hin. destruct (balance_groups_out _ _ _ _ _ _ _ H) as (gs & F & -> & _).
  apply filter_In in Hin. destruct Hin as [Hin Hne].
  destruct (forall2_in_r _ _ _ _ F Hin) as ([k m] & Hc & Hg).
  destruct (group_of_title _ _ _ _ _ _ Hg) as [Ht Hr]. cbn [fst snd] in *.
  destruct (gm_members _ _ _ _ Hc) as [Em Hnm]. subst m. rewrite Ht.
  split; [exact Hr|]. split.
  - intros E. apply group_is_empty_iff in E. rewrite E in Hne. discriminate.
  - destruct (period_members kf txns k) as [|t l] eqn:Ep; [contradiction|].
    exists t. assert (In t (period_members kf txns k)) as Hi by (rewrite Ep; left; reflexivity).
    apply filter_In in Hi. destruct Hi as [Hi Hk]. apply str_eqb_eq in Hk. tauto.
Qed.

(* a period is listed iff the selector leaves its report non-empty *)
Lemma empty_omitted known ord sel conv kf txns out t :
  balance_groups known ord sel conv kf txns = Some out -> In t txns ->
  exists rep,
    balance_report known ord sel (flat_map conv (period_members kf txns (kf t))) = Some rep
    /\ (b_rows rep <> [] <-> In (mkGroup (kf t) rep) out)
    /\ (b_rows rep = [] -> ~ In (kf t) (map g_title out)).
Proof.
  intros H Ht. destruct (balance_groups_out _ _ _ _ _ _ _ H) as (gs & F & -> & S).
  pose proof (gm_complete kf txns t Ht) as Hc.
  destruct (forall2_in_l _ _ _ _ F Hc) as (g & Hg & Hgo).
  destruct (group_of_title _ _ _ _ _ _ Hgo) as [Htl Hr]. cbn [fst snd] in *.
  exists (g_rep g). split; [exact Hr|].
  assert (g = mkGroup (kf t) (g_rep g)) as Eg by (destruct g; cbn in *; subst; reflexivity).
  split; [split|].
  - intros Hne. rewrite <- Eg. apply filter_In. split; [exact Hg|].
    destruct (group_is_empty g) eqn:Q; [|reflexivity]. apply group_is_empty_iff in Q. contradiction.
  - rewrite <- Eg. intros Hin. apply filter_In in Hin. destruct Hin as [_ Hne].
    intros E. apply group_is_empty_iff in E. rewrite E in Hne. discriminate.
  - intros Hempty Hin. apply in_map_iff in Hin. destruct Hin as (g' & Ht' & Hin').
    apply filter_In in Hin'. destruct Hin' as [Hin' Hne'].
    (* titles of gs are unique: g' = g *)
    assert (g' = g) as ->.
    { pose proof (StronglySorted_NoDup str_lt _ str_lt_irrefl S) as ND.
      apply (NoDup_map_key_eq g_title gs g' g ND Hin' Hg). congruence. }
    apply group_is_empty_iff in Hempty. rewrite Hempty in Hne'. discriminate.
Qed.

(* ------------------------------------------------------------------ *)
(* the oracle applied to an observed report *)

Lemma strictly_ascending_sound l : strictly_ascending l = true -> StronglySorted str_lt l.
Proof.
  induction l as [|a l IH]; intros H; [constructor|].
  destruct l as [|b l']; [constructor; constructor|].
  cbn [strictly_ascending] in H. destruct (str_cmp a b) eqn:E; try discriminate.
  specialize (IH H). constructor; [exact IH|].
  constructor; [exact E|]. inversion IH as [|? ? _ Hf]; subst.
  eapply Forall_impl; [|exact Hf]. intros z Hz. apply (str_lt_trans _ _ _ E Hz).
Qed.

Lemma has_title_iff obs k : has_title obs k = true <-> In k (map g_title obs).
Proof.
  unfold has_title. rewrite existsb_exists, in_map_iff. split.
  - intros (g & Hin & E). apply str_eqb_eq in E. exists g. tauto.
  - intros (g & E & Hin). exists g. split; [exact Hin|]. apply str_eqb_eq. exact E.
Qed.

Lemma oracle_sound conv kf selk txns obs :
  groups_ok conv kf selk txns obs = true ->
  StronglySorted str_lt (map g_title obs)
  /\ (forall g, In g obs ->
        let ps := flat_map conv (period_members kf txns (g_title g)) in
        b_rows (g_rep g) <> []
        /\ (exists t, In t txns /\ kf t = g_title g)
        /\ (forall r, In r (b_rows (g_rep g)) ->
              d28 (r_own r) = spec_own ps (r_key r) /\ d28 (r_tree r) = spec_tree ps (r_key r)
              /\ selk (r_key r) = true))
  /\ (forall t, In t txns ->
        (In (kf t) (map g_title obs) <->
         existsb selk (spec_keys (flat_map conv (period_members kf txns (kf t)))) = true))
  /\ (forall k, In k (spec_keys (flat_map conv txns)) -> selk k = true ->
        zsum (map (fun g => own_in (g_rep g) k) obs) = spec_own (flat_map conv txns) k).
Proof.
  unfold groups_ok. rewrite !andb_true_iff. intros ((((H1 & H2) & H3) & H4) & H5).
  rewrite forallb_forall in H2, H3, H4, H5.
  split; [apply strictly_ascending_sound; exact H1|]. split; [|split].
  - intros g Hg. cbv zeta. specialize (H2 g Hg). specialize (H3 g Hg).
    unfold group_ok in H2. rewrite !andb_true_iff in H2.
    destruct H2 as (((((G1 & G2) & _) & _) & G5) & _).
    split; [|split].
    + intros E. apply group_is_empty_iff in E. rewrite E in G1. discriminate.
    + apply existsb_exists in H3. destruct H3 as (t & Ht & E). apply str_eqb_eq in E. exists t. tauto.
    + intros r Hr. unfold rows_ok in G2. rewrite forallb_forall in G2. specialize (G2 r Hr).
      apply andb_true_iff in G2. destruct G2 as [A B]. apply Z.eqb_eq in A, B.
      rewrite forallb_forall in G5. specialize (G5 (r_key r) (in_map r_key _ _ Hr)).
      apply andb_true_iff in G5. tauto.
  - intros t Ht. specialize (H4 t Ht). apply eqb_prop in H4.
    rewrite <- has_title_iff, H4. reflexivity.
  - intros k Hk Hs. specialize (H5 k Hk). rewrite Hs in H5. cbn in H5. apply Z.eqb_eq. exact H5.
Qed.

(* ------------------------------------------------------------------ *)
(* constant offset: the ascending titles are the chronological order *)
Lemma chronological_fixed_offset gb off (t1 t2 : txn) :
  year_ok gb (local_days off (h_inst (t_hdr t1))) -> year_ok gb (local_days off (h_inst (t_hdr t2))) ->
  str_lt (txn_key gb (fun _ => off) t1) (txn_key gb (fun _ => off) t2) ->
  h_inst (t_hdr t1) < h_inst (t_hdr t2).
Proof. unfold txn_key, str_lt. apply instant_key_lt. Qed.

(* ------------------------------------------------------------------ *)
(* the partition by period *)
Lemma partition kf txns :
  Permutation (concat (map snd (group_members kf txns))) txns
  /\ StronglySorted str_lt (map fst (group_members kf txns))
  /\ (forall k g, In (k, g) (group_members kf txns) -> g = period_members kf txns k /\ g <> [])
  /\ (forall t, In t txns -> In (kf t, period_members kf txns (kf t)) (group_members kf txns)).
Proof.
  split; [apply gm_concat_perm|]. split; [apply gm_keys_ascending|].
  split; [apply gm_members|apply gm_complete].
Qed.

Lemma unique_ascending known ord sel conv kf txns out :
  balance_groups known ord sel conv kf txns = Some out ->
  StronglySorted str_lt (map g_title out) /\ NoDup (map g_title out).
Proof. intros H. split; [eapply titles_ascending|eapply titles_nodup]; exact H. Qed.

(* ------------------------------------------------------------------ *)
(* non-vacuity: a zone whose clock falls back across midnight (America/Goose_Bay,
   2005-10-30 00:01 -03:00 -> 2005-10-29 23:01 -04:00 at 03:01:00Z).  Three transactions at
   02:00:00Z, 03:00:30Z, 03:30:00Z: local dates 29th, 30th, 29th. *)
Definition ex_tzoff (i : Z) : Z := if i <? 1130641260000000000 then -10800 else -14400.
Definition ex_txn (inst : Z) (amt : Z) : txn :=
  mkTxn (mkHeader inst 0 None None None None [] [])
        [mkPosting [[97%N]] [] (mkDec amt 0) (mkDec amt 0) false [];
         mkPosting [[98%N]] [] (mkDec (- amt) 0) (mkDec (- amt) 0) false []].
Definition ex_txns : list txn :=
  [ex_txn 1130637600000000000 1; ex_txn 1130641230000000000 10; ex_txn 1130643000000000000 100].

Lemma group_example :
  option_map (map (fun g => (g_title g, map (fun r => dm (r_own r)) (b_rows (g_rep g)))))
    (balance_group_report (fun _ => true) (fun l => l) (fun _ => true) txn_bposts GbDate ex_tzoff ex_txns)
  = Some [ ([50; 48; 48; 53; 45; 49; 48; 45; 50; 57]%N, [101; -101]);       (* 2005-10-29 *)
           ([50; 48; 48; 53; 45; 49; 48; 45; 51; 48]%N, [10; -10]) ]        (* 2005-10-30 *)
  /\ year_ok GbDate (local_days (-10800) 1130637600000000000)
  /\ map (period_key GbIsoWeekDate) [14610; 14613] =                          (* 2010-01-01, 2010-01-04 *)
     [ [50; 48; 48; 57; 45; 87; 53; 51; 45; 53]%N;                           (* 2009-W53-5 *)
       [50; 48; 49; 48; 45; 87; 48; 49; 45; 49]%N ].                         (* 2010-W01-1 *)
Proof. split; [vm_compute; reflexivity|]. split; [vm_compute; split; discriminate|vm_compute; reflexivity]. Qed.
