(* Accept_proofs.v — proofs for C01: accepted transactions are balanced in one
   transaction commodity; transactions that cannot be balanced are rejected. *)
From TkModel Require Import Base Dec Acct Txn Accept.
From TkSpec Require Import Accept_spec.
From TkProofs Require Import DecS_proofs.
Local Open Scope Z_scope.

Lemma v56_dvs : forall d, v56 d = dvs 56 d.
Proof. reflexivity. Qed.

(* ================= generic helpers ================= *)

Lemma str_eqb_eq : forall a b, str_eqb a b = true <-> a = b.
Proof.
  induction a as [| x a IH]; intros [| y b]; cbn [str_eqb]; split; intro H;
    try reflexivity; try discriminate.
  - apply andb_true_iff in H. destruct H as [H1 H2].
    apply N.eqb_eq in H1. apply IH in H2. subst. reflexivity.
  - inversion H; subst. apply andb_true_iff. split; [apply N.eqb_refl | apply IH; reflexivity].
Qed.

Lemma str_eqb_refl : forall a, str_eqb a a = true.
Proof. intro a. apply str_eqb_eq. reflexivity. Qed.

Lemma str_eqb_neq : forall a b, str_eqb a b = false <-> a <> b.
Proof.
  intros a b. split.
  - intros H E. apply str_eqb_eq in E. rewrite E in H. discriminate.
  - intro H. destruct (str_eqb a b) eqn:E; [| reflexivity].
    apply str_eqb_eq in E. contradiction.
Qed.

Lemma acct_eqb_eq : forall a b, acct_eqb a b = true -> a = b.
Proof.
  unfold acct_eqb. induction a as [| x a IH]; intros [| y b] H; cbn [list_eqb] in H;
    try discriminate; try reflexivity.
  apply andb_true_iff in H. destruct H as [H1 H2].
  apply str_eqb_eq in H1. apply IH in H2. subst. reflexivity.
Qed.

Lemma mapM_ok_Forall2 : forall {A B} (f : A -> res B) l l',
  mapM f l = Ok l' -> Forall2 (fun x y => f x = Ok y) l l'.
Proof.
  intros A B f. induction l as [| x l IH]; intros l' H; cbn [mapM] in H.
  - inversion H. constructor.
  - destruct (f x) as [y | e] eqn:Ex; [| discriminate].
    destruct (mapM f l) as [ys | e] eqn:El; [| discriminate].
    inversion H; subst. constructor; [exact Ex | apply IH; reflexivity].
Qed.

Lemma mapM_err_in : forall {A B} (f : A -> res B) l x e,
  In x l -> f x = Err e -> exists e', mapM f l = Err e'.
Proof.
  intros A B f. induction l as [| y l IH]; intros x e Hin Hx.
  - destruct Hin.
  - cbn [mapM]. destruct Hin as [Hy | Hin].
    + subst y. rewrite Hx. eauto.
    + destruct (f y) as [z | e1]; [| eauto].
      destruct (IH x e Hin Hx) as [e' He']. rewrite He'. eauto.
Qed.

Lemma Forall2_length_eq : forall {A B} (P : A -> B -> Prop) l l',
  Forall2 P l l' -> length l = length l'.
Proof.
  intros A B P l l' H. induction H as [| x y l l' Hxy H IH]; cbn [length]; [reflexivity | f_equal; exact IH].
Qed.

Lemma Forall2_impl : forall {A B} (P Q : A -> B -> Prop) l l',
  (forall x y, In x l -> P x y -> Q x y) -> Forall2 P l l' -> Forall2 Q l l'.
Proof.
  intros A B P Q l l' HPQ H. induction H as [| x y l l' Hxy H IH]; constructor.
  - apply HPQ; [left; reflexivity | exact Hxy].
  - apply IH. intros a b Ha. apply HPQ. right. exact Ha.
Qed.

Lemma firstn_length_app : forall {A} (l l' : list A), firstn (length l) (l ++ l') = l.
Proof.
  intros A l l'. induction l as [| x l IH]; cbn [length firstn app].
  - destruct l'; reflexivity.
  - f_equal. exact IH.
Qed.

Lemma skipn_length_app : forall {A} (l l' : list A), skipn (length l) (l ++ l') = l'.
Proof.
  intros A l l'. induction l as [| x l IH]; cbn [length skipn app]; [reflexivity | exact IH].
Qed.

Lemma firstn_length_self : forall {A} (l : list A), firstn (length l) l = l.
Proof.
  intros A l. induction l as [| x l IH]; cbn [length firstn]; [reflexivity | f_equal; exact IH].
Qed.

Lemma forall2b_Forall2 : forall {A B} (f : A -> B -> bool) (P : A -> B -> Prop),
  (forall x y, f x y = true -> P x y) ->
  forall a b, forall2b f a b = true -> Forall2 P a b.
Proof.
  intros A B f P HfP. induction a as [| x a IH]; intros [| y b] H; cbn [forall2b] in H;
    try discriminate.
  - constructor.
  - apply andb_true_iff in H. destruct H as [H1 H2].
    constructor; [apply HfP; exact H1 | apply IH; exact H2].
Qed.

(* ---------- distinct_strs ---------- *)
Lemma In_distinct : forall l y, In y l -> In y (distinct_strs l).
Proof.
  induction l as [| x l IH]; intros y H; [destruct H |].
  cbn [distinct_strs]. destruct H as [H | H]; [left; exact H |].
  destruct (str_eqb x y) eqn:E.
  - apply str_eqb_eq in E. left. exact E.
  - right. apply filter_In. split; [apply IH; exact H | rewrite E; reflexivity].
Qed.

Lemma distinct_In : forall l y, In y (distinct_strs l) -> In y l.
Proof.
  induction l as [| x l IH]; intros y H; [destruct H |].
  cbn [distinct_strs] in H. destruct H as [H | H]; [left; exact H |].
  right. apply IH. apply filter_In in H. destruct H as [H _]. exact H.
Qed.

Definition all_same (l : list (list N)) : Prop := forall x y, In x l -> In y l -> x = y.

Lemma distinct_le1 : forall l,
  Nat.ltb 1 (length (distinct_strs l)) = false <-> all_same l.
Proof.
  intros [| x l].
  - split; [intros _ a b [] | reflexivity].
  - cbn [distinct_strs length].
    remember (filter (fun y => negb (str_eqb x y)) (distinct_strs l)) as F eqn:EF.
    split.
    + intro H.
      assert (HF : F = []).
      { destruct F as [| z F']; [reflexivity | cbn in H; discriminate]. }
      assert (Hx : forall y, In y l -> y = x).
      { intros y Hy. destruct (str_eqb x y) eqn:E.
        - apply str_eqb_eq in E. symmetry. exact E.
        - assert (Hin : In y F).
          { rewrite EF. apply filter_In.
            split; [apply In_distinct; exact Hy | rewrite E; reflexivity]. }
          rewrite HF in Hin. destruct Hin. }
      assert (Hx' : forall y, In y (x :: l) -> y = x).
      { intros y [Hy | Hy]; [symmetry; exact Hy | apply Hx; exact Hy]. }
      intros a b Ha Hb. rewrite (Hx' a Ha), (Hx' b Hb). reflexivity.
    + intro H. destruct F as [| z F']; [reflexivity |]. exfalso.
      assert (Hin : In z (filter (fun y => negb (str_eqb x y)) (distinct_strs l))).
      { rewrite <- EF. left. reflexivity. }
      apply filter_In in Hin. destruct Hin as [Hin Hne].
      apply distinct_In in Hin.
      assert (E : x = z).
      { apply H; [left; reflexivity | right; exact Hin]. }
      subst z. rewrite str_eqb_refl in Hne. discriminate.
Qed.

Lemma all_same_app_l : forall l l', all_same (l ++ l') -> all_same l.
Proof.
  intros l l' H a b Ha Hb. apply H; apply in_or_app; left; assumption.
Qed.

(* ================= one posting ================= *)

Lemma value_position_ok : forall amt ou pc tc ta tot,
  value_position amt ou = Ok (pc, tc, ta, tot) ->
  match ou with
  | None => pc = [] /\ tc = [] /\ ta = amt
  | Some u => pc = u_comm u /\
     match u_closing u with
     | Some (ty, v, c) => u_comm u <> c /\ tc = c /\
         match ty with
         | UnitPrice => is_neg v = false /\ ta = dmul amt v
         | TotalPrice => ta = v /\
             ((is_neg v && negb (is_neg amt)) || (is_neg amt && negb (is_neg v)))%bool = false
         end
     | None => tc = u_comm u /\ ta = amt
     end
  end.
Proof.
  intros amt ou pc tc ta tot H. unfold value_position in H.
  destruct ou as [u |].
  2:{ inversion H; subst. auto. }
  destruct u as [upc uop ucl]. cbn [u_comm u_opening u_closing] in *.
  destruct ucl as [[[ty v] c] |].
  - (* closing position *)
    assert (H' : res_bind (if str_eqb upc c then Err E_same_comm else Ok c)
              (fun tc0 : list N =>
                 if match uop with Some (v0, _) => is_neg v0 | None => false end
                 then Err E_neg_opening
                 else match ty with
                      | UnitPrice => if is_neg v then Err E_neg_unit else Ok (upc, tc0, dmul amt v, false)
                      | TotalPrice =>
                          if ((is_neg v && negb (is_neg amt)) || (is_neg amt && negb (is_neg v)))%bool
                          then Err E_total_sign else Ok (upc, tc0, v, true)
                      end) = Ok (pc, tc, ta, tot)).
    { destruct uop as [[ov oc] |]; destruct ty; exact H. }
    clear H.
    destruct (str_eqb upc c) eqn:Ec; cbn [res_bind] in H'; [discriminate |].
    apply str_eqb_neq in Ec.
    destruct (match uop with Some (v0, _) => is_neg v0 | None => false end); [discriminate |].
    destruct ty.
    + destruct (is_neg v) eqn:Nv; [discriminate |].
      inversion H'; subst. auto.
    + destruct ((is_neg v && negb (is_neg amt)) || (is_neg amt && negb (is_neg v)))%bool eqn:Sg;
        [discriminate |].
      inversion H'; subst. auto.
  - (* no closing position *)
    assert (H' : (if match uop with Some (v0, _) => is_neg v0 | None => false end
                  then Err E_neg_opening else Ok (upc, upc, amt, false)) = Ok (pc, tc, ta, tot)).
    { destruct uop as [[ov oc] |]; exact H. }
    clear H.
    destruct (match uop with Some (v0, _) => is_neg v0 | None => false end); [discriminate |].
    inversion H'; subst. auto.
Qed.

Lemma accept_posting_inv : forall rp p, accept_posting rp = Ok p ->
  exists pc tc ta tot,
    value_position (rp_amount rp) (rp_unit rp) = Ok (pc, tc, ta, tot)
    /\ is_zero (rp_amount rp) = false
    /\ p = mkPosting (rp_acc rp) pc (rp_amount rp) ta tot tc.
Proof.
  intros rp p H. unfold accept_posting in H.
  destruct (value_position (rp_amount rp) (rp_unit rp)) as [[[[pc tc] ta] tot] | e] eqn:EV;
    cbn [res_bind] in H; [| discriminate].
  unfold mk_posting in H. destruct (is_zero (rp_amount rp)) eqn:Z; [discriminate |].
  inversion H; subst p. exists pc, tc, ta, tot. auto.
Qed.

(* what an accepted posting looks like *)
Definition post_ok (rp : raw_post) (p : posting) : Prop :=
  posting_in (raw_txn_comm rp) rp p
  /\ p_txn_comm p = raw_txn_comm rp
  /\ p_txn_amount p = raw_txn_value rp
  /\ (ds (p_txn_amount p) <= 56)%N.

Lemma accept_posting_ok : forall rp p,
  raw_post_wf rp -> accept_posting rp = Ok p -> post_ok rp p.
Proof.
  intros rp p Hwf H.
  destruct (accept_posting_inv rp p H) as (pc & tc & ta & tot & EV & Z & Hp).
  apply value_position_ok in EV.
  destruct rp as [a amt ou]. destruct Hwf as [Hamt Hu].
  cbn [rp_amount rp_unit rp_acc] in *.
  apply is_zero_false_dm in Z. unfold dwf in Hamt.
  subst p. unfold post_ok, posting_in, raw_txn_comm, raw_txn_value, closing_into.
  cbn [rp_amount rp_unit rp_acc p_acc p_comm p_amount p_txn_amount p_total p_txn_comm].
  destruct ou as [u |].
  - destruct EV as [Hpc EV]. unfold unit_wf in Hu.
    destruct (u_closing u) as [[[ty v] c] |] eqn:EC.
    + destruct EV as [Hne [Htc EV]]. subst pc tc. unfold dwf in Hu.
      rewrite str_eqb_refl.
      destruct ty.
      * destruct EV as [Nv Hta]. subst ta. apply is_neg_false_dm in Nv.
        repeat split; try assumption; try reflexivity.
        -- right. split; [exact Hne |]. exists UnitPrice, v. split; [reflexivity |].
           split; [exact Nv |]. rewrite !v56_dvs. apply dvs56_dmul; assumption.
        -- apply ds56_dmul; assumption.
      * destruct EV as [Hta Sg]. subst ta.
        repeat split; try assumption; try reflexivity.
        -- right. split; [exact Hne |]. exists TotalPrice, v. split; [reflexivity |].
           split; [reflexivity |].
           unfold is_neg in Sg.
           destruct (Z.ltb_spec (dm v) 0) as [Lv | Lv]; destruct (Z.ltb_spec (dm amt) 0) as [La | La];
             cbn in Sg; try discriminate; split; lia.
        -- lia.
    + destruct EV as [Htc Hta]. subst pc tc ta.
      repeat split; try assumption; try reflexivity.
      * left. split; reflexivity.
      * lia.
  - destruct EV as [Hpc [Htc Hta]]. subst pc tc ta.
    repeat split; try assumption; try reflexivity.
    + left. split; reflexivity.
    + lia.
Qed.

Lemma accept_posting_not_must_reject : forall rp p,
  accept_posting rp = Ok p -> must_reject_post rp = false.
Proof.
  intros rp p H.
  destruct (accept_posting_inv rp p H) as (pc & tc & ta & tot & EV & Z & Hp).
  apply value_position_ok in EV.
  unfold must_reject_post. rewrite Z. cbn [orb].
  destruct (rp_unit rp) as [u |]; [| reflexivity].
  destruct EV as [Hpc EV].
  destruct (u_closing u) as [[[ty v] c] |]; [| reflexivity].
  destruct EV as [Hne [Htc EV]].
  apply str_eqb_neq in Hne. rewrite Hne. cbn [orb].
  destruct ty.
  - destruct EV as [Nv _]. exact Nv.
  - destruct EV as [_ Sg]. unfold is_neg in *.
    destruct (Z.ltb_spec (dm v) 0) as [Lv | Lv];
      destruct (Z.ltb_spec (dm (rp_amount rp)) 0) as [La | La];
      cbn in Sg; try discriminate; cbn [andb orb].
    + destruct (Z.ltb_spec 0 (dm (rp_amount rp))); [lia |].
      destruct (Z.ltb_spec 0 (dm v)); [lia | reflexivity].
    + reflexivity.
Qed.

(* ================= whole transaction ================= *)

Definition last_posting (a : list (list N)) (ps0 : list posting) : posting :=
  let amount := dneg (txn_sum ps0) in
  let comm := match ps0 with p :: _ => p_txn_comm p | [] => [] end in
  mkPosting a comm amount amount false comm.

Lemma accept_txn_inv : forall posts last ps,
  accept_txn (mkRawTxn posts last) = Ok ps ->
  exists ps0,
    posts <> []
    /\ mapM accept_posting posts = Ok ps0
    /\ match last with
       | None => ps = ps0
       | Some a => is_zero (dneg (txn_sum ps0)) = false /\ ps = ps0 ++ [last_posting a ps0]
       end
    /\ Nat.ltb 1 (length (distinct_strs (map p_txn_comm ps))) = false
    /\ is_zero (txn_sum ps) = true.
Proof.
  intros posts last ps H. unfold accept_txn in H. cbn [rt_posts rt_last] in H.
  assert (Hne : posts <> []).
  { intro E. subst posts. discriminate. }
  assert (H' : res_bind (mapM accept_posting posts) (fun ps0 =>
      res_bind
        match last with
        | None => Ok ps0
        | Some a =>
            res_bind (mk_posting a match ps0 with p :: _ => p_txn_comm p | [] => [] end
                        (dneg (txn_sum ps0)) (dneg (txn_sum ps0)) false
                        match ps0 with p :: _ => p_txn_comm p | [] => [] end)
              (fun lp => Ok (ps0 ++ [lp]))
        end
        (fun ps1 =>
           if Nat.ltb 1 (length (distinct_strs (map p_txn_comm ps1))) then Err E_commodities
           else if is_zero (txn_sum ps1) then Ok ps1 else Err E_unbalanced)) = Ok ps).
  { destruct posts as [| rp0 rps]; [contradiction | exact H]. }
  clear H.
  destruct (mapM accept_posting posts) as [ps0 | e] eqn:EM; cbn [res_bind] in H'; [| discriminate].
  exists ps0. split; [exact Hne |]. split; [reflexivity |].
  destruct last as [a |].
  - unfold mk_posting in H'.
    destruct (is_zero (dneg (txn_sum ps0))) eqn:Zl; cbn [res_bind] in H'; [discriminate |].
    fold (last_posting a ps0) in H'.
    destruct (Nat.ltb 1 (length (distinct_strs (map p_txn_comm (ps0 ++ [last_posting a ps0])))))
      eqn:Ed; [discriminate |].
    destruct (is_zero (txn_sum (ps0 ++ [last_posting a ps0]))) eqn:Zs; [| discriminate].
    inversion H'; subst ps. auto.
  - cbn [res_bind] in H'.
    destruct (Nat.ltb 1 (length (distinct_strs (map p_txn_comm ps0)))) eqn:Ed; [discriminate |].
    destruct (is_zero (txn_sum ps0)) eqn:Zs; [| discriminate].
    inversion H'; subst ps. auto.
Qed.

Definition sc56 (ps : list posting) : Prop :=
  Forall (fun d => (ds d <= 56)%N) (map p_txn_amount ps).

Lemma post_ok_sc56 : forall posts ps0, Forall2 post_ok posts ps0 -> sc56 ps0.
Proof.
  intros posts ps0 H. unfold sc56.
  induction H as [| rp p posts ps0 Hp H IH]; cbn [map]; constructor.
  - destruct Hp as (_ & _ & _ & Hs). exact Hs.
  - exact IH.
Qed.

Lemma v56_txn_sum : forall ps, sc56 ps ->
  v56 (txn_sum ps) = zsum (map (fun p => v56 (p_txn_amount p)) ps).
Proof.
  intros ps H. unfold txn_sum. rewrite v56_dvs. rewrite (dvs_dsum 56 _ H).
  rewrite map_map. reflexivity.
Qed.

Lemma ds_txn_sum : forall ps, sc56 ps -> (ds (txn_sum ps) <= 56)%N.
Proof. intros ps H. unfold txn_sum. apply ds_dsum. exact H. Qed.

Lemma sc56_app_last : forall a ps0, sc56 ps0 -> sc56 (ps0 ++ [last_posting a ps0]).
Proof.
  intros a ps0 H. unfold sc56. rewrite map_app. apply Forall_app. split; [exact H |].
  cbn [map]. constructor; [| constructor].
  unfold last_posting. cbn [p_txn_amount]. rewrite ds_dneg. apply ds_txn_sum. exact H.
Qed.

Lemma mapM_accept_post_ok : forall posts ps0,
  Forall raw_post_wf posts -> mapM accept_posting posts = Ok ps0 -> Forall2 post_ok posts ps0.
Proof.
  intros posts ps0 Hwf H. apply mapM_ok_Forall2 in H.
  apply (Forall2_impl (fun x y => accept_posting x = Ok y)); [| exact H].
  intros rp p Hin Hp. apply accept_posting_ok; [| exact Hp].
  rewrite Forall_forall in Hwf. apply Hwf. exact Hin.
Qed.

Lemma post_ok_comms : forall posts ps0, Forall2 post_ok posts ps0 ->
  map p_txn_comm ps0 = map raw_txn_comm posts.
Proof.
  intros posts ps0 H. induction H as [| rp p posts ps0 Hp H IH]; cbn [map]; [reflexivity |].
  destruct Hp as (_ & Hc & _ & _). rewrite Hc, IH. reflexivity.
Qed.

Lemma post_ok_values : forall posts ps0, Forall2 post_ok posts ps0 ->
  map (fun p => v56 (p_txn_amount p)) ps0 = map (fun rp => v56 (raw_txn_value rp)) posts.
Proof.
  intros posts ps0 H. induction H as [| rp p posts ps0 Hp H IH]; cbn [map]; [reflexivity |].
  destruct Hp as (_ & _ & Hv & _). rewrite Hv, IH. reflexivity.
Qed.

(* ---- C01: accepted => balanced ---- *)
Lemma accept_txn_balanced : forall rt ps,
  raw_wf rt -> accept_txn rt = Ok ps -> Balanced rt ps.
Proof.
  intros [posts last] ps Hwf H. unfold raw_wf in Hwf. cbn [rt_posts] in Hwf.
  destruct (accept_txn_inv posts last ps H) as (ps0 & Hne & EM & Hlast & Hd & Hz).
  pose proof (mapM_accept_post_ok posts ps0 Hwf EM) as HF.
  pose proof (post_ok_sc56 posts ps0 HF) as Hsc0.
  pose proof (Forall2_length_eq _ _ _ HF) as Hlen.
  apply distinct_le1 in Hd.
  (* ps0 is not empty *)
  destruct ps0 as [| p0 ps0'].
  { destruct posts; [contradiction | discriminate Hlen]. }
  set (ps0 := p0 :: ps0') in *.
  set (c := p_txn_comm p0).
  assert (Hsame0 : all_same (map p_txn_comm ps0)).
  { destruct last as [a |].
    - destruct Hlast as [_ Hps]. subst ps. rewrite map_app in Hd.
      apply all_same_app_l in Hd. exact Hd.
    - subst ps. exact Hd. }
  assert (Hc : forall p, In p ps0 -> p_txn_comm p = c).
  { intros p Hp. apply Hsame0.
    - apply in_map. exact Hp.
    - apply (in_map p_txn_comm ps0 p0). left. reflexivity. }
  assert (HFc : Forall2 (posting_in c) posts ps0).
  { clear - HF Hc. induction HF as [| rp p posts ps1 Hp HF IH]; constructor.
    - destruct Hp as (Hin & Hcm & _ & _). rewrite <- (Hc p (or_introl eq_refl)), Hcm. exact Hin.
    - apply IH. intros q Hq. apply Hc. right. exact Hq. }
  assert (Hsc : sc56 ps).
  { destruct last as [a |].
    - destruct Hlast as [_ Hps]. subst ps. apply sc56_app_last. exact Hsc0.
    - subst ps. exact Hsc0. }
  exists c. cbn [rt_posts rt_last]. cbv zeta.
  split; [| split].
  - destruct last as [a |].
    + destruct Hlast as [_ Hps]. subst ps. rewrite Hlen, firstn_length_app. exact HFc.
    + subst ps. rewrite Hlen, firstn_length_self. exact HFc.
  - rewrite <- (v56_txn_sum ps Hsc). rewrite v56_dvs. apply is_zero_dvs. exact Hz.
  - destruct last as [a |].
    + destruct Hlast as [Zl Hps]. subst ps.
      exists (last_posting a ps0). rewrite Hlen, skipn_length_app, firstn_length_app.
      apply is_zero_false_dm in Zl.
      unfold last_posting at 2 3 4 5 6 7 8.
      cbn [p_acc p_comm p_amount p_txn_amount p_txn_comm].
      repeat split; try reflexivity.
      * exact Zl.
      * rewrite <- (v56_txn_sum ps0 Hsc0). rewrite !v56_dvs. apply dvs_dneg.
    + subst ps. symmetry. exact Hlen.
Qed.

(* ---- C01: must_reject => rejected ---- *)
Lemma must_reject_rejected : forall rt,
  raw_wf rt -> must_reject rt = true -> exists e, accept_txn rt = Err e.
Proof.
  intros [posts last] Hwf Hmr. unfold raw_wf in Hwf. cbn [rt_posts] in Hwf.
  destruct (accept_txn (mkRawTxn posts last)) as [ps | e] eqn:EA; [exfalso | eauto].
  destruct (accept_txn_inv posts last ps EA) as (ps0 & Hne & EM & Hlast & Hd & Hz).
  pose proof (mapM_accept_post_ok posts ps0 Hwf EM) as HF.
  pose proof (post_ok_sc56 posts ps0 HF) as Hsc0.
  apply distinct_le1 in Hd.
  unfold must_reject in Hmr. cbn [rt_posts rt_last] in Hmr.
  (* 1: no posting is of a must-reject shape *)
  assert (H1 : existsb must_reject_post posts = false).
  { apply mapM_ok_Forall2 in EM. clear - EM.
    induction EM as [| rp p posts ps1 Hp EM IH]; cbn [existsb]; [reflexivity |].
    rewrite (accept_posting_not_must_reject rp p Hp), IH. reflexivity. }
  (* 2: a single transaction commodity *)
  assert (H2 : Nat.ltb 1 (length (distinct_strs (map raw_txn_comm posts))) = false).
  { apply distinct_le1. rewrite <- (post_ok_comms posts ps0 HF).
    destruct last as [a |].
    - destruct Hlast as [_ Hps]. subst ps. rewrite map_app in Hd.
      apply all_same_app_l in Hd. exact Hd.
    - subst ps. exact Hd. }
  rewrite H1, H2 in Hmr. cbn [orb] in Hmr.
  (* 3: the sum *)
  rewrite <- (post_ok_values posts ps0 HF) in Hmr.
  rewrite <- (v56_txn_sum ps0 Hsc0) in Hmr. rewrite v56_dvs in Hmr.
  destruct last as [a |].
  - destruct Hlast as [Zl _]. rewrite is_zero_dneg in Zl.
    apply (is_zero_false_dvs 56) in Zl. apply Z.eqb_eq in Hmr. contradiction.
  - subst ps. apply (is_zero_dvs 56) in Hz. rewrite Hz in Hmr. discriminate.
Qed.

(* ---- journals ---- *)
Lemma journal_rejected : forall j rt e,
  In rt j -> accept_txn rt = Err e -> exists e', accept_journal j = Err e'.
Proof.
  intros j rt e Hin He. unfold accept_journal. apply (mapM_err_in accept_txn j rt e Hin He).
Qed.

Lemma journal_accepted : forall j l,
  accept_journal j = Ok l -> Forall2 (fun rt ps => accept_txn rt = Ok ps) j l.
Proof.
  intros j l H. unfold accept_journal in H. apply mapM_ok_Forall2. exact H.
Qed.

(* ---- the oracle ---- *)
Lemma posting_in_b_sound : forall c rp p, posting_in_b c rp p = true -> posting_in c rp p.
Proof.
  intros c rp p H. unfold posting_in_b in H.
  apply andb_true_iff in H. destruct H as [H H4].
  apply andb_true_iff in H. destruct H as [H H3].
  apply andb_true_iff in H. destruct H as [H1 H2].
  apply drepr_eqb_eq in H1. apply negb_true_iff in H2. apply is_zero_false_dm in H2.
  apply str_eqb_eq in H3.
  unfold posting_in. split; [exact H1 |]. split; [exact H2 |]. split; [exact H3 |].
  apply orb_true_iff in H4. destruct H4 as [H4 | H4].
  - apply andb_true_iff in H4. destruct H4 as [H5 H6].
    apply str_eqb_eq in H5. apply drepr_eqb_eq in H6. left. split; assumption.
  - apply andb_true_iff in H4. destruct H4 as [H5 H6].
    apply negb_true_iff in H5. apply str_eqb_neq in H5.
    right. split; [exact H5 |].
    destruct (closing_into rp c) as [[ty v] |]; [| discriminate].
    exists ty, v. split; [reflexivity |].
    destruct ty.
    + apply andb_true_iff in H6. destruct H6 as [H6 H7].
      apply negb_true_iff in H6. apply is_neg_false_dm in H6. apply Z.eqb_eq in H7.
      split; assumption.
    + apply andb_true_iff in H6. destruct H6 as [H6 H8].
      apply andb_true_iff in H6. destruct H6 as [H6 H7].
      apply drepr_eqb_eq in H6. split; [exact H6 |].
      apply negb_true_iff in H7. apply negb_true_iff in H8. unfold is_neg in *.
      destruct (Z.ltb_spec (dm v) 0); destruct (Z.ltb_spec 0 (dm (p_amount p)));
        destruct (Z.ltb_spec (dm (p_amount p)) 0); destruct (Z.ltb_spec 0 (dm v));
        cbn in H7, H8; try discriminate; split; lia.
Qed.

Lemma balanced_b_sound : forall rt ps,
  raw_wf rt -> balanced_b rt ps = true -> Balanced rt ps.
Proof.
  intros [posts last] ps _ H. unfold balanced_b in H. cbn [rt_posts rt_last] in H.
  destruct ps as [| p0 ps']; [discriminate |].
  set (ps := p0 :: ps') in *.
  apply andb_true_iff in H. destruct H as [H H3].
  apply andb_true_iff in H. destruct H as [H1 H2].
  apply (forall2b_Forall2 _ _ (posting_in_b_sound (p_txn_comm p0))) in H1.
  apply Z.eqb_eq in H2.
  exists (p_txn_comm p0). cbn [rt_posts rt_last]. cbv zeta.
  split; [exact H1 |]. split; [exact H2 |].
  destruct last as [a |].
  - destruct (skipn (length posts) ps) as [| lp [| lp' rest]]; try discriminate.
    exists lp.
    apply andb_true_iff in H3. destruct H3 as [H3 H9].
    apply andb_true_iff in H3. destruct H3 as [H3 H8].
    apply andb_true_iff in H3. destruct H3 as [H3 H7].
    apply andb_true_iff in H3. destruct H3 as [H3 H6].
    apply andb_true_iff in H3. destruct H3 as [H4 H5].
    apply acct_eqb_eq in H4. apply str_eqb_eq in H5. apply str_eqb_eq in H6.
    apply negb_true_iff in H7. apply is_zero_false_dm in H7.
    apply drepr_eqb_eq in H8. apply Z.eqb_eq in H9.
    repeat split; assumption.
  - apply Nat.eqb_eq in H3. exact H3.
Qed.

(* ---- non-vacuity ---- *)
Lemma accept_example :
  let rt := mkRawTxn
    [ mkRawPost [[97]]%N (mkDec 15 1) (Some (mkUnit [65]%N (Some (mkDec 2 0, [69]%N)) (Some (UnitPrice, mkDec 20 1, [69]%N))));
      mkRawPost [[98]]%N (mkDec (-3) 0) (Some (mkUnit [66]%N None (Some (TotalPrice, mkDec (-75) 1, [69]%N))));
      mkRawPost [[99]]%N (mkDec 1 2) (Some (mkUnit [69]%N None None)) ]
    (Some [[100]]%N) in
  raw_wf rt /\ must_reject rt = false /\
  option_map (fun ps => map (fun p => (dm (p_txn_amount p), ds (p_txn_amount p))) ps)
             (match accept_txn rt with Ok ps => Some ps | Err _ => None end)
  = Some [(300, 2%N); (-75, 1%N); (1, 2%N); (449, 2%N)].
Proof.
  intro rt. split; [| split].
  - unfold raw_wf, rt. cbn [rt_posts].
    repeat constructor; vm_compute; intro Hc; discriminate Hc.
  - vm_compute. reflexivity.
  - vm_compute. reflexivity.
Qed.
