(* C03 — Register report: canonical order and exact running totals.
   Statements only; proofs in TkProofs.Register_proofs.
   Model: TkModel.Register (register_engine with the price conversion as a parameter;
   conv_id = no report commodity), TkModel.Txn (header_cmp, sort_txns).
   Hypothesis of the numeric statements: txn_wf = every amount has scale <= 28
   (what Decimal guarantees); overflow of the 96-bit mantissa is outside (C15). *)
From Coq Require Import Permutation Sorted.
From TkModel Require Import Base Dec Acct Txn Balance Register.
From TkSpec Require Import Balance_spec Register_spec.
From TkProofs Require Import Register_proofs.
Local Open Scope Z_scope.

(* ---- canonical order ---- *)

(* the loaded transactions are a rearrangement of the input, ascending by
   (instant, code, description, uuid) *)
Theorem C03_order : forall input,
  Permutation (sort_txns input) input /\ StronglySorted hdr_le (sort_txns input).
Proof. exact (fun input => conj (sort_txns_perm input) (sort_txns_sorted input)). Qed.
Print Assumptions C03_order.

(* ... transactions whose headers compare equal keep their input order ... *)
Theorem C03_order_stable : forall h input,
  filter (hdr_same h) (sort_txns input) = filter (hdr_same h) input.
Proof. exact sort_txns_stable. Qed.
Print Assumptions C03_order_stable.

(* ... and when no two transactions have equal headers, it is THE sorted arrangement *)
Theorem C03_order_unique : forall input l',
  NoDup input ->
  (forall a b, In a input -> In b input -> header_cmp (t_hdr a) (t_hdr b) = Eq -> a = b) ->
  Permutation l' input -> StronglySorted hdr_le l' -> l' = sort_txns input.
Proof. exact sort_txns_unique. Qed.
Print Assumptions C03_order_unique.

(* rows inside an entry: the transaction's postings, ascending by (commodity, account
   string); postings to the same (account, commodity) keep their order *)
Theorem C03_entry_order : forall t,
  Permutation (entry_posts t) (t_posts t) /\ StronglySorted post_le (entry_posts t)
  /\ forall k, filter (same_key k) (entry_posts t) = filter (same_key k) (t_posts t).
Proof.
  exact (fun t => conj (entry_posts_perm t)
                       (conj (entry_posts_sorted t) (fun k => entry_posts_stable k t))).
Qed.
Print Assumptions C03_entry_order.

(* ---- exact running totals ---- *)

(* the complete register IS the specification: one entry per transaction in canonical
   order, one row per posting in the in-entry order, and the total of a row is the exact
   sum of the amounts of all postings to the same (account, commodity) listed before it,
   plus its own amount *)
Theorem C03_running_total : forall input,
  Forall txn_wf input ->
  map obs_entry (register conv_id sel_all input)
  = spec_entries entry_posts [] (sort_txns input).
Proof. exact register_running_total. Qed.
Print Assumptions C03_running_total.

(* the same, read by position: row j of entry i shows posting j of transaction i and
   total = (sum over transactions 0..i-1) + (sum over rows 0..j of this entry) *)
Theorem C03_running_total_by_position : forall input i e j r,
  Forall txn_wf input ->
  nth_error (register conv_id sel_all input) i = Some e ->
  nth_error (re_rows e) j = Some r ->
  nth_error (sort_txns input) i = Some (re_txn e)
  /\ nth_error (entry_posts (re_txn e)) j = Some (rr_post r)
  /\ d28 (rr_total r)
     = key_sum (p_key (rr_post r)) (flat_map t_posts (firstn i (sort_txns input)))
       + key_sum (p_key (rr_post r)) (firstn (S j) (entry_posts (re_txn e))).
Proof. exact register_running_total_explicit. Qed.
Print Assumptions C03_running_total_by_position.

(* ---- cross-report relation with the balance report (C02) ---- *)

(* the last total shown for an (account, commodity) is its balance-report account sum
   (Balance_spec.spec_own, the figure C02_own proves for the balance report) *)
Theorem C03_last_total_is_balance : forall input k,
  Forall txn_wf input ->
  last_total k (flat_map (fun e => map obs_row (re_rows e)) (register conv_id sel_all input))
  = if existsb (same_key k) (flat_map t_posts input)
    then Some (spec_own (bposts_of input) k) else None.
Proof. exact register_last_total. Qed.
Print Assumptions C03_last_total_is_balance.

(* ... and so is the accumulator at the end, whatever the account selector *)
Theorem C03_final_state_is_balance : forall sel input k,
  Forall txn_wf input ->
  st_val (register_final conv_id sel input) k = spec_own (bposts_of input) k.
Proof. exact register_final_balance. Qed.
Print Assumptions C03_final_state_is_balance.

(* ---- account selection ---- *)

(* for every price conversion and every selector: the report with selector S is, entry by
   entry, the complete report with the unselected rows removed — the rows that remain
   are the same terms (amount, total, commodity, rate); the accumulator is the same;
   the text report additionally drops entries left without rows *)
Theorem C03_selector_hides_only : forall conv sel input,
  register conv sel input = map (restrict sel) (register conv sel_all input)
  /\ register_final conv sel input = register_final conv sel_all input
  /\ register_text_entries conv sel input
     = drop_empty (map (restrict sel) (register conv sel_all input))
  /\ forall e r, In r (re_rows (restrict sel e)) <-> In r (re_rows e) /\ sel r = true.
Proof.
  exact (fun conv sel input =>
           conj (proj1 (register_selector conv sel input))
                (conj (proj2 (register_selector conv sel input))
                      (conj (register_text_selector conv sel input)
                            (fun e r => restrict_rows sel e r)))).
Qed.
Print Assumptions C03_selector_hides_only.

(* ---- the executable oracles used on the implementation's output are sound ---- *)

Theorem C03_oracle_sound : forall input names order obs,
  reg_ok input names order obs = true ->
  exists out,
    pick input order = Some out
    /\ Permutation out input
    /\ StronglySorted hdr_le out
    /\ StronglySorted before (combine order out)
    /\ Forall2 (fun e o => fst e = fst o /\ Forall2 row_rel (snd e) (snd o))
               (expected_entries names order out) (filter has_rows obs)
    /\ Forall (fun o => StronglySorted (fun a b => key_cmp (orow_key a) (orow_key b) <> Gt) (snd o)) obs
    /\ (names = [] -> forall p, In p (flat_map t_posts input) ->
        last_total (p_key p) (map orow_obs (flat_map snd obs))
        = Some (spec_own (bposts_of input) (p_key p))).
Proof. exact reg_ok_sound. Qed.
Print Assumptions C03_oracle_sound.

Theorem C03_order_oracle_sound : forall input idxs out,
  pick input idxs = Some out -> order_ok input idxs out = true ->
  Permutation out input /\ StronglySorted hdr_le out /\ StronglySorted before (combine idxs out).
Proof. exact order_ok_sound. Qed.
Print Assumptions C03_order_oracle_sound.

(* non-vacuity: three transactions at one instant ordered by code (None, "b", "c"; file
   order c, None, b), two postings to one account inside a transaction, two commodities,
   selector hiding the first rows *)
Example C03_example :
  Forall txn_wf ex_input
  /\ map (fun t => h_code (t_hdr t)) (sort_txns ex_input) = [None; Some [98]%N; Some [99]%N]
  /\ ex_view (register conv_id sel_all ex_input)
     = [ [(1, 0%N); (3, 0%N); (-3, 0%N); (-5, 0%N); (5, 0%N)];
         [(450, 2%N); (-450, 2%N)];
         [(200, 2%N); (-200, 2%N)] ]
  /\ ex_view (register_text_entries conv_id (sel_names [[[101]]%N]) ex_input)
     = [ [(-3, 0%N); (5, 0%N)]; [(-450, 2%N)]; [(-200, 2%N)] ]
  /\ map (fun kv => d28 (snd kv)) (register_final conv_id sel_all ex_input)
     = [20000000000000000000000000000; -20000000000000000000000000000;
        -50000000000000000000000000000; 50000000000000000000000000000].
Proof. exact register_example. Qed.
