(* C14 — Outputs are complete or the run fails; existing files are never overwritten.
   Statements only; proofs in TkProofs.Output_proofs. *)
From TkModel Require Import Base Output.
From TkProofs Require Import Output_proofs.

(* one destination, any chunking of its content, a write failure at any byte offset:
   the code (with the explicit flush) sees success exactly when the whole content is on disk *)
Theorem C14_target_complete_or_error : forall limit chunks disk ok,
  write_target true limit chunks = (disk, ok) ->
  (ok = true -> disk = concat chunks)
  /\ (ok = false -> length (concat chunks) > limit /\ disk <> concat chunks)
  /\ (ok = true <-> length (concat chunks) <= limit).
Proof. exact write_target_spec. Qed.
Print Assumptions C14_target_complete_or_error.

(* the whole run: success implies every destination announced and complete; in every
   case each announced destination is complete; nothing pre-existing is touched *)
Theorem C14_run_complete_or_error : forall limit targets,
  let r := run_targets true limit targets in
  (rr_ok r = true ->
     rr_announced r = seq 0 (length targets)
     /\ rr_disk r = map (fun t => Some (concat (snd t))) targets)
  /\ (forall i, In i (rr_announced r) ->
        exists t, nth_error targets i = Some t /\ nth_error (rr_disk r) i = Some (Some (concat (snd t))))
  /\ (forall i t old, nth_error targets i = Some t -> fst t = Some old ->
        rr_ok r = false /\ nth_error (rr_disk r) i = Some (Some old) /\ ~ In i (rr_announced r)).
Proof. exact run_targets_spec. Qed.
Print Assumptions C14_run_complete_or_error.

(* the summary used by the correspondence check is the byte-level model, for every chunking *)
Theorem C14_outcome_is_run : forall limit (targets : list (option (list N) * list (list N))),
  Forall (fun t => fst t = None) targets ->
  let r := run_targets true limit targets in
  outcome limit (map (fun t => length (concat (snd t))) targets)
  = (rr_ok r, rr_announced r,
     map (fun '(d, t) => match d with Some c => list_eqb N.eqb c (concat (snd t)) | None => false end)
         (combine (rr_disk r ++ repeat None (length targets - length (rr_disk r))) targets)).
Proof. exact outcome_is_run. Qed.
Print Assumptions C14_outcome_is_run.

(* the code before the repair of F5 (no explicit flush): refuted — a failure inside the
   last buffer-full is only met in drop *)
Theorem C14_without_flush_refuted :
  exists limit chunks disk, write_target false limit chunks = (disk, true) /\ disk <> concat chunks.
Proof. exact without_flush_refuted. Qed.
Print Assumptions C14_without_flush_refuted.

Example C14_example :
  run_targets true 3 [(None, [[1;2]%N; [3]%N]); (Some [9]%N, [[1]%N]); (None, [[5]%N])]
  = mkRun false [0] [Some [1;2;3]%N; Some [9]%N; None].
Proof. exact output_example. Qed.
