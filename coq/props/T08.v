(* T08 (extension "capstone", not one of the numbered properties) — THE NUMBERED PROPERTIES RESTATED ABOUT THE TEXT THE
   TOOL PRINTS: theorems about T06_run.run_console H cfg journal_text price_text (the complete standard output of a
   console-mode run) and run_files (the files of --output.dir mode), obtained by COMPOSING the per-property theorems
   (C01 ... C19, T01 ... T05) with T06's structure theorems.  No new model code; the glue definitions are in
   TkSpec.T08_spec (framed = "embedded between the separator lines", differ_only_in_* = two run configurations
   compared through the accessor functions of run_cfg, writer_targets = Output.v's targets built from the files of a run,
   reads_eff = a run configuration carries the keys of Config.eff).
   Only statements here: each theorem is closed by `exact` of a lemma of TkProofs.T08_proofs (T06_proofs for the one
   re-export), followed by Print Assumptions.  H (the digest, bytes -> bytes) is universally quantified.

   property -> theorem(s) here (composed from; hypotheses left)
     C01  T08_output_only_from_balanced   C01_accepted_balanced / C01_must_reject through load_journal (C15_load_all_or_nothing_text);
                                          raw_wf is PROVED for every parsed transaction (no hypothesis left)
     C02 C07 C17  T08_balance_text        T06_balance_figures (= T05_balance_shown = C02 + C07 + C17 + T01) + T06_state_from_texts; run_hyp
     C17  T08_scale_display_only          the same + T06 structure for two configurations; run_hyp of both
     C03  T08_register_order_and_totals   T06_register_rows (T05_register_shown = C03 + C07 + C17) + C03_order; the set is already in
                                          canonical order (sort_txns is the identity on it); run_hyp
     C04  T08_set_function, T08_set_function_numbers, T08_set_function_layout (= T06_layout_invariance)
                                          C04_perm on the loaded transactions / C04_numbers_always / C04_layout_*; distinguishable headers
     C05  T08_filter_exact, T08_filter_in_output   C05_filter_exact + T04_presence; filter_wf and ftxn_wf (Decimal scale <= 28)
     C09  T08_checksum_in_output, T08_missing_uuid_no_output, T08_duplicate_uuid_no_output   C09_value / C09_dup_rejected + T04; none
     C10  T08_equity_file_carries, T08_equity_file_wf   T02_text_carries_balances + C10_shape + T06_file_mode_same_reports;
                                          txns_wf, export not empty, export_wf (derived by T08_equity_file_wf from T02_export_wf + T04)
     C06  T08_identity_file_roundtrip     C06_load_wf / C06_roundtrip / C06_fixpoint on the FILTERED set; cfg_ok, in_domain
     C11  T08_selector_rows               T06 figure theorems for a run with and a run without selectors (literal names); run_hyp
     C13  T08_balgrp_partition            C13_partition / _group_is_balance / _empty_omitted / _unique_ascending + T05_balance_figures
                                          per block; period keys are lines (proved); run_hyp for the figures
     C14  T08_faulty_run                  C14_run_complete_or_error instantiated with the files of run_files, any chunking
     C15  T08_all_or_nothing_text         T06_error_no_output + C15_no_partial_consumption / _incomplete_rejected / _load_one_bad_txn
     C16  T08_report_zone_display_only    T06 structure for two configurations + C13_sum_over_groups; both runs succeed; run_hyp
     C19  T08_effective_config, T08_effective_config_any, T08_effective_keys   C19_metamorphic / _precedence / _selectors
   (C12 strict mode, C08 Git storage, C04 over several files, C11 with regular expressions: props/T08_T07.v, on top of T07;
    C18  T08_filter_encodings, T08_filter_reserialised, T08_malformed_filter_no_output (+ _classes), T08_filter_text_description:
         the filter as the TEXT of --api-filter-def (TkModel.T08_filter.run_console_ft / run_files_ft = Codec.from_any, then T06's run);
         C18_roundtrip / _armor_eq_json / _fixed_point / _armor_one_prefix / _b64_rejects / _rejects / _parsed_wf; parameters rx_ok,
         json_parse, rx_compile (libraries by contract).) *)
From Coq Require Import List ZArith NArith Bool Arith Lia Permutation Sorted.
From TkModel Require Import Base Dec Acct Txn Accept Journal Balance Register Round Price Time Group.
From TkModel Require Import ReportText T05_report PriceText Regex T06_describe T06_run T08_filter.
From TkModel Require Filter Equity EquityText MetaText Audit Codec Tstamp Config Output.
From TkSpec Require Import Balance_spec Register_spec Round_spec Price_spec ReportText_spec T05_spec T05_grp_spec T06_spec T08_spec.
From TkSpec Require Codec_spec Accept_spec Filter_spec Audit_spec Equity_spec EquityText_spec Journal_spec Group_spec MetaText_spec.
From TkProofs Require Import T06_proofs T08_proofs T08_filter_proofs.
Import ListNotations.
Local Open Scope Z_scope.

(* ---------------------------------------------------------------- the run is a function of what it reads *)
(* two configurations that agree on every setting the run reads (the selectors through the fall-back rule per report /
   global / all) print the same bytes and write the same files *)
Theorem T08_same_view_same_run : forall H a b j p,
  same_run_view a b ->
  run_console H a j p = run_console H b j p /\ run_files H a j p = run_files H b j p.
Proof. exact run_same_view. Qed.
Print Assumptions T08_same_view_same_run.

(* ---------------------------------------------------------------- C01 *)
(* a run that prints anything parsed the WHOLE journal text into transactions none of which has a must_reject shape, and
   every transaction the reports are computed from is the accepted form of one of them: Balanced in one commodity *)
Theorem T08_output_only_from_balanced : forall H cfg j p out,
  run_console H cfg j p = Ok out ->
  exists st pts,
    run_prepare H cfg j p = Ok st /\ parse_journal (rc_journal cfg) j = Ok pts
    /\ Forall (fun pt => Accept_spec.must_reject (ptxn_raw pt) = false) pts
    /\ Forall (fun tx => exists pt, In pt pts /\ t_hdr tx = pt_hdr pt
                                    /\ accept_txn (ptxn_raw pt) = Ok (t_posts tx)
                                    /\ Accept_spec.Balanced (ptxn_raw pt) (t_posts tx)) (rs_txns st).
Proof. exact output_only_from_balanced. Qed.
Print Assumptions T08_output_only_from_balanced.

(* ---------------------------------------------------------------- C02 / C07 / C17 *)
(* the balance report printed by a run: the transactions are those parsed from the journal text (then filtered), the
   price entries those of the price file as written, and every figure field reads back as the exact sum of amount x
   documented rate over the account / its subtree, rounded half away from zero to the report scale (balance_text_spec).
   Discharges C02 (exact sums, rows = posted pairs and ancestors, deltas), C07 (the rate is rate_at of the file) and C17
   (rounding at display only) at text level *)
Theorem T08_balance_text : forall H cfg j p out,
  run_console H cfg j p = Ok out -> In MetaText.RBalance (rc_targets cfg) ->
  exists st js,
    run_prepare H cfg j p = Ok st
    /\ load_journal (rc_journal cfg) j = Ok js /\ rs_txns st = map txn_of (run_filter cfg js)
    /\ ((rc_lookup cfg = LtNone /\ rs_file st = [])
        \/ (exists s, p = Some s /\ parse_pricedb (price_cfg cfg) s = Ok (rs_file st)))
    /\ spec_lk cfg = Some (rs_lk st)
    /\ (run_hyp cfg st = true ->
        exists head body, framed (head ++ body) out
          /\ balance_text_spec (rc_title_bal cfg) (rc_scale cfg) (rs_lk st) (rc_commodity cfg) (rs_file st)
                               (sel_of cfg MetaText.RBalance) (rs_txns st) body).
Proof. exact balance_text. Qed.
Print Assumptions T08_balance_text.

(* two runs whose configurations differ in the report scale only: the same state, both succeed, every report has the SAME
   head, and balance / register bodies satisfy the specification over the SAME exact values (same rows, same spec_own /
   spec_tree / running totals) — each rounded to its own scale; the balance-group bodies are the renderings of the same
   groups *)
Theorem T08_scale_display_only : forall H a b j p out,
  differ_only_in_scale a b -> run_console H a j p = Ok out ->
  exists st out',
    run_prepare H a j p = Ok st /\ run_prepare H b j p = Ok st /\ run_console H b j p = Ok out'
    /\ (In MetaText.RBalance (rc_targets a) -> run_hyp a st = true -> run_hyp b st = true ->
        exists head body body', framed (head ++ body) out /\ framed (head ++ body') out'
          /\ balance_text_spec (rc_title_bal a) (rc_scale a) (rs_lk st) (rc_commodity a) (rs_file st)
                               (sel_of a MetaText.RBalance) (rs_txns st) body
          /\ balance_text_spec (rc_title_bal a) (rc_scale b) (rs_lk st) (rc_commodity a) (rs_file st)
                               (sel_of a MetaText.RBalance) (rs_txns st) body')
    /\ (In MetaText.RRegister (rc_targets a) -> run_hyp a st = true -> run_hyp b st = true ->
        exists head body body', framed (head ++ body) out /\ framed (head ++ body') out'
          /\ register_text_spec (rc_title_reg a) (rc_scale a) (ts_text a) (rs_lk st) (rc_commodity a) (rs_file st)
                                (sel_of a MetaText.RRegister) (rs_txns st) body
          /\ register_text_spec (rc_title_reg a) (rc_scale b) (ts_text a) (rs_lk st) (rc_commodity a) (rs_file st)
                                (sel_of a MetaText.RRegister) (rs_txns st) body')
    /\ (In MetaText.RBalGroup (rc_targets a) ->
        exists head gs, framed (head ++ balgrp_txt_report (rc_title_grp a) (rc_scale a) (map text_group gs)) out
          /\ framed (head ++ balgrp_txt_report (rc_title_grp a) (rc_scale b) (map text_group gs)) out'
          /\ conv_balgrp (rc_group_by a) (rtz a) (rs_lk st) (rc_commodity a) (rs_db st)
                         (sel_of a MetaText.RBalGroup) (rs_txns st) = Some gs).
Proof. exact scale_display_only. Qed.
Print Assumptions T08_scale_display_only.

(* ---------------------------------------------------------------- C03 *)
(* the register printed by a run lists the parsed (filtered) transactions in canonical order — the set is a sorted
   permutation of itself (C03_order) and sorting changes nothing — and every row shows the original amount and the
   running total = exact accumulated sum of the converted amounts before rounding *)
Theorem T08_register_order_and_totals : forall H cfg j p out,
  run_console H cfg j p = Ok out -> In MetaText.RRegister (rc_targets cfg) ->
  exists st js,
    run_prepare H cfg j p = Ok st
    /\ load_journal (rc_journal cfg) j = Ok js /\ rs_txns st = map txn_of (run_filter cfg js)
    /\ Permutation (sort_txns (rs_txns st)) (rs_txns st) /\ StronglySorted hdr_le (sort_txns (rs_txns st))
    /\ sort_txns (rs_txns st) = rs_txns st
    /\ (run_hyp cfg st = true ->
        exists head body, framed (head ++ body) out
          /\ reg_text_shows (rc_title_reg cfg) (rc_scale cfg)
               (with_ts_spec (ts_text cfg)
                  (map (listed_rows (sel_of cfg MetaText.RRegister))
                       (spec_centries (spec_conv (rs_lk st) (rc_commodity cfg) (rs_file st)) [] (rs_txns st))))
               body).
Proof. exact register_text. Qed.
Print Assumptions T08_register_order_and_totals.

(* ---------------------------------------------------------------- C04 *)
(* two journal texts whose accepted transactions are the same up to order, pairwise distinguishable by (instant, code,
   description, uuid): byte-identical output in both modes *)
Theorem T08_set_function : forall H cfg j j' p pts pts' ts ts',
  parse_journal (rc_journal cfg) j = Ok pts -> mapM accept_ptxn pts = Ok ts ->
  parse_journal (rc_journal cfg) j' = Ok pts' -> mapM accept_ptxn pts' = Ok ts' ->
  Permutation ts ts' -> jdistinct ts ->
  run_console H cfg j p = run_console H cfg j' p /\ run_files H cfg j p = run_files H cfg j' p.
Proof. exact set_function. Qed.
Print Assumptions T08_set_function.

(* ... without distinguishability the states hold the same transactions up to order and the exact figures behind every
   balance row are equal *)
Theorem T08_set_function_numbers : forall H cfg j j' p pts pts' ts ts' st st',
  parse_journal (rc_journal cfg) j = Ok pts -> mapM accept_ptxn pts = Ok ts ->
  parse_journal (rc_journal cfg) j' = Ok pts' -> mapM accept_ptxn pts' = Ok ts' ->
  Permutation ts ts' ->
  run_prepare H cfg j p = Ok st -> run_prepare H cfg j' p = Ok st' ->
  rs_file st = rs_file st' /\ rs_lk st = rs_lk st' /\ Permutation (rs_txns st) (rs_txns st')
  /\ (let ps := spec_bposts (rs_lk st) (rc_commodity cfg) (rs_file st) (rs_txns st) in
      let ps' := spec_bposts (rs_lk st') (rc_commodity cfg) (rs_file st') (rs_txns st') in
      forall k, spec_own ps k = spec_own ps' k /\ spec_tree ps k = spec_tree ps' k).
Proof. exact set_function_numbers. Qed.
Print Assumptions T08_set_function_numbers.

(* ... and so is the metadata of the set — audit checksum, set size, filter description — again with no
   distinguishability assumption (C09_perm lifted to the run: the checksum printed in front of every report depends on the
   SET of selected transactions only) *)
Theorem T08_set_function_checksum : forall H cfg j j' p pts pts' ts ts' st st',
  parse_journal (rc_journal cfg) j = Ok pts -> mapM accept_ptxn pts = Ok ts ->
  parse_journal (rc_journal cfg) j' = Ok pts' -> mapM accept_ptxn pts' = Ok ts' ->
  Permutation ts ts' ->
  run_prepare H cfg j p = Ok st -> run_prepare H cfg j' p = Ok st' ->
  rs_md st = rs_md st' /\ length (rs_sel st) = length (rs_sel st').
Proof. exact set_function_checksum. Qed.
Print Assumptions T08_set_function_checksum.

(* ... and the insignificant layout of the text (blank lines at transaction boundaries, indentation, order of metadata lines): T06_layout_invariance under the T08 name *)
Theorem T08_set_function_layout : forall H cfg p,
  (forall a blanks b,
     forallb (forallb (fun c => negb (c =? 10)%N)) a = true -> forallb (forallb (fun c => negb (c =? 10)%N)) b = true ->
     forallb (fun l => is_blank (strip_cr l)) blanks = true ->
     (a = [] \/ b = [] \/ (exists q x, a = q ++ [x] /\ is_blank (strip_cr x) = true)
      \/ (exists x q, b = x :: q /\ is_blank (strip_cr x) = true)) ->
     run_console H cfg (unlines (a ++ blanks ++ b)) p = run_console H cfg (unlines (a ++ b)) p
     /\ run_files H cfg (unlines (a ++ blanks ++ b)) p = run_files H cfg (unlines (a ++ b)) p)
  /\ (forall ls ls',
     forallb (forallb (fun c => negb (c =? 10)%N)) ls = true -> forallb (forallb (fun c => negb (c =? 10)%N)) ls' = true ->
     Forall2 (fun l l' => exists sp1 sp2 r, l = sp1 ++ r /\ l' = sp2 ++ r
                /\ forallb is_sp sp1 = true /\ forallb is_sp sp2 = true /\ (sp1 = [] <-> sp2 = [])) ls ls' ->
     run_console H cfg (unlines ls) p = run_console H cfg (unlines ls') p
     /\ run_files H cfg (unlines ls) p = run_files H cfg (unlines ls') p)
  /\ (forall pre ms ms' post,
     forallb (forallb (fun c => negb (c =? 10)%N)) (pre ++ ms ++ post) = true -> Permutation ms ms' ->
     Forall (fun l => parse_meta_line (strip_cr l) <> None) ms ->
     run_console H cfg (unlines (pre ++ ms ++ post)) p = run_console H cfg (unlines (pre ++ ms' ++ post)) p
     /\ run_files H cfg (unlines (pre ++ ms ++ post)) p = run_files H cfg (unlines (pre ++ ms' ++ post)) p).
Proof. exact layout_invariance. Qed.
Print Assumptions T08_set_function_layout.

(* ---------------------------------------------------------------- C05 *)
(* with a filter: the transactions behind every report are exactly the loaded transactions that satisfy the documented
   predicate (Filter_spec.sat), in canonical order, and the metadata of the set ends with the description of that filter *)
Theorem T08_filter_exact : forall H cfg j p st f pats,
  run_prepare H cfg j p = Ok st -> rc_filter cfg = Some (f, pats) ->
  exists js,
    load_journal (rc_journal cfg) j = Ok js
    /\ StronglySorted (fun a b => jtxn_leb a b = true) js
    /\ rs_sel st = filter (fun t => Filter.eval (re_table pats) f (ftxn_of t)) js
    /\ rs_txns st = map txn_of (rs_sel st)
    /\ (Filter_spec.filter_wf f -> Forall Filter_spec.ftxn_wf (map ftxn_of js) ->
        Filter_spec.Selects (Filter_spec.sat (re_table pats) f) (map ftxn_of js) (map ftxn_of (rs_sel st)))
    /\ exists items, rs_md st = Some (items ++ [MetaText.IFilter (MetaText.filter_lines (describe_def_tz (rc_zone_off cfg) (to_cfilter pats f)))]).
Proof. exact filter_exact. Qed.
Print Assumptions T08_filter_exact.

(* a run with filter f and a run with NOT f (same journal settings, same texts) split the loaded set: it is an
   order-preserving interleaving of the two selections, the sizes add up, every loaded transaction is behind the reports
   of exactly one of the two runs (C05's filter/negation partition, lifted to the run) *)
Theorem T08_filter_partition : forall H a b j p sta stb f pats,
  rc_journal a = rc_journal b ->
  rc_filter a = Some (f, pats) -> rc_filter b = Some (Filter.FNot f, pats) ->
  run_prepare H a j p = Ok sta -> run_prepare H b j p = Ok stb ->
  exists js,
    load_journal (rc_journal a) j = Ok js
    /\ Filter_spec.Interleave (rs_sel sta) (rs_sel stb) js
    /\ (length (rs_sel sta) + length (rs_sel stb) = length js)%nat
    /\ (forall x, In x js -> (In x (rs_sel sta) /\ ~ In x (rs_sel stb)) \/ (In x (rs_sel stb) /\ ~ In x (rs_sel sta)))
    /\ rs_txns sta = map txn_of (rs_sel sta) /\ rs_txns stb = map txn_of (rs_sel stb).
Proof. exact filter_partition. Qed.
Print Assumptions T08_filter_partition.

(* ... which is printed: the console text starts with the metadata block whose last item is Codec.describe_def of the
   filter *)
Theorem T08_filter_in_output : forall H cfg j p out f pats,
  run_console H cfg j p = Ok out -> rc_targets cfg <> [] ->
  rc_filter cfg = Some (f, pats) ->
  exists items rest,
    out = MetaText.meta_text (items ++ [MetaText.IFilter (MetaText.filter_lines (describe_def_tz (rc_zone_off cfg) (to_cfilter pats f)))])
          ++ [10%N] ++ rest.
Proof. exact filter_in_output. Qed.
Print Assumptions T08_filter_in_output.

(* ---------------------------------------------------------------- C09 *)
(* audit mode: the console text BEGINS with the line `Txn Set Checksum`; the next line is `<pad><algorithm> : hex (H P)`
   where P is C09's pre-image (sorted canonical uuid texts, a newline after each) of exactly the uuids of the selected
   transactions, all present and pairwise different; the third line is `Set size : <number selected>` *)
Theorem T08_checksum_in_output : forall H cfg j p out,
  run_console H cfg j p = Ok out -> rc_audit cfg = true -> rc_targets cfg <> [] ->
  exists st us P rest,
    run_prepare H cfg j p = Ok st
    /\ map uuid_of (rs_sel st) = map Some us /\ NoDup us /\ Forall Audit_spec.uuid_wf us
    /\ Audit_spec.is_preimage (Audit_spec.uuid_texts us) P
    /\ out = MetaText.s_txn_set ++ [10%N]
             ++ (MetaText.pad_left MetaText.item_pad (rc_algo cfg) ++ MetaText.s_sep ++ MetaText.hex_text (H P)) ++ [10%N]
             ++ MetaText.kv MetaText.s_set_size (Codec.show_N (N.of_nat (length (rs_sel st)))) ++ [10%N] ++ rest.
Proof. exact checksum_in_output. Qed.
Print Assumptions T08_checksum_in_output.

(* audit mode: a transaction without uuid anywhere in the journal — no text, no file *)
Theorem T08_missing_uuid_no_output : forall H cfg j p js,
  load_journal (rc_journal cfg) j = Ok js -> rc_audit cfg = true ->
  (exists t, In t js /\ h_uuid (jt_hdr t) = None) ->
  exists c, run_console H cfg j p = Err c /\ run_files H cfg j p = Err c.
Proof. exact missing_uuid_no_output. Qed.
Print Assumptions T08_missing_uuid_no_output.

(* audit mode: two SELECTED transactions with the same uuid — no text, no file *)
Theorem T08_duplicate_uuid_no_output : forall H cfg j p js,
  load_journal (rc_journal cfg) j = Ok js -> rc_audit cfg = true ->
  ~ NoDup (map uuid_of (run_filter cfg js)) ->
  exists c, run_console H cfg j p = Err c /\ run_files H cfg j p = Err c.
Proof. exact duplicate_uuid_no_output. Qed.
Print Assumptions T08_duplicate_uuid_no_output.

(* ---------------------------------------------------------------- C15 *)
(* result or error; any output means the whole text was consumed as complete accepted transactions; one incomplete chunk
   or one refused transaction means no output in either mode *)
Theorem T08_all_or_nothing_text : forall H cfg j p,
  (* result or error *)
  ((exists out, run_console H cfg j p = Ok out) \/ (exists c, run_console H cfg j p = Err c))
  (* any output at all: the WHOLE journal text is transactions, each chunk one complete accepted transaction *)
  /\ ((exists out, run_console H cfg j p = Ok out) \/ (exists fa, run_files H cfg j p = Ok fa) ->
      exists ls0 pts ts0,
        split_lines j = (ls0, []) /\ j = unlines ls0
        /\ concat (chunks (map strip_cr ls0)) = filter (fun l => negb (is_blank l)) (map strip_cr ls0)
        /\ Forall2 (fun c pt => parse_chunk (rc_journal cfg) c = Some pt) (chunks (map strip_cr ls0)) pts
        /\ Forall2 (fun pt t => accept_ptxn pt = Ok t) pts ts0
        /\ load_journal (rc_journal cfg) j = Ok (sort_by jtxn_leb ts0))
  (* one chunk that is not a complete transaction: no output in either mode *)
  /\ (forall ls0 tl c, split_lines j = (ls0, tl) -> In c (chunks (map strip_cr ls0)) ->
      parse_chunk (rc_journal cfg) c = None ->
      exists e, run_console H cfg j p = Err e /\ run_files H cfg j p = Err e)
  (* one transaction the semantic layer refuses: no output in either mode *)
  /\ (forall pts pt e, parse_journal (rc_journal cfg) j = Ok pts -> In pt pts -> accept_ptxn pt = Err e ->
      exists e', run_console H cfg j p = Err e' /\ run_files H cfg j p = Err e').
Proof. exact all_or_nothing_text. Qed.
Print Assumptions T08_all_or_nothing_text.

(* ---------------------------------------------------------------- C10 / C06 (file mode) *)
(* the file <prefix>.equity.txn of a run holds print_equity of Equity.equity of the selected transactions; its shape is
   C10_shape; and loaded as a journal (any journal-zone setting) it is accepted and carries exactly the selected balances
   of the source (TextCarries) *)
Theorem T08_equity_file_carries : forall H cfg j p files ann,
  run_files H cfg j p = Ok (files, ann) -> In XEquity (rc_exports cfg) ->
  let eqa := rc_eq_account cfg in
  let ras := equity_ras (sel_equity cfg) in
  let warn := EquityText.default_warn_lines in
  exists st es,
    let md := MetaText.equity_md (rs_md st) (MetaText.sel_item H (rc_audit cfg) true (rc_algo cfg) (sel_pats (sel_equity cfg))) in
    run_prepare H cfg j p = Ok st
    /\ Equity.equity (fun _ => true) eqa ras (rs_txns st) = Some es
    /\ In (file_name cfg (export_name XEquity) ext_txn, EquityText.print_equity md warn es) files
    /\ (Equity_spec.txns_wf (rs_txns st) ->
        Equity_spec.Shape eqa ras (rs_txns st) es
        /\ (es <> [] -> EquityText_spec.export_wf md warn es = true ->
            forall cfg', exists jts,
              load_journal cfg' (EquityText.print_equity md warn es) = Ok jts
              /\ EquityText_spec.TextCarries eqa ras md warn (rs_txns st) es jts)).
Proof. exact equity_file_carries. Qed.
Print Assumptions T08_equity_file_carries.

(* the well-formedness hypothesis of the previous theorem, from conditions on the source and the configuration
   (T02_export_wf; the metadata lines are lines by T04_equity_md_wf_git) *)
Theorem T08_equity_file_wf : forall H cfg j p st es,
  run_prepare H cfg j p = Ok st ->
  Equity.equity (fun _ => true) (rc_eq_account cfg) (equity_ras (sel_equity cfg)) (rs_txns st) = Some es ->
  Equity_spec.txns_wf (rs_txns st) -> forallb EquityText_spec.src_txn_ok (rs_txns st) = true ->
  EquityText_spec.eq_acct_ok (rc_eq_account cfg) = true -> EquityText_spec.amounts_fit es = true ->
  MetaText_spec.eolf (rc_algo cfg) = true ->
  (forall ls, filter_desc cfg = Some ls -> forallb MetaText_spec.eolf ls = true) ->
  EquityText_spec.export_wf
    (MetaText.equity_md (rs_md st) (MetaText.sel_item H (rc_audit cfg) true (rc_algo cfg) (sel_pats (sel_equity cfg))))
    EquityText.default_warn_lines es = true.
Proof. exact equity_file_wf. Qed.
Print Assumptions T08_equity_file_wf.

(* the file <prefix>.identity.txn holds print_journal of the selected transactions; loaded again (any journal-zone
   setting) it yields exactly them, and re-exporting gives the identical text *)
Theorem T08_identity_file_roundtrip : forall H cfg j p files ann,
  run_files H cfg j p = Ok (files, ann) -> In XIdentity (rc_exports cfg) ->
  exists st js,
    run_prepare H cfg j p = Ok st /\ load_journal (rc_journal cfg) j = Ok js /\ rs_sel st = run_filter cfg js
    /\ In (file_name cfg (export_name XIdentity) ext_txn, print_journal (rs_sel st)) files
    /\ (Journal_spec.cfg_ok (rc_journal cfg) = true -> Journal_spec.in_domain js = true ->
        forall cfg',
          load_journal cfg' (print_journal (rs_sel st)) = Ok (rs_sel st)
          /\ forall ts', load_journal cfg' (print_journal (rs_sel st)) = Ok ts' -> print_journal ts' = print_journal (rs_sel st)).
Proof. exact identity_file_roundtrip. Qed.
Print Assumptions T08_identity_file_roundtrip.

(* ---------------------------------------------------------------- C14 *)
(* the files of a run written through Output.v's writer model: `pre` = which destinations already exist, any chunking, a
   device that fails after `limit` bytes.  Success: everything announced, every file = its T06 content; whatever fails:
   every announced file holds exactly its T06 content (and did not exist before); an existing file is untouched, never
   announced, and the run fails *)
Theorem T08_faulty_run : forall H cfg j p files ann limit pre cks,
  run_files H cfg j p = Ok (files, ann) ->
  length pre = length files -> chunked files cks ->
  let r := Output.run_targets true limit (writer_targets pre cks) in
  (Output.rr_ok r = true ->
     Output.rr_announced r = seq 0 (length files) /\ Output.rr_disk r = map (fun f => Some (snd f)) files)
  /\ (forall i, In i (Output.rr_announced r) ->
        exists f, nth_error files i = Some f /\ nth_error (Output.rr_disk r) i = Some (Some (snd f)) /\ nth_error pre i = Some None)
  /\ (forall i old, nth_error pre i = Some (Some old) ->
        Output.rr_ok r = false /\ nth_error (Output.rr_disk r) i = Some (Some old) /\ ~ In i (Output.rr_announced r)).
Proof. exact faulty_run. Qed.
Print Assumptions T08_faulty_run.

(* ---------------------------------------------------------------- C16 *)
(* two runs whose configurations differ in the report zone only: if one succeeds so does the other (the preparation does
   not read the zone and the report texts are total: T06_run_total), with the same state; the balance body is byte-identical; the
   register has the same entries, rows, amounts and running totals under other time-stamp labels; the balance-group
   periods follow the zone and their exact sums add up to the same totals *)
Theorem T08_report_zone_display_only : forall H a b j p out,
  differ_only_in_zone a b ->
  run_console H a j p = Ok out ->
  exists out' st,
    run_console H b j p = Ok out'
    /\ run_prepare H a j p = Ok st /\ run_prepare H b j p = Ok st
    (* balance: the text from the title on is byte-identical *)
    /\ (In MetaText.RBalance (rc_targets a) ->
        exists body, report_body a st MetaText.RBalance = Some body /\ report_body b st MetaText.RBalance = Some body
          /\ framed (report_head_text H a st MetaText.RBalance ++ body) out
          /\ framed (report_head_text H b st MetaText.RBalance ++ body) out')
    (* register: the same entries, rows, amounts and running totals; only the time-stamp labels differ *)
    /\ (In MetaText.RRegister (rc_targets a) ->
        let es := conv_register (rs_lk st) (rc_commodity a) (rs_db st) (sel_of a MetaText.RRegister) (rs_txns st) in
        let fw := filler_width (rs_lk st) in
        framed (report_head_text H a st MetaText.RRegister ++ reg_txt_report (rc_title_reg a) (rc_scale a) fw (ts_text a) es) out
        /\ framed (report_head_text H b st MetaText.RRegister ++ reg_txt_report (rc_title_reg a) (rc_scale a) fw (ts_text b) es) out'
        /\ (run_hyp a st = true -> run_hyp b st = true ->
            let sr := spec_register (rs_lk st) (rc_commodity a) (rs_file st) (sel_of a MetaText.RRegister) (rs_txns st) in
            reg_text_shows (rc_title_reg a) (rc_scale a) (with_ts_spec (ts_text a) sr)
                           (reg_txt_report (rc_title_reg a) (rc_scale a) fw (ts_text a) es)
            /\ reg_text_shows (rc_title_reg a) (rc_scale a) (with_ts_spec (ts_text b) sr)
                              (reg_txt_report (rc_title_reg a) (rc_scale a) fw (ts_text b) es)))
    (* balance groups: the period keys (hence the partition) follow the zone; summed over the periods the
       exact figures are the same *)
    /\ (In MetaText.RBalGroup (rc_targets a) ->
        let conv := bal_conv (report_ctx (rs_lk st) (rc_commodity a) (rs_db st) (rs_txns st)) in
        exists gs gs',
          conv_balgrp (rc_group_by a) (rtz a) (rs_lk st) (rc_commodity a) (rs_db st) (sel_of a MetaText.RBalGroup) (rs_txns st) = Some gs
          /\ conv_balgrp (rc_group_by a) (rtz b) (rs_lk st) (rc_commodity a) (rs_db st) (sel_of a MetaText.RBalGroup) (rs_txns st) = Some gs'
          /\ framed (report_head_text H a st MetaText.RBalGroup ++ balgrp_txt_report (rc_title_grp a) (rc_scale a) (map text_group gs)) out
          /\ framed (report_head_text H b st MetaText.RBalGroup ++ balgrp_txt_report (rc_title_grp a) (rc_scale a) (map text_group gs')) out'
          /\ forall k,
               zsum (map (fun c => spec_own (flat_map conv (snd c)) k)
                         (group_members (txn_key (rc_group_by a) (rtz a)) (sort_txns (rs_txns st))))
               = zsum (map (fun c => spec_own (flat_map conv (snd c)) k)
                           (group_members (txn_key (rc_group_by a) (rtz b)) (sort_txns (rs_txns st))))).
Proof. exact report_zone_display_only. Qed.
Print Assumptions T08_report_zone_display_only.

(* ---------------------------------------------------------------- C19 *)
(* C19_metamorphic lifted to the bytes: a run configured by (file, options) and a run configured by (file with the
   options written in, only --price.before) — any two run configurations carrying these effective settings and agreeing
   on the keys no option shadows — give byte-identical output *)
Theorem T08_effective_config : forall H f c e e' cfg cfg' j p,
  Config.effective f c = Ok e -> Config.effective (Config.merge f c) (Config.only_before c) = Ok e' ->
  reads_eff e cfg -> reads_eff e' cfg' -> same_fixed cfg cfg' -> sels_wf cfg -> sels_wf cfg' ->
  run_console H cfg j p = run_console H cfg' j p /\ run_files H cfg j p = run_files H cfg' j p.
Proof. exact effective_config. Qed.
Print Assumptions T08_effective_config.

(* ... for ANY way `interp` of turning the effective configuration into the configuration of the run *)
Theorem T08_effective_config_any : forall H (interp : Config.eff -> run_cfg) f c j p,
  let run := fun r => match r with Ok e => Some (run_console H (interp e) j p, run_files H (interp e) j p) | Err _ => None end in
  run (Config.effective f c) = run (Config.effective (Config.merge f c) (Config.only_before c)).
Proof. exact effective_config_any. Qed.
Print Assumptions T08_effective_config_any.

(* C19_precedence / C19_selectors read off the run configuration *)
Theorem T08_effective_keys : forall f c e cfg,
  Config.effective f c = Ok e -> reads_eff e cfg ->
    rc_audit cfg = Config.or_else (Config.c_audit c) (Config.f_audit f)
    /\ map kind_code (rc_targets cfg) = Config.or_else (Config.c_reports c) (Config.f_reports f)
    /\ map export_code (rc_exports cfg) = Config.or_else (Config.c_exports c) (Config.f_exports f)
    /\ rc_commodity cfg = Config.or_opt (Config.c_commodity c) (Config.f_commodity f)
    /\ lookup_code (rc_lookup cfg) = Config.or_else (Config.c_lookup c) (Config.f_lookup f)
    /\ group_code (rc_group_by cfg) = Config.or_else (Config.c_group_by c) (Config.f_group_by f)
    /\ (forall g, Config.cli_accounts c = Some g ->
          (forall k, sel_pats (sel_of cfg k) = g) /\ sel_pats (sel_equity cfg) = g)
    /\ (Config.cli_accounts c = None ->
          sel_pats (sel_of cfg MetaText.RBalance) = Config.file_sel f (Config.f_bal_acc f)
          /\ sel_pats (sel_of cfg MetaText.RBalGroup) = Config.file_sel f (Config.f_balgrp_acc f)
          /\ sel_pats (sel_of cfg MetaText.RRegister) = Config.file_sel f (Config.f_reg_acc f)
          /\ sel_pats (sel_equity cfg) = Config.file_sel f (Config.f_eq_acc f)).
Proof. exact effective_keys. Qed.
Print Assumptions T08_effective_keys.

(* ---------------------------------------------------------------- C11 *)
(* account selectors (literal names): against the run without selectors, the balance rows are those whose account is one
   of the names, with the same exact figures (deltas recomputed over the listed rows); the register entries keep their
   rows to these accounts with the same running totals *)
Theorem T08_selector_rows : forall H a b j p out out0,
  differ_only_in_selectors a b -> (forall k, sel_of b k = []) ->
  run_console H a j p = Ok out -> run_console H b j p = Ok out0 ->
  exists st,
    run_prepare H a j p = Ok st /\ run_prepare H b j p = Ok st
    /\ (In MetaText.RBalance (rc_targets a) -> run_hyp a st = true ->
        let ps := spec_bposts (rs_lk st) (rc_commodity a) (rs_file st) (rs_txns st) in
        let names := sel_of a MetaText.RBalance in
        exists head body head0 body0, framed (head ++ body) out /\ framed (head0 ++ body0) out0
          /\ bal_text_shows (rc_title_bal a) (rc_scale a) ps (filter (sel_key names) (listed_keys [] ps)) body
          /\ bal_text_shows (rc_title_bal a) (rc_scale a) ps (listed_keys [] ps) body0)
    /\ (In MetaText.RRegister (rc_targets a) -> run_hyp a st = true ->
        let all := spec_register (rs_lk st) (rc_commodity a) (rs_file st) [] (rs_txns st) in
        let names := sel_of a MetaText.RRegister in
        exists head body head0 body0, framed (head ++ body) out /\ framed (head0 ++ body0) out0
          /\ reg_text_shows (rc_title_reg a) (rc_scale a) (with_ts_spec (ts_text a) (map (listed_rows names) all)) body
          /\ reg_text_shows (rc_title_reg a) (rc_scale a) (with_ts_spec (ts_text a) all) body0).
Proof. exact selector_rows. Qed.
Print Assumptions T08_selector_rows.

(* ---------------------------------------------------------------- C13 *)
(* the balance-group report printed by a run *)
Theorem T08_balgrp_partition : forall H cfg j p out,
  run_console H cfg j p = Ok out -> In MetaText.RBalGroup (rc_targets cfg) ->
  exists st gs,
    let txns := sort_txns (rs_txns st) in
    let kf := txn_key (rc_group_by cfg) (rtz cfg) in
    let conv := bal_conv (report_ctx (rs_lk st) (rc_commodity cfg) (rs_db st) (rs_txns st)) in
    let names := sel_of cfg MetaText.RBalGroup in
    let sc := rc_scale cfg in
    run_prepare H cfg j p = Ok st
    /\ conv_balgrp (rc_group_by cfg) (rtz cfg) (rs_lk st) (rc_commodity cfg) (rs_db st) names (rs_txns st) = Some gs
    (* the text: title, underline, then one balance report per listed group, titled by its period key *)
    /\ framed (report_head_text H cfg st MetaText.RBalGroup ++ title_lines (rc_title_grp cfg)
               ++ concat (map (fun g => bal_txt_report (g_title g) sc (b_rows (g_rep g)) (b_deltas (g_rep g))) gs)) out
    (* each period once, ascending *)
    /\ StronglySorted Group_spec.str_lt (map g_title gs) /\ NoDup (map g_title gs)
    (* the periods partition the transaction set *)
    /\ Permutation (concat (map snd (group_members kf txns))) txns
    (* a listed group is not empty, its title is the period of a transaction, its report is the balance report of
       exactly the transactions of that period *)
    /\ Forall (fun g => b_rows (g_rep g) <> [] /\ (exists t, In t txns /\ kf t = g_title g)
                        /\ balance_report (fun _ => true) ord_sorted (bal_sel_names names)
                             (flat_map conv (Group_spec.period_members kf txns (g_title g))) = Some (g_rep g)) gs
    (* a period is listed iff the selector leaves its report non-empty *)
    /\ (forall t, In t txns -> exists rep,
          balance_report (fun _ => true) ord_sorted (bal_sel_names names)
                         (flat_map conv (Group_spec.period_members kf txns (kf t))) = Some rep
          /\ (b_rows rep <> [] <-> In (mkGroup (kf t) rep) gs)
          /\ (b_rows rep = [] -> ~ In (kf t) (map g_title gs)))
    (* the figures of a block: roundings of the exact converted sums over the transactions of the period *)
    /\ (run_hyp cfg st = true ->
        Forall (fun g =>
                  let ps := spec_bposts (rs_lk st) (rc_commodity cfg) (rs_file st) (Group_spec.period_members kf txns (g_title g)) in
                  bal_text_shows (g_title g) sc ps (listed_keys names ps)
                                 (bal_txt_report (g_title g) sc (b_rows (g_rep g)) (b_deltas (g_rep g)))) gs).
Proof. exact balgrp_partition. Qed.
Print Assumptions T08_balgrp_partition.

(* ... end to end in one statement (T05_balgrp_shown through T06_balgrp_figures): the balance-group text printed by a
   run is the title lines and one block per period of the report zone — ascending, a block exactly for the periods with
   a listed row — and every block is a balance text of exactly that period's transactions whose figures read back as the
   rounded exact converted sums *)
Theorem T08_balgrp_figures : forall H cfg j p out,
  run_console H cfg j p = Ok out -> In MetaText.RBalGroup (rc_targets cfg) ->
  exists st, run_prepare H cfg j p = Ok st
    /\ (run_hyp cfg st = true ->
        exists head body, framed (head ++ body) out
          /\ balgrp_text_spec (rc_title_grp cfg) (rc_scale cfg) (rc_group_by cfg) (rtz cfg) (rs_lk st) (rc_commodity cfg)
                              (rs_file st) (sel_of cfg MetaText.RBalGroup) (rs_txns st) body).
Proof. exact balgrp_figures. Qed.
Print Assumptions T08_balgrp_figures.

(* ---------------------------------------------------------------- non-vacuity *)
Example T08_example :
  run_console ex_H ex_cfg ex_journal (Some ex_prices) = Ok ex_out
  /\ In MetaText.RBalance (rc_targets ex_cfg) /\ In MetaText.RRegister (rc_targets ex_cfg) /\ run_hyp ex_cfg ex_st = true
  /\ differ_only_in_scale ex_cfg ex8_scale /\ run_hyp ex8_scale ex_st = true
  /\ run_console ex_H ex8_scale ex_journal (Some ex_prices) = Ok ex8_out /\ length ex8_out = 1373%nat
  /\ option_map (fun pf => map (fun f => option_map (map words) (from_title (rc_title_bal ex8_scale) f)) (snd pf)) (read_console ex8_out)
     = Some [Some ex8_bal_words; None]
  /\ differ_only_in_scale ex_cfg ex_cfg
  /\ run_console ex_H ex8_audit ex_journal (Some ex_prices) = Err E_audit_uuid
  /\ map (fun f => length (snd f)) ex8_files = [381; 652; 189]%nat
  /\ (let r := Output.run_targets true 500 (writer_targets [None; None; None] (map (fun f => [snd f]) ex8_files)) in
      Output.rr_ok r = false /\ Output.rr_announced r = [0%nat] /\ nth_error (Output.rr_disk r) 0 = option_map (fun f => Some (snd f)) (nth_error ex8_files 0))
  /\ (let r := Output.run_targets true 5000 (writer_targets [None; Some [120%N]; None] (map (fun f => [snd f]) ex8_files)) in
      Output.rr_ok r = false /\ Output.rr_announced r = [0%nat] /\ nth_error (Output.rr_disk r) 1 = Some (Some [120%N])).
Proof. exact t08_example. Qed.
Print Assumptions T08_example.

(* ---------------------------------------------------------------- C18: the filter as the TEXT of --api-filter-def *)
(* for every well-formed definition d and every JSON text of it (the text layer of serde_json is a parameter: any jtext
   that parses to the tree of d): the plain text, its armored form `base64:` + base64 (UTF-8 (jtext)), and a re-
   serialisation of whatever was parsed from either give byte-identical standard output and files (C18_roundtrip,
   C18_armor_eq_json) *)
Theorem T08_filter_encodings : forall rx_ok json_parse rx_compile H cfg d jtext j p,
  Codec_spec.cf_wf rx_ok d = true -> json_parse jtext = Some (Codec.def_to_jv d) ->
  Codec_spec.scalars jtext -> Codec.is_armored jtext = false ->
  let armored := Codec.armor_tag ++ Codec.b64_enc (Codec.utf8_enc jtext) in
  Codec.from_any rx_ok json_parse jtext = Some d /\ Codec.from_any rx_ok json_parse armored = Some d
  /\ run_console_ft rx_ok json_parse rx_compile H cfg (Some armored) j p = run_console_ft rx_ok json_parse rx_compile H cfg (Some jtext) j p
  /\ run_files_ft rx_ok json_parse rx_compile H cfg (Some armored) j p = run_files_ft rx_ok json_parse rx_compile H cfg (Some jtext) j p
  /\ (forall t f jtext', (t = jtext \/ t = armored) -> Codec.from_any rx_ok json_parse t = Some f ->
        json_parse jtext' = Some (Codec.def_to_jv f) -> Codec.is_armored jtext' = false ->
        run_console_ft rx_ok json_parse rx_compile H cfg (Some jtext') j p = run_console_ft rx_ok json_parse rx_compile H cfg (Some jtext) j p
        /\ run_files_ft rx_ok json_parse rx_compile H cfg (Some jtext') j p = run_files_ft rx_ok json_parse rx_compile H cfg (Some jtext) j p).
Proof. exact filter_encodings. Qed.
Print Assumptions T08_filter_encodings.

(* ... and for ANY accepted definition text t (plain or armored, any spelling of numbers, instants, ids): a serialisation
   of the definition parsed from it runs exactly as t does (C18_fixed_point) *)
Theorem T08_filter_reserialised : forall rx_ok json_parse rx_compile H cfg t f jtext' j p,
  Codec.from_any rx_ok json_parse t = Some f -> Codec_spec.cf_year0 f = true ->
  json_parse jtext' = Some (Codec.def_to_jv f) -> Codec.is_armored jtext' = false ->
  run_console_ft rx_ok json_parse rx_compile H cfg (Some jtext') j p = run_console_ft rx_ok json_parse rx_compile H cfg (Some t) j p /\ run_files_ft rx_ok json_parse rx_compile H cfg (Some jtext') j p = run_files_ft rx_ok json_parse rx_compile H cfg (Some t) j p.
Proof. exact filter_reserialised. Qed.
Print Assumptions T08_filter_reserialised.

(* the run reads the text through Codec.from_any only *)
Theorem T08_filter_same_definition : forall rx_ok json_parse rx_compile H cfg t1 t2 j p,
  Codec.from_any rx_ok json_parse t1 = Codec.from_any rx_ok json_parse t2 ->
  run_console_ft rx_ok json_parse rx_compile H cfg (Some t1) j p = run_console_ft rx_ok json_parse rx_compile H cfg (Some t2) j p /\ run_files_ft rx_ok json_parse rx_compile H cfg (Some t1) j p = run_files_ft rx_ok json_parse rx_compile H cfg (Some t2) j p.
Proof. exact run_ft_same_def. Qed.
Print Assumptions T08_filter_same_definition.

(* a text the codec refuses: the run is an error in both modes — no report text, no file, no announcement *)
Theorem T08_malformed_filter_no_output : forall rx_ok json_parse rx_compile H cfg t j p,
  Codec.from_any rx_ok json_parse t = None ->
  run_console_ft rx_ok json_parse rx_compile H cfg (Some t) j p = Err E_filter_def /\ run_files_ft rx_ok json_parse rx_compile H cfg (Some t) j p = Err E_filter_def.
Proof. exact malformed_filter_no_output. Qed.
Print Assumptions T08_malformed_filter_no_output.

(* ... which are: a doubled `base64:` prefix; armor that is not canonical base64 (length, alphabet); a text that is not
   JSON; JSON that is not a definition (a value the deserialiser refuses — only objects with exactly one known variant
   name are filters: C18_rejects) *)
Theorem T08_malformed_filter_classes : forall rx_ok json_parse ,
  (forall x, Codec.from_any rx_ok json_parse (Codec.armor_tag ++ Codec.armor_tag ++ x) = None)
  /\ (forall s, (length s mod 4 <> 0)%nat \/ Exists (fun c => Codec_spec.b64_alphabet c = false /\ c <> Codec.b64_pad) s ->
        Codec.from_any rx_ok json_parse (Codec.armor_tag ++ s) = None)
  /\ (forall t, Codec.is_armored t = false -> json_parse t = None -> Codec.from_any rx_ok json_parse t = None)
  /\ (forall t j, Codec.is_armored t = false -> json_parse t = Some j -> Codec.def_of_jv rx_ok j = None ->
        Codec.from_any rx_ok json_parse t = None)
  /\ (forall t j, Codec.is_armored t = false -> json_parse t = Some j ->
        (forall x, Codec.of_jv rx_ok x <> None -> exists tag body, x = Codec.JObj [(tag, body)] /\ In tag Codec_spec.variant_names)).
Proof. exact refused_classes. Qed.
Print Assumptions T08_malformed_filter_classes.

(* the Filter item printed in front of the reports is the description, in the report zone, of the definition d the text
   denotes (rx_compile's contract: the AST of a pattern text prints as that text) *)
Theorem T08_filter_text_description : forall rx_ok json_parse rx_compile H cfg t j p out,
  (forall s a, rx_compile s = Some a -> pp a = s) ->
  run_console_ft rx_ok json_parse rx_compile H cfg (Some t) j p = Ok out -> rc_targets cfg <> [] ->
  exists d items rest,
    Codec.from_any rx_ok json_parse t = Some d
    /\ out = MetaText.meta_text (items ++ [MetaText.IFilter (MetaText.filter_lines (describe_def_tz (rc_zone_off cfg) d))])
             ++ [10%N] ++ rest.
Proof. exact filter_text_description. Qed.
Print Assumptions T08_filter_text_description.

Example T08_filter_example :
  Codec_spec.cf_wf (fun _ => true) ex_ft_def = true /\ ex_ft_json ex_ft_plain = Some (Codec.def_to_jv ex_ft_def)
  /\ Codec.is_armored ex_ft_plain = false
  /\ ex_ft_armored = Codec.armor_tag ++ Codec.b64_enc (Codec.utf8_enc ex_ft_plain)
  /\ (forall s a, ex_ft_rx s = Some a -> pp a = s)
  /\ run_console_ft (fun _ => true) ex_ft_json ex_ft_rx ex_H ex_cfg (Some ex_ft_plain) ex_journal (Some ex_prices) = Ok ex_ft_out
  /\ run_console_ft (fun _ => true) ex_ft_json ex_ft_rx ex_H ex_cfg (Some ex_ft_armored) ex_journal (Some ex_prices) = Ok ex_ft_out
  /\ length ex_ft_out = 821%nat
  /\ run_console_ft (fun _ => true) ex_ft_json ex_ft_rx ex_H ex_cfg None ex_journal (Some ex_prices) = Ok ex_out
  (* doubled prefix, truncated base64, a text that is not JSON *)
  /\ run_console_ft (fun _ => true) ex_ft_json ex_ft_rx ex_H ex_cfg (Some (Codec.armor_tag ++ ex_ft_armored)) ex_journal (Some ex_prices) = Err E_filter_def
  /\ run_console_ft (fun _ => true) ex_ft_json ex_ft_rx ex_H ex_cfg (Some [98;97;115;101;54;52;58;101;51;48]%N) ex_journal (Some ex_prices) = Err E_filter_def
  /\ run_files_ft (fun _ => true) ex_ft_json ex_ft_rx ex_H ex_cfg (Some [123]%N) ex_journal (Some ex_prices) = Err E_filter_def.
Proof. exact t08_filter_example. Qed.
Print Assumptions T08_filter_example.
