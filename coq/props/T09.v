(* T09 (extension, not a numbered property; run as an extra stage of the C09 check and standalone as
   ./check T09) — SHA-256, tackler's default checksum algorithm, is INSIDE the model:
   coq/model/Sha256.v is an executable Gallina implementation of FIPS 180-4 SHA-256 over byte lists.
   With H := sha256 the theorems of C09 and T04, which quantify over an arbitrary digest H, become
   statements about the text the user reads: the line after `Txn Set Checksum` is
   `<8 blanks>SHA-256 : sha256_hex (pre-image of exactly the selected uuids)`, computed by the model from the
   journal's uuid texts alone.  What remains trusted for this algorithm is that Sha256.v IS SHA-256 — tied by
   the published test vectors below and by the correspondence check (gen/t09_text.py: Coq against Python's
   hashlib and against the implementation's sha2 crate on random messages of every length 0..130 and up to 300
   bytes).  Statements only; proofs in TkProofs.Sha256_proofs and TkProofs.T09_proofs. *)
From Coq Require Import Permutation Sorted.
From TkModel Require Import Base Dec MetaText Sha256.
From TkModel Require Audit Codec.
From TkSpec Require Import MetaText_spec.
From TkSpec Require Audit_spec.
From TkProofs Require Import Sha256_proofs T09_proofs.
From TkProofs Require Audit_proofs.

(* ------------------------------------------------------------------ the function *)
(* word operations are arithmetic modulo 2^32 (the model writes the reduction as a mask) *)
Theorem T09_words_mod_2_32 : forall a b,
  w32 a = (a mod 2 ^ 32)%N /\ add32 a b = ((a + b) mod 2 ^ 32)%N /\ (w32 a < 2 ^ 32)%N.
Proof. exact (fun a b => conj (sha_w32_mod a) (conj (sha_add32_mod a b) (sha_w32_lt a))). Qed.
Print Assumptions T09_words_mod_2_32.

(* for EVERY input (any list of numbers, of any length) the digest has 32 bytes, each below 256 *)
Theorem T09_length : forall m, length (sha256 m) = 32%nat /\ Forall (fun b => (b < 256)%N) (sha256 m).
Proof. exact sha256_length. Qed.
Print Assumptions T09_length.

(* and its text is 64 lower-case hexadecimal digits: 0-9 a-f *)
Theorem T09_hex_length : forall m, length (sha256_hex m) = 64%nat /\ Forall lower_hex (sha256_hex m).
Proof. exact sha256_hex_length. Qed.
Print Assumptions T09_hex_length.

(* the padding function meets its specification (FIPS 180-4 5.1.1: the message, 0x80, k < 64 zero bytes, the bit
   length in 8 bytes, total length a multiple of 64 bytes), the message can be read back from the padded text,
   and the last 8 bytes are the big-endian bit length modulo 2^64 *)
Theorem T09_padding_spec : forall m,
  is_padding m (sha_pad m) /\ unpad (sha_pad m) = Some m /\
  pad_bitlen (sha_pad m) = ((8 * N.of_nat (length m)) mod 2 ^ 64)%N.
Proof. exact sha_pad_spec. Qed.
Print Assumptions T09_padding_spec.

(* the specification leaves exactly one padded text *)
Theorem T09_padding_unique : forall m p, is_padding m p -> p = sha_pad m.
Proof. exact sha_padding_unique. Qed.
Print Assumptions T09_padding_unique.

(* different messages have different padded texts (for every length, also beyond 2^61 bytes) *)
Theorem T09_padding_injective : forall a b, sha_pad a = sha_pad b -> a = b.
Proof. exact sha_pad_injective. Qed.
Print Assumptions T09_padding_injective.

(* the padded text is consumed completely, 16 words (64 bytes) at a time: the digest is the iteration of the
   compression function over its blocks, starting from the initial hash value (6.2.2) *)
Theorem T09_blocks : forall m,
  exists blocks, (4 * 16 * length blocks)%nat = length (sha_pad m) /\
                 Forall (fun b => length b = 16%nat) blocks /\
                 concat blocks = words_of_bytes (sha_pad m) /\
                 sha256 m = st_bytes (fold_left compress blocks H0).
Proof. exact sha256_blocks. Qed.
Print Assumptions T09_blocks.

(* ------------------------------------------------------------------ published test vectors (vm_compute) *)
(* "" *)
Example T09_vector_empty :
  sha256_hex [] = sha_hex_words [0xe3b0c442; 0x98fc1c14; 0x9afbf4c8; 0x996fb924; 0x27ae41e4; 0x649b934c; 0xa495991b; 0x7852b855]%N.
Proof. exact sha_vec_empty. Qed.
(* "abc" *)
Example T09_vector_abc :
  sha256_hex [97; 98; 99]%N = sha_hex_words [0xba7816bf; 0x8f01cfea; 0x414140de; 0x5dae2223; 0xb00361a3; 0x96177a9c; 0xb410ff61; 0xf20015ad]%N.
Proof. exact sha_vec_abc. Qed.
(* the 448-bit message "abcdbcdecdefdefgefghfghighijhijkijkljklmklmnlmnomnopnopq" (two blocks) *)
Example T09_vector_448 :
  length sha_msg_448 = 56%nat /\
  sha256_hex sha_msg_448 = sha_hex_words [0x248d6a61; 0xd20638b8; 0xe5c02693; 0x0c3e6039; 0xa33ce459; 0x64ff2167; 0xf6ecedd4; 0x19db06c1]%N.
Proof. exact (conj eq_refl sha_vec_448). Qed.
(* the 896-bit message "abcdefghbcdefghi...nopqrstu" *)
Example T09_vector_896 :
  length sha_msg_896 = 112%nat /\
  sha256_hex sha_msg_896 = sha_hex_words [0xcf5b16a7; 0x78af8380; 0x036ce59e; 0x7b049237; 0x0b249b11; 0xe8f07a51; 0xafac4503; 0x7afee9d1]%N.
Proof. exact (conj eq_refl sha_vec_896). Qed.
(* 1000 bytes, byte i = (i*i + 7*i + 3) mod 256 (16 blocks; the expected value is hashlib's) *)
Example T09_vector_1000 :
  length sha_msg_1000 = 1000%nat /\
  sha256_hex sha_msg_1000 = sha_hex_words [0xe17dd9ac; 0xeb76adb4; 0xc809f163; 0x3899573b; 0x30da57a8; 0x6ffaa922; 0x15dabbc8; 0x11666b1d]%N.
Proof. exact sha_vec_1000. Qed.

(* ------------------------------------------------------------------ C09 and T04 with H := sha256 *)
(* the name selects an accepted algorithm; the text of the metadata model is the text defined in Sha256.v *)
Theorem T09_name_and_text : Audit.hash_supported sha256_name = true /\ forall m, hex_text (sha256 m) = sha256_hex m.
Proof. exact (conj t09_name_supported (fun m => t09_hex_text (sha256 m))). Qed.
Print Assumptions T09_name_and_text.

(* C09_end_to_end, instantiated: from the uuid texts as written and the filter's selection *)
Theorem T09_end_to_end_sha256 : forall j us,
  Audit.accept_journal_uuids true (map fst j) = Ok us ->
  Audit_spec.Checksum_spec sha256 (Audit_spec.selected us (map snd j)) (Audit.audit_pipeline sha256 true j)
  /\ Forall2 (Audit_spec.Accepted_uuid true) (map fst j) us.
Proof. exact t09_pipeline. Qed.
Print Assumptions T09_end_to_end_sha256.

(* ... with the existentials of the specification resolved: the reported bytes ARE sha256 of the sorted canonical
   texts, each followed by a newline, of exactly the selected uuids, and the shown text is sha256_hex of it *)
Theorem T09_end_to_end_value : forall j us n v,
  Audit.accept_journal_uuids true (map fst j) = Ok us ->
  Audit.audit_pipeline sha256 true j = Ok (Some (n, v)) ->
  exists ul, Audit_spec.selected us (map snd j) = map Some ul /\ NoDup ul /\ n = N.of_nat (length ul) /\
             v = sha256 (Audit_spec.lines_text (Audit.sort_strs (map Audit.uuid_print ul))) /\
             hex_text v = sha256_hex (Audit_spec.lines_text (Audit.sort_strs (map Audit.uuid_print ul))).
Proof. exact t09_pipeline_value. Qed.
Print Assumptions T09_end_to_end_value.

(* C09_value, instantiated and resolved the same way; the value has 32 bytes *)
Theorem T09_value_sha256 : forall sel n v,
  Audit_proofs.c09_sel_wf sel -> Audit.make_metadata sha256 true sel = Ok (Some (n, v)) ->
  exists us, sel = map Some us /\ NoDup us /\ n = N.of_nat (length us) /\
             v = sha256 (Audit_spec.lines_text (Audit.sort_strs (map Audit.uuid_print us))) /\
             length v = 32%nat /\ Forall (fun b => (b < 256)%N) v.
Proof. exact t09_value. Qed.
Print Assumptions T09_value_sha256.

(* T04_checksum_line, instantiated: audit mode with SHA-256, every selected transaction with a well-formed uuid, no
   two equal: the block has the line `Txn Set Checksum`, the line after it is
   `        SHA-256 : ` followed by sha256_hex of THE pre-image of exactly the selected uuids, then `Set size : <n>` *)
Theorem T09_checksum_sha256 : forall git flt ul,
  Forall Audit_spec.uuid_wf ul -> NoDup ul ->
  exists items pre post,
    make_items sha256 true sha256_name git flt (map Some ul) = Ok (Some items) /\
    md_lines items
    = pre ++ s_txn_set
          :: (repeat 32%N 8 ++ sha256_name ++ s_sep
              ++ sha256_hex (Audit_spec.lines_text (Audit.sort_strs (map Audit.uuid_print ul))))
          :: kv s_set_size (Codec.show_N (N.of_nat (length ul))) :: [] :: post /\
    (Forall (fun it => item_wf it = true) items -> rd_lines (meta_text items) = md_lines items).
Proof. exact t09_checksum_sha256. Qed.
Print Assumptions T09_checksum_sha256.

(* the checksum items themselves never break the readability condition of T04_read_back *)
Theorem T09_checksum_item_wf : forall n P,
  item_wf (ITxnSet n (mkCk sha256_name (hex_text (sha256 P)))) = true /\
  item_wf (ISel (mkCk sha256_name (hex_text (sha256 P)))) = true.
Proof. exact t09_item_wf. Qed.
Print Assumptions T09_checksum_item_wf.

(* string input, no filter: the whole block as text, and it reads back *)
Theorem T09_plain_block : forall ul,
  Forall Audit_spec.uuid_wf ul -> NoDup ul ->
  exists items,
    make_items sha256 true sha256_name None None (map Some ul) = Ok (Some items) /\
    meta_text items
    = s_txn_set ++ 10%N
      :: (repeat 32%N 8 ++ sha256_name ++ s_sep
          ++ sha256_hex (Audit_spec.lines_text (Audit.sort_strs (map Audit.uuid_print ul)))) ++ 10%N
      :: kv s_set_size (Codec.show_N (N.of_nat (length ul))) ++ [10%N] /\
    read_meta (meta_text items) = Some items.
Proof. exact t09_plain_block. Qed.
Print Assumptions T09_plain_block.

(* the account selector checksum of a report (C09_selector, instantiated): what the report writes before its title is
   `Account Selector Checksum`, then `        SHA-256 : ` and sha256_hex of the sorted patterns, a newline after each,
   then an empty line *)
Theorem T09_selector_sha256 : forall equity pats,
  pats <> [] ->
  let P := Audit_spec.lines_text (Audit.sort_strs pats) in
  sel_item sha256 true equity sha256_name pats = Some (ISel (mkCk sha256_name (sha256_hex P))) /\
  sel_block (sel_item sha256 true equity sha256_name pats)
  = s_acc_sel ++ 10%N :: (repeat 32%N 8 ++ sha256_name ++ s_sep ++ sha256_hex P) ++ [10%N; 10%N].
Proof. exact t09_selector_sha256. Qed.
Print Assumptions T09_selector_sha256.

(* C09_injective_preimage, instantiated: the same reported item for two different duplicate-free uuid sets would be
   a collision of THIS function on two explicit, different byte strings *)
Theorem T09_collision : forall us us' n v,
  Forall Audit_spec.uuid_wf us -> Forall Audit_spec.uuid_wf us' ->
  Audit.make_metadata sha256 true (map Some us) = Ok (Some (n, v)) ->
  Audit.make_metadata sha256 true (map Some us') = Ok (Some (n, v)) ->
  ~ (forall u, In u us <-> In u us') ->
  let x := Audit_spec.lines_text (Audit.sort_strs (map Audit.uuid_print us)) in
  let y := Audit_spec.lines_text (Audit.sort_strs (map Audit.uuid_print us')) in
  x <> y /\ sha256 x = sha256 y.
Proof. exact t09_collision. Qed.
Print Assumptions T09_collision.

(* the boolean test of the correspondence check (T09_corr: the digest text of the implementation against the model's) *)
Theorem T09_oracle_sound : forall m d, list_eqb N.eqb d (sha256_hex m) = true -> d = sha256_hex m.
Proof. exact t09_digest_oracle. Qed.
Print Assumptions T09_oracle_sound.

(* non-vacuity: the vector of tackler's own unit test (kernel/hash.rs, hasher_sha2_256: Hash::checksum over three
   uuids in the given order), and the same uuids as a journal (first one written in upper case, a fourth transaction
   not selected): size 3 and the digest of the SORTED lower-case texts *)
Example T09_example :
  hex_text (Audit.hash_checksum sha256 [t09_u1; t09_u2; t09_u3] [10%N])
  = sha_hex_words [0x16418783; 0xef294f83; 0x0721159e; 0xe59cc338; 0x8c8b69c1; 0x3afba225; 0x6cf756c6; 0x097fe687]%N
  /\
  res_map (option_map (fun nv : N * list N => (fst nv, hex_text (snd nv))))
          (Audit.audit_pipeline sha256 true
             [(Some t09_u1_written, true); (Some t09_u4, false); (Some t09_u2, true); (Some t09_u3, true)])
  = Ok (Some (3%N, sha_hex_words [0x125caf4a; 0x8b275698; 0x89b5c79f; 0x0971380c; 0xfffc21b3; 0x4caac1fc; 0x3643e6c9; 0x280c2579]%N)).
Proof. exact t09_example. Qed.
