(* C07 — Price conversion applies the documented rate, and only that rate.
   Statements only; proofs in TkProofs.Price_proofs.
   Model: TkModel.Price (price_lookup.rs make_ctx / convert_prices / metadata, pricedb_parser.rs
   pricedb_from_str, price_entry.rs Ord/Eq) — as of /repo 71b3628, i.e. after the fixes of
   F12 (a posting already in the report commodity is never converted),
   F19 (last-price takes every entry, also one stamped at Timestamp::MAX) and
   F21 (a self pair of the report commodity enters neither the cache nor the metadata).
   Specification: TkSpec.Price_spec, stated on the price FILE as written (any order of lines):
   RateAt lk f target c t e  =  e is the line of f with base c, eq target, applicable instant
   (txn-time: <= t, given-time: < given, last-price: any) and the maximal instant.
   convert_one lk txns target f t p = the posting p (of a transaction with instant t) as the reports
   receive it when the lookup is lk, the report commodity is target, the transaction set is txns and
   the price file is f.  distinct_keys f = the lines have distinct (instant, base, eq). *)
From Coq Require Import Permutation Sorted.
From TkModel Require Import Base Dec Acct Txn Price.
From TkSpec Require Import Price_spec.
From TkProofs Require Import Price_proofs.
Local Open Scope Z_scope.

(* a posting in a commodity (other than the report commodity) with an applicable rate is valued at
   amount x THE rate (the latest applicable line), in the report commodity; the rate is shown in
   txn-time mode.  All three lookups; no bound on the instants. *)
Theorem C07_rate : forall lk txns tgt f t p e,
  distinct_keys f -> p_comm p <> [] -> p_comm p <> tgt -> In (p_comm p) (posting_comms txns) ->
  RateAt lk f tgt (p_comm p) t e ->
  convert_one lk txns tgt f t p = converted lk tgt p e.
Proof. exact convert_rate. Qed.
Print Assumptions C07_rate.

(* ... as exact values: (converted amount) = amount x rate, whenever the product is representable *)
Theorem C07_rate_value : forall lk txns tgt f t p e,
  distinct_keys f -> p_comm p <> [] -> p_comm p <> tgt -> In (p_comm p) (posting_comms txns) ->
  RateAt lk f tgt (p_comm p) t e -> (ds (p_amount p) + ds (pe_rate e) <= 28)%N ->
  d28 (cv_amount (convert_one lk txns tgt f t p)) * pow10 28 = d28 (p_amount p) * d28 (pe_rate e).
Proof. exact convert_rate_value. Qed.
Print Assumptions C07_rate_value.

(* no commodity, already the report commodity, commodity not used by the transaction set, or no
   applicable line: unchanged (no hypothesis on the file: duplicates, self pairs, any instants) *)
Theorem C07_unchanged : forall lk txns tgt f t p,
  (p_comm p = [] \/ p_comm p = tgt \/ ~ In (p_comm p) (posting_comms txns) \/ NoRate lk f tgt (p_comm p) t) ->
  convert_one lk txns tgt f t p = unconverted p.
Proof. exact convert_unchanged. Qed.
Print Assumptions C07_unchanged.

(* without report commodity / with lookup none nothing is converted at all *)
Theorem C07_inactive : forall lk txns target db tx,
  (target = None \/ lk = LkNone) ->
  convert_prices (make_ctx lk txns target db) tx = map unconverted (t_posts tx).
Proof. exact no_conversion. Qed.
Print Assumptions C07_inactive.

(* a posting already in the report commodity is unchanged — for EVERY price file (F12 fixed) *)
Theorem C07_target_unchanged : forall lk txns tgt f t p,
  p_comm p = tgt -> convert_one lk txns tgt f t p = unconverted p.
Proof. exact convert_target_unchanged. Qed.
Print Assumptions C07_target_unchanged.

(* only lines with base = the posting's commodity and eq = the report commodity can influence the
   result: inverse (EUR->USD) and chained (ACME->USD, USD->EUR) lines are never used *)
Theorem C07_no_invention : forall lk txns tgt f t p,
  distinct_keys f ->
  convert_one lk txns tgt f t p = convert_one lk txns tgt (filter (relevant tgt (p_comm p)) f) t p.
Proof. exact convert_no_invention. Qed.
Print Assumptions C07_no_invention.

(* the metadata records = the cache entries: one per commodity used by the transaction set, other than
   the report commodity itself, that has a usable line into the report commodity, ascending; in the
   fixed modes each shows instant and rate (same value) of THE rate (RateAt) of its commodity *)
Theorem C07_metadata : forall lk txns tgt f,
  distinct_keys f -> MetaSpec lk tgt f txns (metadata (make_ctx lk txns (Some tgt) (load_db f))).
Proof. exact metadata_spec. Qed.
Print Assumptions C07_metadata.

(* "the rates shown are the ones applied", full strength (F21 fixed): EVERY listed record is applied
   to every posting of the set in its commodity, for every price file *)
Theorem C07_metadata_all_applied : forall lk txns tgt f r,
  distinct_keys f -> is_fixed lk ->
  In r (metadata (make_ctx lk txns (Some tgt) (load_db f))) ->
  RecordApplied lk txns tgt f r.
Proof. exact metadata_applied. Qed.
Print Assumptions C07_metadata_all_applied.

(* in every mode: a self pair of the report commodity is never listed *)
Theorem C07_metadata_no_self_record : forall lk txns tgt f r,
  distinct_keys f -> In r (metadata (make_ctx lk txns (Some tgt) (load_db f))) -> pr_source r <> tgt.
Proof. exact metadata_no_self_record. Qed.
Print Assumptions C07_metadata_no_self_record.

(* the order of the lines of the price file is irrelevant *)
Theorem C07_file_order : forall lk target f f' txns,
  Permutation f f' -> distinct_keys f ->
  load_db f = load_db f' /\
  price_run lk target f txns = price_run lk target f' txns /\
  metadata (make_ctx lk txns target (load_db f)) = metadata (make_ctx lk txns target (load_db f')).
Proof. exact price_run_file_order. Qed.
Print Assumptions C07_file_order.

(* the function the reports call, on every transaction of the set, meets the specification
   (full strength: no hypothesis besides distinct keys) *)
Theorem C07_model_meets_spec : forall lk txns tgt f tx,
  distinct_keys f -> In tx txns ->
  Forall2 (PostSpec lk tgt f (h_inst (t_hdr tx))) (t_posts tx)
          (convert_prices (make_ctx lk txns (Some tgt) (load_db f)) tx).
Proof. exact model_meets_spec. Qed.
Print Assumptions C07_model_meets_spec.

(* the boolean oracles evaluated on the implementation's output are sound for the specification *)
Theorem C07_oracle_sound : forall lk tgt f tx cs,
  distinct_keys f -> txn_ok_b lk tgt f tx cs = true ->
  Forall2 (PostSpec lk tgt f (h_inst (t_hdr tx))) (t_posts tx) cs.
Proof. exact txn_ok_b_sound. Qed.
Print Assumptions C07_oracle_sound.

Theorem C07_meta_oracle_sound : forall lk tgt f txns recs,
  meta_ok_b lk tgt f txns recs = true -> MetaSpec lk tgt f txns recs.
Proof. exact meta_ok_b_sound. Qed.
Print Assumptions C07_meta_oracle_sound.

(* non-vacuity: a shuffled file with inverse and chained pairs satisfies the hypotheses; the three
   lookups give three different valuations; the inputs of the fixed findings F12, F19 and F21 *)
Example C07_example :
  distinct_keys ex_file /\ no_self_pair EUR ex_file /\
  ex_show (price_run LkTxnTime (Some EUR) ex_file ex_txns)
  = [ [ (ACME, 2, 0%N, None); (EUR, -6, 0%N, None) ];
      [ (EUR, 650, 2%N, Some (325, 2%N)); (EUR, 90, 1%N, Some (9, 1%N)); ([], 5, 0%N, None); (EUR, -1, 1%N, None) ] ] /\
  ex_show (price_run (LkGivenTime 200) (Some EUR) ex_file ex_txns)
  = [ [ (EUR, 6, 0%N, None); (EUR, -6, 0%N, None) ];
      [ (EUR, 6, 0%N, None); (EUR, 90, 1%N, None); ([], 5, 0%N, None); (EUR, -1, 1%N, None) ] ] /\
  ex_show (price_run LkLastPrice (Some EUR) ex_file ex_txns)
  = [ [ (EUR, 70, 1%N, None); (EUR, -6, 0%N, None) ];
      [ (EUR, 70, 1%N, None); (EUR, 90, 1%N, None); ([], 5, 0%N, None); (EUR, -1, 1%N, None) ] ] /\
  map (fun r => (pr_source r, pr_used r)) (metadata (make_ctx LkLastPrice ex_txns (Some EUR) (load_db ex_file)))
  = [ (ACME, Some (300, mkDec 35 1)); (USD, Some (100, mkDec 9 1)) ] /\
  RateAt LkTxnTime ex_file EUR ACME 200 (mkPE 200 ACME (mkDec 325 2) EUR) /\
  ex_show (price_run LkTxnTime (Some EUR) f12_file f12_txns)
  = [ [ (EUR, 1, 0%N, None); (EUR, -1, 0%N, None) ]; [ (EUR, 3, 0%N, Some (3, 0%N)); (EUR, -3, 0%N, None) ] ] /\
  ex_show (price_run LkLastPrice (Some EUR) tsmax_file tsmax_txns)
  = [ [ (EUR, 7, 0%N, None); (EUR, -7, 0%N, None) ] ] /\
  map (fun r => (pr_source r, pr_used r)) (metadata (make_ctx LkLastPrice f12_txns (Some EUR) (load_db f12_file)))
  = [ (ACME, Some (100, mkDec 3 0)) ].
Proof. exact price_example. Qed.
