(* C19 — Command-line options override the configuration file key by key.
   Statements only; proofs in TkProofs.Config_proofs. *)
From TkModel Require Import Base Config.
From TkProofs Require Import Config_proofs.

(* each overridable key: the option's value if present, else the file's *)
Theorem C19_precedence : forall f c e, effective f c = Ok e ->
  e_strict e = or_else (c_strict c) (f_strict f)
  /\ e_audit e = or_else (c_audit c) (f_audit f)
  /\ e_reports e = or_else (c_reports c) (f_reports f)
  /\ e_exports e = or_else (c_exports c) (f_exports f)
  /\ e_commodity e = or_opt (c_commodity c) (f_commodity f)
  /\ e_lookup e = or_else (c_lookup c) (f_lookup f)
  /\ e_group_by e = or_else (c_group_by c) (f_group_by f)
  /\ (e_lookup e <> 0%N -> e_db e = or_opt (c_db c) (f_db f)).
Proof. exact effective_precedence. Qed.
Print Assumptions C19_precedence.

(* the command-line account list replaces the global and every per-report and equity
   selector; otherwise per-report, else the file's global list, else all accounts *)
Theorem C19_selectors : forall f c e, effective f c = Ok e ->
  (forall g, cli_accounts c = Some g ->
     e_ras_bal e = g /\ e_ras_balgrp e = g /\ e_ras_reg e = g /\ e_ras_eq e = g)
  /\ (cli_accounts c = None ->
     e_ras_bal e = file_sel f (f_bal_acc f) /\ e_ras_balgrp e = file_sel f (f_balgrp_acc f)
     /\ e_ras_reg e = file_sel f (f_reg_acc f) /\ e_ras_eq e = file_sel f (f_eq_acc f)).
Proof. exact effective_selectors. Qed.
Print Assumptions C19_selectors.

Theorem C19_file_selector_rules : forall f,
  (forall l, file_sel f (Some l) = l)
  /\ (forall g, f_accounts f = Some g -> file_sel f None = g)
  /\ (f_accounts f = None -> file_sel f None = []).
Proof. exact file_sel_rules. Qed.
Print Assumptions C19_file_selector_rules.

(* the documented empty selector (--accounts "") means all accounts *)
Theorem C19_empty_selector : forall f c e k,
  c_accounts c = Some (repeat [] k) -> effective f c = Ok e ->
  e_ras_bal e = [] /\ e_ras_balgrp e = [] /\ e_ras_reg e = [] /\ e_ras_eq e = [].
Proof. exact empty_selector_means_all. Qed.
Print Assumptions C19_empty_selector.

(* running with options = running with the options' values written into the file *)
Theorem C19_metamorphic : forall f c, effective f c = effective (merge f c) (only_before c).
Proof. exact effective_metamorphic. Qed.
Print Assumptions C19_metamorphic.

(* contradictory combinations are rejected *)
Theorem C19_rejects : forall f c,
  let lookup := or_else (c_lookup c) (f_lookup f) in
  (or_opt (c_commodity c) (f_commodity f) = None -> lookup <> 0%N -> exists x, effective f c = Err x)
  /\ (lookup <> 3%N -> c_before c <> None -> exists x, effective f c = Err x)
  /\ (lookup = 3%N -> c_before c = None -> exists x, effective f c = Err x)
  /\ (or_else (c_strict c) (f_strict f) = true -> In 0%N (or_else (c_exports c) (f_exports f)) ->
      f_eq_declared f = false -> exists x, effective f c = Err x).
Proof. exact effective_rejects. Qed.
Print Assumptions C19_rejects.

Example C19_example :
  let f := mkFile false false [0%N] [] (Some [[97%N]]) (Some [[98%N]]) None None None None 0%N None 2%N false in
  let c := mkCli (Some true) None None None (Some [[]; [99%N]]) None None None None None in
  option_map (fun e => (e_strict e, e_ras_bal e, e_ras_reg e))
             (match effective f c with Ok e => Some e | Err _ => None end)
  = Some (true, [[99%N]], [[99%N]])
  /\ option_map e_ras_bal (match effective f no_opts with Ok e => Some e | Err _ => None end) = Some [[98%N]]
  /\ option_map e_ras_reg (match effective f no_opts with Ok e => Some e | Err _ => None end) = Some [[97%N]].
Proof. exact config_example. Qed.
