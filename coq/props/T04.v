(* T04 (extension, not a numbered property; run as an extra stage of the C09 and C05 checks) — the
   metadata TEXT block that precedes every report is inside the model: MetaText.meta_text transcribes
   Metadata::text and the Text impls of the items, MetaText.make_items which items a transaction set
   carries and in which order, MetaText.report_head what a report writes itself before its title.
   Statements only; proofs in TkProofs.MetaText_proofs.  The digest H is universally quantified as in C09. *)
From Coq Require Import Permutation Sorted.
From TkModel Require Import Base Dec MetaText.
From TkModel Require Audit Codec.
From TkSpec Require Import MetaText_spec.
From TkSpec Require Audit_spec EquityText_spec.
From TkProofs Require Import MetaText_proofs.

(* the block can be read back: an independent line-based reader recovers every item from the text, provided
   (item_wf) no field OTHER THAN THE GIT MESSAGE contains a newline, the algorithm name is not empty and
   blank-free, a git reference is not literally "FIXED by commit", a price time not "At txn time", a rate
   blank-free and not "-", a filter description starts with "Filter" and has no empty line, a price item has a
   record.  The git message may be any text; what is read back is one_line of it (lines trimmed, empty ones
   dropped, joined by one blank). *)
Theorem T04_read_back : forall items,
  Forall (fun it => item_wf it = true) items ->
  read_meta (meta_text items) = Some (map norm_item items).
Proof. exact mt_read_back. Qed.
Print Assumptions T04_read_back.

(* hence different item lists give different texts: the checksum a user reads IS the checksum that was put in *)
Theorem T04_injective : forall a b,
  Forall (fun it => item_wf it = true) a -> Forall (fun it => item_wf it = true) b ->
  meta_text a = meta_text b -> map norm_item a = map norm_item b.
Proof. exact mt_injective. Qed.
Print Assumptions T04_injective.

Theorem T04_injective_exact : forall a b,
  Forall (fun it => item_wf it = true) a -> Forall (fun it => item_wf it = true) b ->
  Forall item_exact a -> Forall item_exact b -> a <> b -> meta_text a <> meta_text b.
Proof. exact mt_injective_exact. Qed.
Print Assumptions T04_injective_exact.

(* the commit message can be ANY text: the item line made of it never contains a line feed or carriage return
   (GitInputReference::one_line, the repair of finding F26), so it cannot leave its line *)
Theorem T04_git_message_one_line : forall m,
  eolf (one_line m) = true /\ eolf (kv s_message (one_line m)) = true.
Proof. exact mt_git_message_one_line. Qed.
Print Assumptions T04_git_message_one_line.

(* a side condition that is still needed: a FILTER description with an inner empty line (a pattern that contains
   one: corpus/T04/b06) continues as whatever item it spells out — without "no empty line" two different item
   lists have the same text.  (The filter definition is the user's own command line, not third-party data.) *)
Theorem T04_empty_line_refuted :
  exists a b, a <> b /\ Forall item_exact a /\ Forall item_exact b /\ meta_text a = meta_text b.
Proof. exact mt_empty_line_ambiguous. Qed.
Print Assumptions T04_empty_line_refuted.

(* the comment block of the equity export (the `md` of EquityText.print_equity) consists of lines: T02's hypothesis
   EquityText_spec.md_wf holds when the fields OTHER than the commit message have no line break ... *)
Theorem T04_equity_md_wf : forall md sel,
  (forall items, md = Some items -> forallb item_eol_free items = true) ->
  (forall s, sel = Some s -> item_eol_free s = true) ->
  EquityText_spec.md_wf (equity_md md sel) = true.
Proof. exact mt_equity_md_wf. Qed.
Print Assumptions T04_equity_md_wf.

(* ... in particular for git input with ANY commit title: the hypothesis about metadata lines is discharged *)
Theorem T04_equity_md_wf_git : forall H audit algo git flt us pats md,
  make_items H audit algo git flt us = Ok md ->
  eolf algo = true ->
  (forall g, git = Some g -> git_in_eol_free g = true) ->
  (forall ls, flt = Some ls -> forallb eolf ls = true) ->
  EquityText_spec.md_wf (equity_md md (sel_item H audit true algo pats)) = true.
Proof. exact mt_equity_md_wf_model. Qed.
Print Assumptions T04_equity_md_wf_git.

(* the lines of the text are exactly the vector Metadata::text joins: every item's lines, then an empty one *)
Theorem T04_text_lines : forall items,
  items <> [] -> Forall (fun it => item_wf it = true) items -> rd_lines (meta_text items) = md_lines items.
Proof. exact mt_text_lines. Qed.
Print Assumptions T04_text_lines.

(* audit mode, every selected transaction with a (well-formed) uuid, no two equal: the block has the line
   "Txn Set Checksum", the line after it is `<pad><algorithm> : <hex>` where hex is the hexadecimal text of H of
   THE pre-image (C09: sorted canonical uuid texts, a newline after each) of exactly the selected uuids, and the
   next line is `Set size : <number selected>` *)
Theorem T04_checksum_line : forall H algo git flt ul,
  Forall Audit_spec.uuid_wf ul -> NoDup ul ->
  exists items P pre post,
    make_items H true algo git flt (map Some ul) = Ok (Some items) /\
    Audit_spec.is_preimage (Audit_spec.uuid_texts ul) P /\
    md_lines items
    = pre ++ s_txn_set :: (pad_left item_pad algo ++ s_sep ++ hex_text (H P))
          :: kv s_set_size (Codec.show_N (N.of_nat (length ul))) :: [] :: post /\
    (Forall (fun it => item_wf it = true) items -> rd_lines (meta_text items) = md_lines items).
Proof. exact mt_checksum_line. Qed.
Print Assumptions T04_checksum_line.

(* which items, when, in which order: Txn Set Checksum iff audit mode, Filter iff a filter was applied, Git Storage
   iff git input; git, then checksum, then filter *)
Theorem T04_presence : forall H audit algo git flt us items,
  make_items H audit algo git flt us = Ok (Some items) ->
  ((exists n ck, In (ITxnSet n ck) items) <-> audit = true) /\
  ((exists ls, In (IFilter ls) items) <-> flt <> None) /\
  ((exists g, In (IGit g) items) <-> git <> None) /\
  exists cs, Audit.make_metadata H audit us = Ok cs /\
    items = opt_list (option_map git_item git) ++ opt_list (option_map (cs_item algo) cs)
            ++ opt_list (option_map IFilter flt).
Proof. exact mt_presence. Qed.
Print Assumptions T04_presence.

(* no metadata at all (not even an empty line before the report) exactly without audit, git and filter *)
Theorem T04_no_metadata : forall H audit algo git flt us,
  make_items H audit algo git flt us = Ok None <-> audit = false /\ git = None /\ flt = None.
Proof. exact mt_no_metadata. Qed.
Print Assumptions T04_no_metadata.

(* the boolean oracles evaluated on the implementation's text are sound *)
Theorem T04_oracle_sound : forall e obs, observed_b e obs = true -> Observed_spec e obs.
Proof. exact mt_observed_sound. Qed.
Print Assumptions T04_oracle_sound.

Theorem T04_head_oracle_sound : forall sel zone prices title text,
  head_observed_b sel zone prices title text = true -> Head_observed_spec sel zone prices title text.
Proof. exact mt_head_observed_sound. Qed.
Print Assumptions T04_head_oracle_sound.

(* and the model's text satisfies the specification the oracle decides *)
Theorem T04_model_observed : forall H audit algo git flt us md cs,
  make_items H audit algo git flt us = Ok md ->
  Audit.make_metadata H audit us = Ok cs ->
  (forall items, md = Some items -> Forall (fun it => item_wf it = true) items) ->
  Observed_spec (expect_of (option_map git_ref_of git)
                           (option_map (fun nv => (fst nv, mkCk algo (hex_text (snd nv)))) cs) flt)
                (option_map meta_text md).
Proof. exact mt_model_observed. Qed.
Print Assumptions T04_model_observed.

(* what precedes a report in its file: the set's block is its lines, each ended by a newline ... *)
Theorem T04_file_head : forall items, items <> [] -> file_head (Some items) = lines_nl (md_lines items).
Proof. exact mt_file_head_lines. Qed.
Print Assumptions T04_file_head.

(* ... and the report's own head has the same layout over (selector checksum, zone, prices), followed by one
   more empty line — except in the balance report with price records, which has none *)
Theorem T04_report_head : forall k sel zone prices,
  report_head k sel zone prices
  = lines_nl (md_lines (head_items k sel zone prices))
    ++ match k, prices with RBalance, _ :: _ => [] | _, _ => [ch_nl] end.
Proof. exact mt_report_head. Qed.
Print Assumptions T04_report_head.

(* and the head can be read back too: read_head (the lines before the title line, grouped at the empty lines) applied
   to the model's report text gives the report's own items *)
Theorem T04_head_read_back : forall k sel zone prices title rest,
  Forall (fun it => item_wf it = true) (head_items k sel zone prices) ->
  nl_free title = true -> title <> [] -> ~ In title (md_lines (head_items k sel zone prices)) ->
  read_head title (report_head k sel zone prices ++ title ++ ch_nl :: rest)
  = Some (map norm_item (head_items k sel zone prices)).
Proof. exact mt_read_head. Qed.
Print Assumptions T04_head_read_back.

(* non-vacuity: audit mode, one transaction, a filter: the text, read back; and nothing without audit/filter/git *)
Example T04_example : forall H,
  let u := [0;14;3;15;2;14;0;8;1;14;11;11;4;5;14;8;8;3;2;13;5;8;12;10;15;5;4;14;13;9;5;15]%N in
  let algo := [83;72;65;45;50;53;54]%N in
  let flt := [s_filter; [32;32;65;108;108;32;112;97;115;115]%N] in
  exists items,
    make_items H true algo None (Some flt) [Some u] = Ok (Some items) /\
    meta_text items
    = s_txn_set ++ [10]%N
      ++ repeat 32%N 8 ++ algo ++ s_sep ++ hex_text (H (Audit.uuid_print u ++ [10]%N)) ++ [10]%N
      ++ repeat 32%N 7 ++ s_set_size ++ s_sep ++ [49; 10; 10]%N
      ++ s_filter ++ [10; 32;32;65;108;108;32;112;97;115;115; 10]%N /\
    read_meta (meta_text items) = Some items /\
    make_items H false algo None None [Some u] = Ok None.
Proof. exact mt_example. Qed.
