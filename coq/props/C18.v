(* C18 — Filter definitions mean the same in every encoding and survive re-serialisation.
   Statements only; proofs in TkProofs.Codec_proofs / Codec_ts_proofs / Codec_jv_proofs.
   Model: TkModel.Codec (serde shapes of tackler-api/src/filters/**, full_haystack_matcher,
   peel_full_haystack_pattern, FilterDefinition::{from_json_str, is_armored, from_armor}).
   Parameters (libraries): rx_ok = Regex::new(text).is_ok(), json_parse = serde_json
   text -> tree. *)
From TkModel Require Import Base Dec Codec.
From TkSpec Require Import Codec_spec.
From TkProofs Require Import Codec_proofs Codec_ts_proofs Codec_jv_proofs.
Local Open Scope Z_scope.

(* --- patterns: wrapped when read, peeled when written; for EVERY text p --- *)
Theorem C18_peel_wrap : forall p,
  peel_s (wrap_s p) = p /\ wrap_s (peel_s (wrap_s p)) = wrap_s p.
Proof. exact c18_peel_wrap_both. Qed.
Print Assumptions C18_peel_wrap.

(* a pattern that is itself the wrapper text: compiled with two layers, written back as the user wrote
   it (not stripped to p: anchoring not lost), read again with two layers (not three: not compounded) *)
Theorem C18_wrapped_pattern_neither_lost_nor_compounded : forall p,
  let q := wrap_s p in
  peel_s (wrap_s q) = q /\ wrap_s (peel_s (wrap_s q)) = wrap_s q /\ peel_s (wrap_s q) <> p
  /\ wrap_s (peel_s (wrap_s q)) <> wrap_s (wrap_s q).
Proof. exact c18_no_compounding. Qed.
Print Assumptions C18_wrapped_pattern_neither_lost_nor_compounded.

(* the compiled text of any Regex value built by the deserialiser survives write + read *)
Theorem C18_regex_value_survives : forall r, is_wrapped r = true -> wrap_s (peel_s r) = r.
Proof. exact c18_wrap_peel_of_wrapped. Qed.
Print Assumptions C18_regex_value_survives.

(* --- base64 (STANDARD engine) --- *)
Theorem C18_b64 : forall bs, bytes bs -> b64_dec (b64_enc bs) = Some bs.
Proof. exact c18_b64_dec_enc. Qed.
Print Assumptions C18_b64.

(* decoding accepts exactly the canonical encodings *)
Theorem C18_b64_canonical : forall s bs, b64_dec s = Some bs -> bytes bs /\ b64_enc bs = s.
Proof. exact c18_b64_canonical. Qed.
Print Assumptions C18_b64_canonical.

Theorem C18_b64_rejects : forall s,
  (length s mod 4 <> 0)%nat \/ Exists (fun c => b64_alphabet c = false /\ c <> b64_pad) s ->
  b64_dec s = None.
Proof. exact c18_b64_rejects. Qed.
Print Assumptions C18_b64_rejects.

Theorem C18_utf8 : forall s, scalars s -> utf8_dec (utf8_enc s) = Some s.
Proof. exact c18_utf8_dec_enc. Qed.
Print Assumptions C18_utf8.

(* --- armor --- *)
(* the armored form of a JSON text means what the JSON text means *)
Theorem C18_armor_eq_json : forall rx_ok json_parse json,
  scalars json ->
  from_armor rx_ok json_parse (armor_tag ++ b64_enc (utf8_enc json)) = from_json_str rx_ok json_parse json.
Proof. exact c18_armor_eq_json. Qed.
Print Assumptions C18_armor_eq_json.

(* armor is exactly one "base64:" prefix (full strength since the repair of F14, commit 4ca1b54) *)
Theorem C18_armor_one_prefix : forall rx_ok json_parse,
  (forall s, armor_payload s = armor_payload_spec s) /\
  (forall s, is_armored s = false -> from_armor rx_ok json_parse s = None) /\
  (forall x, from_armor rx_ok json_parse (armor_tag ++ armor_tag ++ x) = None).
Proof. exact c18_armor_exactly_one_prefix. Qed.
Print Assumptions C18_armor_one_prefix.

(* whatever from_armor accepts is the tag followed by the canonical base64 of the UTF-8 of a JSON
   text with that meaning: malformed armor is never repaired *)
Theorem C18_armor_accepts_only_canonical : forall rx_ok json_parse s f,
  from_armor rx_ok json_parse s = Some f ->
  exists json, s = armor_tag ++ b64_enc (utf8_enc json) /\ from_json_str rx_ok json_parse json = Some f.
Proof. exact c18_armor_accepts_only. Qed.
Print Assumptions C18_armor_accepts_only_canonical.

(* --- numbers, instants, ids survive their own text unchanged --- *)
Theorem C18_numbers :
  (forall d, dec_parse (dec_show d) = Some d) /\
  (forall z, ts_wf z = true -> ts_parse (ts_show z) = Some z) /\
  (forall u, uuid_wf u = true -> uuid_parse (uuid_show u) = Some u) /\
  (forall s z, ts_parse s = Some z -> ts_in_range z = true) /\
  (forall s u, uuid_parse s = Some u -> uuid_wf u = true).
Proof. exact c18_numbers. Qed.
Print Assumptions C18_numbers.

(* --- Deserialize . Serialize = id on every well-formed definition (all variants, nested) --- *)
Theorem C18_roundtrip : forall rx_ok f,
  cf_wf rx_ok f = true -> def_of_jv rx_ok (def_to_jv f) = Some f.
Proof. exact c18_def_of_to_jv. Qed.
Print Assumptions C18_roundtrip.

(* every definition the deserialiser accepts holds well-formed values ... *)
Theorem C18_parsed_wf : forall rx_ok j f,
  def_of_jv rx_ok j = Some f -> cf_wf_weak rx_ok f = true.
Proof. exact c18_def_parsed_wf. Qed.
Print Assumptions C18_parsed_wf.

(* ... hence serialising a parsed definition and parsing it again yields the identical definition
   (identical behaviour under any evaluation), serialisation and description *)
Theorem C18_fixed_point : forall rx_ok j f,
  def_of_jv rx_ok j = Some f -> cf_year0 f = true ->
  def_of_jv rx_ok (def_to_jv f) = Some f /\
  forall f', def_of_jv rx_ok (def_to_jv f) = Some f' ->
    f' = f /\ def_to_jv f' = def_to_jv f /\ describe_def f' = describe_def f
    /\ forall (T : Type) (ev : cfilter -> T), ev f' = ev f.
Proof. exact c18_fixed_point. Qed.
Print Assumptions C18_fixed_point.

(* --- malformed input is rejected, not ignored --- *)
Theorem C18_rejects : forall rx_ok,
  (forall j f, of_jv rx_ok j = Some f -> exists tag body, j = JObj [(tag, body)] /\ In tag variant_names) /\
  (forall j f, def_of_jv rx_ok j = Some f -> exists x, of_jv rx_ok x = Some f) /\
  (forall A (f : jv -> option A) k kvs, has_key k kvs = false -> get_field f k kvs = None) /\
  (forall A (f : jv -> option A) k v1 v2 a b c, get_field f k (a ++ (k, v1) :: b ++ (k, v2) :: c) = None) /\
  (forall x r, de_regex rx_ok x = Some r ->
     exists p, x = JStr p /\ rx_ok p = true /\ rx_ok (wrap_s p) = true /\ r = wrap_s p) /\
  (forall x d, de_dec x = Some d ->
     exists s, (x = JStr s \/ x = JNum s \/ x = JObj [(k_number_token, JStr s)]) /\ dec_parse s = Some d) /\
  (forall x z, de_ts x = Some z -> exists s, x = JStr s /\ ts_parse s = Some z) /\
  (forall x u, de_uuid x = Some u -> exists s, x = JStr s /\ uuid_parse s = Some u) /\
  (* a pattern that is not a regular expression on its own is rejected (full strength since the
     repair of the first half of F15, commit f40ad68), as is one that does not compile inside the wrapper *)
  (forall p, rx_ok p = false \/ rx_ok (wrap_s p) = false ->
     forall tag, In tag [v_TxnCode; v_TxnDescription; v_TxnTags; v_TxnComments; v_PostingAccount;
                         v_PostingComment; v_PostingCommodity] ->
       of_jv rx_ok (j_variant tag [(k_regex, JStr p)]) = None) /\
  (forall f, f_off f = None \/ ~ (1 <= Z.of_N (f_m f) <= 12) \/
             ~ (1 <= Z.of_N (f_d f) <= cd_days_in_month (Z.of_N (f_y f)) (Z.of_N (f_m f))) \/
             (23 < f_hh f)%N \/ (59 < f_mi f)%N \/ (60 < f_ss f)%N -> ts_validate f = None).
Proof. exact c18_rejects. Qed.
Print Assumptions C18_rejects.

(* --- the oracle evaluated on the implementation's output is sound for the observed specification --- *)
Theorem C18_oracle_sound : forall o, obs_ok o = true -> ObsSpec o.
Proof. exact c18_obs_ok_sound. Qed.
Print Assumptions C18_oracle_sound.

(* non-vacuity: a definition with every variant (nested, wrapper-text patterns, several scales,
   instants with fraction) is well formed, round-trips, and is reached through the armor *)
Example C18_example :
  cf_wf c18_ex_rx c18_ex_filter = true /\
  def_of_jv c18_ex_rx (def_to_jv c18_ex_filter) = Some c18_ex_filter /\
  describe [] (CDesc (wrap_s (wrap_s [120]%N)))
  = [84;120;110;32;68;101;115;99;114;105;112;116;105;111;110;58;32;34;94;40;63;58;120;41;36;34;10]%N /\
  armor_payload [98;97;115;101;54;52;58;101;51;48;61]%N = Some [123; 125]%N /\
  from_any c18_ex_rx (fun t => if str_eqb t [123; 125]%N then Some (def_to_jv c18_ex_filter) else None)
           [98;97;115;101;54;52;58;101;51;48;61]%N = Some c18_ex_filter.
Proof. exact c18_example. Qed.
