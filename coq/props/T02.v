(* T02 (extension, not a numbered property) — the TEXT of the equity export inside the model.
   Statements only; proofs in TkProofs.EquityText_proofs.

   Model: TkModel.EquityText.print_equity md warn es — EquityExporter::write_export byte for byte, from the
   exported transactions es (Equity.eq_txn, one per commodity: the result of Equity.equity), the rendered
   metadata items md (text lines per item; rendering not modelled) and the wording warn of the comment block
   written between the metadata block and the first posting line when the selected balances of a commodity
   already cancel (the texts after "   ; ", like the lines of a metadata item; today's five lines =
   EquityText.default_warn_lines, T02_default_warn_wf).  WHEN that block is written is the model's decision (iff
   the sum is zero, e_warn); its wording is an input because no property speaks about it: every theorem below
   holds for ANY warn satisfying the predicate required of the metadata lines (warn_wf warn = md_wf [warn]:
   lines without CR / LF), and T02_warn_irrelevant states that md and warn reach the loaded export through the
   transaction comments only.  Read by the character-level journal
   grammar model of C06 (Journal.parse_journal / load_journal) this text yields exactly the syntax-level
   transactions that correspond to Equity.eq_raw_txn, the objects of C10's theorems; so C10_carry applies to
   the LOADED TEXT.  All stages are reached:
     stage 1  posting line                         T02_posting_line
     stage 2  header line, comments, transaction   T02_chunk
     stage 3  whole text                           T02_parse_export  (+ T02_parsed_is_raw, T02_description_exact,
                                                                      T02_empty_export)
     stage 4  loading (semantic layer, sort)       T02_load_export
     stage 5  composition with C10                 T02_text_carries_balances, T02_export_wf,
                                                   T02_text_carries_balances_src
   Hypothesis export_wf md warn es (TkSpec.EquityText_spec, decidable): metadata and warning lines are lines; per transaction the
   time stamp is shown at a whole-minute offset with a 4-digit year (Journal_spec.ts_ok; F13: T02_subminute_refuted),
   the uuid is a uuid text, the commodity is none or an identifier without white space (Journal_spec.comm_ok);
   per posting the account is a name of the
   grammar that the semantic layer accepts (Journal_spec.name_ok, Journal.acct_sem_ok — for the equity account
   this is what Settings::try_from enforces since it runs the parser's own account-name rule on the configured
   name; the earlier check parser::is_valid_id = Equity_spec.eq_account_ok was weaker and not sufficient:
   T02_eq_account_ok_insufficient), the amount lies in the decimal type (96 bits, scale <= 28), the commodity is
   none or such an identifier; at least one posting.  T02_export_wf derives it for the export of a source as the
   loader produces it (src_txn_ok), leaving only the decimal domain of the written amounts (amounts_fit). *)
From TkModel Require Import Base Dec Acct Txn Balance Accept Equity Journal EquityText.
From TkSpec Require Import Balance_spec Equity_spec Journal_spec EquityText_spec.
From TkProofs Require Import Equity_proofs EquityText_proofs.
Local Open Scope Z_scope.

(* stage 1: a posting line of the export ("   <account>  <amount>[ <comm>]", also the balancing posting) is read
   as a posting with that account, exactly that amount (mantissa and scale), that commodity and no comment *)
Theorem T02_posting_line : forall p,
  eq_post_wf p = true -> parse_posting_line (eq_post_line p) = Some (PL_post (eq_raw_post p) None).
Proof. exact eq_post_line_roundtrip. Qed.
Print Assumptions T02_posting_line.

(* the lines written for one commodity are the lines of one transaction followed by an empty line ... *)
Theorem T02_txn_lines : forall md warn e, eq_txn_lines md warn e = eq_body md warn e ++ [[]].
Proof. exact eq_txn_lines_body. Qed.
Print Assumptions T02_txn_lines.

(* stage 2: ... and these lines parse to the header (time stamp and offset of the last transaction, no code,
   the description, no uuid/location/tags line, comments = metadata lines with their empty separator comments,
   then the warning lines warn iff the sum is zero) and the postings in order *)
Theorem T02_chunk : forall cfg md warn e,
  eq_txn_wf e = true -> parse_chunk cfg (eq_body md warn e) = Some (eq_ptxn md warn e).
Proof. exact eq_chunk_roundtrip. Qed.
Print Assumptions T02_chunk.

(* stage 3: the text of a non-empty well-formed export is a journal of the grammar: one syntax-level
   transaction per exported commodity, in order, whatever the journal-zone setting *)
Theorem T02_parse_export : forall cfg md warn es,
  es <> [] -> export_wf md warn es = true ->
  parse_journal cfg (print_equity md warn es) = Ok (map (eq_ptxn md warn) es).
Proof. exact parse_export. Qed.
Print Assumptions T02_parse_export.

(* the postings read from the text are the raw transaction of C10 (Equity.eq_raw_txn) *)
Theorem T02_parsed_is_raw : forall md warn e, ptxn_raw (eq_ptxn md warn e) = eq_raw_txn e.
Proof. exact eq_ptxn_raw. Qed.
Print Assumptions T02_parsed_is_raw.

(* the description read back is 'Equity[ for <comm>][: last txn (uuid): <uuid>] itself unless the commodity
   name ends in white space (U+1680 is an identifier character), in which case it is trimmed *)
Theorem T02_description_exact : forall e,
  eq_desc_plain e = true -> match e_uuid e with Some u => uuid_ok u | None => true end = true ->
  trim_end (eq_desc e) = eq_desc e.
Proof. exact eq_desc_trim. Qed.
Print Assumptions T02_description_exact.

(* ... which a well-formed export excludes (Commodity::from rejects such a name, so no loaded journal has one):
   the description is read back exactly *)
Theorem T02_description_read_back : forall e, eq_txn_wf e = true -> trim_end (eq_desc e) = eq_desc e.
Proof. exact eq_desc_trim_wf. Qed.
Print Assumptions T02_description_read_back.

(* nothing at all is written for an empty balance, and the empty text is not a journal *)
Theorem T02_empty_export : forall cfg md warn,
  print_equity md warn [] = [] /\ parse_journal cfg [] = Err E_syntax.
Proof. exact empty_export. Qed.
Print Assumptions T02_empty_export.

(* stage 4: when every exported transaction passes the semantic layer (C10_balanced) the text is accepted by
   the loader and yields the equity transactions in canonical order *)
Theorem T02_load_export : forall cfg md warn es,
  es <> [] -> export_wf md warn es = true ->
  (forall e, In e es -> accept_txn (eq_raw_txn e) = Ok (map eq_posting (eq_all_posts e))) ->
  load_journal cfg (print_equity md warn es) = Ok (sort_by jtxn_leb (map (eq_jtxn md warn) es)).
Proof. exact load_export. Qed.
Print Assumptions T02_load_export.

(* stage 5, the composed corollary: the equity export TEXT of a source, loaded as a journal, is accepted, and
   the own sums of the loaded transactions are the selected balances of the source at every (account,
   commodity); the equity account additionally holds minus the total of the commodity (Equity_spec.Carried) *)
Theorem T02_text_carries_balances : forall cfg known eqa ras ts es md warn,
  txns_wf ts -> equity known eqa ras ts = Some es -> es <> [] -> export_wf md warn es = true ->
  exists jts, load_journal cfg (print_equity md warn es) = Ok jts /\ TextCarries eqa ras md warn ts es jts.
Proof. exact text_carries_balances. Qed.
Print Assumptions T02_text_carries_balances.

(* the export of a source as the loader produces it (valid names, whole-minute offsets, uuid texts), with a
   grammar-valid equity account, is well formed as soon as the written amounts lie in the decimal type *)
Theorem T02_export_wf : forall known eqa ras ts es md warn,
  txns_wf ts -> forallb src_txn_ok ts = true -> eq_acct_ok eqa = true ->
  equity known eqa ras ts = Some es -> amounts_fit es = true -> md_wf md = true -> warn_wf warn = true ->
  export_wf md warn es = true.
Proof. exact export_wf_of_source. Qed.
Print Assumptions T02_export_wf.

Theorem T02_text_carries_balances_src : forall cfg known eqa ras ts es md warn,
  txns_wf ts -> forallb src_txn_ok ts = true -> eq_acct_ok eqa = true ->
  equity known eqa ras ts = Some es -> es <> [] -> amounts_fit es = true -> md_wf md = true -> warn_wf warn = true ->
  exists jts, load_journal cfg (print_equity md warn es) = Ok jts /\ TextCarries eqa ras md warn ts es jts.
Proof. exact text_carries_balances_src. Qed.
Print Assumptions T02_text_carries_balances_src.

(* the five warning lines the code writes today satisfy the predicate (so every theorem applies to today's text) *)
Theorem T02_default_warn_wf : warn_wf default_warn_lines = true.
Proof. exact default_warn_wf. Qed.
Print Assumptions T02_default_warn_wf.

(* the wording of the comments is immaterial: the export written with any two choices (md, warn), (md', warn')
   of well-formed metadata and warning lines is accepted in both cases, and the loaded transactions are equal
   up to ONE component, the transaction comments (h_comments of the header, which hold exactly
   eq_comments md warn e): jt_no_comments keeps the time stamp, offset, code, description, uuid, location, tags
   and every posting with its comment.  Same order as well (the canonical order does not read comments).  In
   particular the postings the balance sees are the same *)
Theorem T02_warn_irrelevant : forall cfg md warn md' warn' es,
  es <> [] -> export_wf md warn es = true -> export_wf md' warn' es = true ->
  (forall e, In e es -> accept_txn (eq_raw_txn e) = Ok (map eq_posting (eq_all_posts e))) ->
  exists jts jts', load_journal cfg (print_equity md warn es) = Ok jts
    /\ load_journal cfg (print_equity md' warn' es) = Ok jts'
    /\ map jt_no_comments jts = map jt_no_comments jts'
    /\ jtxns_bposts jts = jtxns_bposts jts'.
Proof. exact warn_irrelevant. Qed.
Print Assumptions T02_warn_irrelevant.

(* the oracle evaluated by the check on the implementation's text is sound, and the model text satisfies its
   statement *)
Theorem T02_oracle_sound : forall cfg md warn es text,
  text_reads_as cfg md warn es text = true -> TextReadsAs cfg md warn es text.
Proof. exact text_reads_as_sound. Qed.
Print Assumptions T02_oracle_sound.

Theorem T02_model_text_reads : forall cfg md warn es,
  export_wf md warn es = true -> TextReadsAs cfg md warn es (print_equity md warn es).
Proof. exact print_equity_reads. Qed.
Print Assumptions T02_model_text_reads.

(* why parser::is_valid_id / is_valid_sub_id (Equity_spec.eq_account_ok, the first repair of F20) was not enough
   as the validation of the equity account name: "a!b" passes it, and the export written with it is rejected by
   the journal parser.  The code now applies the grammar's account-name rule (found by this extension; the
   configuration with "a!b" is rejected at start-up: corpus/T02/04), which is eq_acct_ok above *)
Theorem T02_eq_account_ok_insufficient :
  eq_account_ok t02_bad_eqa = true /\ eq_acct_ok t02_bad_eqa = false
  /\ option_map (fun es => (amounts_fit es, parse_journal (mkCfg 0 0) (print_equity [] default_warn_lines es)))
       (equity (fun _ => true) t02_bad_eqa (Some c10_ex_sel) t02_ex_ts) = Some (true, Err E_syntax).
Proof. exact eq_account_ok_insufficient. Qed.
Print Assumptions T02_eq_account_ok_insufficient.

(* F13 on the equity export: without the whole-minute offset hypothesis the header is not read back *)
Theorem T02_subminute_refuted :
  forallb (fun e => forallb eq_post_wf (eq_all_posts e)) t02_subminute_export = true
  /\ parse_journal (mkCfg 0 0) (print_equity [] default_warn_lines t02_subminute_export) = Err E_syntax.
Proof. exact subminute_export_refuted. Qed.
Print Assumptions T02_subminute_refuted.

(* non-vacuity: C10's example journal with uuids in audit mode; the model's texts (warn = default_warn_lines) are
   the implementation's two exports of it (selected side with balancing postings / everything with the
   warnings), metadata included; the exports are well formed, and the first text loads to the equity
   transactions; the second export written with another wording of the warning and no metadata lines is a
   different text that loads to the same transactions up to the transaction comments *)
Example T02_example :
  txns_wf t02_ex_ts /\ forallb src_txn_ok t02_ex_ts = true /\ eq_acct_ok c10_eo = true
  /\ t02_ex_obs t02_ex_md_sel (equity (fun _ => true) c10_eo (Some c10_ex_sel) t02_ex_ts)
     = Some (true, true, true, t02_ex_text_sel)
  /\ t02_ex_obs t02_ex_md_all (equity (fun _ => true) c10_eo None t02_ex_ts)
     = Some (true, true, true, t02_ex_text_all).
Proof. exact t02_example. Qed.
Example T02_example_loaded :
  match equity (fun _ => true) c10_eo (Some c10_ex_sel) t02_ex_ts with
  | Some es => load_journal (mkCfg 0 0) t02_ex_text_sel = Ok (sort_by jtxn_leb (map (eq_jtxn t02_ex_md_sel default_warn_lines) es))
  | None => False
  end.
Proof. exact t02_example_loaded. Qed.
Example T02_example_reworded :
  warn_wf t02_ex_warn_alt = true
  /\ match equity (fun _ => true) c10_eo None t02_ex_ts with
     | Some es =>
         export_wf [] t02_ex_warn_alt es = true
         /\ list_eqb N.eqb (print_equity [] t02_ex_warn_alt es) t02_ex_text_all = false
         /\ t02_ex_res_nc (load_journal (mkCfg 0 0) (print_equity [] t02_ex_warn_alt es))
            = t02_ex_res_nc (load_journal (mkCfg 0 0) t02_ex_text_all)
         /\ t02_ex_res_nc (load_journal (mkCfg 0 0) t02_ex_text_all) <> None
     | None => False
     end.
Proof. exact t02_example_reworded. Qed.
