(* T02 (extension, not a numbered property) — the TEXT of the equity export inside the model.
   Statements only; proofs in TkProofs.EquityText_proofs.

   Model: TkModel.EquityText.print_equity md es — EquityExporter::write_export byte for byte, from the
   exported transactions es (Equity.eq_txn, one per commodity: the result of Equity.equity) and the rendered
   metadata items md (text lines per item; rendering not modelled).  Read by the character-level journal
   grammar model of C06 (Journal.parse_journal / load_journal) this text yields exactly the syntax-level
   transactions that correspond to Equity.eq_raw_txn, the objects of C10's theorems; so C10_carry applies to
   the LOADED TEXT.  All stages are reached:
     stage 1  posting line                         T02_posting_line
     stage 2  header line, comments, transaction   T02_chunk
     stage 3  whole text                           T02_parse_export  (+ T02_parsed_is_raw, T02_description_exact,
                                                                      T02_empty_export)
     stage 4  loading (semantic layer, sort)       T02_load_export
     stage 5  composition with C10                 T02_text_carries_balances, T02_export_wf,
                                                   T02_text_carries_balances_src
   Hypothesis export_wf md es (TkSpec.EquityText_spec, decidable): metadata lines are lines; per transaction the
   time stamp is shown at a whole-minute offset with a 4-digit year (Journal_spec.ts_ok; F13: T02_subminute_refuted),
   the uuid is a uuid text, the commodity is none or an identifier without white space (Journal_spec.comm_ok);
   per posting the account is a name of the
   grammar that the semantic layer accepts (Journal_spec.name_ok, Journal.acct_sem_ok — for the equity account
   this is what Settings::try_from enforces since it runs the parser's own account-name rule on the configured
   name; the earlier check parser::is_valid_id = Equity_spec.eq_account_ok was weaker and not sufficient:
   T02_eq_account_ok_insufficient), the amount lies in the decimal type (96 bits, scale <= 28), the commodity is
   none or such an identifier; at least one posting.  T02_export_wf derives it for the export of a source as the
   loader produces it (src_txn_ok), leaving only the decimal domain of the written amounts (amounts_fit). *)
From TkModel Require Import Base Dec Acct Txn Balance Accept Equity Journal EquityText.
From TkSpec Require Import Balance_spec Equity_spec Journal_spec EquityText_spec.
From TkProofs Require Import Equity_proofs EquityText_proofs.
Local Open Scope Z_scope.

(* stage 1: a posting line of the export ("   <account>  <amount>[ <comm>]", also the balancing posting) is read
   as a posting with that account, exactly that amount (mantissa and scale), that commodity and no comment *)
Theorem T02_posting_line : forall p,
  eq_post_wf p = true -> parse_posting_line (eq_post_line p) = Some (PL_post (eq_raw_post p) None).
Proof. exact eq_post_line_roundtrip. Qed.
Print Assumptions T02_posting_line.

(* the lines written for one commodity are the lines of one transaction followed by an empty line ... *)
Theorem T02_txn_lines : forall md e, eq_txn_lines md e = eq_body md e ++ [[]].
Proof. exact eq_txn_lines_body. Qed.
Print Assumptions T02_txn_lines.

(* stage 2: ... and these lines parse to the header (time stamp and offset of the last transaction, no code,
   the description, no uuid/location/tags line, comments = metadata lines with their empty separator comments,
   then the five warnings iff present) and the postings in order *)
Theorem T02_chunk : forall cfg md e,
  eq_txn_wf e = true -> parse_chunk cfg (eq_body md e) = Some (eq_ptxn md e).
Proof. exact eq_chunk_roundtrip. Qed.
Print Assumptions T02_chunk.

(* stage 3: the text of a non-empty well-formed export is a journal of the grammar: one syntax-level
   transaction per exported commodity, in order, whatever the journal-zone setting *)
Theorem T02_parse_export : forall cfg md es,
  es <> [] -> export_wf md es = true ->
  parse_journal cfg (print_equity md es) = Ok (map (eq_ptxn md) es).
Proof. exact parse_export. Qed.
Print Assumptions T02_parse_export.

(* the postings read from the text are the raw transaction of C10 (Equity.eq_raw_txn) *)
Theorem T02_parsed_is_raw : forall md e, ptxn_raw (eq_ptxn md e) = eq_raw_txn e.
Proof. exact eq_ptxn_raw. Qed.
Print Assumptions T02_parsed_is_raw.

(* the description read back is 'Equity[ for <comm>][: last txn (uuid): <uuid>] itself unless the commodity
   name ends in white space (U+1680 is an identifier character), in which case it is trimmed *)
Theorem T02_description_exact : forall e,
  eq_desc_plain e = true -> match e_uuid e with Some u => uuid_ok u | None => true end = true ->
  trim_end (eq_desc e) = eq_desc e.
Proof. exact eq_desc_trim. Qed.
Print Assumptions T02_description_exact.

(* ... which a well-formed export excludes (Commodity::from rejects such a name, so no loaded journal has one):
   the description is read back exactly *)
Theorem T02_description_read_back : forall e, eq_txn_wf e = true -> trim_end (eq_desc e) = eq_desc e.
Proof. exact eq_desc_trim_wf. Qed.
Print Assumptions T02_description_read_back.

(* nothing at all is written for an empty balance, and the empty text is not a journal *)
Theorem T02_empty_export : forall cfg md,
  print_equity md [] = [] /\ parse_journal cfg [] = Err E_syntax.
Proof. exact empty_export. Qed.
Print Assumptions T02_empty_export.

(* stage 4: when every exported transaction passes the semantic layer (C10_balanced) the text is accepted by
   the loader and yields the equity transactions in canonical order *)
Theorem T02_load_export : forall cfg md es,
  es <> [] -> export_wf md es = true ->
  (forall e, In e es -> accept_txn (eq_raw_txn e) = Ok (map eq_posting (eq_all_posts e))) ->
  load_journal cfg (print_equity md es) = Ok (sort_by jtxn_leb (map (eq_jtxn md) es)).
Proof. exact load_export. Qed.
Print Assumptions T02_load_export.

(* stage 5, the composed corollary: the equity export TEXT of a source, loaded as a journal, is accepted, and
   the own sums of the loaded transactions are the selected balances of the source at every (account,
   commodity); the equity account additionally holds minus the total of the commodity (Equity_spec.Carried) *)
Theorem T02_text_carries_balances : forall cfg known eqa ras ts es md,
  txns_wf ts -> equity known eqa ras ts = Some es -> es <> [] -> export_wf md es = true ->
  exists jts, load_journal cfg (print_equity md es) = Ok jts /\ TextCarries eqa ras md ts es jts.
Proof. exact text_carries_balances. Qed.
Print Assumptions T02_text_carries_balances.

(* the export of a source as the loader produces it (valid names, whole-minute offsets, uuid texts), with a
   grammar-valid equity account, is well formed as soon as the written amounts lie in the decimal type *)
Theorem T02_export_wf : forall known eqa ras ts es md,
  txns_wf ts -> forallb src_txn_ok ts = true -> eq_acct_ok eqa = true ->
  equity known eqa ras ts = Some es -> amounts_fit es = true -> md_wf md = true ->
  export_wf md es = true.
Proof. exact export_wf_of_source. Qed.
Print Assumptions T02_export_wf.

Theorem T02_text_carries_balances_src : forall cfg known eqa ras ts es md,
  txns_wf ts -> forallb src_txn_ok ts = true -> eq_acct_ok eqa = true ->
  equity known eqa ras ts = Some es -> es <> [] -> amounts_fit es = true -> md_wf md = true ->
  exists jts, load_journal cfg (print_equity md es) = Ok jts /\ TextCarries eqa ras md ts es jts.
Proof. exact text_carries_balances_src. Qed.
Print Assumptions T02_text_carries_balances_src.

(* the oracle evaluated by the check on the implementation's text is sound, and the model text satisfies its
   statement *)
Theorem T02_oracle_sound : forall cfg md es text,
  text_reads_as cfg md es text = true -> TextReadsAs cfg md es text.
Proof. exact text_reads_as_sound. Qed.
Print Assumptions T02_oracle_sound.

Theorem T02_model_text_reads : forall cfg md es,
  export_wf md es = true -> TextReadsAs cfg md es (print_equity md es).
Proof. exact print_equity_reads. Qed.
Print Assumptions T02_model_text_reads.

(* why parser::is_valid_id / is_valid_sub_id (Equity_spec.eq_account_ok, the first repair of F20) was not enough
   as the validation of the equity account name: "a!b" passes it, and the export written with it is rejected by
   the journal parser.  The code now applies the grammar's account-name rule (found by this extension; the
   configuration with "a!b" is rejected at start-up: corpus/T02/04), which is eq_acct_ok above *)
Theorem T02_eq_account_ok_insufficient :
  eq_account_ok t02_bad_eqa = true /\ eq_acct_ok t02_bad_eqa = false
  /\ option_map (fun es => (amounts_fit es, parse_journal (mkCfg 0 0) (print_equity [] es)))
       (equity (fun _ => true) t02_bad_eqa (Some c10_ex_sel) t02_ex_ts) = Some (true, Err E_syntax).
Proof. exact eq_account_ok_insufficient. Qed.
Print Assumptions T02_eq_account_ok_insufficient.

(* F13 on the equity export: without the whole-minute offset hypothesis the header is not read back *)
Theorem T02_subminute_refuted :
  forallb (fun e => forallb eq_post_wf (eq_all_posts e)) t02_subminute_export = true
  /\ parse_journal (mkCfg 0 0) (print_equity [] t02_subminute_export) = Err E_syntax.
Proof. exact subminute_export_refuted. Qed.
Print Assumptions T02_subminute_refuted.

(* non-vacuity: C10's example journal with uuids in audit mode; the model's texts are the implementation's two
   exports of it (selected side with balancing postings / everything with the warnings), metadata included;
   the exports are well formed, and the first text loads to the equity transactions *)
Example T02_example :
  txns_wf t02_ex_ts /\ forallb src_txn_ok t02_ex_ts = true /\ eq_acct_ok c10_eo = true
  /\ t02_ex_obs t02_ex_md_sel (equity (fun _ => true) c10_eo (Some c10_ex_sel) t02_ex_ts)
     = Some (true, true, true, t02_ex_text_sel)
  /\ t02_ex_obs t02_ex_md_all (equity (fun _ => true) c10_eo None t02_ex_ts)
     = Some (true, true, true, t02_ex_text_all).
Proof. exact t02_example. Qed.
Example T02_example_loaded :
  match equity (fun _ => true) c10_eo (Some c10_ex_sel) t02_ex_ts with
  | Some es => load_journal (mkCfg 0 0) t02_ex_text_sel = Ok (sort_by jtxn_leb (map (eq_jtxn t02_ex_md_sel) es))
  | None => False
  end.
Proof. exact t02_example_loaded. Qed.
