(* C10 — Equity export carries every selected balance forward exactly.
   Statements only; proofs in TkProofs.Equity_proofs.
   equity known eqa ras ts: TxnData::from (sort) + EquityExporter::write_export, at AST level;
   ras = None: no equity account selectors, Some m: m = "some selector matches the account".
   txns_wf: every posting has scale <= 28 and a well-formed account name.
   The theorems are at AST level and hold for every equity account eqa; that the posting line
   written for it is read back as that account needs a grammar-valid name
   (Equity_spec.eq_account_ok2), which Settings::try_from enforces when the equity export is a
   target (F20); the check exercises both sides of that condition. *)
From Coq Require Import Sorted.
From TkModel Require Import Base Dec Acct Txn Balance Accept Equity.
From TkSpec Require Import Balance_spec Equity_spec.
From TkProofs Require Import Equity_proofs.
Local Open Scope Z_scope.

(* one transaction per commodity that has a selected non-zero balance (ascending), each dated
   and labelled with a greatest header of the set; its postings are exactly the selected
   non-zero balances of that commodity (each once, by account) with amount = exact own sum;
   the balancing posting to the equity account is present iff the carried balances do not
   cancel, with amount = minus their total; otherwise the WARNING lines are present *)
Theorem C10_shape : forall known eqa ras ts es,
  txns_wf ts -> equity known eqa ras ts = Some es -> Shape eqa ras ts es.
Proof. exact equity_shape. Qed.
Print Assumptions C10_shape.

(* the date of every exported transaction is the instant of a transaction of the set and no
   transaction of the set is later *)
Theorem C10_dated : forall known eqa ras ts es,
  equity known eqa ras ts = Some es ->
  forall e, In e es ->
  (exists t, In t ts /\ h_inst (t_hdr t) = e_inst e) /\ forall t, In t ts -> h_inst (t_hdr t) <= e_inst e.
Proof. exact equity_dated. Qed.
Print Assumptions C10_dated.

(* every exported transaction, written with explicit amounts, is accepted by the journal's
   semantic layer (C01's accept_txn: non-zero amounts, one commodity, zero sum), and the
   accepted postings are exactly the exported ones *)
Theorem C10_balanced : forall known eqa ras ts es,
  txns_wf ts -> equity known eqa ras ts = Some es ->
  forall e, In e es -> exists ps, accept_txn (eq_raw_txn e) = Ok ps /\ accepted_as_exported e ps.
Proof. exact equity_balanced. Qed.
Print Assumptions C10_balanced.

(* at every (account, commodity) the postings of the export sum to the balance of the source
   there if the account is selected and to nothing otherwise; the equity account additionally
   holds minus the total of the commodity over the selected accounts *)
Theorem C10_carry : forall known eqa ras ts es,
  txns_wf ts -> equity known eqa ras ts = Some es ->
  Carried eqa ras (txn_bposts ts) (eq_bposts es).
Proof. exact equity_carry. Qed.
Print Assumptions C10_carry.

(* ... and so does the journal consisting of the export, which is accepted as a whole *)
Theorem C10_carry_journal : forall known eqa ras ts es,
  txns_wf ts -> equity known eqa ras ts = Some es ->
  exists pss, accept_journal (map eq_raw_txn es) = Ok pss
    /\ Carried eqa ras (txn_bposts ts) (flat_map (map post_bpost) pss).
Proof. exact equity_carry_journal. Qed.
Print Assumptions C10_carry_journal.

(* the export never fails when every account name resolves (lax mode, or complete chart) *)
Theorem C10_total : forall known eqa ras ts,
  txns_wf ts -> (forall a, known a = true) -> exists es, equity known eqa ras ts = Some es.
Proof. exact equity_total. Qed.
Print Assumptions C10_total.

(* the oracles evaluated on the implementation's outputs are sound *)
Theorem C10_oracle_sound : forall eqa ras insts ps ets,
  export_ok eqa ras insts ps ets = true -> ExportOk eqa ras insts ps ets.
Proof. exact export_ok_sound. Qed.
Print Assumptions C10_oracle_sound.

Theorem C10_rows_oracle_sound : forall eqa src exp,
  rows_carry_ok eqa src exp = true -> RowsCarried eqa src exp.
Proof. exact rows_carry_ok_sound. Qed.
Print Assumptions C10_rows_oracle_sound.

(* the equity account of the examples is a name the configuration accepts *)
Example C10_eq_account_ok_example :
  eq_account_ok2 c10_eo = true /\ eq_account_ok2 [[97]; [32; 98]]%N = false /\ eq_account_ok2 [[]] = false
  /\ eq_account_ok [[97; 33; 98]]%N = true /\ eq_account_ok2 [[97; 33; 98]]%N = false.
Proof. exact eq_account_ok_example. Qed.

(* non-vacuity: transactions out of order, two commodities, an account that cancels to zero;
   a one-sided selection (balancing postings) and the full selection (cancelling: warnings) *)
Example C10_example :
  txns_wf c10_ex_ts
  /\ c10_ex_view (equity (fun _ => true) c10_eo (Some c10_ex_sel) c10_ex_ts)
     = Some [ (30, [], false, [(c10_ab, 3, 0); (c10_ac, 2, 0); (c10_eo, -5, 0)]);
              (30, c10_E, false, [(c10_e, -150, 2); (c10_eo, 150, 2)]) ]
  /\ c10_ex_view (equity (fun _ => true) c10_eo None c10_ex_ts)
     = Some [ (30, [], true, [(c10_ab, 3, 0); (c10_ac, 2, 0); (c10_x, -5, 0)]);
              (30, c10_E, true, [(c10_e, -150, 2); (c10_x, 15, 1)]) ].
Proof. exact equity_example. Qed.
