(* T03 — extension (not a numbered property): the TEXT of the price data base inside the model, so that the
   theorems of C07 speak about price FILES and not only about lists of entries.
   Statements only; proofs in TkProofs.PriceText_proofs.
   Model: TkModel.PriceText — parse_pricedb transcribes pricedb_parser.rs pricedb_from_str and
   parts/pricedb.rs parse_price_entry character for character (up to `.sorted().dedup()`, which is
   Price.load_db), on the token parsers of TkModel.Journal (the same Rust functions serve both grammars):
       pricedb := (sp* NL)*  entry+  EOF            sp = ' ' | TAB     NL = "\n" | "\r\n"
       entry   := 'P' sp+ ts sp+ id sp+ num sp+ id sp* comment? NL ms*            ms = sp | '\r' | '\n'
   print_pricedb is the canonical text `P <rfc3339 +00:00> <base> <rate> <eq>\n` per entry;
   print_pricedb_with pre les writes leading blank lines pre and every entry in its own layout (runs of
   blanks/TABs between the fields, optional comment, "\n" or "\r\n", any run of multispace characters after
   the line: blank lines, indentation of the next entry, lone carriage returns; time stamp at any offset).
   Well-formedness (TkSpec.PriceText_spec, built from Journal_spec.ts_ok / comm_ok and Dec.fits — the
   predicates of C06): pentry_wf_at off e = the instant is printable at offset off, both commodities are
   identifiers that Commodity::from accepts, the rate has a 96-bit mantissa and scale <= 28.
   entry_known cfg e = in strict mode both commodities are in commodities.names. *)
From Coq Require Import Permutation.
From TkModel Require Import Base Dec Acct Txn Accept Journal Price PriceText.
From TkSpec Require Import Journal_spec Price_spec PriceText_spec.
From TkProofs Require Import PriceText_proofs.
Local Open Scope Z_scope.

(* the canonical text of a non-empty list of well-formed entries is read back as exactly these entries *)
Theorem T03_roundtrip : forall cfg es,
  es <> [] -> forallb pentry_wf es = true -> forallb (entry_known cfg) es = true ->
  parse_pricedb cfg (print_pricedb es) = Ok es.
Proof. exact pricedb_roundtrip. Qed.
Print Assumptions T03_roundtrip.

(* ... and so is every layout the grammar allows: blank lines first, then per entry any blanks between the
   fields, an optional comment (with or without blanks before the ';'), LF or CRLF, and after the line any
   blank lines / indentation of the next entry / lone CRs; time stamps written at any whole-minute offset *)
Theorem T03_layout_roundtrip : forall cfg pre les,
  les <> [] -> forallb blank_line_ok pre = true -> forallb laid_ok les = true ->
  forallb (entry_known cfg) (map snd les) = true ->
  parse_pricedb cfg (print_pricedb_with pre les) = Ok (map snd les).
Proof. exact pricedb_layout_roundtrip. Qed.
Print Assumptions T03_layout_roundtrip.

(* blank lines (blanks/TABs + line end) before the first entry, and after every entry line any run of
   multispace characters — blank lines between and after the entries, leading blanks before the 'P' of a
   FOLLOWING entry —, do not change the parse result of the canonical file *)
Theorem T03_blank_lines : forall cfg pre (ges : list (list N * pentry)),
  ges <> [] -> forallb blank_line_ok pre = true ->
  forallb (fun ge => forallb is_msp (fst ge)) ges = true ->
  forallb pentry_wf (map snd ges) = true -> forallb (entry_known cfg) (map snd ges) = true ->
  parse_pricedb cfg (print_pricedb_with pre (map (fun ge => (gap_layout (fst ge), snd ge)) ges))
  = parse_pricedb cfg (print_pricedb (map snd ges)).
Proof. exact pricedb_blank_lines. Qed.
Print Assumptions T03_blank_lines.

(* what the grammar does NOT allow: blanks before the 'P' of the FIRST entry — at the very start or after
   leading blank lines — are an error, whatever follows (confirmed on the implementation) *)
Theorem T03_first_entry_not_indented : forall cfg pre ws rest,
  forallb blank_line_ok pre = true -> blanks1 ws = true ->
  parse_pricedb cfg (blanks_text pre ++ ws ++ 80%N :: rest) = Err E_price_syntax.
Proof. exact first_entry_indented. Qed.
Print Assumptions T03_first_entry_not_indented.

(* the model is total: for EVERY text the outcome is a non-empty list of entries or the syntax error — never
   the model's own fuel error —, and any larger fuel gives the same outcome *)
Theorem T03_total : forall cfg s,
  ((exists es, parse_pricedb cfg s = Ok es /\ es <> []) \/ parse_pricedb cfg s = Err E_price_syntax)
  /\ forall fuel, (length s < fuel)%nat -> parse_pricedb_fuel fuel cfg s = parse_pricedb cfg s.
Proof. exact parse_pricedb_total. Qed.
Print Assumptions T03_total.

(* a text without any entry — no 'P' at all: the empty file, blank lines only, ... — is an error *)
Theorem T03_empty_rejected : forall cfg s,
  forallb (fun c => negb (c =? 80)%N) s = true -> parse_pricedb cfg s = Err E_price_syntax.
Proof. exact no_entry_rejected. Qed.
Print Assumptions T03_empty_rejected.

Theorem T03_blank_only_rejected : forall cfg s,
  forallb is_msp s = true -> parse_pricedb cfg s = Err E_price_syntax.
Proof. exact blank_only_rejected. Qed.
Print Assumptions T03_blank_only_rejected.

(* what acceptance says: every entry read from an accepted file has acceptable commodities (known ones in
   strict mode), a representable rate and an instant printable at the offset it was written with
   (cfg_ok: the journal zone is a fixed whole-minute offset; the chart's names passed Commodity::from) *)
Theorem T03_accepted_entries : forall cfg s es,
  cfg_ok (pd_ts cfg) = true -> forallb comm_sem_ok (pd_comms cfg) = true ->
  parse_pricedb cfg s = Ok es -> es <> [] /\ Forall (entry_fields_ok cfg) es.
Proof. exact accepted_entries. Qed.
Print Assumptions T03_accepted_entries.

(* canonicalisation: the canonical text of what was read from ANY accepted file reads as the same entries *)
Theorem T03_accepted_canonical : forall cfg s es,
  cfg_ok (pd_ts cfg) = true -> forallb comm_sem_ok (pd_comms cfg) = true ->
  parse_pricedb cfg s = Ok es -> forallb (fun e => ts_ok (pe_ts e) 0) es = true ->
  parse_pricedb cfg (print_pricedb es) = Ok es.
Proof. exact accepted_canonical. Qed.
Print Assumptions T03_accepted_canonical.

(* composition with Price.load_db: reading the text and then converting IS C07's pipeline on the entries
   of the text (convert_one / price_run of TkModel.Price, the subjects of C07's theorems) *)
Theorem T03_load : forall cfg s f lk txns tgt target t p,
  parse_pricedb cfg s = Ok f ->
  load_pricedb cfg s = Ok (load_db f)
  /\ text_convert_one cfg lk txns tgt s t p = Ok (convert_one lk txns tgt f t p)
  /\ text_price_run cfg lk target s txns = Ok (price_run lk target f txns).
Proof. exact load_pricedb_spec. Qed.
Print Assumptions T03_load.

(* C07_rate over file TEXTS: the rate applied to a posting is the rate written in the latest applicable
   line of the file (f = the lines of the text, in file order) ... *)
Theorem T03_text_rate : forall cfg s f lk txns tgt t p e,
  parse_pricedb cfg s = Ok f -> distinct_keys f ->
  p_comm p <> [] -> p_comm p <> tgt -> In (p_comm p) (posting_comms txns) ->
  RateAt lk f tgt (p_comm p) t e ->
  text_convert_one cfg lk txns tgt s t p = Ok (converted lk tgt p e).
Proof. exact text_rate. Qed.
Print Assumptions T03_text_rate.

(* ... and for a text written in any allowed layout the lines ARE the entries: no parse hypothesis left *)
Theorem T03_text_rate_printed : forall cfg pre les lk txns tgt t p e,
  les <> [] -> forallb blank_line_ok pre = true -> forallb laid_ok les = true ->
  forallb (entry_known cfg) (map snd les) = true -> distinct_keys (map snd les) ->
  p_comm p <> [] -> p_comm p <> tgt -> In (p_comm p) (posting_comms txns) ->
  RateAt lk (map snd les) tgt (p_comm p) t e ->
  text_convert_one cfg lk txns tgt (print_pricedb_with pre les) t p = Ok (converted lk tgt p e).
Proof. exact text_rate_printed. Qed.
Print Assumptions T03_text_rate_printed.

(* C07_file_order over file TEXTS: the lines of a canonical file (distinct keys) in ANY order are accepted
   and give the same stored data base and the same converted results *)
Theorem T03_line_order : forall cfg lk target es ls txns,
  es <> [] -> forallb pentry_wf es = true -> forallb (entry_known cfg) es = true -> distinct_keys es ->
  Permutation ls (map print_entry es) ->
  load_pricedb cfg (concat ls) = load_pricedb cfg (print_pricedb es)
  /\ text_price_run cfg lk target (concat ls) txns = text_price_run cfg lk target (print_pricedb es) txns
  /\ exists db, load_pricedb cfg (concat ls) = Ok db.
Proof. exact text_line_order. Qed.
Print Assumptions T03_line_order.

(* non-vacuity: a file with leading blank lines, a comment without leading blank, CRLF, a blank line, an
   indented second entry written with TABs, a fraction and 'Z', a negative rate, a trailing lone CR; strict
   mode with all three commodities declared; journal zone +02:00 and default time 12:00 (the date-only
   stamp).  Its canonical text; the same indented at the start (rejected); one commodity undeclared
   (rejected); blank lines only (rejected). *)
Example T03_example :
  parse_pricedb ex_cfg ex_text = Ok ex_entries
  /\ forallb pentry_wf ex_entries = true /\ forallb (entry_known ex_cfg) ex_entries = true
  /\ parse_pricedb ex_cfg (print_pricedb ex_entries) = Ok ex_entries
  /\ parse_pricedb ex_cfg (32%N :: print_pricedb ex_entries) = Err E_price_syntax
  /\ parse_pricedb ex_cfg (10%N :: 32%N :: print_pricedb ex_entries) = Err E_price_syntax
  /\ parse_pricedb (mkPdCfg (pd_ts ex_cfg) true [[69; 85; 82]; [88; 65; 85]]%N) ex_text = Err E_price_syntax
  /\ parse_pricedb ex_cfg [32; 10; 10]%N = Err E_price_syntax.
Proof. exact pricedb_example. Qed.
