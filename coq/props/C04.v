(* C04 — Results depend only on the set of transactions, not on how it was supplied.
   Statements only; proofs in TkProofs.Order_proofs / Invariance_proofs. *)
From Coq Require Import Permutation Sorted.
From TkModel Require Import Base Dec Acct Txn Balance.
From TkSpec Require Import Balance_spec.
From TkProofs Require Import Order_proofs Invariance_proofs.
Local Open Scope Z_scope.

(* TxnData::from: the transaction set is a sorted permutation of what was loaded *)
Theorem C04_canonical : forall l,
  StronglySorted txn_le (sort_txns l) /\ Permutation (sort_txns l) l.
Proof. intro l. split; [exact (sort_txns_sorted l)|exact (sort_txns_perm l)]. Qed.
Print Assumptions C04_canonical.

(* pairwise distinguishable transactions: every arrangement gives the identical
   sequence, hence every report/export/checksum model (functions of that sequence)
   gives identical output *)
Theorem C04_perm : forall l l',
  Permutation l l' -> distinct_hdrs l -> sort_txns l = sort_txns l'.
Proof. exact sort_txns_perm_eq. Qed.
Print Assumptions C04_perm.

(* any distribution over files and directories, files read in any order *)
Theorem C04_shards : forall files files',
  Permutation (concat files) (concat files') -> distinct_hdrs (concat files) ->
  sort_txns (concat files) = sort_txns (concat files').
Proof. exact sort_txns_shards. Qed.
Print Assumptions C04_shards.

Theorem C04_file_order : forall files files',
  Permutation files files' -> distinct_hdrs (concat files) ->
  sort_txns (concat files) = sort_txns (concat files').
Proof. exact sort_txns_file_order. Qed.
Print Assumptions C04_file_order.

(* loading an already canonical sequence changes nothing *)
Theorem C04_idempotent : forall l, sort_txns (sort_txns l) = sort_txns l.
Proof. exact sort_txns_idem. Qed.
Print Assumptions C04_idempotent.

(* without the distinctness hypothesis the figures (as numbers) are still invariant:
   the balance specification of C02 only sees the multiset of postings *)
Theorem C04_numbers_always : forall ps ps',
  Permutation ps ps' ->
  (forall k, spec_own ps k = spec_own ps' k)
  /\ (forall k, spec_tree ps k = spec_tree ps' k)
  /\ (forall k, In k (spec_keys ps) <-> In k (spec_keys ps')).
Proof.
  intros ps ps' H. split; [|split].
  - intro k. exact (spec_own_perm ps ps' k H).
  - intro k. exact (spec_tree_perm ps ps' k H).
  - exact (spec_keys_perm ps ps' H).
Qed.
Print Assumptions C04_numbers_always.

(* non-vacuity: two distinguishable transactions with equal instants *)
Example C04_example :
  let h1 := mkHeader 5 0 None (Some [97]%N) None None [] [] in
  let h2 := mkHeader 5 7200 (Some [98]%N) None None None [] [] in
  let l := [mkTxn h2 []; mkTxn h1 []] in
  distinct_hdrs l /\ sort_txns l = [mkTxn h1 []; mkTxn h2 []]
  /\ sort_txns (rev l) = sort_txns l.
Proof.
  cbv zeta. split; [|split; reflexivity].
  split.
  - constructor; [|constructor; [|constructor]]; cbn; intuition discriminate.
  - intros a b [Ha|[Ha|[]]] [Hb|[Hb|[]]]; subst; cbn; intros E; try reflexivity; discriminate.
Qed.
