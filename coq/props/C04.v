(* C04 — Results depend only on the set of transactions, not on how it was supplied.
   Statements only; proofs in TkProofs.Order_proofs / Invariance_proofs. *)
From Coq Require Import Permutation Sorted.
From TkModel Require Import Base Dec Acct Txn Balance.
From TkSpec Require Import Balance_spec.
From TkProofs Require Import Order_proofs Invariance_proofs.
From TkModel Require Import Txn Accept Journal.
From TkProofs Require Import Journal_layout_proofs.
Local Open Scope Z_scope.

(* TxnData::from: the transaction set is a sorted permutation of what was loaded *)
Theorem C04_canonical : forall l,
  StronglySorted txn_le (sort_txns l) /\ Permutation (sort_txns l) l.
Proof. intro l. split; [exact (sort_txns_sorted l)|exact (sort_txns_perm l)]. Qed.
Print Assumptions C04_canonical.

(* pairwise distinguishable transactions: every arrangement gives the identical
   sequence, hence every report/export/checksum model (functions of that sequence)
   gives identical output *)
Theorem C04_perm : forall l l',
  Permutation l l' -> distinct_hdrs l -> sort_txns l = sort_txns l'.
Proof. exact sort_txns_perm_eq. Qed.
Print Assumptions C04_perm.

(* any distribution over files and directories, files read in any order *)
Theorem C04_shards : forall files files',
  Permutation (concat files) (concat files') -> distinct_hdrs (concat files) ->
  sort_txns (concat files) = sort_txns (concat files').
Proof. exact sort_txns_shards. Qed.
Print Assumptions C04_shards.

Theorem C04_file_order : forall files files',
  Permutation files files' -> distinct_hdrs (concat files) ->
  sort_txns (concat files) = sort_txns (concat files').
Proof. exact sort_txns_file_order. Qed.
Print Assumptions C04_file_order.

(* loading an already canonical sequence changes nothing *)
Theorem C04_idempotent : forall l, sort_txns (sort_txns l) = sort_txns l.
Proof. exact sort_txns_idem. Qed.
Print Assumptions C04_idempotent.

(* without the distinctness hypothesis the figures (as numbers) are still invariant:
   the balance specification of C02 only sees the multiset of postings *)
Theorem C04_numbers_always : forall ps ps',
  Permutation ps ps' ->
  (forall k, spec_own ps k = spec_own ps' k)
  /\ (forall k, spec_tree ps k = spec_tree ps' k)
  /\ (forall k, In k (spec_keys ps) <-> In k (spec_keys ps')).
Proof.
  intros ps ps' H. split; [|split].
  - intro k. exact (spec_own_perm ps ps' k H).
  - intro k. exact (spec_tree_perm ps ps' k H).
  - exact (spec_keys_perm ps ps' H).
Qed.
Print Assumptions C04_numbers_always.

(* non-vacuity: two distinguishable transactions with equal instants *)
Example C04_example :
  let h1 := mkHeader 5 0 None (Some [97]%N) None None [] [] in
  let h2 := mkHeader 5 7200 (Some [98]%N) None None None [] [] in
  let l := [mkTxn h2 []; mkTxn h1 []] in
  distinct_hdrs l /\ sort_txns l = [mkTxn h1 []; mkTxn h2 []]
  /\ sort_txns (rev l) = sort_txns l.
Proof.
  cbv zeta. split; [|split; reflexivity].
  split.
  - constructor; [|constructor; [|constructor]]; cbn; intuition discriminate.
  - intros a b [Ha|[Ha|[]]] [Hb|[Hb|[]]]; subst; cbn; intros E; try reflexivity; discriminate.
Qed.

(* ------------------------------------------------------------------ insignificant layout of the journal
   text (character-level parser model TkModel.Journal, tied to the implementation by the C06
   correspondence check).  Proofs in TkProofs.Journal_layout_proofs. *)

(* texts are built from newline-free lines, each followed by '\n' *)
Theorem C04_unlines_split : forall ls, forallb (forallb (fun c => negb (c =? 10)%N)) ls = true ->
  split_lines (unlines ls) = (ls, []).
Proof. exact split_lines_unlines. Qed.
Print Assumptions C04_unlines_split.

(* BLANK LINES.  Chunks (= transactions) of a list of lines: additional blank lines where there already
   is a chunk boundary — before the first line, after the last, next to a blank line — change nothing *)
Theorem C04_layout_blank_lines_chunks : forall a blanks b, Forall (fun l => is_blank l = true) blanks ->
  (a = [] \/ b = [] \/ (exists p x, a = p ++ [x] /\ is_blank x = true) \/ (exists x q, b = x :: q /\ is_blank x = true)) ->
  chunks (a ++ blanks ++ b) = chunks (a ++ b).
Proof. exact insert_blanks_chunks. Qed.
Print Assumptions C04_layout_blank_lines_chunks.

(* any non-empty run of blank lines, anywhere, can be replaced by any other non-empty run *)
Theorem C04_layout_blank_run_chunks : forall a blanks1 blanks2 b, blanks1 <> [] -> blanks2 <> [] ->
  Forall (fun l => is_blank l = true) blanks1 -> Forall (fun l => is_blank l = true) blanks2 ->
  chunks (a ++ blanks1 ++ b) = chunks (a ++ blanks2 ++ b).
Proof. exact blank_run_chunks. Qed.
Print Assumptions C04_layout_blank_run_chunks.

(* the side condition cannot be dropped: inside a run of non-blank lines a blank line IS significant,
   it makes two chunks out of one *)
Theorem C04_layout_blank_inside_significant : forall a bs b, a <> [] -> b <> [] -> bs <> [] ->
  forallb (fun l => negb (is_blank l)) a = true -> forallb (fun l => negb (is_blank l)) b = true ->
  forallb is_blank bs = true ->
  chunks (a ++ b) = [a ++ b] /\ chunks (a ++ bs ++ b) = [a; b].
Proof. exact chunks_blank_inside. Qed.
Print Assumptions C04_layout_blank_inside_significant.

(* the same for the text.  A blank text line holds blanks/TABs only and ends in "\n" or "\r\n" *)
Theorem C04_layout_blank_lines : forall cfg a blanks b,
  forallb (forallb (fun c => negb (c =? 10)%N)) a = true -> forallb (forallb (fun c => negb (c =? 10)%N)) b = true ->
  forallb (fun l => is_blank (strip_cr l)) blanks = true ->
  (a = [] \/ b = [] \/ (exists p x, a = p ++ [x] /\ is_blank (strip_cr x) = true)
   \/ (exists x q, b = x :: q /\ is_blank (strip_cr x) = true)) ->
  parse_journal cfg (unlines (a ++ blanks ++ b)) = parse_journal cfg (unlines (a ++ b)).
Proof. exact parse_journal_insert_blanks. Qed.
Print Assumptions C04_layout_blank_lines.

Theorem C04_layout_blank_run : forall cfg a blanks1 blanks2 b,
  forallb (forallb (fun c => negb (c =? 10)%N)) a = true -> forallb (forallb (fun c => negb (c =? 10)%N)) b = true ->
  blanks1 <> [] -> blanks2 <> [] ->
  forallb (fun l => is_blank (strip_cr l)) blanks1 = true -> forallb (fun l => is_blank (strip_cr l)) blanks2 = true ->
  parse_journal cfg (unlines (a ++ blanks1 ++ b)) = parse_journal cfg (unlines (a ++ blanks2 ++ b)).
Proof. exact parse_journal_blank_run_any. Qed.
Print Assumptions C04_layout_blank_run.

(* INDENTATION.  sp1 in front of a posting, metadata or comment line is any non-empty run of
   blanks/TABs: only what follows it matters *)
Theorem C04_layout_indent : forall sp1 sp2 r, sp1 <> [] -> sp2 <> [] ->
  forallb is_sp sp1 = true -> forallb is_sp sp2 = true ->
  parse_posting_line (sp1 ++ r) = parse_posting_line (sp2 ++ r)
  /\ parse_meta_line (sp1 ++ r) = parse_meta_line (sp2 ++ r)
  /\ parse_comment_line (sp1 ++ r) = parse_comment_line (sp2 ++ r).
Proof. exact reindent_lines. Qed.
Print Assumptions C04_layout_indent.

(* but it must be there *)
Theorem C04_layout_indent_required : forall r, match r with [] => true | c :: _ => negb (is_sp c) end = true ->
  parse_posting_line r = None /\ parse_meta_line r = None /\ parse_comment_line r = None.
Proof. exact line_needs_indent. Qed.
Print Assumptions C04_layout_indent_required.

(* the whole text: two texts whose lines differ only in the run of blanks/TABs they start with (where one
   has none the other has none) give the same result — the same transactions or the same rejection *)
Theorem C04_layout_indent_text : forall cfg ls ls',
  forallb (forallb (fun c => negb (c =? 10)%N)) ls = true -> forallb (forallb (fun c => negb (c =? 10)%N)) ls' = true ->
  Forall2 (fun l l' => exists sp1 sp2 r, l = sp1 ++ r /\ l' = sp2 ++ r
             /\ forallb is_sp sp1 = true /\ forallb is_sp sp2 = true /\ (sp1 = [] <-> sp2 = [])) ls ls' ->
  parse_journal cfg (unlines ls) = parse_journal cfg (unlines ls').
Proof. exact parse_journal_reindent. Qed.
Print Assumptions C04_layout_indent_text.

(* ORDER OF THE METADATA LINES.  The metadata parser gives the same result — the same record and the
   same remaining lines, or the same rejection — for every arrangement of a block of '#' lines
   (arbitrary contents; a '#' line is one that parse_meta_line recognises as sp1 '#' ...) *)
Theorem C04_layout_meta_order : forall ms ms', Permutation ms ms' ->
  Forall (fun l => parse_meta_line l <> None) ms ->
  forall rest u g t, parse_meta (ms ++ rest) u g t = parse_meta (ms' ++ rest) u g t.
Proof. exact parse_meta_perm. Qed.
Print Assumptions C04_layout_meta_order.

(* spelled out: the six orders of three lines, the two orders of a pair *)
Theorem C04_layout_meta_order3 : forall l1 l2 l3 rest u g t,
  parse_meta_line l1 <> None -> parse_meta_line l2 <> None -> parse_meta_line l3 <> None ->
  let r := parse_meta (l1 :: l2 :: l3 :: rest) u g t in
  parse_meta (l1 :: l3 :: l2 :: rest) u g t = r /\ parse_meta (l2 :: l1 :: l3 :: rest) u g t = r
  /\ parse_meta (l2 :: l3 :: l1 :: rest) u g t = r /\ parse_meta (l3 :: l1 :: l2 :: rest) u g t = r
  /\ parse_meta (l3 :: l2 :: l1 :: rest) u g t = r.
Proof. exact parse_meta_order3. Qed.
Print Assumptions C04_layout_meta_order3.

Theorem C04_layout_meta_order2 : forall l1 l2 rest u g t,
  parse_meta_line l1 <> None -> parse_meta_line l2 <> None ->
  parse_meta (l2 :: l1 :: rest) u g t = parse_meta (l1 :: l2 :: rest) u g t.
Proof. exact parse_meta_order2. Qed.
Print Assumptions C04_layout_meta_order2.

(* and the record is the full one: a uuid, a location and a tags line in any order *)
Theorem C04_layout_meta_three : forall ms l1 l2 l3 vu vg vt rest, Permutation ms [l1; l2; l3] ->
  parse_meta_line l1 = Some (Some (M_uuid vu)) -> parse_meta_line l2 = Some (Some (M_loc vg)) ->
  parse_meta_line l3 = Some (Some (M_tags vt)) ->
  match rest with [] => True | l :: _ => parse_meta_line l = None end ->
  parse_meta (ms ++ rest) None None None = Some (Some vu, Some vg, Some vt, rest).
Proof. exact parse_meta_three. Qed.
Print Assumptions C04_layout_meta_three.

(* the transaction, and the whole text: any arrangement of a block of consecutive '#' lines *)
Theorem C04_layout_meta_order_chunk : forall cfg hl ms ms' rest, Permutation ms ms' ->
  Forall (fun l => parse_meta_line l <> None) ms ->
  parse_chunk cfg (hl :: ms ++ rest) = parse_chunk cfg (hl :: ms' ++ rest).
Proof. exact parse_chunk_meta_order. Qed.
Print Assumptions C04_layout_meta_order_chunk.

Theorem C04_layout_meta_order_text : forall cfg pre ms ms' post,
  forallb (forallb (fun c => negb (c =? 10)%N)) (pre ++ ms ++ post) = true -> Permutation ms ms' ->
  Forall (fun l => parse_meta_line (strip_cr l) <> None) ms ->
  parse_journal cfg (unlines (pre ++ ms ++ post)) = parse_journal cfg (unlines (pre ++ ms' ++ post)).
Proof. exact parse_journal_meta_order. Qed.
Print Assumptions C04_layout_meta_order_text.

(* non-vacuity: one transaction with three metadata lines, a comment and two postings is accepted; the
   same with another order of the metadata, TAB indentation and blank lines (one of them "  \r\n")
   around it parses to the same transaction; the same with a blank line inside is rejected *)
Example C04_layout_example :
  let cfg := mkCfg 0 0 in
  (exists pt, parse_journal cfg [50; 48; 50; 52; 45; 48; 49; 45; 48; 49; 32; 39; 120; 10; 32; 32; 35; 32; 117; 117; 105; 100; 58; 32; 53; 48; 54; 97; 50; 100; 53; 53; 45; 50; 51; 55; 53; 45; 52; 100; 53; 49; 45; 97; 102; 51; 97; 45; 99; 102; 53; 48; 50; 49; 102; 48; 52; 100; 101; 57; 10; 32; 32; 35; 32; 108; 111; 99; 97; 116; 105; 111; 110; 58; 32; 103; 101; 111; 58; 54; 48; 46; 49; 44; 50; 52; 46; 57; 10; 32; 32; 35; 32; 116; 97; 103; 115; 58; 32; 97; 44; 32; 98; 10; 32; 32; 59; 32; 99; 10; 32; 32; 101; 32; 32; 49; 10; 32; 32; 97; 10]%N = Ok [pt] /\ parse_journal cfg [32; 10; 9; 10; 50; 48; 50; 52; 45; 48; 49; 45; 48; 49; 32; 39; 120; 10; 9; 35; 32; 116; 97; 103; 115; 58; 32; 97; 44; 32; 98; 10; 32; 9; 32; 35; 32; 117; 117; 105; 100; 58; 32; 53; 48; 54; 97; 50; 100; 53; 53; 45; 50; 51; 55; 53; 45; 52; 100; 53; 49; 45; 97; 102; 51; 97; 45; 99; 102; 53; 48; 50; 49; 102; 48; 52; 100; 101; 57; 10; 9; 9; 35; 32; 108; 111; 99; 97; 116; 105; 111; 110; 58; 32; 103; 101; 111; 58; 54; 48; 46; 49; 44; 50; 52; 46; 57; 10; 9; 59; 32; 99; 10; 32; 9; 101; 32; 32; 49; 10; 9; 97; 10; 32; 32; 13; 10; 10]%N = Ok [pt])
  /\ parse_journal cfg [50; 48; 50; 52; 45; 48; 49; 45; 48; 49; 32; 39; 120; 10; 32; 32; 35; 32; 117; 117; 105; 100; 58; 32; 53; 48; 54; 97; 50; 100; 53; 53; 45; 50; 51; 55; 53; 45; 52; 100; 53; 49; 45; 97; 102; 51; 97; 45; 99; 102; 53; 48; 50; 49; 102; 48; 52; 100; 101; 57; 10; 32; 32; 35; 32; 108; 111; 99; 97; 116; 105; 111; 110; 58; 32; 103; 101; 111; 58; 54; 48; 46; 49; 44; 50; 52; 46; 57; 10; 32; 32; 35; 32; 116; 97; 103; 115; 58; 32; 97; 44; 32; 98; 10; 10; 32; 32; 59; 32; 99; 10; 32; 32; 101; 32; 32; 49; 10; 32; 32; 97; 10]%N = Err E_syntax.
Proof.
  cbv zeta. split.
  - destruct (parse_journal (mkCfg 0 0) [50; 48; 50; 52; 45; 48; 49; 45; 48; 49; 32; 39; 120; 10; 32; 32; 35; 32; 117; 117; 105; 100; 58; 32; 53; 48; 54; 97; 50; 100; 53; 53; 45; 50; 51; 55; 53; 45; 52; 100; 53; 49; 45; 97; 102; 51; 97; 45; 99; 102; 53; 48; 50; 49; 102; 48; 52; 100; 101; 57; 10; 32; 32; 35; 32; 108; 111; 99; 97; 116; 105; 111; 110; 58; 32; 103; 101; 111; 58; 54; 48; 46; 49; 44; 50; 52; 46; 57; 10; 32; 32; 35; 32; 116; 97; 103; 115; 58; 32; 97; 44; 32; 98; 10; 32; 32; 59; 32; 99; 10; 32; 32; 101; 32; 32; 49; 10; 32; 32; 97; 10]%N) as [[|pt [|]]|] eqn:E; try (vm_compute in E; discriminate).
    exists pt. split; [reflexivity|]. rewrite <- E. vm_compute. reflexivity.
  - vm_compute. reflexivity.
Qed.
