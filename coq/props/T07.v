(* T07 (extension of T06, not one of the numbered properties) — the whole-run model with DIRECTORY INPUT, CHARTS /
   STRICT MODE and REGULAR-EXPRESSION ACCOUNT SELECTORS (TkModel.T07_run, built on top of TkModel.T06_run):
     run7_console H c files price_text / run7_files H c files price_text
   where files = every (path below the journal directory, text) found there.  The files are selected as
   get_paths_by_ext does, parsed and accepted one by one (first error wins) and sorted (Load.load_files); the
   charts decide through Charts.load whether the configuration and the journal are accepted at all; everything
   after that is T06's machinery with pattern selectors.
   Only statements here: each theorem is closed by `exact` of a lemma of TkProofs.T07_proofs, followed by Print
   Assumptions.  H (the digest) is universally quantified.
   How it relates to T06: T07_coincides_T06 — one file, no chart files, strict off, no account selector: run7_* ARE
   run_* (so every T06 theorem is a theorem about these T07 runs); with literal selectors the pattern selects exactly
   the names T06's name selector selects (T07_literal_pattern, at the level of the matcher; the whole-run equation
   for that case is not proved, the correspondence check runs such worlds).
   Git storage: run7g_console / run7g_files (repository = Store.repo + blob texts; commit ids and message titles are
   inputs taken from git).
   Still not covered: named journal zones, partial
   output of a report that fails after the first write (an invalid pattern is such a case), figures theorems of
   T05 for pattern selectors (T07_selector_rows states rows and figures through C11 / C03 instead). *)
From Coq Require Import ZArith List Permutation.
From TkModel Require Import Base Dec Acct Txn Accept Journal Balance Register Round Price Time Group.
From TkModel Require Import ReportText T05_report PriceText Regex T06_run T07_run.
From TkModel Require MetaText Store Load Charts Select.
From TkSpec Require Import Balance_spec Register_spec Regex_spec Charts_spec T07_spec.
From TkSpec Require Store_spec.
From TkProofs Require Import T06_proofs T07_proofs.
Local Open Scope Z_scope.

(* ---------------------------------------------------------------- T07 on the old fragment is T06 *)
Theorem T07_coincides_T06 : forall H cfg ext name jtext p,
  Store.has_ext ext name = true ->
  rc_accounts cfg = None /\ rc_bal_acc cfg = None /\ rc_grp_acc cfg = None /\ rc_reg_acc cfg = None /\ rc_eq_acc cfg = None ->
  run7_console H (embed cfg ext) [([name], jtext)] p = run_console H cfg jtext p
  /\ run7_files H (embed cfg ext) [([name], jtext)] p = run_files H cfg jtext p.
Proof. exact run7_coincides. Qed.
Print Assumptions T07_coincides_T06.

(* a list of literal patterns selects exactly the listed texts; the text of a literal without meta characters is
   the literal (what T06's name selectors are, seen as patterns) *)
Theorem T07_literal_pattern : forall texts s,
  full_haystack_set_is_match (map lit_re texts) s = existsb (str_eqb s) texts.
Proof. exact literal_patterns. Qed.
Print Assumptions T07_literal_pattern.

Theorem T07_literal_text : forall t, forallb (fun x => negb (is_meta x)) t = true -> t <> [] -> pp (lit_re t) = t.
Proof. exact pp_lit_plain. Qed.
Print Assumptions T07_literal_text.

(* ---------------------------------------------------------------- (1) directory input *)
(* the files read are those Store.select_fs selects on the tree of the directory (C08's `wanted`: the file name has
   the configured extension; nested and dot directories count, other suffixes and a bare ".<suffix>" do not) *)
Theorem T07_selection_is_select_fs : forall c files,
  map fst (selected7 c files) = map Store.en_path (Store.select_fs [] (r7_ext c) (tree_of files)).
Proof. exact selected_is_select_fs. Qed.
Print Assumptions T07_selection_is_select_fs.

(* loading IS Load.load_files with the character-level parser of Journal.v as the per-file parser: C15's and C04's
   theorems about load_files apply verbatim *)
Theorem T07_load_is_load_files : forall c files,
  res_map (map txn_of) (load_dir c files)
  = Load.load_files (fun f => res_map (map txn_of) (parse_file (rc_journal (r7_base c)) (snd f))) (selected7 c files).
Proof. exact load_dir_is_load_files. Qed.
Print Assumptions T07_load_is_load_files.

(* any distribution of the same transactions over files — other files, other directories, another order — gives
   byte-identical output in both modes, for pairwise distinguishable transactions (C04_shards' hypothesis, on the
   loaded transactions); no chart files *)
Theorem T07_files_order_irrelevant : forall H c files files' p ls ls',
  gate_on c = false ->
  file_results c files = Ok ls -> file_results c files' = Ok ls' ->
  Permutation (concat ls) (concat ls') -> distinct_jhdrs (concat ls) ->
  run7_console H c files p = run7_console H c files' p /\ run7_files H c files p = run7_files H c files' p.
Proof. exact files_distribution_nocharts. Qed.
Print Assumptions T07_files_order_irrelevant.

(* the same WITH chart files (strict or not), stated on the syntax-level transactions of the files (file_ptxns: what
   the grammar reads, before the semantic layer): the verdict of the chart look-ups is a conjunction of conditions on
   the configuration and on every transaction by itself (C12_strict_iff: declared names; Charts_proofs.load_iff), so
   it cannot depend on the arrangement; the FIRST refusal wins, hence possibly another error, but only accept /
   reject reaches the output *)
Theorem T07_files_order_irrelevant_charts : forall H c files files' p ptss ptss',
  file_ptxns c files = Ok ptss -> file_ptxns c files' = Ok ptss' ->
  Permutation (concat ptss) (concat ptss') ->
  (forall ls, file_results c files = Ok ls -> distinct_jhdrs (concat ls)) ->
  same_outcome (run7_console H c files p) (run7_console H c files' p)
  /\ same_outcome (run7_files H c files p) (run7_files H c files' p).
Proof. exact files_distribution_charts. Qed.
Print Assumptions T07_files_order_irrelevant_charts.

(* ... in particular any order in which the operating system lists the directory, with or without chart files (a
   failing run fails for every order) *)
Theorem T07_directory_order_irrelevant : forall H c files files' p,
  Permutation files files' ->
  (forall ls, file_results c files = Ok ls -> distinct_jhdrs (concat ls)) ->
  same_outcome (run7_console H c files p) (run7_console H c files' p)
  /\ same_outcome (run7_files H c files p) (run7_files H c files' p).
Proof. exact files_order_charts. Qed.
Print Assumptions T07_directory_order_irrelevant.

(* the verdict of the chart look-ups for two arrangements of the same transactions *)
Theorem T07_chart_verdict_order_free : forall c price files files' ptss ptss',
  file_ptxns c files = Ok ptss -> file_ptxns c files' = Ok ptss' ->
  Permutation (concat ptss) (concat ptss') ->
  chart_gate c price files = Ok tt -> chart_gate c price files' = Ok tt.
Proof. exact gate_verdict_perm. Qed.
Print Assumptions T07_chart_verdict_order_free.

(* one selected file that the grammar or the semantic layer refuses: no output at all, in either mode, whatever
   the other files hold (C15_one_error_rejects_all) *)
Theorem T07_one_bad_file_no_output : forall H c files p f code,
  In f (selected7 c files) -> parse_file (rc_journal (r7_base c)) (snd f) = Err code ->
  exists e, run7_console H c files p = Err e /\ run7_files H c files p = Err e.
Proof. exact one_bad_file. Qed.
Print Assumptions T07_one_bad_file_no_output.

(* conversely a run that reaches its reports accepted EVERY selected file, and its transaction set is made of exactly
   their transactions (C15_all_or_nothing) *)
Theorem T07_run_needs_all_files : forall H c files p st, run7_prepare H c files p = Ok st ->
  exists ls, Forall2 (fun f l => parse_file (rc_journal (r7_base c)) (snd f) = Ok l) (selected7 c files) ls
             /\ rs_sel st = run_filter (r7_base c) (sort_by jtxn_leb (concat ls)).
Proof. exact run_needs_all_files. Qed.
Print Assumptions T07_run_needs_all_files.

(* ---------------------------------------------------------------- (2) strict mode *)
(* j = the transactions of the journal TEXTS as the chart look-ups see them (tags, accounts, commodities, file order);
   a strict run with chart files produces an output exactly when the same run with strict off produces it AND every
   posted account, every posting / closing-price / report / price-file commodity, every tag and (when equity is
   exported) the equity account is declared (Charts_spec.declared, C12_strict_iff + C12_lax_independent) *)
Theorem T07_strict_text : forall H c files p pr j,
  r7_strict c = true -> r7_charts c <> None ->
  price_setup (r7_base c) p = Ok pr -> chart_journal c files = Ok j ->
  (forall out, run7_console H c files p = Ok out
               <-> run7_console H (lax c) files p = Ok out /\ declared (chart_config c (fst pr)) j)
  /\ (forall out, run7_files H c files p = Ok out
                  <-> run7_files H (lax c) files p = Ok out /\ declared (chart_config c (fst pr)) j).
Proof. exact strict_text. Qed.
Print Assumptions T07_strict_text.

(* ... and then the outputs are byte-identical: whatever a strict run prints, the non-strict run prints *)
Theorem T07_strict_same_output : forall H c files p,
  r7_strict c = true -> r7_charts c <> None ->
  (forall out, run7_console H c files p = Ok out -> run7_console H (lax c) files p = Ok out)
  /\ (forall out, run7_files H c files p = Ok out -> run7_files H (lax c) files p = Ok out).
Proof. exact strict_same_output. Qed.
Print Assumptions T07_strict_same_output.

(* the verdict of the chart look-ups alone *)
Theorem T07_strict_gate : forall c price files j,
  r7_strict c = true -> r7_charts c <> None -> chart_journal c files = Ok j ->
  (chart_gate c price files = Ok tt
   <-> chart_gate (lax c) price files = Ok tt /\ declared (chart_config c price) j).
Proof. exact gate_strict_iff. Qed.
Print Assumptions T07_strict_gate.

(* ---------------------------------------------------------------- (3) pattern selectors *)
(* balance: the rows printed are exactly the rows of the unrestricted balance whose account name is matched
   ENTIRELY by one of the patterns (every row without patterns), with the figures they have there — the exact
   own and subtree sums over ALL converted postings (C11_rows, C11_figures_unchanged);
   register: the entries of the unrestricted register with the same running totals, each restricted to the rows
   whose account name is matched entirely (C03_selector_hides_only);
   and the texts of the run are the texts of exactly these rows *)
Theorem T07_selector_rows : forall c st,
  let b := r7_base c in
  let ps := conv_bposts (report_ctx (rs_lk st) (rc_commodity b) (rs_db st) (rs_txns st)) (sort_txns (rs_txns st)) in
  (forall rep, Forall bpost_wf ps ->
     bal_report7 (Select.report_selector (pats_of c MetaText.RBalance)) st (rc_commodity b) = Some rep ->
     exists rows, balance (fun _ => true) ord_sorted ps = Some rows
       /\ b_rows rep = filter (must_listb false (pats_of c MetaText.RBalance)) rows
       /\ (forall r, In r (b_rows rep) <-> In r rows /\ name_selected (pats_of c MetaText.RBalance) (r_acc r))
       /\ (forall r, In r (b_rows rep) -> d28 (r_own r) = spec_own ps (r_key r) /\ d28 (r_tree r) = spec_tree ps (r_key r)))
  /\ reg_report7 (reg_selector (pats_of c MetaText.RRegister)) st (rc_commodity b)
     = map (restrict (reg_selector (pats_of c MetaText.RRegister))) (reg_report7 sel_all st (rc_commodity b))
  /\ (forall e r, In r (re_rows (restrict (reg_selector (pats_of c MetaText.RRegister)) e))
                  <-> In r (re_rows e) /\ name_selected (pats_of c MetaText.RRegister) (p_acc (rr_post r)))
  /\ report_body7 c st MetaText.RBalance
     = option_map (fun rep => bal_txt_report (rc_title_bal b) (rc_scale b) (b_rows rep) (b_deltas rep))
                  (bal_report7 (Select.report_selector (pats_of c MetaText.RBalance)) st (rc_commodity b))
  /\ report_body7 c st MetaText.RRegister
     = Some (reg_txt_report (rc_title_reg b) (rc_scale b) (filler_width (rs_lk st)) (ts_text b)
                            (reg_report7 (reg_selector (pats_of c MetaText.RRegister)) st (rc_commodity b))).
Proof. exact selector_rows. Qed.
Print Assumptions T07_selector_rows.

(* ---------------------------------------------------------------- (4) Git storage *)
(* a run on Git storage (run7g_*: the commit is resolved, its tree walked as Store.select_git does, the Git reference
   put into the metadata) at a commit whose tree t has no symbolic link, and the run on file-system storage over a
   checkout of that commit seen from the configured directory: the same transaction set and the same report texts;
   the metadata of the set is make_items WITH the Git reference (commit id, reference, directory, suffix, message
   folded to one line: T04) resp. WITHOUT it, everything else equal (C08_git_eq_fs) *)
Theorem T07_git_eq_fs_state : forall H c gw gs p id t stg,
  Store.resolve (gw_repo gw) (gs_sel gs) = Some id -> Store.lookup_commit (Store.commits (gw_repo gw)) id = Some t ->
  Store_spec.no_links t ->
  run7g_prepare H c gw gs p = Ok stg ->
  exists stf, run7_prepare H c (checkout gw (gs_dir gs) t) p = Ok stf
    /\ rs_sel stf = rs_sel stg
    /\ (forall k, report_text7 H c stg k = report_text7 H c stf k)
    /\ MetaText.make_items H (rc_audit (r7_base c)) (rc_algo (r7_base c)) (Some (git_reference7 c gw gs id))
                           (filter_desc (r7_base c)) (map uuid_of (rs_sel stg)) = Ok (rs_md stg)
    /\ MetaText.make_items H (rc_audit (r7_base c)) (rc_algo (r7_base c)) None
                           (filter_desc (r7_base c)) (map uuid_of (rs_sel stg)) = Ok (rs_md stf).
Proof. exact git_eq_fs_state. Qed.
Print Assumptions T07_git_eq_fs_state.

(* ... on the console: the same framed reports behind a metadata block that differs by the Git item only *)
Theorem T07_git_eq_fs : forall H c gw gs p id t out,
  Store.resolve (gw_repo gw) (gs_sel gs) = Some id -> Store.lookup_commit (Store.commits (gw_repo gw)) id = Some t ->
  Store_spec.no_links t -> rc_targets (r7_base c) <> [] ->
  run7g_console H c gw gs p = Ok out ->
  exists mdg mdf us rs,
    MetaText.make_items H (rc_audit (r7_base c)) (rc_algo (r7_base c)) (Some (git_reference7 c gw gs id)) (filter_desc (r7_base c)) us = Ok mdg
    /\ MetaText.make_items H (rc_audit (r7_base c)) (rc_algo (r7_base c)) None (filter_desc (r7_base c)) us = Ok mdf
    /\ out = console_text mdg rs
    /\ run7_console H c (checkout gw (gs_dir gs) t) p = Ok (console_text mdf rs).
Proof. exact git_eq_fs_console. Qed.
Print Assumptions T07_git_eq_fs.

(* ---------------------------------------------------------------- non-vacuity *)
(* T06's example journal split over txns/2024/a.txn and txns/.late/b.txn, next to notes.txt and sub/.txn (not read);
   chart files declaring exactly the names used, strict mode, the pattern "a, optionally followed by ':' and
   anything" as the global selector: the run prints 1304 characters (balance rows a and a:b only), the same for the
   reversed directory listing and for strict off; with `x` undeclared the strict run is refused and the non-strict
   run is not; the pattern matches a:b entirely and does not match ab *)
Example T07_example :
  (exists out, run7_console ex_H ex7 ex7_files (Some ex_prices) = Ok out
               /\ run7_console ex_H ex7 (rev ex7_files) (Some ex_prices) = Ok out
               /\ run7_console ex_H (lax ex7) ex7_files (Some ex_prices) = Ok out
               /\ length out = 1304%nat)
  /\ map fst (selected7 ex7 ex7_files)
     = [[[50; 48; 50; 52]; [97; 46; 116; 120; 110]]; [[46; 108; 97; 116; 101]; [98; 46; 116; 120; 110]]]%N
  /\ (exists e, run7_console ex_H ex7_undeclared ex7_files (Some ex_prices) = Err e)
  /\ (exists out, run7_console ex_H (lax ex7_undeclared) ex7_files (Some ex_prices) = Ok out)
  /\ full_haystack_is_match ex7_pat [97; 58; 98]%N = true /\ full_haystack_is_match ex7_pat [97; 98]%N = false.
Proof. exact t07_example. Qed.
Print Assumptions T07_example.
