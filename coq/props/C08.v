(* C08 — Git storage loads exactly the selected commit's journal files.
   Statements only; proofs in TkProofs.Store_proofs. *)
From TkModel Require Import Base Store.
From TkSpec Require Import Store_spec.
From TkProofs Require Import Store_proofs.

(* exactly the wanted files, in tree order *)
Theorem C08_git_is_wanted : forall dir ext t l,
  ext_ok ext -> paths_ok t -> select_git dir ext t = Some l ->
  forall e, In e l <-> (In e t /\ wanted dir ext e).
Proof. exact select_git_wanted. Qed.
Print Assumptions C08_git_is_wanted.

(* the same set that file-system storage yields on a checkout of the commit *)
Theorem C08_git_eq_fs : forall dir ext t,
  no_links t -> select_git dir ext t = Some (select_fs dir ext t).
Proof. exact select_git_eq_fs. Qed.
Print Assumptions C08_git_eq_fs.

(* files elsewhere in the tree do not matter *)
Theorem C08_frame_tree : forall dir ext t extra l,
  no_links (t ++ extra) -> ext_ok ext -> paths_ok extra ->
  (forall e, In e extra -> ~ wanted dir ext e) ->
  select_git dir ext t = Some l -> select_git dir ext (t ++ extra) = Some l.
Proof. exact select_git_frame. Qed.
Print Assumptions C08_frame_tree.

(* other commits, branches and tags do not matter: only the tree of the resolved commit does *)
Theorem C08_frame_repo : forall r r' s dir ext id,
  resolve r s = Some id -> resolve r' s = Some id ->
  lookup_commit (commits r) id = lookup_commit (commits r') id ->
  load_git r s dir ext = load_git r' s dir ext.
Proof. exact load_git_frame. Qed.
Print Assumptions C08_frame_repo.

(* a reference and the commit id it resolves to load the same data; the id reported is the one used *)
Theorem C08_ref_eq_commit : forall r name id dir ext,
  lookup_ref (refs r) name = Some id ->
  load_git r (ByRef name) dir ext = load_git r (ByCommit id) dir ext
  /\ (forall id' l, load_git r (ByRef name) dir ext = Some (id', l) -> id' = id).
Proof. exact load_ref_eq_commit. Qed.
Print Assumptions C08_ref_eq_commit.

(* the selection before the repair of F4 (byte prefix/suffix, plain blobs only): refuted *)
Theorem C08_old_selection_refuted :
  exists dir dirs ext t l, select_git_old dirs ext t = Some l /\ dirs = join_slash dir
    /\ exists e, (In e l /\ ~ wanted dir ext e) \/ (In e t /\ wanted dir ext e /\ ~ In e l).
Proof. exact old_selection_refuted. Qed.
Print Assumptions C08_old_selection_refuted.

Example C08_example :
  let t := [ mkEntry [[116;120;110;115]; [97;46;116;120;110]]%N Blob 1;           (* txns/a.txn *)
             mkEntry [[116;120;110;115]; [101;46;116;120;110]]%N BlobExec 2;       (* txns/e.txn (executable) *)
             mkEntry [[116;120;110;115;45;111;108;100]; [98;46;116;120;110]]%N Blob 3;   (* txns-old/b.txn *)
             mkEntry [[116;120;110;115;102;105;108;101;46;116;120;110]]%N Blob 4;        (* txnsfile.txn *)
             mkEntry [[116;120;110;115]; [99;46;120;116;120;110]]%N Blob 5;        (* txns/c.xtxn *)
             mkEntry [[116;120;110;115]; [46;116;120;110]]%N Blob 6 ] in           (* txns/.txn *)
  option_map (map en_blob) (select_git [[116;120;110;115]]%N [116;120;110]%N t) = Some [1; 2]%N.
Proof. exact store_example. Qed.
