(* C16 — Timestamps are instants; zone defaults as configured; report zone display-only.
   Statements only; proofs in TkProofs.Tstamp_proofs and TkProofs.Tstamp_civil_proofs. *)
From Coq Require Import Sorted.
From TkModel Require Import Base Dec Acct Txn Tstamp.
From TkSpec Require Import Tstamp_spec.
From TkProofs Require Import Tstamp_civil_proofs Tstamp_proofs.
Local Open Scope Z_scope.

(* THE grammar theorem: for every well-formed time stamp in one of the three notations, every
   configuration (fixed or named journal zone, any default time) and whatever follows the
   text, the parser accepts exactly the text and yields the instant "civil time minus offset"
   and the offset the specification assigns, held as THE canonical pair of that instant (the
   library's pair for the civil time, re-created from its nanosecond value) *)
Theorem C16_parse_meaning : forall cfg a r,
  cfg_wf cfg -> ast_wf a -> sep_okb a r = true -> spec_in_rangeb cfg a = true ->
  exists z, parse_ts cfg (render a ++ r) = Some (z, r) /\
            jts_inst (z_ts z) = spec_inst cfg a /\ z_off z = spec_off cfg a /\
            z_ts z = ts_canon (spec_inst cfg a) /\ ts_normal (z_ts z) /\
            exists t0, civil_to_jts (ast_civil cfg a) (ast_conv_off cfg a) = Some t0 /\ jts_renorm t0 = Some (z_ts z).
Proof. exact parse_render. Qed.
Print Assumptions C16_parse_meaning.

(* a written offset: instant = civil instant - (+-(3600 hh + 60 mm)) s, independent of the
   configuration; 'Z' means +00:00 *)
Theorem C16_offset_notation : forall cfg y m d h mi s f z r,
  cfg_wf cfg -> ast_wf (TsZoned y m d h mi s f z) -> spec_in_rangeb cfg (TsZoned y m d h mi s f z) = true ->
  exists zd, parse_ts cfg (render (TsZoned y m d h mi s f z) ++ r) = Some (zd, r) /\
    jts_inst (z_ts zd) = spec_civil_ns y m d h mi s (spec_frac f) - zspec_off z * NS /\
    z_off zd = zspec_off z.
Proof. exact offset_notation. Qed.
Print Assumptions C16_offset_notation.

Theorem C16_zulu_is_zero_offset : forall cfg y m d h mi s f neg,
  spec_inst cfg (TsZoned y m d h mi s f ZZulu) = spec_inst cfg (TsZoned y m d h mi s f (ZOff neg 0 0)) /\
  spec_off cfg (TsZoned y m d h mi s f ZZulu) = spec_off cfg (TsZoned y m d h mi s f (ZOff neg 0 0)).
Proof. exact zulu_is_zero_offset. Qed.
Print Assumptions C16_zulu_is_zero_offset.

(* two spellings of one instant give headers that Txn.header_cmp cannot tell apart: equal to
   each other and identical against every third header (order; the filter and price models
   consume h_inst only) *)
Theorem C16_same_instant_any_spelling : forall cfg a1 a2 r1 r2 h x,
  cfg_wf cfg -> ast_wf a1 -> ast_wf a2 -> sep_okb a1 r1 = true -> sep_okb a2 r2 = true ->
  spec_in_rangeb cfg a1 = true -> spec_in_rangeb cfg a2 = true ->
  spec_inst cfg a1 = spec_inst cfg a2 ->
  exists z1 z2, parse_ts cfg (render a1 ++ r1) = Some (z1, r1) /\ parse_ts cfg (render a2 ++ r2) = Some (z2, r2) /\
    h_inst (hdr_of z1 h) = h_inst (hdr_of z2 h) /\
    header_cmp (hdr_of z1 h) (hdr_of z2 h) = Eq /\
    header_cmp (hdr_of z1 h) x = header_cmp (hdr_of z2 h) x /\
    header_cmp x (hdr_of z1 h) = header_cmp x (hdr_of z2 h).
Proof. exact same_instant_any_spelling. Qed.
Print Assumptions C16_same_instant_any_spelling.

(* fraction: 1..9 digits, value = positional value (= digits * 10^(9-len)), and printing the
   parsed value gives the digits back without trailing zeros *)
Theorem C16_fraction_value : forall ds, (length ds <= 9)%nat -> frac_ns ds = frac_pos ds 8.
Proof. exact frac_ns_pos. Qed.
Print Assumptions C16_fraction_value.

Theorem C16_fraction : forall ds, frac_wf (Some ds) ->
  fmt_frac (spec_frac (Some ds)) = if forallb (N.eqb 48) ds then [] else ch_dot :: strip_trailing_zeros ds.
Proof. exact fraction_print. Qed.
Print Assumptions C16_fraction.

(* defaults: no offset => the configured zone's offset at that civil time;
   date only => additionally the configured default time *)
Theorem C16_defaults : forall cfg y m d h mi s f r,
  cfg_wf cfg -> ast_wf (TsLocal y m d h mi s f) -> sep_okb (TsLocal y m d h mi s f) r = true ->
  spec_in_rangeb cfg (TsLocal y m d h mi s f) = true ->
  exists zd, parse_ts cfg (render (TsLocal y m d h mi s f) ++ r) = Some (zd, r) /\
    jts_inst (z_ts zd) = spec_civil_ns y m d h mi s (spec_frac f)
                         - zone_conv_off (cfg_zone cfg) (mkCivil y m d h mi s (spec_frac f)) * NS.
Proof. exact defaults_local. Qed.
Print Assumptions C16_defaults.

Theorem C16_defaults_date : forall cfg y m d r,
  cfg_wf cfg -> ast_wf (TsDate y m d) -> sep_okb (TsDate y m d) r = true ->
  spec_in_rangeb cfg (TsDate y m d) = true ->
  exists zd, parse_ts cfg (render (TsDate y m d) ++ r) = Some (zd, r) /\
    jts_inst (z_ts zd) = spec_civil_ns y m d (cfg_h cfg) (cfg_mi cfg) (cfg_s cfg) (cfg_ns cfg)
       - zone_conv_off (cfg_zone cfg) (mkCivil y m d (cfg_h cfg) (cfg_mi cfg) (cfg_s cfg) (cfg_ns cfg)) * NS.
Proof. exact defaults_date. Qed.
Print Assumptions C16_defaults_date.

(* the library's calendar arithmetic is the proleptic Gregorian day count, for every year *)
Theorem C16_civil_days : forall y m d, 1 <= m <= 12 -> ts_epoch_day y m d = spec_days y m d.
Proof. exact epoch_day_spec. Qed.
Print Assumptions C16_civil_days.

Theorem C16_civil_roundtrip : forall y m d, spec_date_valid y m d = true ->
  ts_date_of_day (ts_epoch_day y m d) = (y, m, d).
Proof. exact civil_roundtrip. Qed.
Print Assumptions C16_civil_roundtrip.

Theorem C16_civil_monotone : forall y1 m1 d1 y2 m2 d2,
  spec_date_valid y1 m1 d1 = true -> spec_date_valid y2 m2 d2 = true ->
  date_lt (y1, m1, d1) (y2, m2, d2) -> ts_epoch_day y1 m1 d1 < ts_epoch_day y2 m2 d2.
Proof. exact epoch_day_mono. Qed.
Print Assumptions C16_civil_monotone.

(* every time stamp the parser returns - any configuration, any text - is a canonical pair:
   second and nanosecond of the same sign, i.e. quotient and remainder of the truncated
   division of the instant by 10^9 *)
Theorem C16_parsed_canonical : forall cfg s z r, parse_ts cfg s = Some (z, r) ->
  ts_normal (z_ts z) /\ z_ts z = ts_canon (jts_inst (z_ts z)).
Proof. exact parsed_canonical. Qed.
Print Assumptions C16_parsed_canonical.

Theorem C16_parsed_whole_canonical : forall cfg s z, parse_ts_whole cfg s = Some z -> ts_normal (z_ts z).
Proof. exact parsed_whole_canonical. Qed.
Print Assumptions C16_parsed_whole_canonical.

(* on canonical pairs the library's comparison of pairs IS the comparison of instants, its
   equality of pairs IS equality of instants (and of the pairs themselves) *)
Theorem C16_canonical_order_is_instant_order : forall a b, ts_normal a -> ts_normal b ->
  jts_cmp a b = Z.compare (jts_inst a) (jts_inst b) /\
  jts_eqb a b = (jts_inst a =? jts_inst b) /\
  (jts_eqb a b = true <-> a = b).
Proof. exact canonical_order_is_instant_order. Qed.
Print Assumptions C16_canonical_order_is_instant_order.

(* the canonical pair of an instant exists and is unique *)
Theorem C16_canonical_exists : forall i, ts_normal (ts_canon i) /\ jts_inst (ts_canon i) = i.
Proof. exact ts_canon_normal. Qed.
Print Assumptions C16_canonical_exists.

Theorem C16_canonical_unique : forall a b, ts_normal a -> ts_normal b -> jts_inst a = jts_inst b -> a = b.
Proof. exact ts_canonical_unique. Qed.
Print Assumptions C16_canonical_unique.

(* the re-creation step of parse_timestamp changes neither the accepted texts nor the rest,
   the instant or the offset: it only replaces the pair by the canonical one *)
Theorem C16_renorm_accepts_same : forall cfg s, cfg_wf cfg ->
  (parse_ts cfg s = None <-> parse_ts_alt cfg s = None) /\
  forall zd z r, parse_ts_alt cfg s = Some (zd, z, r) ->
    exists zn, parse_ts cfg s = Some (zn, r) /\ jts_renorm (z_ts zd) = Some (z_ts zn) /\ ts_normal (z_ts zn) /\
               (TS_MIN_SEC * NS <= jts_inst (z_ts zd) -> jts_inst (z_ts zn) = jts_inst (z_ts zd) /\ z_off zn = z_off (ts_to_zoned z (z_ts zd))).
Proof. exact renorm_accepts_same. Qed.
Print Assumptions C16_renorm_accepts_same.

(* ordering and equality by instant, for every pair of time stamps in every notation (no
   excluded class: the hypothesis epoch_safe of the former statement is gone) ... *)
Theorem C16_order_by_instant : forall cfg a1 a2 r1 r2,
  cfg_wf cfg -> ast_wf a1 -> ast_wf a2 -> sep_okb a1 r1 = true -> sep_okb a2 r2 = true ->
  spec_in_rangeb cfg a1 = true -> spec_in_rangeb cfg a2 = true ->
  exists z1 z2, parse_ts cfg (render a1 ++ r1) = Some (z1, r1) /\ parse_ts cfg (render a2 ++ r2) = Some (z2, r2) /\
    jts_cmp (z_ts z1) (z_ts z2) = Z.compare (spec_inst cfg a1) (spec_inst cfg a2) /\
    jts_eqb (z_ts z1) (z_ts z2) = (spec_inst cfg a1 =? spec_inst cfg a2) /\
    forall h1 h2, jheader_cmp (z_ts z1) h1 (z_ts z2) h2 = header_cmp (hdr_of z1 h1) (hdr_of z2 h2).
Proof. exact order_by_instant. Qed.
Print Assumptions C16_order_by_instant.

(* ... indeed for ANY two texts the parser accepts under any configuration ... *)
Theorem C16_parsed_order_by_instant : forall cfg s1 s2 z1 z2 r1 r2,
  parse_ts cfg s1 = Some (z1, r1) -> parse_ts cfg s2 = Some (z2, r2) ->
  jts_cmp (z_ts z1) (z_ts z2) = Z.compare (jts_inst (z_ts z1)) (jts_inst (z_ts z2)) /\
  jts_eqb (z_ts z1) (z_ts z2) = (jts_inst (z_ts z1) =? jts_inst (z_ts z2)) /\
  forall h1 h2, jheader_cmp (z_ts z1) h1 (z_ts z2) h2 = header_cmp (hdr_of z1 h1) (hdr_of z2 h2).
Proof. exact parsed_order_by_instant. Qed.
Print Assumptions C16_parsed_order_by_instant.

(* ... so the implementation's sort of a set of parsed transactions is Txn.sort_txns (by
   instant first); on the representation: whenever the pairs are canonical *)
Theorem C16_sort_by_instant : forall cfg l, Forall (jt_parsed cfg) l -> map snd (jsort_txns l) = sort_txns (map snd l).
Proof. exact jsort_parsed_is_sort. Qed.
Print Assumptions C16_sort_by_instant.

Theorem C16_sort_canonical : forall l, Forall jt_ok l -> map snd (jsort_txns l) = sort_txns (map snd l).
Proof. exact jsort_is_sort. Qed.
Print Assumptions C16_sort_canonical.

(* WHY the re-creation is needed. The library layer alone (jiff 0.2.5: the Zoned the
   alternatives of parse_timestamp build, before the instant is re-created) holds
   1970-01-01T00:00:00.5+01:00 as the mixed-sign pair (-3600, +500000000): it orders this
   later instant before 1969-12-31T23:00:00.4Z, and unequal to (and before)
   1969-12-31T23:00:00.5Z, the same instant. A statement about the raw library layer only
   (the former finding F17); tackler no longer compares such pairs ... *)
Theorem C16_jiff_layer_refuted :
  cfg_wf w_cfg /\ Forall ast_wf [w_a1; w_a2; w_a3] /\
  Forall (fun a => spec_in_rangeb w_cfg a = true) [w_a1; w_a2; w_a3] /\
  parse_ts_alt w_cfg (render w_a1) = Some (mkZoned w_j1 3600, ZFixed 3600, []) /\
  parse_ts_alt w_cfg (render w_a2) = Some (mkZoned w_j2 0, ZFixed 0, []) /\
  parse_ts_alt w_cfg (render w_a3) = Some (mkZoned w_j3 0, ZFixed 0, []) /\
  spec_inst w_cfg w_a2 < spec_inst w_cfg w_a1 /\ jts_inst w_j2 < jts_inst w_j1 /\ jts_cmp w_j1 w_j2 = Lt /\
  spec_inst w_cfg w_a1 = spec_inst w_cfg w_a3 /\ jts_inst w_j1 = jts_inst w_j3 /\
  jts_eqb w_j1 w_j3 = false /\ jts_cmp w_j1 w_j3 = Lt /\
  ts_normalb w_j1 = false /\
  epoch_mixedb (ast_civil w_cfg w_a1) (ast_conv_off w_cfg w_a1) = true.
Proof. exact jiff_layer_refuted. Qed.
Print Assumptions C16_jiff_layer_refuted.

(* ... the SAME witnesses through parse_timestamp as it is: canonical pairs, the later instant
   last, the two spellings of one instant equal *)
Theorem C16_witnesses_repaired :
  parse_ts w_cfg (render w_a1) = Some (mkZoned w_n1 3600, []) /\
  parse_ts w_cfg (render w_a2) = Some (mkZoned w_n2 0, []) /\
  parse_ts w_cfg (render w_a3) = Some (mkZoned w_n1 0, []) /\
  jts_renorm w_j1 = Some w_n1 /\ jts_renorm w_j2 = Some w_n2 /\ jts_renorm w_j3 = Some w_n1 /\
  ts_normalb w_n1 = true /\ ts_normalb w_n2 = true /\
  jts_inst w_n1 = spec_inst w_cfg w_a1 /\ jts_inst w_n2 = spec_inst w_cfg w_a2 /\
  jts_cmp w_n1 w_n2 = Gt /\ jts_cmp w_n2 w_n1 = Lt /\
  jts_eqb w_n1 w_n1 = true /\ jts_cmp w_n1 w_n1 = Eq.
Proof. exact witnesses_repaired. Qed.
Print Assumptions C16_witnesses_repaired.

(* outside that class the library's own pair is already canonical *)
Theorem C16_jiff_layer_canonical_outside_class : forall c off t, 1 <= cv_m c <= 12 -> 0 <= cv_ns c < NS ->
  epoch_mixedb c off = false -> civil_to_jts c off = Some t -> ts_normal t.
Proof. exact civil_to_jts_normal. Qed.
Print Assumptions C16_jiff_layer_canonical_outside_class.

(* report zone: the entries and their order do not depend on it (it is not an argument of
   the sort; the figures of C02/C03/C07 do not take it either) ... *)
Theorem C16_report_zone_display_only : forall rtz1 rtz2 l,
  map snd (report_view rtz1 l) = map snd (report_view rtz2 l) /\
  map snd (report_view rtz1 l) = map snd (jsort_txns (map (fun zt => (z_ts (fst zt), snd zt)) l)).
Proof. exact report_zone_display_only. Qed.
Print Assumptions C16_report_zone_display_only.

(* ... and what it displays is the civil time of the same instant at the zone's offset *)
Theorem C16_display_same_instant : forall rtz z, Z.abs (j_ns (z_ts z)) < NS ->
  let c := zoned_civil (with_time_zone rtz z) in
  civil_ns c - rtz (jts_inst (z_ts z)) * NS = jts_inst (z_ts z) /\ civil_wf c.
Proof. exact report_label_same_instant. Qed.
Print Assumptions C16_display_same_instant.

(* oracles evaluated on the implementation's output are sound *)
Theorem C16_oracle_sound : forall cfg a ns off,
  ts_oracle cfg a (Some (ns, off)) = true -> ns = spec_inst cfg a /\ off = spec_off cfg a.
Proof. exact ts_oracle_sound. Qed.
Print Assumptions C16_oracle_sound.

Theorem C16_order_oracle_sound : forall l, order_oracle l = true -> StronglySorted hdr_le l.
Proof. exact order_oracle_sound. Qed.
Print Assumptions C16_order_oracle_sound.

(* non-vacuity: four spellings (offset, Z, journal zone +02:00, date with default time) *)
Example C16_example :
  cfg_wf ex_cfg /\ Forall ast_wf [ex_a1; ex_a2; ex_a3; ex_a4] /\
  Forall (fun a => spec_in_rangeb ex_cfg a = true) [ex_a1; ex_a2; ex_a3; ex_a4] /\
  map (fun a => option_map (fun zr => (jts_inst (z_ts (fst zr)), z_off (fst zr), snd zr)) (parse_ts ex_cfg (render a)))
      [ex_a1; ex_a2; ex_a3; ex_a4]
  = [Some (1711845000250000000, 10800, []); Some (1711845000250000000, 0, []);
     Some (1711845000250000000, 7200, []); Some (1711830600250000000, 7200, [])] /\
  rfc_3339 (mkZoned (mkJts 1711845000 250000000) 10800)
  = [50;48;50;52;45;48;51;45;51;49;84;48;51;58;51;48;58;48;48;46;50;53;43;48;51;58;48;48]%N.
Proof. exact ts_example. Qed.
