(* C09 — Audit mode: UUIDs enforced; the set checksum is the specified hash of the set.
   Statements only; proofs in TkProofs.Audit_proofs. The digest H is universally quantified:
   the theorems fix WHAT is hashed (the pre-image); the five real algorithms are compared
   with an independent implementation in the correspondence check. *)
From Coq Require Import Permutation Sorted.
From TkModel Require Import Base Audit.
From TkSpec Require Import Audit_spec.
From TkProofs Require Import Audit_proofs.

(* in audit mode a journal containing a transaction without uuid is rejected ... *)
Theorem C09_audit_requires_uuid : forall raws,
  In None raws -> exists e, accept_journal_uuids true raws = Err e.
Proof. exact c09_audit_requires_uuid. Qed.
Print Assumptions C09_audit_requires_uuid.

(* ... when every transaction has one, audit mode accepts exactly what non-audit mode accepts ... *)
Theorem C09_audit_same_when_all_uuids : forall raws,
  ~ In None raws -> accept_journal_uuids true raws = accept_journal_uuids false raws.
Proof. exact c09_audit_same_when_all_uuids. Qed.
Print Assumptions C09_audit_same_when_all_uuids.

(* ... and rejection happens for no other reason than a missing (audit) or malformed uuid *)
Theorem C09_journal_rejected_iff : forall audit raws,
  (exists e, accept_journal_uuids audit raws = Err e) <-> journal_must_be_rejected audit raws.
Proof. exact c09_journal_rejected_iff. Qed.
Print Assumptions C09_journal_rejected_iff.

(* written text -> value -> canonical text: valid texts parse, the canonical text is the
   lower-cased written text, and printing/parsing are mutually inverse *)
Theorem C09_case : forall s,
  (valid_uuid_text s -> exists u, uuid_parse s = Some u) /\
  (forall u, uuid_parse s = Some u ->
     uuid_wf u /\ uuid_print u = lower_text s /\ valid_uuid_text s).
Proof. exact c09_case_thm. Qed.
Print Assumptions C09_case.

Theorem C09_print_parse : forall u, uuid_wf u -> uuid_parse (uuid_print u) = Some u.
Proof. exact c09_uuid_print_parse. Qed.
Print Assumptions C09_print_parse.

(* the reported item: exactly when every selected transaction has a uuid and no two selected
   ones share it, the value is H of the pre-image (sorted canonical texts, each followed by a
   newline) of exactly the selected uuids and the size is the number selected; otherwise an error *)
Theorem C09_value : forall H sel,
  c09_sel_wf sel -> Checksum_spec H sel (make_metadata H true sel).
Proof. exact c09_metadata_spec. Qed.
Print Assumptions C09_value.

(* the pre-image is unique, and it is the model's construction *)
Theorem C09_preimage_unique : forall items P,
  is_preimage items P -> P = lines_text (sort_strs items).
Proof. exact c09_preimage_unique. Qed.
Print Assumptions C09_preimage_unique.

(* the metadata is recomputed for the filtered set: it depends on the selected transactions only *)
Theorem C09_value_of_filtered_set : forall H (T : Type) (uuid_of : T -> option (list N)) audit flt ts,
  txn_set H uuid_of audit flt ts
  = let sel := match flt with Some f => filter f ts | None => ts end in
    res_map (fun md => (sel, md)) (make_metadata H audit (map uuid_of sel)).
Proof. exact c09_txn_set_value. Qed.
Print Assumptions C09_value_of_filtered_set.

(* a duplicate (or a missing uuid) among the SELECTED transactions is an error *)
Theorem C09_dup_rejected : forall H sel,
  c09_sel_wf sel -> (In None sel \/ ~ NoDup sel) -> exists e, make_metadata H true sel = Err e.
Proof. exact c09_dup_rejected. Qed.
Print Assumptions C09_dup_rejected.

(* duplicates among unselected transactions do not matter: a duplicate-free selection is accepted *)
Theorem C09_nodup_accepted : forall H us,
  Forall uuid_wf us -> NoDup us ->
  make_metadata H true (map Some us)
  = Ok (Some (N.of_nat (length us), H (lines_text (sort_strs (map uuid_print us))))).
Proof. exact c09_accepted. Qed.
Print Assumptions C09_nodup_accepted.

(* reordering the transactions does not change the reported item *)
Theorem C09_perm : forall H (T : Type) (uuid_of : T -> option (list N)) audit flt ts ts',
  Permutation ts ts' ->
  res_map snd (txn_set H uuid_of audit flt ts) = res_map snd (txn_set H uuid_of audit flt ts').
Proof. exact c09_txn_set_perm. Qed.
Print Assumptions C09_perm.

(* different duplicate-free uuid sets have different pre-images: equal reported items for
   different sets exhibit a collision of H *)
Theorem C09_injective_preimage : forall H us us' n v,
  Forall uuid_wf us -> Forall uuid_wf us' ->
  make_metadata H true (map Some us) = Ok (Some (n, v)) ->
  make_metadata H true (map Some us') = Ok (Some (n, v)) ->
  ~ (forall u, In u us <-> In u us') ->
  let x := lines_text (sort_strs (map uuid_print us)) in
  let y := lines_text (sort_strs (map uuid_print us')) in
  x <> y /\ H x = H y.
Proof. exact c09_equal_checksum_collision. Qed.
Print Assumptions C09_injective_preimage.

(* end to end: from the uuid texts as written and the filter's selection *)
Theorem C09_end_to_end : forall H j us,
  accept_journal_uuids true (map fst j) = Ok us ->
  Checksum_spec H (selected us (map snd j)) (audit_pipeline H true j)
  /\ Forall2 (Accepted_uuid true) (map fst j) us.
Proof. exact c09_pipeline_spec. Qed.
Print Assumptions C09_end_to_end.

(* account selector checksum: same construction over the selector patterns; wrapping and
   peeling cancel; nothing without audit mode; fixed labels for the select-all selectors *)
Theorem C09_selector : forall H audit equity pats,
  Selector_spec H audit equity pats (report_selector_md H audit equity pats).
Proof. exact c09_selector_spec. Qed.
Print Assumptions C09_selector.

Theorem C09_selector_perm : forall H pats pats',
  Permutation pats pats' -> selector_checksum H pats = selector_checksum H pats'.
Proof. exact c09_selector_perm. Qed.
Print Assumptions C09_selector_perm.

(* selector lists that differ as multisets have different pre-images PROVIDED no pattern contains
   a newline character ... *)
Theorem C09_selector_injective_preimage : forall H pats pats',
  Forall nl_free pats -> Forall nl_free pats' ->
  selector_checksum H pats = selector_checksum H pats' -> ~ Permutation pats pats' ->
  let x := lines_text (sort_strs pats) in let y := lines_text (sort_strs pats') in
  x <> y /\ H x = H y.
Proof. exact c09_selector_collision. Qed.
Print Assumptions C09_selector_injective_preimage.

(* ... without that side condition it is false: ["a\nb"] and ["a"; "b"] have the same pre-image *)
Theorem C09_selector_newline_refuted :
  exists pats pats', ~ Permutation pats pats' /\
    forall H, selector_checksum H pats = selector_checksum H pats'.
Proof. exact c09_selector_newline_ambiguous. Qed.
Print Assumptions C09_selector_newline_refuted.

(* the boolean oracles evaluated on the implementation's output are sound *)
Theorem C09_oracle_sound : forall sel o,
  c09_sel_wf sel -> observed_b sel o = true -> Observed_spec sel o.
Proof. exact c09_observed_sound. Qed.
Print Assumptions C09_oracle_sound.

Theorem C09_selector_oracle_sound : forall audit equity pats o,
  sel_observed_b audit equity pats o = true -> Sel_observed_spec audit equity pats o.
Proof. exact c09_sel_observed_sound. Qed.
Print Assumptions C09_selector_oracle_sound.

Theorem C09_reject_oracle_sound : forall audit raws,
  journal_must_be_rejected_b audit raws = true <-> journal_must_be_rejected audit raws.
Proof. exact c09_must_reject_b. Qed.
Print Assumptions C09_reject_oracle_sound.

(* non-vacuity: three transactions with mixed-case uuids, two share a uuid; the filter selects
   the first two (distinct uuids): accepted, size 2, H over the two lower-case lines in sorted
   order; selecting all three is an error; a missing uuid rejects the journal in audit mode *)
Example C09_example : forall H,
  let a := [69;50;55;52;67;57;57;69;45;49;101;98;98;45;52;53;101;56;45;56;51;50;100;45;53;56;67;97;102;53;52;69;100;57;53;102]%N in
  let b := [48;48;48;48;48;48;48;48;45;48;48;48;48;45;48;48;48;48;45;48;48;48;48;45;48;48;48;48;48;48;48;48;48;48;48;49]%N in
  audit_pipeline H true [(Some a, true); (Some b, true); (Some b, false)]
  = Ok (Some (2%N, H (b ++ [10%N] ++ lower_text a ++ [10%N])))
  /\ audit_pipeline H true [(Some a, true); (Some b, true); (Some b, true)] = Err E_dup_uuid
  /\ audit_pipeline H true [(Some a, true); (None, false)] = Err E_audit_no_uuid
  /\ audit_pipeline H false [(Some a, true); (None, true)] = Ok None.
Proof. exact c09_example. Qed.
