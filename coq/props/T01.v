(* T01 (extension, not one of the numbered properties) — the TEXT of the balance,
   balance-group and register reports.
   Only statements here: each theorem is closed by `exact` of a lemma proved in
   TkProofs.ReportText_proofs, followed by Print Assumptions.

   Model (TkModel.ReportText): bal_txt_report = BalanceReporter::txt_report,
   balgrp_txt_report = the body of BalanceGroupReporter::write_txt_report from the title on,
   reg_txt_report_with = RegisterReporter::write_txt_report from the title on
   (RegisterEntry::fmt_with_cfg per entry); figures are Round.shown_text (= Scale::format).
   Reading functions (TkSpec.ReportText_spec): text_lines = split at '\n', words = the
   blank-separated fields of a line (what a text parser such as gen/c17.py sees).
   field s = s is not empty and contains neither a blank nor a newline. *)
From Coq Require Import Permutation Sorted.
From TkModel Require Import Base Dec Acct Txn Balance Register Round ReportText.
From TkSpec Require Import ReportText_spec.
From TkProofs Require Import ReportText_proofs.

(* ---------------------------------------------------------------- figures *)
(* a printed figure consists of digits, '-' and '.', and is never empty: it is one field *)
Theorem T01_figure_chars : forall sc d, Forall (fun c => fig_char c = true) (shown_text sc d).
Proof. exact shown_text_chars. Qed.
Print Assumptions T01_figure_chars.

Theorem T01_figure_field : forall sc d, field (shown_text sc d).
Proof. exact shown_text_field. Qed.
Print Assumptions T01_figure_field.

(* `{:>w$}`: blanks on the left, never truncated *)
Theorem T01_no_truncation : forall w s, exists k, pad_left w s = spaces k ++ s.
Proof. exact pad_left_never_truncates. Qed.
Print Assumptions T01_no_truncation.

Theorem T01_pad_length : forall w s, length (pad_left w s) = Nat.max w (length s).
Proof. exact pad_left_length. Qed.
Print Assumptions T01_pad_length.

(* ---------------------------------------------------------------- balance *)
(* the lines of the report: title, underline, then exactly one line per row in row order,
   one ruler, one line per delta in sort_deltas order; an empty report has two lines *)
Theorem T01_bal_lines : forall title sc rows deltas,
  no_nl title -> bal_names_ok rows deltas ->
  text_lines (bal_txt_report title sc rows deltas) = bal_lines title sc rows deltas ++ [[]].
Proof. exact bal_txt_report_lines. Qed.
Print Assumptions T01_bal_lines.

Theorem T01_bal_line_count : forall sc rows deltas,
  length (bal_block_lines sc rows deltas) = bal_block_len rows deltas.
Proof. exact bal_block_lines_length. Qed.
Print Assumptions T01_bal_line_count.

(* reading a row line back: its blank-separated fields are the shown own sum, the shown
   tree sum, the commodity (when there is one) and the account — whatever the widths are:
   no figure is truncated and none is glued to its neighbour *)
Theorem T01_bal_row_fields : forall sc asl fl satsl cml r,
  (0 < fl)%nat -> field (acct_str (r_acc r)) -> opt_field (r_comm r) ->
  (length (r_comm r) <= cml)%nat ->
  words (bal_row_line sc asl fl satsl cml r) = row_words sc r.
Proof. exact bal_row_line_words. Qed.
Print Assumptions T01_bal_row_fields.

Theorem T01_bal_delta_fields : forall sc asl cd, opt_field (fst cd) ->
  words (bal_delta_line sc asl cd) = delta_words sc cd.
Proof. exact bal_delta_line_words. Qed.
Print Assumptions T01_bal_delta_fields.

(* the delta lines are a permutation of the deltas in ascending commodity order; strictly
   ascending (one line per commodity) when the commodities are distinct *)
Theorem T01_deltas_ascending : forall deltas,
  StronglySorted (fun a b => str_cmp (fst a) (fst b) <> Gt) (sort_deltas deltas)
  /\ Permutation (sort_deltas deltas) deltas.
Proof. exact sort_deltas_sorted. Qed.
Print Assumptions T01_deltas_ascending.

Theorem T01_deltas_strict : forall deltas, NoDup (map fst deltas) ->
  StronglySorted (fun a b => str_cmp (fst a) (fst b) = Lt) (sort_deltas deltas).
Proof. exact sort_deltas_strict. Qed.
Print Assumptions T01_deltas_strict.

(* the whole text satisfies the reading specification *)
Theorem T01_bal_text : forall title sc rows deltas,
  no_nl title -> bal_names_ok rows deltas -> covers rows deltas ->
  bal_text_spec title sc rows deltas (bal_txt_report title sc rows deltas).
Proof. exact bal_txt_report_spec. Qed.
Print Assumptions T01_bal_text.

(* ... in particular for the rows and deltas computed by the model of the balance engine *)
Theorem T01_bal_engine_text : forall known ord sel ps rep title sc,
  balance_report known ord sel ps = Some rep ->
  no_nl title -> bal_names_ok (b_rows rep) (b_deltas rep) ->
  bal_text_spec title sc (b_rows rep) (b_deltas rep)
                (bal_txt_report title sc (b_rows rep) (b_deltas rep)).
Proof. exact balance_report_text. Qed.
Print Assumptions T01_bal_engine_text.

(* columns: a figure that fits its width ends in a fixed column (right-aligned) *)
Theorem T01_bal_columns : forall sc asl fl satsl cml r,
  let o := shown_text sc (r_own r) in
  let t := shown_text sc (r_tree r) in
  (length o <= asl)%nat -> (length t <= satsl)%nat ->
  bal_row_line sc asl fl satsl cml r
  = spaces (9 + (asl - length o)) ++ o ++ spaces (fl + (satsl - length t)) ++ t
    ++ comm_field cml (r_comm r) ++ acct_str (r_acc r)
  /\ length (spaces (9 + (asl - length o)) ++ o) = (9 + asl)%nat
  /\ length (spaces (fl + (satsl - length t)) ++ t) = (fl + satsl)%nat.
Proof. exact bal_row_columns. Qed.
Print Assumptions T01_bal_columns.

Theorem T01_bal_delta_columns : forall sc asl cd,
  let t := shown_text sc (snd cd) in
  (length t <= asl)%nat ->
  exists tail, bal_delta_line sc asl cd = spaces (9 + (asl - length t)) ++ t ++ tail
               /\ length (spaces (9 + (asl - length t)) ++ t) = (9 + asl)%nat.
Proof. exact bal_delta_columns. Qed.
Print Assumptions T01_bal_delta_columns.

(* the widths computed by the pre-pass (truncate, pad, one more for a non-negative value)
   are wide enough for every figure that is not negative; a negative figure exceeds its
   width by at most one character *)
Theorem T01_width_bound : forall sc d,
  (length (shown_text sc d) <= sum_len sc d + (if is_neg d then 1 else 0))%nat.
Proof. exact shown_len_bound. Qed.
Print Assumptions T01_width_bound.

Theorem T01_own_fits : forall sc rows deltas r, In r rows -> is_neg (r_own r) = false ->
  (length (shown_text sc (r_own r)) <= left_sum_len sc rows deltas)%nat.
Proof. exact own_fits. Qed.
Print Assumptions T01_own_fits.

Theorem T01_tree_fits : forall sc rows r, In r rows -> is_neg (r_tree r) = false ->
  (length (shown_text sc (r_tree r)) <= tree_sum_len sc rows)%nat.
Proof. exact tree_fits. Qed.
Print Assumptions T01_tree_fits.

(* and the one-character excess does occur: -9.995 at scale (2,2) *)
Theorem T01_negative_carry_exceeds :
  let sc := mkScale 2 2 in
  let d := mkDec (-9995) 3 in
  shown_text sc d = [45; 49; 48; 46; 48; 48]%N /\ sum_len sc d = 5%nat.
Proof. exact negative_carry_exceeds. Qed.
Print Assumptions T01_negative_carry_exceeds.

(* ---------------------------------------------------------------- balance groups *)
Theorem T01_grp_lines : forall title sc groups, no_nl title -> grp_names_ok groups ->
  text_lines (balgrp_txt_report title sc groups) = balgrp_lines title sc groups ++ [[]].
Proof. exact balgrp_txt_report_lines. Qed.
Print Assumptions T01_grp_lines.

Theorem T01_grp_text : forall title sc groups, no_nl title -> grp_names_ok groups ->
  grp_text_spec title sc groups (balgrp_txt_report title sc groups).
Proof. exact balgrp_txt_report_spec. Qed.
Print Assumptions T01_grp_text.

(* ---------------------------------------------------------------- register *)
(* the lines: title, underline, then per entry with rows its header lines, one line per row
   in row order and a dashed line; entries without rows print nothing *)
Theorem T01_reg_lines : forall title sc fw es, no_nl title -> reg_names_ok es ->
  text_lines (reg_txt_report_with title sc fw es) = reg_lines title sc fw es ++ [[]].
Proof. exact reg_txt_report_lines. Qed.
Print Assumptions T01_reg_lines.

(* a row line is indent, account name, and a rest whose fields are the shown amount, the
   shown running total and the commodity *)
Theorem T01_reg_row_fields : forall sc fw r,
  is_conv r = false -> opt_field (p_comm (rr_post r)) ->
  reg_row_spec sc r (reg_row_line sc fw r).
Proof. exact reg_row_line_spec. Qed.
Print Assumptions T01_reg_row_fields.

Theorem T01_reg_row_split : forall sc fw r, is_conv r = false ->
  reg_row_line sc fw r = indent12 ++ acct_str (p_acc (rr_post r)) ++ reg_row_rest sc fw r.
Proof. exact reg_row_line_split. Qed.
Print Assumptions T01_reg_row_split.

(* the amount is separated from the account name by a blank unless the name has 33 or more
   characters AND the amount is negative AND its text has 18 or more characters *)
Theorem T01_reg_separated : forall sc fw r,
  (length (acct_str (p_acc (rr_post r))) < 33)%nat
  \/ is_neg (p_amount (rr_post r)) = false
  \/ (length (shown_text sc (p_amount (rr_post r))) < 18)%nat ->
  exists t, reg_row_rest sc fw r = ch_sp :: t.
Proof. exact reg_row_separated. Qed.
Print Assumptions T01_reg_separated.

(* amount and running total are right-aligned: when everything fits, the amount ends in
   column 63 and the total fw + 19 characters later *)
Theorem T01_reg_columns : forall sc fw r,
  is_conv r = false ->
  let acc := acct_str (p_acc (rr_post r)) in
  let a := amount_to_string sc (p_amount (rr_post r)) 18 in
  let t := amount_to_string sc (rr_total r) 18 in
  (length acc <= 33)%nat -> (length a <= 18)%nat -> (length t <= 18)%nat ->
  exists tail,
    reg_row_line sc fw r = indent12 ++ acc ++ spaces (33 - length acc + (18 - length a)) ++ a
                           ++ spaces (fw + 1 + (18 - length t)) ++ t ++ tail
    /\ length (indent12 ++ acc ++ spaces (33 - length acc + (18 - length a)) ++ a) = 63%nat
    /\ length (spaces (fw + 1 + (18 - length t)) ++ t) = (fw + 19)%nat.
Proof. exact reg_row_columns. Qed.
Print Assumptions T01_reg_columns.

(* the dashed line is at least as long as every row line of its entry *)
Theorem T01_reg_dash : forall sc fw e r, In r (re_rows e) ->
  (length (reg_row_line sc fw r)
   <= max_len (map (@length N) (map (reg_row_line sc fw) (re_rows e))))%nat.
Proof. exact reg_dash_length. Qed.
Print Assumptions T01_reg_dash.

Theorem T01_reg_text : forall title sc fw es, no_nl title -> reg_names_ok es ->
  reg_text_spec title sc es (reg_txt_report_with title sc fw es).
Proof. exact reg_txt_report_spec. Qed.
Print Assumptions T01_reg_text.

Theorem T01_reg_text_ts : forall title sc fw ts_text es,
  no_nl title -> reg_names_ok (with_ts ts_text es) ->
  reg_text_spec title sc (with_ts ts_text es) (reg_txt_report title sc fw ts_text es).
Proof. exact reg_txt_report_ts_spec. Qed.
Print Assumptions T01_reg_text_ts.

(* ---------------------------------------------------------------- the oracles *)
(* the boolean oracles evaluated on the implementation's text decide the specification *)
Theorem T01_oracle_sound : forall title sc rows deltas text,
  bal_text_ok title sc rows deltas text = true -> bal_text_spec title sc rows deltas text.
Proof. exact bal_text_ok_sound. Qed.
Print Assumptions T01_oracle_sound.

Theorem T01_grp_oracle_sound : forall title sc groups text,
  grp_text_ok title sc groups text = true -> grp_text_spec title sc groups text.
Proof. exact grp_text_ok_sound. Qed.
Print Assumptions T01_grp_oracle_sound.

Theorem T01_reg_oracle_sound : forall title sc es text,
  reg_text_ok title sc es text = true -> reg_text_spec title sc es text.
Proof. exact reg_text_ok_sound. Qed.
Print Assumptions T01_reg_oracle_sound.

(* and the model's text passes the oracle *)
Theorem T01_oracle_model : forall title sc rows deltas,
  no_nl title -> bal_names_ok rows deltas -> covers rows deltas ->
  bal_text_ok title sc rows deltas (bal_txt_report title sc rows deltas) = true.
Proof. exact bal_text_ok_model. Qed.
Print Assumptions T01_oracle_model.

(* ---------------------------------------------------------------- non-vacuity *)
Example T01_example :
  let sc := mkScale 2 2 in
  covers ex_rows ex_deltas
  /\ bal_text_ok ex_title sc ex_rows ex_deltas (bal_txt_report ex_title sc ex_rows ex_deltas) = true
  /\ map words (text_lines (bal_txt_report ex_title sc ex_rows ex_deltas))
     = [ [[66; 65; 76]]; [[45; 45; 45]];
         [[48; 46; 48; 48]; [45; 50; 46; 53; 48]; [97]];
         [[45; 50; 46; 53; 48]; [45; 50; 46; 53; 48]; [97; 58; 98]];
         [[49; 46; 48; 49]; [49; 46; 48; 49]; [8364]; [120]];
         [repeat 61 23];
         [[45; 50; 46; 53; 48]];
         [[49; 46; 48; 49]; [8364]];
         [] ]%N.
Proof. exact text_example. Qed.
Print Assumptions T01_example.
