(* T05 (extension, not one of the numbered properties) — the text reports UNDER PRICE CONVERSION AND
   ROUNDING, end to end: C07 (documented rate) + C03 / C02 (exact accumulation) + C17 (rounding half away
   from zero, display only) + T01 (the text) composed.
   Only statements here: each theorem is closed by `exact` of a lemma of TkProofs.T05_proofs, followed by
   Print Assumptions.

   Model chain (TkModel.T05_report): conv_register_text / conv_balance_text =
     Price.make_ctx (load_db of the price file) -> Price.convert_post per posting ->
     Register.register / Balance.balance_report -> ReportText.reg_txt_report / bal_txt_report.
   Specification (TkSpec.T05_spec), computed from the price FILE as written:
     spec_rate lk rc f t p   = THE rate of posting p at transaction instant t: the latest applicable line
                               (Price_spec.rate_at = RateAt of C07), none without report commodity /
                               without commodity / already in the report commodity;
     spec_conv               = amount x that rate in the report commodity, else the posting unchanged;
     worth56                 = the exact worth, amount x rate, in units of 10^-56;
     fig_shows sc t z        = the printed text t reads back (Round_spec.dread) as a number with min..max
                               decimals equal to z / 10^28 rounded half away from zero to max decimals;
     register_text_spec / balance_text_spec = what the lines and blank-separated fields of the text are.
   Order of operations, as transcribed from the code and proved below: conversion is applied per posting
   (register_engine / Balance::balance receive convert_prices' output), the converted amounts are
   accumulated UNROUNDED (Decimal += / sum), and rounding happens once per printed figure inside the line
   formatting (Scale::format): no rounded value is ever fed back into a sum.  (The only other rounding
   in the chain is rust_decimal's own: a product needing more than 28 decimals or 96 bits is rounded
   half-even by the library — excluded here by txn_dom, skipped by the check as "outside the exact domain".)
   Hypotheses: distinct_keys f (lines of the price file have distinct (instant, base, eq), as in C07);
   txn_dom (amounts and converted amounts keep <= 28 decimals); *_names_in (commodity names are fields,
   account / header texts contain no newline; balance: accounts well formed). *)
From Coq Require Import ZArith List Permutation Sorted.
From TkModel Require Import Base Dec Acct Txn Balance Register Round Price ReportText T05_report.
From TkModel Require Import Time Group.
From TkSpec Require Import Balance_spec Register_spec Round_spec Price_spec ReportText_spec T05_spec T05_grp_spec.
From TkProofs Require Import T05_proofs T05_grp_proofs.
Local Open Scope Z_scope.

(* ---------------------------------------------------------------- the conversion *)
(* every posting of every transaction of the set reaches the reports as the documented conversion says
   (C07_rate / C07_unchanged / C07_inactive in one equation) *)
Theorem T05_conversion_is_documented : forall lk rc f txns tx p,
  distinct_keys f -> In tx txns -> In p (t_posts tx) ->
  ctx_conv (make_ctx lk txns rc (load_db f)) (t_hdr tx) p = spec_conv lk rc f (h_inst (t_hdr tx)) p.
Proof. exact ctx_conv_is_spec. Qed.
Print Assumptions T05_conversion_is_documented.

(* the rate used is THE documented rate (RateAt of C07: the latest applicable line for the pair) *)
Theorem T05_rate_is_documented : forall lk tgt f t p e,
  spec_rate lk (Some tgt) f t p = Some e ->
  p_comm p <> [] /\ p_comm p <> tgt /\ RateAt lk f tgt (p_comm p) t e.
Proof. exact spec_rate_RateAt. Qed.
Print Assumptions T05_rate_is_documented.

(* the converted amount is amount x rate EXACTLY (no rounding in the conversion) *)
Theorem T05_worth_exact : forall lk rc f t p, post_dom lk rc f t p ->
  d28 (cv_amount (spec_conv lk rc f t p)) * pow10 28 = worth56 lk rc f t p.
Proof. exact spec_conv_worth. Qed.
Print Assumptions T05_worth_exact.

(* ---------------------------------------------------------------- register *)
(* engine level: row by row the model's register under conversion IS the specification: the row of
   posting p (in-entry order of the ORIGINAL postings) carries the commodity and rate of spec_conv and a
   running total whose exact value is  sum of the converted amounts of all postings accumulated before
   under the same (account, commodity AFTER conversion)  +  its own converted amount:
   conversion first, per posting; accumulation of exact values; no rounding *)
Theorem T05_register_totals : forall lk rc f names input,
  distinct_keys f -> Forall (txn_dom lk rc f) input ->
  Forall2 (fun e se =>
             re_txn e = fst se
             /\ Forall2 (fun r s => rr_post r = sr_post s /\ rr_target r = sr_comm s /\ rr_rate r = sr_rate s
                                    /\ dwf (rr_total r) /\ d28 (rr_total r) = sr_total s)
                        (re_rows e) (snd se))
          (conv_register lk rc (load_db f) names input) (spec_register lk rc f names input).
Proof. exact conv_register_rel. Qed.
Print Assumptions T05_register_totals.

(* text level: the register text of the model satisfies register_text_spec: title, underline, per listed
   entry its header lines, one line per row and a dashed line; a row line is indent, account, and fields
   [amount; (original commodity; [@; rate])?; running total; commodity?] where amount reads back as the
   ORIGINAL amount rounded to the scale, the original commodity (and `@ rate` when the lookup shows one)
   is printed exactly when the posting was converted, and the running total reads back as the exact
   accumulated sum of T05_register_totals rounded half away from zero to the scale *)
Theorem T05_register_shown : forall title sc ts_text lk rc f names input,
  (sc_min sc <= sc_max sc)%N -> distinct_keys f -> Forall (txn_dom lk rc f) input ->
  no_nl title -> reg_names_in rc ts_text input ->
  register_text_spec title sc ts_text lk rc f names input
                     (conv_register_text title sc ts_text lk rc (load_db f) names input).
Proof. exact conv_register_text_shows. Qed.
Print Assumptions T05_register_shown.

(* the line of a converted row, as fmt_with_cfg prints it: after indent and account come the fields
   amount, original commodity, [`@`, rate], running total, commodity after conversion *)
Theorem T05_converted_row_fields : forall sc fw r,
  is_conv r = true -> field (p_comm (rr_post r)) -> opt_field (rr_target r) ->
  exists rest, reg_row_line sc fw r = indent12 ++ acct_str (p_acc (rr_post r)) ++ rest
    /\ words rest = [shown_text sc (p_amount (rr_post r))]
                    ++ (p_comm (rr_post r) :: match rr_rate r with Some rt => [[64%N]; dfmt rt] | None => [] end)
                    ++ [shown_text sc (rr_total r)] ++ opt_word (rr_target r).
Proof. exact converted_row_fields. Qed.
Print Assumptions T05_converted_row_fields.

(* ---------------------------------------------------------------- balance *)
(* the balance text of the model satisfies balance_text_spec: the rows are the listed keys — every
   (account, commodity AFTER conversion) posted to and all its ancestors, ascending — and in the line of
   row k the two figure fields read back as  spec_own / spec_tree of the CONVERTED postings (the exact
   sums of amount x documented rate over the account / over its subtree, T05_worth_exact) rounded half
   away from zero to the clamped scale; the delta lines likewise (sum of the listed own sums) *)
Theorem T05_balance_shown : forall title sc lk rc f names input text,
  (sc_min sc <= sc_max sc)%N -> distinct_keys f -> Forall (txn_dom lk rc f) input ->
  no_nl title -> bal_names_in rc input ->
  conv_balance_text title sc lk rc (load_db f) names input = Some text ->
  balance_text_spec title sc lk rc f names input text.
Proof. exact conv_balance_text_shows. Qed.
Print Assumptions T05_balance_shown.

(* ... and there always is such a text (lax mode: every ancestor account can be created) *)
Theorem T05_balance_total : forall title sc lk rc f names input,
  distinct_keys f -> Forall (txn_dom lk rc f) input -> bal_names_in rc input ->
  exists text, conv_balance_text title sc lk rc (load_db f) names input = Some text.
Proof. exact conv_balance_text_total. Qed.
Print Assumptions T05_balance_total.

(* the same for any postings (before any conversion is fixed): C02 + C17 + T01 in one statement *)
Theorem T05_balance_figures : forall known ord names ps rep title sc,
  (sc_min sc <= sc_max sc)%N -> (forall l, Permutation (ord l) l) ->
  Forall bpost_wf ps -> Forall bpost_names_ok ps -> no_nl title ->
  balance_report known ord (bal_sel_names names) ps = Some rep ->
  bal_text_shows title sc ps (listed_keys names ps) (bal_txt_report title sc (b_rows rep) (b_deltas rep)).
Proof. exact bal_report_text_shows. Qed.
Print Assumptions T05_balance_figures.

(* ---------------------------------------------------------------- balance groups *)
(* the balance-group text of the model satisfies balgrp_text_spec: after the title lines one block per period of the
   report zone, ascending by period key, each key once; a period has a block exactly when the selector lists a row of
   it; the block is a balance text titled by the period key whose figure fields read back as spec_own / spec_tree of
   the CONVERTED postings of exactly the transactions of that period (C13_partition: the periods partition the set),
   rounded half away from zero; its delta lines likewise.  gb / tzoff: any group-by key and any report zone *)
Theorem T05_balgrp_shown : forall title sc gb tzoff lk rc f names input text,
  (sc_min sc <= sc_max sc)%N -> distinct_keys f -> Forall (txn_dom lk rc f) input -> bal_names_in rc input ->
  conv_balgrp_text title sc gb tzoff lk rc (load_db f) names input = Some text ->
  balgrp_text_spec title sc gb tzoff lk rc f names input text.
Proof. exact conv_balgrp_text_shows. Qed.
Print Assumptions T05_balgrp_shown.

(* ---------------------------------------------------------------- unconverted rows *)
(* a posting without commodity, already in the report commodity, or without applicable price (or any
   posting when there is no report commodity) is shown unconverted: its row has no conversion field, shows
   its own commodity, and its line reads [amount; running total; own commodity] (reg_row_spec of T01); its
   running total accumulates under its own (account, commodity).  No hypothesis on scales or amounts. *)
Theorem T05_unconverted_rows : forall sc lk rc f names input e r,
  distinct_keys f ->
  In e (conv_register lk rc (load_db f) names input) -> In r (re_rows e) ->
  (rc = None \/ p_comm (rr_post r) = [] \/ rc = Some (p_comm (rr_post r))
   \/ exists tgt, rc = Some tgt /\ NoRate lk f tgt (p_comm (rr_post r)) (h_inst (t_hdr (re_txn e)))) ->
  spec_conv lk rc f (h_inst (t_hdr (re_txn e))) (rr_post r) = unconverted (rr_post r)
  /\ is_conv r = false /\ rr_target r = p_comm (rr_post r) /\ rr_rate r = None
  /\ (opt_field (p_comm (rr_post r)) -> forall fw, reg_row_spec sc r (reg_row_line sc fw r)).
Proof. exact unconverted_rows. Qed.
Print Assumptions T05_unconverted_rows.

(* ---------------------------------------------------------------- the oracles *)
(* the boolean oracles evaluated by the check on the IMPLEMENTATION's text decide the specification *)
Theorem T05_oracle_sound : forall title sc ts_text lk rc f names input text,
  (register_text_ok title sc ts_text lk rc f names input text = true ->
   register_text_spec title sc ts_text lk rc f names input text)
  /\ (balance_text_ok title sc lk rc f names input text = true ->
      balance_text_spec title sc lk rc f names input text).
Proof. exact text_oracles_sound. Qed.
Print Assumptions T05_oracle_sound.

Theorem T05_figure_oracle_sound : forall sc z t, fig_ok sc z t = true -> fig_shows sc t z.
Proof. exact fig_ok_sound. Qed.
Print Assumptions T05_figure_oracle_sound.

(* ---------------------------------------------------------------- non-vacuity *)
(* two postings of 0.5 ACME to a:x at 0.25 EUR (txn-time), -7 EUR from b, 3 without commodity to c, scale
   (2,2): each converted posting is worth 0.125; the running totals read 0.13 and 0.25 (not 0.26), the
   balance row a:x reads 0.25, the row of the never-posted parent a reads own 0.00 / tree 0.25; the
   rows of b and c are unconverted; the hypotheses of the theorems hold and the oracle accepts *)
Example T05_example :
  distinct_keys t05_file
  /\ map words (text_lines (conv_register_text t05_title t05_sc t05_tstext LkTxnTime (Some t05_EUR)
                                               (load_db t05_file) [] t05_txns))
     = [ [[82]]; [[45]]; [[116]];
         [[99]; [51; 46; 48; 48]; [51; 46; 48; 48]];
         [[97; 58; 120]; [48; 46; 53; 48]; t05_ACME; [64]; [48; 46; 50; 53]; [48; 46; 49; 51]; t05_EUR];
         [[97; 58; 120]; [48; 46; 53; 48]; t05_ACME; [64]; [48; 46; 50; 53]; [48; 46; 50; 53]; t05_EUR];
         [[98]; [45; 55; 46; 48; 48]; [45; 55; 46; 48; 48]; t05_EUR];
         [repeat 45%N 106]; [] ]%N
  /\ option_map (fun t => map words (text_lines t))
       (conv_balance_text t05_title t05_sc LkTxnTime (Some t05_EUR) (load_db t05_file) [] t05_txns)
     = Some [ [[82]]; [[45]];
              [[51; 46; 48; 48]; [51; 46; 48; 48]; [99]];
              [[48; 46; 48; 48]; [48; 46; 50; 53]; t05_EUR; [97]];
              [[48; 46; 50; 53]; [48; 46; 50; 53]; t05_EUR; [97; 58; 120]];
              [[45; 55; 46; 48; 48]; [45; 55; 46; 48; 48]; t05_EUR; [98]];
              [repeat 61%N 25];
              [[51; 46; 48; 48]];
              [[45; 54; 46; 55; 53]; t05_EUR]; [] ]%N
  /\ register_text_ok t05_title t05_sc t05_tstext LkTxnTime (Some t05_EUR) t05_file [] t05_txns
       (conv_register_text t05_title t05_sc t05_tstext LkTxnTime (Some t05_EUR) (load_db t05_file) [] t05_txns) = true
  /\ Forall (txn_dom LkTxnTime (Some t05_EUR) t05_file) t05_txns.
Proof. exact t05_example. Qed.
Print Assumptions T05_example.
