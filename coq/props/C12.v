(* C12 — Strict mode accepts exactly the journals that use only declared names.
   Statements only; proofs in TkProofs.Charts_proofs. Model: TkModel.Charts (settings.rs
   look-ups threaded through the journal in the code's order, on top of TkModel.Accept);
   specification: TkSpec.Charts_spec (names used, declared, compared configurations). *)
From Coq Require Import Permutation.
From TkModel Require Import Base Dec Acct Txn Accept Balance Charts.
From TkSpec Require Import Charts_spec.
From TkProofs Require Import Charts_proofs.

(* strict mode accepts a journal (with the same transactions) exactly when the journal is
   acceptable with nothing declared and strict off — same empty-commodity permission — and
   every posted account (implicit last posting included), every posting / closing-price /
   report / price-file commodity, every tag and the equity account is declared *)
Theorem C12_strict_iff : forall cf j ts,
  cf_strict cf = true ->
  ((exists ch, load cf j = Ok (ch, ts)) <->
   (exists ch, load (no_chart cf) j = Ok (ch, ts)) /\ declared cf j).
Proof. exact strict_iff. Qed.
Print Assumptions C12_strict_iff.

(* an undeclared ancestor of a declared account resolves for reports (get_txn_account)
   but cannot be posted to: the look-up fails and every journal posting to it is rejected *)
Theorem C12_parent_not_postable : forall cf a d ch,
  cf_strict cf = true -> In d (cf_accounts cf) -> is_ancestor a d -> ~ In a (cf_accounts cf) ->
  settings_from cf = Ok ch ->
  (forall c, get_commodity ch c = true -> get_txn_account ch a c = true)
  /\ (forall c, exists e, goc_account ch a c = Err e)
  /\ (forall j ch' ts, In a (journal_accounts j) -> load cf j <> Ok (ch', ts)).
Proof. exact parent_not_postable. Qed.
Print Assumptions C12_parent_not_postable.

(* the synthetic parents are exactly the undeclared proper ancestors of declared accounts;
   the iteration order of the map of declared accounts is irrelevant *)
Theorem C12_synthetic_parents : forall names a,
  In a (synth_from names) <-> (exists d, In d names /\ is_ancestor a d) /\ ~ In a names.
Proof. exact synth_spec. Qed.
Print Assumptions C12_synthetic_parents.

Theorem C12_synthetic_order_irrelevant : forall names names' a,
  Permutation names names' -> (In a (synth_from names) <-> In a (synth_from names')).
Proof. exact synth_order_irrelevant. Qed.
Print Assumptions C12_synthetic_order_irrelevant.

(* either mode, any charts: after an accepted load the account and the commodity of every
   posting and every proper ancestor of the account resolve through get_txn_account ... *)
Theorem C12_charts_closed : forall cf j ch ts,
  load cf j = Ok (ch, ts) ->
  forall p, In p (concat ts) ->
    get_txn_account ch (p_acc p) (p_comm p) = true
    /\ forall a, is_ancestor a (p_acc p) -> get_txn_account ch a (p_comm p) = true.
Proof. exact charts_closed_b. Qed.
Print Assumptions C12_charts_closed.

(* ... hence Balance.bubble's `known` parameter may be taken constantly true: the balance
   over postings to posted accounts (any amounts / converted commodities, any hash order)
   is the one C02 speaks about and cannot fail on an unknown account *)
Theorem C12_balance_resolves : forall cf j ch ts ord bps,
  load cf j = Ok (ch, ts) -> on_posted ts bps ->
  balance (acct_known ch) ord bps = balance (fun _ => true) ord bps.
Proof. exact balance_known_all. Qed.
Print Assumptions C12_balance_resolves.

(* strict off: acceptance and the accepted transactions do not depend on the charts *)
Theorem C12_lax_independent : forall cf j ts,
  cf_strict cf = false ->
  ((exists ch, load cf j = Ok (ch, ts)) <-> (exists ch, load (no_chart cf) j = Ok (ch, ts))).
Proof. exact lax_accept_independent. Qed.
Print Assumptions C12_lax_independent.

(* ... nor does the only chart-dependent input of the reports *)
Theorem C12_lax_outputs_independent : forall cf j ch ch' ts ts' ord bps,
  cf_strict cf = false ->
  load cf j = Ok (ch, ts) -> load (no_chart cf) j = Ok (ch', ts') ->
  ts = ts' /\ (on_posted ts bps -> balance (acct_known ch) ord bps = balance (acct_known ch') ord bps).
Proof. exact lax_outputs_independent. Qed.
Print Assumptions C12_lax_outputs_independent.

(* both modes accept: same transactions, same balance *)
Theorem C12_modes_agree : forall cf j ch1 ch2 ts1 ts2 ord bps,
  load (with_strict true cf) j = Ok (ch1, ts1) -> load (with_strict false cf) j = Ok (ch2, ts2) ->
  ts1 = ts2 /\ (on_posted ts1 bps -> balance (acct_known ch1) ord bps = balance (acct_known ch2) ord bps).
Proof. exact modes_agree. Qed.
Print Assumptions C12_modes_agree.

(* layering: the chart look-ups in the code's order, then exactly Accept's logic *)
Theorem C12_layered_on_accept : forall ch ct ch' ps,
  accept_txn_charts ch ct = Ok (ch', ps) <->
  run_lks ch (txn_lks ct) = Ok ch' /\ tags_nodup_b ct = true /\ accept_txn (ct_raw ct) = Ok ps.
Proof. exact accept_txn_charts_iff. Qed.
Print Assumptions C12_layered_on_accept.

(* the oracle evaluated on the implementation's three runs is sound for the specification *)
Theorem C12_oracle_sound : forall cf j o, obs_ok_b cf j o = true -> obs_spec cf j o.
Proof. exact oracle_sound. Qed.
Print Assumptions C12_oracle_sound.

(* non-vacuity: strict, chart with gaps (a:b:c and e declared; a:b, a synthetic), tag,
   '{..}' with an undeclared commodity, '@', implicit last posting, empty commodity,
   report commodity, price file, equity account: accepted; posting to a:b: rejected in
   strict mode, accepted with strict off *)
Example C12_example :
  cf_strict ex_cf = true /\ declared_b ex_cf ex_j = true
  /\ option_map (fun x => (c_synth (fst x), map (fun ps => map (fun p => (p_comm p, dm (p_txn_amount p))) ps) (snd x)))
                (match load ex_cf ex_j with Ok x => Some x | Err _ => None end)
     = Some ([ex_acc [97]%N; ex_acc [97; 98]%N],
             [[(ex_USD, 20%Z); (ex_EUR, (-20)%Z)]; [([], 1%Z); ([], (-1)%Z)]])
  /\ is_ok (load (no_chart ex_cf) ex_j) = true
  /\ is_ok (load ex_cf ex_j_parent) = false
  /\ is_ok (load (with_strict false ex_cf) ex_j_parent) = true.
Proof. exact charts_example. Qed.

(* the witnesses of finding F9 (fixed) in the model of the repaired code *)
Example C12_F9_regression :
  balance_ok (f9_cf [ex_acc [97; 98; 99]%N]) f9_j = true
  /\ balance_ok (f9_cf [ex_acc [97; 98; 99; 100]%N; ex_acc [97; 98; 99]%N; ex_acc [101]%N]) f9_j = true
  /\ balance_ok (with_strict true (f9_cf [ex_acc [97; 98; 99; 100]%N; ex_acc [97; 98; 99]%N; ex_acc [101]%N])) f9_j = true.
Proof. exact f9_regression. Qed.
