(* C06 — Identity export re-parses to the same transactions and is a fixed point.
   Statements only; proofs in TkProofs.Journal_*proofs.

   Model: TkModel.Journal — printers (Display for Transaction / Posting / TxnHeader / GeoPoint / Decimal,
   rfc_3339, identity exporter) and the character-level journal parser (parser/parts/*.rs) followed by the
   semantic layer Accept.accept_txn and the canonical sort.  All stages are reached:
     stage 1  decimal literal            C06_dec_roundtrip
     stage 2  posting line               C06_posting_roundtrip
     stage 3  time stamp, header line, metadata, comments   C06_ts_roundtrip (+ lemmas used by stage 4)
     stage 4  transaction and journal    C06_chunk_roundtrip, C06_roundtrip, C06_fixpoint
     stage 5  every ACCEPTED journal     C06_load_wf, C06_accepted_roundtrip, C06_accepted_fixpoint
   journal_wf (TkSpec.Journal_spec) = decidable description of the transactions the loader produces: time
   stamp shown at a whole-minute offset within jiff's ranges, civil year 0000..9999; trimmed code /
   description; lower-case uuid; location in range; valid distinct tags; one-line comments; names that
   the grammar reads AND the semantic name rules accept (AccountTreeNode::from, Commodity::from: no white
   space such as U+1680, which is an identifier character of the grammar);
   non-zero amounts; every decimal in the 96-bit / 28-decimals type; a unit-priced posting stores
   amount * price for a representable non-negative price (unit_priced - "price products are exact"); one
   transaction commodity; zero sum; canonical order.  C06_load_wf proves that every journal accepted by the
   model loader yields such transactions, under two explicit hypotheses:
     cfg_ok    the journal zone is a fixed whole-minute offset (named zones with sub-minute offsets: finding
               F13, C06_subminute_zone_refuted) and the default time lies inside the day;
     in_domain every amount / transaction amount of the result fits the decimal type (Dec.v computes on
               unbounded integers; the library would round or panic - outside the property's quantifier).
   Decimal division is a contract on exact quotients (ddiv), validated against rust_decimal by the check. *)
From TkModel Require Import Base Dec Acct Txn Accept Journal.
From TkSpec Require Import Journal_spec.
From TkProofs Require Import Journal_base_proofs Journal_civil_proofs Journal_time_proofs Journal_line_proofs
                             Journal_header_proofs Journal_proofs Journal_image_proofs.
Local Open Scope Z_scope.

(* stage 1: a printed decimal reads back with the same mantissa and scale, whatever follows it
   (as long as that is neither a digit nor '.') *)
Theorem C06_dec_roundtrip : forall d rest,
  fits d = true -> num_stop rest = true -> take_number (print_dec d ++ rest) = Some (d, rest).
Proof. exact dec_roundtrip. Qed.
Print Assumptions C06_dec_roundtrip.

(* every day number has a valid civil date that maps back to it (all of Z: one swept 400-year cycle
   + periodicity) *)
Theorem C06_civil_of_days : forall z,
  let '(y, m, d) := civil_from_days z in md_ok y m d = true /\ days_from_civil y m d = z.
Proof. exact civil_of_days. Qed.
Print Assumptions C06_civil_of_days.

(* stage 3a: rfc_3339 output reads back to the same instant AND offset, for every journal zone setting *)
Theorem C06_ts_roundtrip : forall cfg inst off rest,
  ts_ok inst off = true -> parse_ts cfg (print_ts inst off ++ rest) = Some (inst, off, rest).
Proof. exact ts_roundtrip. Qed.
Print Assumptions C06_ts_roundtrip.

(* stage 2: a printed posting line parses to the posting's syntax: account, amount, commodity,
   '@' unit price (re-derived by division) or '=' total, comment *)
Theorem C06_posting_roundtrip : forall jp,
  jpost_wf jp = true ->
  parse_posting_line (indent ++ print_posting jp) = Some (PL_post (jpost_raw jp) (jp_comment jp)).
Proof. exact posting_line_roundtrip. Qed.
Print Assumptions C06_posting_roundtrip.

(* stage 4a: the printed lines of a transaction parse to its header and postings ... *)
Theorem C06_chunk_roundtrip : forall cfg t,
  jtxn_wf t = true -> parse_chunk cfg (txn_lines t) = Some (jtxn_ptxn t).
Proof. exact chunk_roundtrip. Qed.
Print Assumptions C06_chunk_roundtrip.

(* ... and the semantic layer turns that syntax back into exactly the transaction *)
Theorem C06_accept_roundtrip : forall t, jtxn_wf t = true -> accept_ptxn (jtxn_ptxn t) = Ok t.
Proof. exact accept_roundtrip. Qed.
Print Assumptions C06_accept_roundtrip.

(* stage 4b: the identity export is an accepted journal that loads to the same ordered transactions,
   field by field (here: identical values, even the decimal representations) *)
Theorem C06_roundtrip : forall cfg ts,
  journal_wf ts = true -> load_journal cfg (print_journal ts) = Ok ts.
Proof. exact load_roundtrip. Qed.
Print Assumptions C06_roundtrip.

(* exporting the re-loaded journal reproduces the identical text *)
Theorem C06_fixpoint : forall cfg ts ts',
  journal_wf ts = true -> load_journal cfg (print_journal ts) = Ok ts' -> print_journal ts' = print_journal ts.
Proof. exact export_fixpoint. Qed.
Print Assumptions C06_fixpoint.

(* the same, phrased with the specification's observation (export, re-load, re-export) *)
Theorem C06_observation : forall cfg ts,
  journal_wf ts = true ->
  fixpoint_obs ts (print_journal ts)
    (match load_journal cfg (print_journal ts) with Ok d2 => Some (d2, print_journal d2) | Err _ => None end).
Proof. exact export_observation. Qed.
Print Assumptions C06_observation.

(* the explicit hypothesis on unit prices implies its decidable form used in journal_wf *)
Theorem C06_unit_price_exact : forall p,
  dm (p_amount p) <> 0 -> unit_priced p -> unit_priced_b p = true.
Proof. exact unit_priced_b_of. Qed.
Print Assumptions C06_unit_price_exact.

(* the oracle evaluated on the implementation's observables is sound for the specification *)
Theorem C06_oracle_sound : forall d1 e1 second,
  fixpoint_obs_b d1 e1 second = true -> fixpoint_obs d1 e1 second.
Proof. exact fixpoint_obs_b_sound. Qed.
Print Assumptions C06_oracle_sound.

(* finding F13 (open): without the whole-minute offset hypothesis the round trip fails — an offset
   with seconds is exported as +01:39:49, which the grammar rejects *)
Theorem C06_subminute_offset_refuted :
  exists t cfg, forallb jpost_wf (jt_posts t) = true /\ h_off (jt_hdr t) mod 60 <> 0
    /\ load_journal cfg (print_journal [t]) = Err E_syntax.
Proof. exact subminute_offset_refuted. Qed.
Print Assumptions C06_subminute_offset_refuted.

(* stage 5: whatever text the loader accepts, the result is well formed ... *)
Theorem C06_load_wf : forall cfg s ts,
  cfg_ok cfg = true -> load_journal cfg s = Ok ts -> in_domain ts = true -> journal_wf ts = true.
Proof. exact load_wf. Qed.
Print Assumptions C06_load_wf.

(* ... hence THE PROPERTY for every accepted journal: its identity export is itself accepted (under any
   journal-zone setting cfg') and loads to the same ordered transactions - instants and offsets, codes,
   descriptions, uuids, locations, tags, comments, accounts, amounts, commodities, closing prices,
   posting comments (here: identical, including the decimal representations) *)
Theorem C06_accepted_roundtrip : forall cfg cfg' s ts,
  cfg_ok cfg = true -> load_journal cfg s = Ok ts -> in_domain ts = true ->
  load_journal cfg' (print_journal ts) = Ok ts.
Proof. exact accepted_roundtrip. Qed.
Print Assumptions C06_accepted_roundtrip.

(* ... and exporting the re-loaded journal reproduces the identical text *)
Theorem C06_accepted_fixpoint : forall cfg cfg' s ts ts',
  cfg_ok cfg = true -> load_journal cfg s = Ok ts -> in_domain ts = true ->
  load_journal cfg' (print_journal ts) = Ok ts' -> print_journal ts' = print_journal ts.
Proof. exact accepted_fixpoint. Qed.
Print Assumptions C06_accepted_fixpoint.

(* finding F13 on journals: the hypothesis cfg_ok cannot be dropped - with a journal zone at +01:39:49
   an accepted journal is exported to a text that is rejected *)
Theorem C06_subminute_zone_refuted :
  exists cfg s ts, load_journal cfg s = Ok ts /\ in_domain ts = true /\ load_journal cfg (print_journal ts) = Err E_syntax.
Proof. exact subminute_zone_refuted. Qed.
Print Assumptions C06_subminute_zone_refuted.

(* non-vacuity: a transaction with code, description, uuid, location, tags, three comments, a unit
   price with trailing zeros, a total price, posting comments (also an empty one) is well formed, and
   the model's export of it is the text the implementation produced (corpus/C06/00-all-features);
   that text is accepted by the model loader and yields this transaction, inside the domain *)
Example C06_example :
  journal_wf [example_txn; example_txn] = true /\ print_journal [example_txn] = example_text.
Proof. exact example_wf. Qed.
Example C06_example_accepted :
  cfg_ok (mkCfg 0 0) = true /\ load_journal (mkCfg 0 0) example_text = Ok [example_txn] /\ in_domain [example_txn] = true.
Proof. exact example_accepted. Qed.
