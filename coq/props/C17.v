(* C17 — Report figures round half-away-from-zero to the configured scale, display only.
   Only statements here: each theorem is closed by `exact` of a lemma proved in
   TkProofs.Round_proofs, followed by Print Assumptions.

   Model (TkModel.Round): precision = Scale::get_precision, dround_hafz =
   Decimal::round_dp_with_strategy(_, MidpointAwayFromZero), dfmt = Decimal::to_string,
   with_decimals = Scale::with_decimals (zero padding by hand), shown_text sc d =
   Scale::format = the characters a text report prints for the figure d.
   Specification (TkSpec.Round_spec), on rational numbers: qval d = mantissa / 10^scale,
   hafz k q = sign(q) * floor(|q| * 10^k + 1/2) / 10^k, dread = the number a printed text
   denotes and how many decimals it is written with. *)
From Coq Require Import QArith Qround Qabs.
From TkModel Require Import Base Dec Acct Balance Round.
From TkSpec Require Import Balance_spec Round_spec.
From TkProofs Require Import Round_proofs.
Local Open Scope Z_scope.

(* the library operation as modelled is round-half-away-from-zero of the exact value,
   for every mantissa, every stored scale and every k *)
Theorem C17_round_contract : forall d k,
  (qval (dround_hafz d k) == hafz k (qval d))%Q.
Proof. exact dround_hafz_spec. Qed.
Print Assumptions C17_round_contract.

(* the printed text is a number written with at least min and at most max decimals
   (exactly get_precision many), and it denotes the value that was rounded for display *)
Theorem C17_digits : forall sc d, (sc_min sc <= sc_max sc)%N ->
  exists r, dread (shown_text sc d) = Some r
    /\ (sc_min sc <= ds r <= sc_max sc)%N
    /\ (qval r == qval (shown_dec sc d))%Q.
Proof. exact shown_digits. Qed.
Print Assumptions C17_digits.

(* a figure that needs no more than max decimals is shown exactly *)
Theorem C17_exact : forall sc d, (sc_min sc <= sc_max sc)%N ->
  needs_at_most d (sc_max sc) = true -> (qval (shown_dec sc d) == qval d)%Q.
Proof. exact shown_exact. Qed.
Print Assumptions C17_exact.

(* any other figure is shown with exactly max decimals: the exact figure rounded half
   away from zero *)
Theorem C17_rounded : forall sc d, (sc_min sc <= sc_max sc)%N ->
  needs_at_most d (sc_max sc) = false ->
  ds (shown_dec sc d) = sc_max sc /\ precision sc d = sc_max sc
  /\ (qval (shown_dec sc d) == hafz (sc_max sc) (qval d))%Q.
Proof. exact shown_rounded. Qed.
Print Assumptions C17_rounded.

(* every exact midpoint moves away from zero (positive and negative alike) *)
Theorem C17_midpoint_away : forall d k, (k < ds d)%N ->
  2 * (Z.abs (dm d) mod pow10 (ds d - k)) = pow10 (ds d - k) ->
  Z.abs (dm (dround_hafz d k)) = Z.abs (dm d) / pow10 (ds d - k) + 1
  /\ (Qabs (qval d) < Qabs (qval (dround_hafz d k)))%Q.
Proof. exact dround_midpoint. Qed.
Print Assumptions C17_midpoint_away.

(* the rounded figure is a nearest one: in units of the last stored decimal it is at most
   half a unit of the last shown decimal away *)
Theorem C17_nearest : forall d k, (k < ds d)%N ->
  2 * Z.abs (dm (dround_hafz d k) * pow10 (ds d - k) - dm d) <= pow10 (ds d - k).
Proof. exact dround_nearest. Qed.
Print Assumptions C17_nearest.

(* display only, figure level: what is shown for a figure is a function of its exact value
   z = value * 10^28 alone — not of the stored scale and not of the way it was summed.
   With C02_own / C02_tree / C02_delta (d28 figure = exact sum of the unrounded postings)
   this is "value (shown total) = hafz (sum of the exact parts)". *)
Theorem C17_display_only : forall sc d z, (sc_min sc <= sc_max sc)%N -> dwf d -> d28 d = z ->
  shows sc (shown_text sc d) (q28 z).
Proof. exact fig_display_only. Qed.
Print Assumptions C17_display_only.

Theorem C17_same_value : forall sc d d', (sc_min sc <= sc_max sc)%N -> (qval d == qval d')%Q ->
  (qval (shown_dec sc d) == qval (shown_dec sc d'))%Q.
Proof. exact shown_same_value. Qed.
Print Assumptions C17_same_value.

(* display only, report level: when the rows carry the exact sums of the postings, every
   amount column of the balance / balance-group text shows the rounded exact sum *)
Theorem C17_balance_rows : forall sc ps rows, (sc_min sc <= sc_max sc)%N ->
  Forall (exact_row ps) rows -> Forall2 (row_shows sc ps) rows (bal_text_rows sc rows).
Proof. exact bal_rows_display_only. Qed.
Print Assumptions C17_balance_rows.

Theorem C17_balance_deltas : forall sc rows deltas, (sc_min sc <= sc_max sc)%N ->
  (forall c d, In (c, d) deltas -> dwf d /\ d28 d = spec_delta rows c) ->
  forall t c, In (t, c) (bal_text_deltas sc deltas) -> shows sc t (q28 (spec_delta rows c)).
Proof. exact bal_deltas_display_only. Qed.
Print Assumptions C17_balance_deltas.

Theorem C17_register_row : forall sc amount total za zt, (sc_min sc <= sc_max sc)%N ->
  dwf amount -> dwf total -> d28 amount = za -> d28 total = zt ->
  shows sc (fst (reg_text_row sc amount total)) (q28 za)
  /\ shows sc (snd (reg_text_row sc amount total)) (q28 zt).
Proof. exact reg_row_display_only. Qed.
Print Assumptions C17_register_row.

(* the executable oracle applied to the text printed by the implementation is sound for
   the specification: a `true` means the text has min..max decimals and denotes the exact
   figure rounded half away from zero to max decimals — the exact figure itself whenever
   that needs no more than max decimals *)
Theorem C17_oracle_sound : forall sc d t, shown_ok sc d t = true ->
  exists r, dread t = Some r
    /\ (sc_min sc <= ds r <= sc_max sc)%N
    /\ (qval r == hafz (sc_max sc) (qval d))%Q
    /\ (needs_at_most d (sc_max sc) = true -> (qval r == qval d)%Q).
Proof. exact shown_ok_sound. Qed.
Print Assumptions C17_oracle_sound.

Theorem C17_round_oracle_sound : forall k d r, round_ok k d r = true ->
  (ds r <= k)%N /\ (qval r == hafz k (qval d))%Q.
Proof. exact round_ok_sound. Qed.
Print Assumptions C17_round_oracle_sound.

(* ... and it accepts everything the model prints (the oracle is not stricter than the theorems) *)
Theorem C17_oracle_complete : forall sc d, (sc_min sc <= sc_max sc)%N ->
  shown_ok sc d (shown_text sc d) = true.
Proof. exact shown_ok_model. Qed.
Print Assumptions C17_oracle_complete.

(* the text is total: shown_text is a function into strings for every figure and every scale
   setting (no panic outcome; finding F18 - the library's Display with a precision overflowing
   its 32-character buffer - is repaired by padding by hand). Where the library's Display
   with a precision does produce a text, it is the same text. *)
Theorem C17_library_display_agrees : forall d p t, (ds d <= p)%N -> dfmt_prec d p = Some t ->
  t = with_decimals d p.
Proof. exact dfmt_prec_with_decimals. Qed.
Print Assumptions C17_library_display_agrees.

(* non-vacuity: 0.125 + 0.125 at scale (2,2): the parts are shown as 0.13 and 0.13, their
   total as 0.25 = hafz (0.250), not as 0.26; the rows satisfy exact_row *)
Example C17_example :
  exists rows, balance (fun _ => true) (fun l => l) ex_ps = Some rows
  /\ Forall (exact_row ex_ps) rows
  /\ map (fun tr => (bt_acc tr, bt_own tr, bt_tree tr)) (bal_text_rows ex_sc rows)
     = [ ([[97]],       [48; 46; 48; 48],     [48; 46; 50; 53]);
         ([[97]; [98]], [48; 46; 49; 51],     [48; 46; 49; 51]);
         ([[97]; [99]], [48; 46; 49; 51],     [48; 46; 49; 51]);
         ([[101]],      [45; 48; 46; 50; 53], [45; 48; 46; 50; 53]) ]%N.
Proof. exact display_example. Qed.

(* 0.125 -> 0.13, -0.125 -> -0.13, 2.5 -> 3, -2.5 -> -3, 3.5 -> 4, 0.5 -> 1,
   -0.004 -> 0.00 (no sign), -0.005 -> -0.01; 1234.5 under { min = 28, max = 28 } is
   printed with 28 decimals (33 characters) *)
Example C17_midpoints :
  map (fun mk => shown_text (mkScale 0 (snd mk)) (mkDec (fst (fst mk)) (snd (fst mk))))
      [ (125, 3%N, 2%N); (-125, 3%N, 2%N); (25, 1%N, 0%N); (-25, 1%N, 0%N); (35, 1%N, 0%N);
        (5, 1%N, 0%N); (-4, 3%N, 2%N); (-5, 3%N, 2%N) ]
  = [ [48; 46; 49; 51]; [45; 48; 46; 49; 51]; [51]; [45; 51]; [52]; [49];
      [48; 46; 48; 48]; [45; 48; 46; 48; 49] ]%N
  /\ shown_text (mkScale 28 28) (mkDec 12345 1)
     = ([49; 50; 51; 52; 46; 53] ++ repeat 48 27)%N.
Proof. exact midpoint_examples. Qed.
