(* C15 — Loading is total and fail-stop: result or error, never panic or partial data.
   Statements only; proofs in TkProofs.Load_proofs. The character-level statement
   ("text is never partially consumed") is proved about the journal grammar model in
   props/C06.v as far as that model reaches; here: the layer above the per-file parser
   and the arithmetic sites of the load path. *)
From TkModel Require Import Base Dec Txn Load.
From TkProofs Require Import Load_proofs.

(* for every per-file parser: a transaction set exists only if EVERY file was accepted,
   and it then consists of exactly the transactions of all files *)
Theorem C15_all_or_nothing : forall (file : Type) (parse : file -> res (list txn)) files ts,
  load_files parse files = Ok ts ->
  exists ls, Forall2 (fun f l => parse f = Ok l) files ls /\ ts = sort_txns (concat ls).
Proof. exact @load_ok_all. Qed.
Print Assumptions C15_all_or_nothing.

(* an error in any transaction of any file means no transaction set (so no report or
   export) is produced from the others *)
Theorem C15_one_error_rejects_all : forall (file : Type) (parse : file -> res (list txn)) files f c,
  In f files -> parse f = Err c -> exists c', load_files parse files = Err c'.
Proof. exact @load_err_any. Qed.
Print Assumptions C15_one_error_rejects_all.

(* loading is a total function of the per-file results: result or error, nothing else *)
Theorem C15_total : forall (file : Type) (parse : file -> res (list txn)) files,
  (forall f, In f files -> exists l, parse f = Ok l) -> exists ts, load_files parse files = Ok ts.
Proof. exact @load_total. Qed.
Print Assumptions C15_total.

(* arithmetic sites of the load path: the time-stamp fraction cannot exceed its type, and
   the checked decimal operations return the exact result or report overflow *)
Theorem C15_fraction_in_range : forall digits len, (1 <= len <= 9)%N -> (digits < 10 ^ len)%N ->
  (frac_ns digits len < 10 ^ 9)%N /\ (frac_ns digits len < 2 ^ 31)%N.
Proof. exact frac_ns_bound. Qed.
Print Assumptions C15_fraction_in_range.

Theorem C15_checked_arithmetic_exact : forall a b,
  (forall r, dadd_checked a b = Some r -> r = dadd a b /\ fits r = true)
  /\ (forall r, dmul_checked a b = Some r -> r = dmul a b /\ fits r = true).
Proof. exact checked_ops_exact. Qed.
Print Assumptions C15_checked_arithmetic_exact.
