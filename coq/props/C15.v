(* C15 — Loading is total and fail-stop: result or error, never panic or partial data.
   Statements only; proofs in TkProofs.Load_proofs. The character-level statement
   ("text is never partially consumed") is proved about the journal grammar model in
   props/C06.v as far as that model reaches; here: the layer above the per-file parser
   and the arithmetic sites of the load path. *)
From Coq Require Import Permutation.
From TkModel Require Import Base Dec Txn Load.
From TkModel Require Import Acct Accept Journal.
From TkProofs Require Import Load_proofs.
From TkProofs Require Import Journal_layout_proofs.

(* for every per-file parser: a transaction set exists only if EVERY file was accepted,
   and it then consists of exactly the transactions of all files *)
Theorem C15_all_or_nothing : forall (file : Type) (parse : file -> res (list txn)) files ts,
  load_files parse files = Ok ts ->
  exists ls, Forall2 (fun f l => parse f = Ok l) files ls /\ ts = sort_txns (concat ls).
Proof. exact @load_ok_all. Qed.
Print Assumptions C15_all_or_nothing.

(* an error in any transaction of any file means no transaction set (so no report or
   export) is produced from the others *)
Theorem C15_one_error_rejects_all : forall (file : Type) (parse : file -> res (list txn)) files f c,
  In f files -> parse f = Err c -> exists c', load_files parse files = Err c'.
Proof. exact @load_err_any. Qed.
Print Assumptions C15_one_error_rejects_all.

(* loading is a total function of the per-file results: result or error, nothing else *)
Theorem C15_total : forall (file : Type) (parse : file -> res (list txn)) files,
  (forall f, In f files -> exists l, parse f = Ok l) -> exists ts, load_files parse files = Ok ts.
Proof. exact @load_total. Qed.
Print Assumptions C15_total.

(* arithmetic sites of the load path: the time-stamp fraction cannot exceed its type, and
   the checked decimal operations return the exact result or report overflow *)
Theorem C15_fraction_in_range : forall digits len, (1 <= len <= 9)%N -> (digits < 10 ^ len)%N ->
  (frac_ns digits len < 10 ^ 9)%N /\ (frac_ns digits len < 2 ^ 31)%N.
Proof. exact frac_ns_bound. Qed.
Print Assumptions C15_fraction_in_range.

Theorem C15_checked_arithmetic_exact : forall a b,
  (forall r, dadd_checked a b = Some r -> r = dadd a b /\ fits r = true)
  /\ (forall r, dmul_checked a b = Some r -> r = dmul a b /\ fits r = true).
Proof. exact checked_ops_exact. Qed.
Print Assumptions C15_checked_arithmetic_exact.

(* ------------------------------------------------------------------ the journal text (character-level
   parser model TkModel.Journal, tied to the implementation by the C06 correspondence check):
   the text is never partially consumed.  Proofs in TkProofs.Journal_layout_proofs. *)

(* an accepted text (1) ends with a line terminator and is exactly its terminated lines, without a
   stray CR; (2) its chunks are exactly the maximal runs of non-blank lines: every non-blank line is in
   exactly one chunk, no chunk is empty or contains a blank line, each chunk is a contiguous block
   bounded by a blank line or the edge of the text on both sides; (3) each chunk, WHOLE, is one
   transaction; (4) there is at least one *)
Theorem C15_no_partial_consumption : forall cfg s pts, parse_journal cfg s = Ok pts ->
  exists ls0, split_lines s = (ls0, []) /\ s = unlines ls0
  /\ (let ls := map strip_cr ls0 in
      existsb (existsb (fun c => (c =? 13)%N)) ls = false
      /\ concat (chunks ls) = filter (fun l => negb (is_blank l)) ls
      /\ Forall (fun c => c <> [] /\ forallb (fun l => negb (is_blank l)) c = true) (chunks ls)
      /\ (forall c, In c (chunks ls) -> exists pre post, ls = pre ++ c ++ post
            /\ (pre = [] \/ exists p b, pre = p ++ [b] /\ is_blank b = true)
            /\ (post = [] \/ exists b q, post = b :: q /\ is_blank b = true))
      /\ Forall2 (fun c pt => parse_chunk cfg c = Some pt) (chunks ls) pts)
  /\ pts <> [].
Proof. exact no_partial_consumption. Qed.
Print Assumptions C15_no_partial_consumption.

(* ... and these conditions are exactly what is accepted *)
Theorem C15_accepted_iff : forall cfg s pts, parse_journal cfg s = Ok pts <->
  snd (split_lines s) = []
  /\ existsb (existsb (fun c => (c =? 13)%N)) (map strip_cr (fst (split_lines s))) = false
  /\ Forall2 (fun c pt => parse_chunk cfg c = Some pt) (chunks (map strip_cr (fst (split_lines s)))) pts
  /\ pts <> [].
Proof. exact parse_journal_ok_iff. Qed.
Print Assumptions C15_accepted_iff.

(* "whole": every line of a chunk that parses is accounted for in the transaction — the header line,
   then the metadata lines (one per metadata item of the header), then one line per header comment,
   then one line per posting, then the amount-less last posting if there is one; nothing else, nothing
   after.  A left-over line anywhere in the chunk makes parse_chunk fail. *)
Theorem C15_chunk_fully_consumed : forall cfg c pt, parse_chunk cfg c = Some pt ->
  exists hl ms cls pls lls, c = hl :: ms ++ cls ++ pls ++ lls
  /\ length ms = meta_cnt (pt_hdr pt)
  /\ Forall (fun l => exists m, parse_meta_line l = Some (Some m)) ms
  /\ Forall2 (fun l cm => parse_comment_line l = Some (Some cm)) cls (h_comments (pt_hdr pt))
  /\ Forall2 (fun l p => parse_posting_line l = Some (PL_post (fst p) (snd p))) pls (pt_posts pt)
  /\ match pt_last pt with
     | None => lls = []
     | Some (a, cm) => exists l, lls = [l] /\ parse_posting_line l = Some (PL_last a cm)
     end.
Proof. exact parse_chunk_consumes. Qed.
Print Assumptions C15_chunk_fully_consumed.

Theorem C15_chunk_line_count : forall cfg c pt, parse_chunk cfg c = Some pt ->
  length c = (1 + ((match h_uuid (pt_hdr pt) with Some _ => 1 | None => 0 end)
                   + (match h_loc (pt_hdr pt) with Some _ => 1 | None => 0 end)
                   + (match h_tags (pt_hdr pt) with [] => 0 | _ => 1 end))
              + length (h_comments (pt_hdr pt)) + length (pt_posts pt)
              + match pt_last pt with Some _ => 1 | None => 0 end)%nat.
Proof. exact parse_chunk_length. Qed.
Print Assumptions C15_chunk_line_count.

(* one chunk that is not a complete transaction — the first, one in the middle, the last — and the
   whole text is rejected *)
Theorem C15_incomplete_rejected : forall cfg s ls0 tl c, split_lines s = (ls0, tl) ->
  In c (chunks (map strip_cr ls0)) -> parse_chunk cfg c = None -> parse_journal cfg s = Err E_syntax.
Proof. exact incomplete_rejected. Qed.
Print Assumptions C15_incomplete_rejected.

(* loading a text: every parsed transaction went through the semantic layer and is kept *)
Theorem C15_load_all_or_nothing_text : forall cfg s ts, load_journal cfg s = Ok ts ->
  exists pts ts0, parse_journal cfg s = Ok pts
  /\ Forall2 (fun pt t => accept_ptxn pt = Ok t) pts ts0
  /\ ts = sort_by jtxn_leb ts0 /\ Permutation ts ts0 /\ length ts = length pts.
Proof. exact load_journal_ok. Qed.
Print Assumptions C15_load_all_or_nothing_text.

(* ... and one transaction the semantic layer refuses rejects the text *)
Theorem C15_load_one_bad_txn_rejects_text : forall cfg s pts pt e, parse_journal cfg s = Ok pts ->
  In pt pts -> accept_ptxn pt = Err e -> exists e', load_journal cfg s = Err e'.
Proof. exact load_journal_bad_txn. Qed.
Print Assumptions C15_load_one_bad_txn_rejects_text.

(* non-vacuity: two transactions separated by a run of blank lines are accepted; a line after the
   amount-less last posting, a junk line at the end of a chunk, a missing final line terminator and a
   missing separator line are rejected *)
Example C15_text_examples :
  let cfg := mkCfg 0 0 in
  let n r := match r with Ok l => Some (length l) | Err _ => None end in
  n (parse_journal cfg [50; 48; 50; 52; 45; 48; 49; 45; 48; 49; 32; 39; 97; 10; 32; 101; 32; 49; 10; 32; 97; 10; 10; 32; 9; 10; 50; 48; 50; 52; 45; 48; 49; 45; 48; 50; 10; 32; 101; 32; 50; 10; 32; 97; 10]%N) = Some 2%nat
  /\ n (parse_journal cfg [50; 48; 50; 52; 45; 48; 49; 45; 48; 49; 10; 32; 101; 32; 49; 10; 32; 97; 10; 32; 101; 32; 49; 10]%N) = None
  /\ n (parse_journal cfg [50; 48; 50; 52; 45; 48; 49; 45; 48; 49; 10; 32; 101; 32; 49; 10; 32; 97; 10; 106; 117; 110; 107; 10]%N) = None
  /\ n (parse_journal cfg [50; 48; 50; 52; 45; 48; 49; 45; 48; 49; 10; 32; 101; 32; 49; 10; 32; 97]%N) = None
  /\ n (parse_journal cfg [50; 48; 50; 52; 45; 48; 49; 45; 48; 49; 10; 32; 101; 32; 49; 10; 32; 97; 10; 50; 48; 50; 52; 45; 48; 49; 45; 48; 50; 10; 32; 101; 32; 50; 10; 32; 97; 10]%N) = None.
Proof. vm_compute. repeat split. Qed.
