(* T06 (extension, not one of the numbered properties) — A WHOLE RUN OF THE COMMAND LINE PROGRAM as one function
   of the model, composed of the existing models only (TkModel.T06_run):
     run_console H cfg journal_text price_text : res text            = the complete standard output of
         tackler --config .. --input.file .. [--api-filter-def ..] [--price.before ..]
     run_files   H cfg journal_text price_text : res (files * text)  = with --output.dir / --output.prefix: the
         files written (name, content) in the order of creation and the announcements on standard output
   chain: journal text -> Journal.load_journal (C06 grammar, C01 acceptance, TxnData::from sort) -> audit uuid
   rule -> Filter.eval over Regex.v (C05) -> MetaText.make_items (T04, Audit checksum C09) -> empty-set test ->
   per target MetaText.report_head (T04) ++ T05_report.conv_*_text (price file text through PriceText T03,
   Price C07, Balance C02 / Group C13 / Register C03, Round C17, ReportText T01) -> separators; file mode adds
   EquityText (T02) over Equity (C10) and Journal.print_journal (identity, C06).
   Only statements here: each theorem is closed by `exact` of a lemma of TkProofs.T06_proofs, followed by
   Print Assumptions.  H (the digest, bytes -> bytes) is universally quantified.
   Hypotheses of the figure theorems are the BOOLEAN T06_spec.run_hyp of the state of the run (scale min <= max,
   price-file lines with distinct (instant, base, eq), titles / header texts without newline, commodity and
   account components are fields, amounts and converted amounts within 28 decimals): decided on the inputs,
   and evaluated on every world of the correspondence check (bit 8).
   Explicit inputs rather than modelled: the digest H, the report zone as (name, fixed offset), the effective
   configuration record (C19 is about how file and options combine), the wording of the equity WARNING block
   (EquityText.default_warn_lines).  Not covered: strict mode, regular-expression account selectors (literal
   names only), named journal zones, Git / directory input (T07), partial output of a report that fails
   after the first write (result Err; since /repo da90aec the one modelled cause is a converted amount out of range:
   conv_overflow, and T06_run_total shows there is no other). *)
From Coq Require Import ZArith List Permutation.
From TkModel Require Import Base Dec Acct Txn Journal Balance Register Round Price Time Group.
From TkModel Require Import ReportText T05_report PriceText T06_describe T06_run.
From TkModel Require MetaText Config Codec.
From TkSpec Require Import Price_spec ReportText_spec T05_spec T05_grp_spec T06_spec.
From TkProofs Require Import T06_proofs T06_total_proofs.
Local Open Scope Z_scope.

(* ---------------------------------------------------------------- structure of the console text *)
(* with at least one report target: the metadata block of the transaction set, printed ONCE in front — it is
   meta_text (make_items ..) and a newline, or nothing when the set has no metadata — then per target, in
   the configured order, a line of 82 '*', the report text, a line of 82 '#' *)
Theorem T06_console_structure : forall H cfg j p out,
  run_console H cfg j p = Ok out -> rc_targets cfg <> [] ->
  exists st rs,
    run_prepare H cfg j p = Ok st
    /\ MetaText.make_items H (rc_audit cfg) (rc_algo cfg) None (filter_desc cfg) (map uuid_of (rs_sel st)) = Ok (rs_md st)
    /\ Forall2 (fun k r => report_text H cfg st k = Some r) (rc_targets cfg) rs
    /\ out = match rs_md st with Some items => MetaText.meta_text items ++ [10%N] | None => [] end
             ++ concat (map (fun r => (repeat 42%N 82 ++ [10%N]) ++ r ++ (repeat 35%N 82 ++ [10%N])) rs).
Proof. exact console_structure. Qed.
Print Assumptions T06_console_structure.

(* without a report target nothing at all is printed (main.rs does not call write_txt_reports) *)
Theorem T06_console_no_targets : forall H cfg j p out,
  run_console H cfg j p = Ok out -> rc_targets cfg = [] -> out = [].
Proof. exact console_no_targets. Qed.
Print Assumptions T06_console_no_targets.

(* the state of a successful run comes from the TEXTS: the transactions are those parsed from the journal
   text (then filtered), the price entries those parsed from the price file text *)
Theorem T06_state_from_texts : forall H cfg j p st, run_prepare H cfg j p = Ok st ->
  (exists js, load_journal (rc_journal cfg) j = Ok js
              /\ rs_sel st = run_filter cfg js /\ rs_txns st = map txn_of (run_filter cfg js))
  /\ ((rc_lookup cfg = LtNone /\ rs_file st = [])
      \/ (exists s, p = Some s /\ parse_pricedb (price_cfg cfg) s = Ok (rs_file st))).
Proof. exact state_from_texts. Qed.
Print Assumptions T06_state_from_texts.

(* ... the stored price data base is load_db of those entries (what T05's theorems need) and the lookup is
   the configured one *)
Theorem T06_state_prices : forall H cfg j p st, run_prepare H cfg j p = Ok st ->
  rs_db st = load_db (rs_file st) /\ spec_lk cfg = Some (rs_lk st).
Proof. exact state_spec. Qed.
Print Assumptions T06_state_prices.

(* ---------------------------------------------------------------- the embedded reports are THE reports *)
(* each report text of the run is the head of T04 (selector checksum, report zone, price records, blank lines)
   followed by exactly the text T01 / T05 speak about *)
Theorem T06_reports_are_the_reports : forall H cfg st k r, report_text H cfg st k = Some r ->
  exists body,
    r = MetaText.report_head k (MetaText.sel_item H (rc_audit cfg) false (rc_algo cfg) (map acct_str (sel_of cfg k)))
                             (rc_zone_name cfg)
                             (MetaText.price_recs (MetaText.render_full (fun _ => rc_zone_off cfg))
                                (report_ctx (rs_lk st) (rc_commodity cfg) (rs_db st) (rs_txns st)))
        ++ body
    /\ match k with
       | MetaText.RBalance =>
           conv_balance_text (rc_title_bal cfg) (rc_scale cfg) (rs_lk st) (rc_commodity cfg) (rs_db st)
                             (sel_of cfg k) (rs_txns st) = Some body
       | MetaText.RBalGroup =>
           conv_balgrp_text (rc_title_grp cfg) (rc_scale cfg) (rc_group_by cfg) (fun _ => rc_zone_off cfg)
                            (rs_lk st) (rc_commodity cfg) (rs_db st) (sel_of cfg k) (rs_txns st) = Some body
       | MetaText.RRegister =>
           body = conv_register_text (rc_title_reg cfg) (rc_scale cfg) (ts_text cfg)
                                     (rs_lk st) (rc_commodity cfg) (rs_db st) (sel_of cfg k) (rs_txns st)
       end.
Proof. exact report_text_inv. Qed.
Print Assumptions T06_reports_are_the_reports.

(* where the report of a target sits in the console text *)
Theorem T06_console_embeds : forall H cfg j p out k,
  run_console H cfg j p = Ok out -> In k (rc_targets cfg) ->
  exists st r pre post,
    run_prepare H cfg j p = Ok st /\ report_text H cfg st k = Some r
    /\ out = pre ++ (repeat 42%N 82 ++ [10%N]) ++ r ++ (repeat 35%N 82 ++ [10%N]) ++ post.
Proof. exact console_embeds. Qed.
Print Assumptions T06_console_embeds.

(* hence, for the balance report printed by a run: the text between the separators is a head followed by a
   body whose every figure field reads back as the exact sum of amount x documented rate (price FILE as
   written) over the account / its subtree of the transactions PARSED FROM THE JOURNAL TEXT
   (T06_state_from_texts), rounded half away from zero to the report scale (T05_spec.balance_text_spec) *)
Theorem T06_balance_figures : forall H cfg j p out,
  run_console H cfg j p = Ok out -> In MetaText.RBalance (rc_targets cfg) ->
  exists st, run_prepare H cfg j p = Ok st
    /\ (run_hyp cfg st = true ->
        exists pre head body post,
          out = pre ++ (repeat 42%N 82 ++ [10%N]) ++ (head ++ body) ++ (repeat 35%N 82 ++ [10%N]) ++ post
          /\ balance_text_spec (rc_title_bal cfg) (rc_scale cfg) (rs_lk st) (rc_commodity cfg) (rs_file st)
                               (sel_of cfg MetaText.RBalance) (rs_txns st) body).
Proof. exact console_balance_figures. Qed.
Print Assumptions T06_balance_figures.

(* ... and for the register: every row shows the original amount, the conversion fields, and the running
   total = exact accumulated sum of the converted amounts, rounded only for display (register_text_spec) *)
Theorem T06_register_rows : forall H cfg j p out,
  run_console H cfg j p = Ok out -> In MetaText.RRegister (rc_targets cfg) ->
  exists st, run_prepare H cfg j p = Ok st
    /\ (run_hyp cfg st = true ->
        exists pre head body post,
          out = pre ++ (repeat 42%N 82 ++ [10%N]) ++ (head ++ body) ++ (repeat 35%N 82 ++ [10%N]) ++ post
          /\ register_text_spec (rc_title_reg cfg) (rc_scale cfg) (ts_text cfg) (rs_lk st) (rc_commodity cfg) (rs_file st)
                                (sel_of cfg MetaText.RRegister) (rs_txns st) body).
Proof. exact console_register_rows. Qed.
Print Assumptions T06_register_rows.

(* ... and for the balance-group report: one block per period of the report zone, ascending, a block exactly for the
   periods with a listed row, every block a balance text of exactly that period's transactions with figures = rounded
   exact converted sums (T05_grp_spec.balgrp_text_spec, T05_balgrp_shown) *)
Theorem T06_balgrp_figures : forall H cfg j p out,
  run_console H cfg j p = Ok out -> In MetaText.RBalGroup (rc_targets cfg) ->
  exists st, run_prepare H cfg j p = Ok st
    /\ (run_hyp cfg st = true ->
        exists pre head body post,
          out = pre ++ (repeat 42%N 82 ++ [10%N]) ++ (head ++ body) ++ (repeat 35%N 82 ++ [10%N]) ++ post
          /\ balgrp_text_spec (rc_title_grp cfg) (rc_scale cfg) (rc_group_by cfg) (rtz cfg) (rs_lk st) (rc_commodity cfg)
                              (rs_file st) (sel_of cfg MetaText.RBalGroup) (rs_txns st) body).
Proof. exact console_balgrp_figures. Qed.
Print Assumptions T06_balgrp_figures.

(* the decided hypotheses are the hypotheses of T05's theorems *)
Theorem T06_run_hyp_sound : forall cfg st, run_hyp cfg st = true ->
  (sc_min (rc_scale cfg) <= sc_max (rc_scale cfg))%N
  /\ distinct_keys (rs_file st)
  /\ no_nl (rc_title_bal cfg) /\ no_nl (rc_title_grp cfg) /\ no_nl (rc_title_reg cfg)
  /\ Forall (txn_dom (rs_lk st) (rc_commodity cfg) (rs_file st)) (rs_txns st)
  /\ bal_names_in (rc_commodity cfg) (rs_txns st)
  /\ reg_names_in (rc_commodity cfg) (ts_text cfg) (rs_txns st).
Proof. exact run_hyp_sound. Qed.
Print Assumptions T06_run_hyp_sound.

(* ---------------------------------------------------------------- the reports are total *)
(* once the preparation succeeded, the body of EVERY report exists, for any configuration of the reports (zone, scale,
   selectors, titles, group-by): the posted accounts of a parsed journal are non-empty names, so the balance tree can
   always be built *)
Theorem T06_reports_total : forall H cfg j p st cfg' k,
  run_prepare H cfg j p = Ok st -> exists body, report_body cfg' st k = Some body.
Proof. exact report_body_total. Qed.
Print Assumptions T06_reports_total.

(* hence a run that got past its preparation fails only when a converted amount is out of range (checked_mul, /repo
   da90aec: PriceLookupCtx::value_of), and a successful run with a report target met no such amount *)
Theorem T06_run_total : forall H cfg j p st,
  run_prepare H cfg j p = Ok st -> conv_overflow cfg st = false -> exists out, run_console H cfg j p = Ok out.
Proof. exact console_total_run. Qed.
Print Assumptions T06_run_total.

Theorem T06_ok_no_overflow : forall H cfg j p out st,
  run_console H cfg j p = Ok out -> run_prepare H cfg j p = Ok st -> rc_targets cfg <> [] -> conv_overflow cfg st = false.
Proof. exact console_ok_no_overflow. Qed.
Print Assumptions T06_ok_no_overflow.

(* ---------------------------------------------------------------- all or nothing at run level *)
(* a journal text that does not load, an empty selection, a transaction without uuid in audit mode, a price
   setup error, or any other failure before the first write: both modes are an error — no report text, no
   file, no announcement (the result carries no text at all) *)
Theorem T06_error_no_output : forall H cfg j p,
  (forall c, load_journal (rc_journal cfg) j = Err c ->
     exists c', run_console H cfg j p = Err c' /\ run_files H cfg j p = Err c')
  /\ (forall js, load_journal (rc_journal cfg) j = Ok js -> run_filter cfg js = [] ->
     exists c', run_console H cfg j p = Err c' /\ run_files H cfg j p = Err c')
  /\ (forall js, load_journal (rc_journal cfg) j = Ok js -> rc_audit cfg = true ->
                 (exists t, In t js /\ h_uuid (jt_hdr t) = None) ->
     exists c', run_console H cfg j p = Err c' /\ run_files H cfg j p = Err c')
  /\ (forall c, price_setup cfg p = Err c -> run_console H cfg j p = Err c /\ run_files H cfg j p = Err c)
  /\ (forall c, run_prepare H cfg j p = Err c -> run_console H cfg j p = Err c /\ run_files H cfg j p = Err c).
Proof. exact error_no_output. Qed.
Print Assumptions T06_error_no_output.

(* ---------------------------------------------------------------- file mode *)
(* the files: per target <prefix>.<bal|balgrp|reg>.txt = the set's metadata block followed by the SAME report
   text as in console mode, then per export <prefix>.<equity|identity>.txn; the announcements, one line per
   file, in that order; and console mode with the same inputs prints exactly these report texts *)
Theorem T06_file_mode_same_reports : forall H cfg j p files ann, run_files H cfg j p = Ok (files, ann) ->
  exists st reps exps,
    run_prepare H cfg j p = Ok st
    /\ Forall2 (fun k r => report_text H cfg st k = Some r) (rc_targets cfg) reps
    /\ Forall2 (fun x c => export_file H cfg st x = Some c) (rc_exports cfg) exps
    /\ files = map (fun kr => (file_name cfg (kind_name (fst kr)) ext_txt, MetaText.file_head (rs_md st) ++ snd kr))
                   (combine (rc_targets cfg) reps)
               ++ map (fun xc => (file_name cfg (export_name (fst xc)) ext_txn, snd xc)) (combine (rc_exports cfg) exps)
    /\ ann = concat (map (fun k => announce (kind_label k) (file_path cfg (file_name cfg (kind_name k) ext_txt))) (rc_targets cfg))
             ++ concat (map (fun x => announce (export_label x) (file_path cfg (file_name cfg (export_name x) ext_txn)))
                            (rc_exports cfg))
    /\ (rc_targets cfg <> [] -> run_console H cfg j p = Ok (console_text (rs_md st) reps)).
Proof. exact files_structure. Qed.
Print Assumptions T06_file_mode_same_reports.

(* the names and the beginning of a report file, spelled out *)
Theorem T06_file_names : forall cfg,
  file_name cfg (kind_name MetaText.RBalance) ext_txt = rc_prefix cfg ++ [46; 98; 97; 108; 46; 116; 120; 116]%N                       (* .bal.txt *)
  /\ file_name cfg (kind_name MetaText.RBalGroup) ext_txt = rc_prefix cfg ++ [46; 98; 97; 108; 103; 114; 112; 46; 116; 120; 116]%N    (* .balgrp.txt *)
  /\ file_name cfg (kind_name MetaText.RRegister) ext_txt = rc_prefix cfg ++ [46; 114; 101; 103; 46; 116; 120; 116]%N                 (* .reg.txt *)
  /\ file_name cfg (export_name XEquity) ext_txn = rc_prefix cfg ++ [46; 101; 113; 117; 105; 116; 121; 46; 116; 120; 110]%N           (* .equity.txn *)
  /\ file_name cfg (export_name XIdentity) ext_txn
     = rc_prefix cfg ++ [46; 105; 100; 101; 110; 116; 105; 116; 121; 46; 116; 120; 110]%N                                             (* .identity.txn *)
  /\ (forall md k sel zone prices body,
        MetaText.file_head md ++ (MetaText.report_head k sel zone prices ++ body)
        = MetaText.report_file_head md k sel zone prices ++ body)
  /\ (forall H st, export_file H cfg st XIdentity = Some (print_journal (rs_sel st))).
Proof. exact file_names. Qed.
Print Assumptions T06_file_names.

(* the selector of a report is chosen by the rule of C19's model (Config.file_sel: the report's own list, else
   the global one, else all); the pattern text of a literal selector is the account name *)
Theorem T06_selectors_are_config : forall (f : Config.file_cfg) global per,
  Config.f_accounts f = option_map sel_pats global ->
  Config.file_sel f (option_map sel_pats per) = sel_pats (eff_sel global per).
Proof. exact selectors_are_config. Qed.
Print Assumptions T06_selectors_are_config.

(* ---------------------------------------------------------------- layout of the journal text *)
(* whatever parse_journal does not distinguish, the run does not distinguish ... *)
Theorem T06_same_parse_same_run : forall H cfg j j' p,
  parse_journal (rc_journal cfg) j = parse_journal (rc_journal cfg) j' ->
  run_console H cfg j p = run_console H cfg j' p /\ run_files H cfg j p = run_files H cfg j' p.
Proof. exact run_same_parse. Qed.
Print Assumptions T06_same_parse_same_run.

(* ... hence (C04_layout_blank_lines / _indent_text / _meta_order_text) journals that differ only in blank
   lines at transaction boundaries, in the runs of blanks/TABs that indent their lines, or in the order of a
   block of metadata lines give byte-identical output in both modes *)
Theorem T06_layout_invariance : forall H cfg p,
  (forall a blanks b,
     forallb (forallb (fun c => negb (c =? 10)%N)) a = true -> forallb (forallb (fun c => negb (c =? 10)%N)) b = true ->
     forallb (fun l => is_blank (strip_cr l)) blanks = true ->
     (a = [] \/ b = [] \/ (exists q x, a = q ++ [x] /\ is_blank (strip_cr x) = true)
      \/ (exists x q, b = x :: q /\ is_blank (strip_cr x) = true)) ->
     run_console H cfg (unlines (a ++ blanks ++ b)) p = run_console H cfg (unlines (a ++ b)) p
     /\ run_files H cfg (unlines (a ++ blanks ++ b)) p = run_files H cfg (unlines (a ++ b)) p)
  /\ (forall ls ls',
     forallb (forallb (fun c => negb (c =? 10)%N)) ls = true -> forallb (forallb (fun c => negb (c =? 10)%N)) ls' = true ->
     Forall2 (fun l l' => exists sp1 sp2 r, l = sp1 ++ r /\ l' = sp2 ++ r
                /\ forallb is_sp sp1 = true /\ forallb is_sp sp2 = true /\ (sp1 = [] <-> sp2 = [])) ls ls' ->
     run_console H cfg (unlines ls) p = run_console H cfg (unlines ls') p
     /\ run_files H cfg (unlines ls) p = run_files H cfg (unlines ls') p)
  /\ (forall pre ms ms' post,
     forallb (forallb (fun c => negb (c =? 10)%N)) (pre ++ ms ++ post) = true -> Permutation ms ms' ->
     Forall (fun l => parse_meta_line (strip_cr l) <> None) ms ->
     run_console H cfg (unlines (pre ++ ms ++ post)) p = run_console H cfg (unlines (pre ++ ms' ++ post)) p
     /\ run_files H cfg (unlines (pre ++ ms ++ post)) p = run_files H cfg (unlines (pre ++ ms' ++ post)) p).
Proof. exact layout_invariance. Qed.
Print Assumptions T06_layout_invariance.

(* ---------------------------------------------------------------- the filter description under the report zone *)
(* the Filter item of the metadata is T06_describe.describe_def_tz at the offset of the report zone (FilterDefZoned: the
   bounds of the two time-stamp leaves are printed as rfc_3339 in that zone); at offset 0 it is Codec.describe_def, the
   text C18's theorems speak about *)
Theorem T06_filter_description_utc : forall f, describe_def_tz 0 f = Codec.describe_def f.
Proof. exact describe_def_tz_utc. Qed.
Print Assumptions T06_filter_description_utc.

(* ---------------------------------------------------------------- the oracles of the check *)
(* the boolean oracle evaluated on a report embedded in the BINARY's output decides the specification *)
Theorem T06_oracle_sound : forall cfg file txns k body, body_oracle cfg file txns k body = true ->
  exists lk, spec_lk cfg = Some lk
    /\ match k with
       | MetaText.RBalance =>
           balance_text_spec (rc_title_bal cfg) (rc_scale cfg) lk (rc_commodity cfg) file (sel_of cfg k) txns body
       | MetaText.RRegister =>
           register_text_spec (rc_title_reg cfg) (rc_scale cfg) (ts_text cfg) lk (rc_commodity cfg) file (sel_of cfg k) txns body
       | MetaText.RBalGroup =>
           exists gs, conv_balgrp (rc_group_by cfg) (rtz cfg) lk (rc_commodity cfg) (load_db file) (sel_of cfg k) txns = Some gs
                      /\ grp_text_spec (rc_title_grp cfg) (rc_scale cfg) (map text_group gs) body
       end.
Proof. exact body_oracle_sound. Qed.
Print Assumptions T06_oracle_sound.

(* ... on the whole console text: it splits at the separator lines into as many framed reports as targets,
   and in each the text from the title line on passes its oracle *)
Theorem T06_console_oracle_sound : forall cfg file txns out,
  console_oracle cfg file txns out = true -> rc_targets cfg <> [] ->
  exists pre frames, read_console out = Some (pre, frames)
    /\ Forall2 (fun k ls => exists bl, from_title (title_of cfg k) ls = Some bl
                                       /\ body_oracle cfg file txns k (unlines_nl bl) = true)
               (rc_targets cfg) frames.
Proof. exact console_oracle_sound. Qed.
Print Assumptions T06_console_oracle_sound.

(* ---------------------------------------------------------------- non-vacuity *)
(* two transactions (the second stamped 23:30 UTC, i.e. the next day in the report zone Etc/GMT-3), one price
   line, last-price conversion into EUR, scale (2,2), targets balance and register (register restricted to
   a:b), identity export.  The console text has 1365 characters, no metadata block and two framed reports;
   10.005 ACME is shown as 10.01 and valued 25.0125 EUR (shown 25.01; a:b totals 27.5125 -> 27.51); the
   hypotheses of the figure theorems hold and the oracle accepts; file mode writes r.bal.txt, r.reg.txt,
   r.identity.txn and announces them.  (corpus/T06/boundary.json begins with this world, console and files: the binary prints the same.) *)
Example T06_example :
  run_console ex_H ex_cfg ex_journal (Some ex_prices) = Ok ex_out
  /\ run_prepare ex_H ex_cfg ex_journal (Some ex_prices) = Ok ex_st
  /\ length ex_out = 1365%nat
  /\ run_hyp ex_cfg ex_st = true /\ run_dom ex_cfg = true
  /\ console_oracle ex_cfg (rs_file ex_st) (rs_txns ex_st) ex_out = true
  /\ option_map (fun pf => (fst pf, map (fun f => option_map (map words) (from_title (rc_title_bal ex_cfg) f)) (snd pf)))
                (read_console ex_out)
     = Some ([], [Some ex_bal_words; None])
  /\ option_map (fun pf => map (fun f => option_map (map words) (from_title (rc_title_reg ex_cfg) f)) (snd pf))
                (read_console ex_out)
     = Some [None; Some ex_reg_words]
  /\ (exists cb cr, run_files ex_H ex_cfg ex_journal (Some ex_prices)
                    = Ok ([([114; 46; 98; 97; 108; 46; 116; 120; 116]%N, cb); ([114; 46; 114; 101; 103; 46; 116; 120; 116]%N, cr);
                           ([114; 46; 105; 100; 101; 110; 116; 105; 116; 121; 46; 116; 120; 110]%N, ex_identity)], ex_announcements)).
Proof. exact t06_example. Qed.
Print Assumptions T06_example.
