(* C05 — Transaction filters select exactly the transactions their definition describes.
   Statements only; proofs in TkProofs.Filter_proofs.
   `re` is the whole-haystack regex matcher (abstract here: C11/C18 speak about regex syntax);
   every theorem holds for every such matcher. *)
From Coq Require Import Permutation.
From TkModel Require Import Base Dec Acct Txn Filter.
From TkSpec Require Import Filter_spec.
From TkProofs Require Import Filter_proofs.
Local Open Scope Z_scope.

(* the implemented predicate is the documented predicate, for every (arbitrarily nested)
   definition over all 20 variants and every transaction; the only side condition is the
   Decimal type invariant scale <= 28.  Full strength: the west = east exception (finding F3)
   is gone since /repo commit be14958. *)
Theorem C05_eval_sat : forall re f t,
  filter_wf f -> ftxn_wf t -> (eval re f t = true <-> sat re f t).
Proof. exact c05_eval_sat. Qed.
Print Assumptions C05_eval_sat.

(* AND / OR / NOT compose as Boolean connectives (on the implementation's predicate itself) *)
Theorem C05_connectives : forall re t,
  (forall fs, eval re (FAnd fs) t = true <-> Forall (fun g => eval re g t = true) fs)
  /\ (forall fs, eval re (FOr fs) t = true <-> Exists (fun g => eval re g t = true) fs)
  /\ (forall g, eval re (FNot g) t = negb (eval re g t)).
Proof.
  exact (fun re t => conj (fun fs => c05_eval_and re fs t)
                     (conj (fun fs => c05_eval_or re fs t) (fun g => c05_eval_not re g t))).
Qed.
Print Assumptions C05_connectives.

(* TxnData::filter yields exactly the transactions satisfying the definition, order unchanged *)
Theorem C05_filter_exact : forall re f l,
  filter_wf f -> Forall ftxn_wf l -> Selects (sat re f) l (txn_filter re f l).
Proof. exact c05_filter_exact. Qed.
Print Assumptions C05_filter_exact.

(* ... and "exactly" determines the result: there is only one such list *)
Theorem C05_selection_unique : forall (P : ftxn -> Prop) l o1 o2,
  Selects P l o1 -> Selects P l o2 -> o1 = o2.
Proof. exact (@c05_selects_unique ftxn). Qed.
Print Assumptions C05_selection_unique.

(* a filter and its negation partition the set, preserving order: the set is an interleaving
   of the two results, both are sub-sequences, lengths add up, each element is in exactly one *)
Theorem C05_partition : forall re f l,
  let a := txn_filter re f l in
  let b := txn_filter re (FNot f) l in
  Interleave a b l /\ Subseq a l /\ Subseq b l /\ (length a + length b = length l)%nat
  /\ (forall x, In x l -> (In x a /\ ~ In x b) \/ (In x b /\ ~ In x a)).
Proof. exact c05_partition. Qed.
Print Assumptions C05_partition.

(* ... and the two parts are the documented selection and its complement *)
Theorem C05_partition_sat : forall re f l,
  filter_wf f -> Forall ftxn_wf l ->
  Selects (sat re f) l (txn_filter re f l)
  /\ Selects (fun t => ~ sat re f t) l (txn_filter re (FNot f) l).
Proof. exact c05_partition_sat. Qed.
Print Assumptions C05_partition_sat.

(* the size reported with a filtered set is the size of the filtered set *)
Theorem C05_metadata_size : forall re f data out m,
  txn_data_filter re true f data = Ok (out, Some m) ->
  md_size m = length (filter (eval re f) data).
Proof. exact c05_metadata_size. Qed.
Print Assumptions C05_metadata_size.

(* the set, its size and the checksum pre-image (uuids, duplicate free) all describe exactly the
   filtered set; no checksum item without audit mode *)
Theorem C05_metadata : forall re audit f data out md,
  txn_data_filter re audit f data = Ok (out, md) ->
  out = filter (eval re f) data
  /\ match md with
     | Some m => audit = true /\ md_size m = length out
                 /\ Permutation (map Some (md_preimage m)) (map (fun t => h_uuid (ft_hdr t)) out)
                 /\ NoDup (md_preimage m)
     | None => audit = false
     end.
Proof. exact c05_metadata. Qed.
Print Assumptions C05_metadata.

(* the filtered list is a sub-sequence of the sorted input (which is a permutation of the input) *)
Theorem C05_order : forall re f l,
  Subseq (txn_filter re f (txn_data_from l)) (txn_data_from l)
  /\ Permutation (txn_data_from l) l.
Proof. exact c05_order. Qed.
Print Assumptions C05_order.

(* the oracle evaluated on an observed selection (mask over the unfiltered set) is sound:
   the selected transactions are exactly the documented ones; the observed size is theirs *)
Theorem C05_oracle_sound : forall re f all mask,
  select_oracle re f all mask = true ->
  length mask = length all /\ Selects (sat re f) all (pick mask all).
Proof. exact c05_oracle_sound. Qed.
Print Assumptions C05_oracle_sound.

Theorem C05_size_oracle_sound : forall re f all mask n,
  select_oracle re f all mask = true -> size_oracle mask (Some n) = true ->
  n = N.of_nat (length (pick mask all)).
Proof. exact c05_size_oracle_sound. Qed.
Print Assumptions C05_size_oracle_sound.

(* the model always passes the oracle on well-formed input *)
Theorem C05_model_meets_oracle : forall re f l,
  filter_wf f -> Forall ftxn_wf l -> select_oracle re f l (map (eval re f) l) = true.
Proof. exact c05_model_meets_oracle. Qed.
Print Assumptions C05_model_meets_oracle.

(* non-vacuity: a depth-3 definition (OR/AND/NOT, empty AND, time window at the exact instant,
   amount equal by value at another scale, degenerate box west = east with the point on it,
   wrapping 3-D box) on three well-formed transactions; a wrapping and a degenerate box that
   match nothing *)
Example C05_example :
  filter_wf c05_ex_filter /\ Forall ftxn_wf c05_ex_txns
  /\ map (eval c05_ex_re c05_ex_filter) c05_ex_txns = [true; false; false]
  /\ map (eval c05_ex_re (FTsBegin 1000)) c05_ex_txns = [true; true; false]
  /\ map (eval c05_ex_re (FBBox (mkDec 0 0) (mkDec 170 0) (mkDec 90 0) (mkDec (-170) 0))) c05_ex_txns
     = [false; false; false]
  /\ map (eval c05_ex_re (FBBox (mkDec 0 0) (mkDec 20 0) (mkDec 90 0) (mkDec 200 1))) c05_ex_txns
     = [false; false; false].
Proof. exact c05_example. Qed.
