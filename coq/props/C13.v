(* C13 — the balance-group report partitions the selected transactions by the period
   (year, month, date, ISO week, ISO week date) of their instant in the report time zone.
   Only statements here: each theorem is closed by `exact` of a lemma proved in TkProofs,
   followed by Print Assumptions.

   kf is the period key of a transaction; for the report it is `txn_key gb tzoff` with
   tzoff : instant -> UTC offset of the report zone (ANY function: fixed offsets, DST zones,
   zones whose clock falls back across midnight).  The grouping theorems hold for every kf,
   hence for every zone.  known/ord/sel/conv are the C02 parameters (chart lookup, hash-set
   iteration order, account selector, price conversion). *)
From Coq Require Import Permutation Sorted.
From TkModel Require Import Base Dec Acct Txn Balance Time Group.
From TkSpec Require Import Balance_spec Group_spec.
From TkProofs Require Time_cal_proofs Group_proofs Group_fig_proofs.
Local Open Scope Z_scope.

(* the member lists of the groups are a partition of the input: together a permutation of
   it; each period key once, ascending; the members of a group are exactly the transactions
   of that period, in input (canonical) order, never empty; every transaction is in the
   group of its key *)
Theorem C13_partition : forall (kf : txn -> str) (txns : list txn),
  Permutation (concat (map snd (group_members kf txns))) txns
  /\ StronglySorted str_lt (map fst (group_members kf txns))
  /\ (forall k g, In (k, g) (group_members kf txns) -> g = period_members kf txns k /\ g <> [])
  /\ (forall t, In t txns -> In (kf t, period_members kf txns (kf t)) (group_members kf txns)).
Proof. exact Group_proofs.partition. Qed.
Print Assumptions C13_partition.

(* a listed group shows the balance report (C02 model) of exactly the transactions of its
   period; it is not empty; its title is the period of some transaction *)
Theorem C13_group_is_balance : forall known ord sel conv kf txns out g,
  balance_groups known ord sel conv kf txns = Some out -> In g out ->
  balance_report known ord sel (flat_map conv (period_members kf txns (g_title g))) = Some (g_rep g)
  /\ b_rows (g_rep g) <> []
  /\ (exists t, In t txns /\ kf t = g_title g).
Proof. exact Group_proofs.group_is_balance. Qed.
Print Assumptions C13_group_is_balance.

(* the period of a transaction is listed (with its report) iff the account selector leaves
   that report non-empty; otherwise its title does not appear at all *)
Theorem C13_empty_omitted : forall known ord sel conv kf txns out t,
  balance_groups known ord sel conv kf txns = Some out -> In t txns ->
  exists rep,
    balance_report known ord sel (flat_map conv (period_members kf txns (kf t))) = Some rep
    /\ (b_rows rep <> [] <-> In (mkGroup (kf t) rep) out)
    /\ (b_rows rep = [] -> ~ In (kf t) (map g_title out)).
Proof. exact Group_proofs.empty_omitted. Qed.
Print Assumptions C13_empty_omitted.

(* each period appears once, in ascending (String) order — for every key function, hence
   for every report zone *)
Theorem C13_unique_ascending : forall known ord sel conv kf txns out,
  balance_groups known ord sel conv kf txns = Some out ->
  StronglySorted str_lt (map g_title out) /\ NoDup (map g_title out).
Proof. exact Group_proofs.unique_ascending. Qed.
Print Assumptions C13_unique_ascending.

(* exact sums: the sums over the groups' members add up to the sum over all transactions *)
Theorem C13_sum_over_groups : forall conv kf txns k,
  zsum (map (fun c => spec_own (flat_map conv (snd c)) k) (group_members kf txns))
  = spec_own (flat_map conv txns) k.
Proof. exact Group_proofs.sum_over_groups. Qed.
Print Assumptions C13_sum_over_groups.

(* the figures: summing the own sum shown for (account, commodity) k over all listed groups
   gives the own sum shown by the overall balance report (0 where no row is shown);
   selector = by account name/commodity (what the reports offer), any hash order *)
Theorem C13_sum_over_groups_figures :
  forall known ord (selk : key -> bool) conv kf txns out overall,
  (forall l, Permutation (ord l) l) -> Forall bpost_wf (flat_map conv txns) ->
  balance_groups known ord (fun r => selk (r_key r)) conv kf txns = Some out ->
  balance_report known ord (fun r => selk (r_key r)) (flat_map conv txns) = Some overall ->
  forall k, zsum (map (fun g => own_in (g_rep g) k) out) = own_in overall k.
Proof. exact Group_fig_proofs.sum_over_groups_figures. Qed.
Print Assumptions C13_sum_over_groups_figures.

(* the calendar: civil date and ISO week date of every day number are valid and convert
   back to that day number (all of Z; proved on one 400-year cycle of 146097 days by
   computation and lifted by periodicity) *)
Theorem C13_civil_calendar : forall z,
  let '(y, m, d) := civil_of_days z in valid_civil y m d /\ days_of_civil y m d = z.
Proof. exact Time_cal_proofs.civil_roundtrip. Qed.
Print Assumptions C13_civil_calendar.

Theorem C13_iso_calendar : forall z,
  let '(y, w, wd) := iso_of_days z in 1 <= w <= 53 /\ 1 <= wd <= 7 /\ days_of_iso y w wd = z.
Proof. exact Time_cal_proofs.iso_roundtrip. Qed.
Print Assumptions C13_iso_calendar.

(* four-digit years: the String order of the keys is the chronological order of the periods *)
Theorem C13_key_order : forall gb z z', year_ok gb z -> year_ok gb z' ->
  str_cmp (period_key gb z) (period_key gb z') = (period_num gb z ?= period_num gb z').
Proof. exact Time_cal_proofs.period_key_cmp. Qed.
Print Assumptions C13_key_order.

(* constant offset, all five periods, years 1000..9999: a later instant never has a smaller key *)
Theorem C13_key_monotone : forall gb off i i',
  year_ok gb (local_days off i) -> year_ok gb (local_days off i') -> i <= i' ->
  str_cmp (instant_key gb (fun _ => off) i) (instant_key gb (fun _ => off) i') <> Gt.
Proof. exact Time_cal_proofs.instant_key_mono. Qed.
Print Assumptions C13_key_monotone.

(* hence for a constant offset the ascending title order is chronological: all transactions
   of a group with a smaller title are earlier than all those of a group with a larger one *)
Theorem C13_chronological_fixed_offset : forall gb off (t1 t2 : txn),
  year_ok gb (local_days off (h_inst (t_hdr t1))) -> year_ok gb (local_days off (h_inst (t_hdr t2))) ->
  str_lt (txn_key gb (fun _ => off) t1) (txn_key gb (fun _ => off) t2) ->
  h_inst (t_hdr t1) < h_inst (t_hdr t2).
Proof. exact Group_proofs.chronological_fixed_offset. Qed.
Print Assumptions C13_chronological_fixed_offset.

(* the executable oracle used on the implementation's output implies the specification *)
Theorem C13_oracle_sound : forall conv kf selk txns obs,
  groups_ok conv kf selk txns obs = true ->
  StronglySorted str_lt (map g_title obs)
  /\ (forall g, In g obs ->
        let ps := flat_map conv (period_members kf txns (g_title g)) in
        b_rows (g_rep g) <> []
        /\ (exists t, In t txns /\ kf t = g_title g)
        /\ (forall r, In r (b_rows (g_rep g)) ->
              d28 (r_own r) = spec_own ps (r_key r) /\ d28 (r_tree r) = spec_tree ps (r_key r)
              /\ selk (r_key r) = true))
  /\ (forall t, In t txns ->
        (In (kf t) (map g_title obs) <->
         existsb selk (spec_keys (flat_map conv (period_members kf txns (kf t)))) = true))
  /\ (forall k, In k (spec_keys (flat_map conv txns)) -> selk k = true ->
        zsum (map (fun g => own_in (g_rep g) k) obs) = spec_own (flat_map conv txns) k).
Proof. exact Group_proofs.oracle_sound. Qed.
Print Assumptions C13_oracle_sound.

(* non-vacuity: a zone whose clock falls back across midnight (the F10 shape): the two
   transactions of the 29th are in ONE group although the one of the 30th lies between them *)
Example C13_example :
  option_map (map (fun g => (g_title g, map (fun r => dm (r_own r)) (b_rows (g_rep g)))))
    (balance_group_report (fun _ => true) (fun l => l) (fun _ => true) txn_bposts GbDate
                          Group_proofs.ex_tzoff Group_proofs.ex_txns)
  = Some [ ([50; 48; 48; 53; 45; 49; 48; 45; 50; 57]%N, [101; -101]);
           ([50; 48; 48; 53; 45; 49; 48; 45; 51; 48]%N, [10; -10]) ]
  /\ year_ok GbDate (local_days (-10800) 1130637600000000000)
  /\ map (period_key GbIsoWeekDate) [14610; 14613] =
     [ [50; 48; 48; 57; 45; 87; 53; 51; 45; 53]%N;
       [50; 48; 49; 48; 45; 87; 48; 49; 45; 49]%N ].
Proof. exact Group_proofs.group_example. Qed.
