(* C11 — Account selectors match whole account names and never alter remaining figures.
   Only statements here: each theorem is closed by `exact` of a lemma proved in
   TkProofs.Regex_proofs, followed by Print Assumptions. *)
From Coq Require Import Permutation Sorted.
From TkModel Require Import Base Dec Acct Balance Regex Select.
From TkSpec Require Import Balance_spec Regex_spec.
From TkProofs Require Import Regex_proofs.
Local Open Scope Z_scope.

(* ---- the wrapper: "^(?:" p ")$" searched anywhere = p matching the entire haystack,
        for EVERY pattern AST p (own anchors, top-level alternations, groups, stars) ---- *)
Theorem C11_wrap_is_full_match : forall p s, search (wrap p) s <-> full_match p s.
Proof. exact wrap_is_full_match. Qed.
Print Assumptions C11_wrap_is_full_match.

(* the executable matcher (end-position sets, closure for * and +) is sound and complete
   for the relational semantics, for the whole subset including star *)
Theorem C11_matcher_correct : forall s r i j, In j (ends s r i) <-> m s r i j.
Proof. exact ends_spec. Qed.
Print Assumptions C11_matcher_correct.

Theorem C11_searchb_correct : forall r s, searchb r s = true <-> search r s.
Proof. exact searchb_spec. Qed.
Print Assumptions C11_searchb_correct.

Theorem C11_full_matchb_correct : forall p s, full_matchb p s = true <-> full_match p s.
Proof. exact full_matchb_spec. Qed.
Print Assumptions C11_full_matchb_correct.

(* new_full_haystack_regex_set(ps).is_match(s) selects iff some pattern matches all of s *)
Theorem C11_set_is_match : forall ps s,
  full_haystack_set_is_match ps s = true <-> exists p, In p ps /\ full_match p s.
Proof. exact set_is_match_spec. Qed.
Print Assumptions C11_set_is_match.

(* a search for the bare pattern (find / unwrapped is_match) is strictly weaker *)
Theorem C11_search_is_weaker :
  Forall (fun s => partial_match_only pat_ab s)
         [[97;58;98;58;99]; [120;97;58;98]; [97;58;98;98]]%N
  /\ full_match pat_ab [97;58;98]%N.
Proof. exact search_is_weaker. Qed.
Print Assumptions C11_search_is_weaker.

(* ---- concrete syntax: the text tackler builds is the text of the wrapped AST ---- *)
Theorem C11_wrap_text : forall p, pp (wrap p) = wrap_text (pp p).
Proof. exact wrap_text_pp. Qed.
Print Assumptions C11_wrap_text.

(* without the group the text is the syntax of (^a)|(b$) ... *)
Theorem C11_pp_without_group : forall a b, not_alt a = true -> not_alt b = true ->
  [94%N] ++ pp (Alt a b) ++ [36%N] = pp (Alt (Seq Bol a) (Seq b Eol)).
Proof. exact pp_without_group. Qed.
Print Assumptions C11_pp_without_group.

(* ... which selects names the wrapped pattern does not *)
Theorem C11_no_group_differs :
  let a := Chr 97 in let b := Chr 98 in
  Forall (fun s => search (Alt (Seq Bol a) (Seq b Eol)) s /\ ~ search (wrap (Alt a b)) s)
         [[97;98]; [97;120]; [120;98]]%N.
Proof. exact no_group_differs. Qed.
Print Assumptions C11_no_group_differs.

(* peeled_patterns gives back the configured text *)
Theorem C11_peel_wrap_text : forall t, peel (wrap_text t) = t.
Proof. exact peel_wrap_text. Qed.
Print Assumptions C11_peel_wrap_text.

(* ---- selection on the balance (report and equity export) ---- *)
(* hypotheses: ord = iteration order of the hash set (any permutation); postings well
   formed (scale <= 28, account = non-empty components without ':') *)

(* the listed rows are exactly the rows of the unselected balance whose account name is
   matched entirely by at least one pattern (every row when there is no pattern; the equity
   export additionally drops zero own sums), in the same order *)
Theorem C11_rows : forall known ord equity pats ps rep,
  (forall l, Permutation (ord l) l) -> Forall bpost_wf ps ->
  selected_balance known ord equity pats ps = Some rep ->
  exists rows, balance known ord ps = Some rows
    /\ forall r, In r (b_rows rep) <-> In r rows /\ must_list equity pats r.
Proof. exact selected_rows. Qed.
Print Assumptions C11_rows.

Theorem C11_rows_none : forall known ord ps,
  selected_balance known ord false [] ps = balance_report known ord (fun _ => true) ps.
Proof. exact selected_none. Qed.
Print Assumptions C11_rows_none.

(* every listed row is a row of the unselected balance - same own sum and same tree sum,
   which are the exact sums over ALL postings (selected or not) *)
Theorem C11_figures_unchanged : forall known ord equity pats ps rep,
  (forall l, Permutation (ord l) l) -> Forall bpost_wf ps ->
  selected_balance known ord equity pats ps = Some rep ->
  exists rows, balance known ord ps = Some rows
    /\ b_rows rep = filter (must_listb equity pats) rows
    /\ forall r, In r (b_rows rep) ->
         In r rows /\ d28 (r_own r) = spec_own ps (r_key r) /\ d28 (r_tree r) = spec_tree ps (r_key r).
Proof. exact selected_figures. Qed.
Print Assumptions C11_figures_unchanged.

(* only the delta lines are recomputed: one per commodity of a listed row, the sum of the
   listed own sums *)
Theorem C11_delta_recomputed : forall known ord equity pats ps rep,
  (forall l, Permutation (ord l) l) -> Forall bpost_wf ps ->
  selected_balance known ord equity pats ps = Some rep ->
  NoDup (map fst (b_deltas rep))
  /\ (forall c, In c (map fst (b_deltas rep)) <-> In c (map r_comm (b_rows rep)))
  /\ (forall c d, In (c, d) (b_deltas rep) -> d28 d = spec_delta (b_rows rep) c).
Proof. exact selected_delta. Qed.
Print Assumptions C11_delta_recomputed.

Theorem C11_must_listb_correct : forall equity pats r,
  must_listb equity pats r = true <-> must_list equity pats r.
Proof. exact must_listb_spec. Qed.
Print Assumptions C11_must_listb_correct.

(* ---- register: running totals are accumulated before the selector ---- *)
Theorem C11_register_any_selector : forall sel txns,
  register sel txns = map (filter sel) (register rsel_all txns).
Proof. exact register_filter. Qed.
Print Assumptions C11_register_any_selector.

Theorem C11_register_rows : forall pats txns,
  selected_register pats txns
  = map (filter (fun r => name_selectedb pats (rr_acc r))) (selected_register [] txns).
Proof. exact selected_register_spec. Qed.
Print Assumptions C11_register_rows.

Theorem C11_name_selectedb_correct : forall pats a,
  name_selectedb pats a = true <-> name_selected pats a.
Proof. exact name_selectedb_spec. Qed.
Print Assumptions C11_name_selectedb_correct.

(* ---- the oracles evaluated on the implementation's output are sound ---- *)
Theorem C11_oracle_sound : forall equity pats unf rep,
  select_oracle equity pats unf rep = true ->
  b_rows rep = filter (must_listb equity pats) unf
  /\ (forall r, In r (b_rows rep) <-> In r unf /\ must_list equity pats r)
  /\ (forall c d, In (c, d) (b_deltas rep) -> d28 d = spec_delta (b_rows rep) c).
Proof. exact select_oracle_sound. Qed.
Print Assumptions C11_oracle_sound.

Theorem C11_reg_oracle_sound : forall pats unf listed,
  reg_oracle pats unf listed = true ->
  listed = map (filter (fun r => name_selectedb pats (rr_acc r))) unf.
Proof. exact reg_oracle_sound. Qed.
Print Assumptions C11_reg_oracle_sound.

(* ---- non-vacuity ---- *)
Example C11_example :
  let ps := [ mkBpost [[97];[98];[99]]%N [] (mkDec 150 2);
              mkBpost [[97];[98]]%N [] (mkDec (-15) 1);
              mkBpost [[97;98]]%N [] (mkDec 7 0);
              mkBpost [[97]]%N [] (mkDec (-7) 0) ] in
  let pats := [Alt pat_ab (Chr 97)] in
  Forall bpost_wf ps /\
  option_map (fun rep => (map (fun r => (acct_str (r_acc r), d28 (r_own r), d28 (r_tree r))) (b_rows rep),
                          map (fun cd => d28 (snd cd)) (b_deltas rep)))
             (selected_balance (fun _ => true) (fun l => l) false pats ps)
  = Some ([([97]%N, (-7 * 10 ^ 28)%Z, (-7 * 10 ^ 28)%Z);
           ([97;58;98]%N, (-15 * 10 ^ 27)%Z, 0%Z)], [(-85 * 10 ^ 27)%Z]).
Proof. exact selection_example. Qed.

Example C11_wrapped_examples :
  full_haystack_is_match (Seq Bol (Seq (Chr 97) (Star Any))) [97;58;98]%N = true
  /\ full_haystack_is_match (Seq Bol (Seq (Chr 97) (Star Any))) [120;97]%N = false
  /\ full_haystack_is_match (Alt (Seq (Chr 97) Eol) (Seq Bol (Chr 98))) [97]%N = true
  /\ full_haystack_is_match (Alt (Seq (Chr 97) Eol) (Seq Bol (Chr 98))) [98]%N = true
  /\ full_haystack_is_match (Alt (Seq (Chr 97) Eol) (Seq Bol (Chr 98))) [97;98]%N = false
  /\ map (full_haystack_is_match (Alt (Chr 97) (Seq (Chr 98) (Seq (Chr 58) (Chr 99)))))
         [[97]; [98;58;99]; [97;58;99]]%N = [true; true; false]
  /\ map (full_haystack_is_match (Seq (Group true (Alt (Chr 97) (Chr 98))) (Seq (Chr 58) (Chr 99))))
         [[97]; [98;58;99]; [97;58;99]]%N = [false; true; true]
  /\ map (full_haystack_is_match (Star (Group false (Star (Chr 97))))) [[97;97;97]; [97;97;98]; []]%N
     = [true; false; true]
  /\ map (full_haystack_is_match (Plus (Group false (Alt (Chr 97) Empty)))) [[97;97;97]; [97;97;98]; []]%N
     = [true; false; true].
Proof. exact wrapped_examples. Qed.
