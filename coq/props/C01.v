(* C01 — Accepted transactions are balanced in one commodity; others are rejected.
   Statements only; proofs in TkProofs.Accept_proofs. *)
From TkModel Require Import Base Dec Acct Txn Accept.
From TkSpec Require Import Accept_spec.
From TkProofs Require Import Accept_proofs.
Local Open Scope Z_scope.

(* every accepted transaction is balanced in a single transaction commodity:
   non-zero amounts, each posting in that commodity or priced into it, values sum to
   exactly zero, the amount-less last posting gets exactly the negated sum *)
Theorem C01_accepted_balanced : forall rt ps,
  raw_wf rt -> accept_txn rt = Ok ps -> Balanced rt ps.
Proof. exact accept_txn_balanced. Qed.
Print Assumptions C01_accepted_balanced.

(* a transaction that cannot be balanced is rejected *)
Theorem C01_must_reject : forall rt,
  raw_wf rt -> must_reject rt = true -> exists e, accept_txn rt = Err e.
Proof. exact must_reject_rejected. Qed.
Print Assumptions C01_must_reject.

(* ... and with it the whole journal *)
Theorem C01_journal_rejected_as_a_whole : forall j rt e,
  In rt j -> accept_txn rt = Err e -> exists e', accept_journal j = Err e'.
Proof. exact journal_rejected. Qed.
Print Assumptions C01_journal_rejected_as_a_whole.

Theorem C01_journal_accepted : forall j l,
  accept_journal j = Ok l -> Forall2 (fun rt ps => accept_txn rt = Ok ps) j l.
Proof. exact journal_accepted. Qed.
Print Assumptions C01_journal_accepted.

(* the oracle evaluated on the implementation's output is sound for Balanced *)
Theorem C01_oracle_sound : forall rt ps,
  raw_wf rt -> balanced_b rt ps = true -> Balanced rt ps.
Proof. exact balanced_b_sound. Qed.
Print Assumptions C01_oracle_sound.

(* non-vacuity: three commodities, '@', '=', '{..}' and an implicit last posting *)
Example C01_example :
  let rt := mkRawTxn
    [ mkRawPost [[97]]%N (mkDec 15 1) (Some (mkUnit [65]%N (Some (mkDec 2 0, [69]%N)) (Some (UnitPrice, mkDec 20 1, [69]%N))));
      mkRawPost [[98]]%N (mkDec (-3) 0) (Some (mkUnit [66]%N None (Some (TotalPrice, mkDec (-75) 1, [69]%N))));
      mkRawPost [[99]]%N (mkDec 1 2) (Some (mkUnit [69]%N None None)) ]
    (Some [[100]]%N) in
  raw_wf rt /\ must_reject rt = false /\
  option_map (fun ps => map (fun p => (dm (p_txn_amount p), ds (p_txn_amount p))) ps)
             (match accept_txn rt with Ok ps => Some ps | Err _ => None end)
  = Some [(300, 2%N); (-75, 1%N); (1, 2%N); (449, 2%N)].
Proof. exact accept_example. Qed.
