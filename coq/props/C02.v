(* C02 — Balance report figures are the exact sums of the postings.
   Only statements here: each theorem is closed by `exact` of a lemma proved in
   TkProofs.Balance_proofs, followed by Print Assumptions. *)
From Coq Require Import Permutation Sorted.
From TkModel Require Import Base Dec Acct Balance.
From TkSpec Require Import Balance_spec.
From TkProofs Require Import Balance_proofs Balance_more_proofs.
Local Open Scope Z_scope.

(* hypotheses shared by all statements:
   - ord is the iteration order of the hash set: an arbitrary permutation;
   - postings are well formed: scale <= 28, account = non-empty list of non-empty
     components without ':' (what AccountTreeNode::from guarantees). *)

Theorem C02_own : forall known ord ps rows,
  (forall l, Permutation (ord l) l) -> Forall bpost_wf ps ->
  balance known ord ps = Some rows ->
  forall r, In r rows -> d28 (r_own r) = spec_own ps (r_key r).
Proof. exact balance_own. Qed.
Print Assumptions C02_own.

Theorem C02_tree : forall known ord ps rows,
  (forall l, Permutation (ord l) l) -> Forall bpost_wf ps ->
  balance known ord ps = Some rows ->
  forall r, In r rows -> d28 (r_tree r) = spec_tree ps (r_key r).
Proof. exact balance_tree. Qed.
Print Assumptions C02_tree.

(* the rows are exactly the posted (account, commodity) pairs and all their
   ancestors, each once, in (commodity, account) order *)
Theorem C02_rows : forall known ord ps rows,
  (forall l, Permutation (ord l) l) -> Forall bpost_wf ps ->
  balance known ord ps = Some rows ->
  StronglySorted (fun a b => key_cmp a b = Lt) (map r_key rows)
  /\ NoDup (map r_key rows)
  /\ (forall k, In k (map r_key rows) <-> In k (spec_keys ps)).
Proof. exact balance_rows. Qed.
Print Assumptions C02_rows.

(* with a complete chart (lax mode without chart, or every ancestor resolvable)
   the balance never fails *)
Theorem C02_total : forall known ord ps,
  (forall l, Permutation (ord l) l) -> Forall bpost_wf ps ->
  (forall a, known a = true) ->
  exists rows, balance known ord ps = Some rows.
Proof. exact balance_total. Qed.
Print Assumptions C02_total.

(* the report lists exactly the selected rows, unchanged; every commodity of a
   listed row has exactly one delta, which is the sum of the listed own sums *)
Theorem C02_delta : forall known ord sel ps rep,
  (forall l, Permutation (ord l) l) -> Forall bpost_wf ps ->
  balance_report known ord sel ps = Some rep ->
  (exists rows, balance known ord ps = Some rows /\ b_rows rep = filter sel rows)
  /\ NoDup (map fst (b_deltas rep))
  /\ (forall c, In c (map fst (b_deltas rep)) <-> In c (map r_comm (b_rows rep)))
  /\ (forall c d, In (c, d) (b_deltas rep) -> d28 d = spec_delta (b_rows rep) c).
Proof. exact report_delta. Qed.
Print Assumptions C02_delta.

(* all accounts listed and the postings of every commodity cancel (no closing
   prices used): every delta is zero *)
Theorem C02_delta_zero : forall known ord ps rep,
  (forall l, Permutation (ord l) l) -> Forall bpost_wf ps ->
  (forall c, zsum (map amt28 (filter (fun p => str_eqb (bp_comm p) c) ps)) = 0) ->
  balance_report known ord (fun _ => true) ps = Some rep ->
  forall c d, In (c, d) (b_deltas rep) -> d28 d = 0.
Proof. exact report_delta_zero. Qed.
Print Assumptions C02_delta_zero.

(* every figure of the report stays inside the 28-decimal type *)
Theorem C02_scales : forall known ord ps rows,
  (forall l, Permutation (ord l) l) -> Forall bpost_wf ps ->
  balance known ord ps = Some rows ->
  forall r, In r rows -> dwf (r_own r) /\ dwf (r_tree r).
Proof. exact balance_rows_dwf. Qed.
Print Assumptions C02_scales.

(* for ANY two hash orders and any permutation of the postings the balance lists the same
   keys in the same order with the same numbers (C04 uses this) *)
Theorem C02_numbers_order_free : forall known ord ord' ps ps' rows rows',
  (forall l, Permutation (ord l) l) -> (forall l, Permutation (ord' l) l) ->
  Forall bpost_wf ps -> Permutation ps ps' ->
  balance known ord ps = Some rows -> balance known ord' ps' = Some rows' ->
  map r_key rows' = map r_key rows
  /\ (forall r r', In r rows -> In r' rows' -> r_key r = r_key r' ->
        d28 (r_own r) = d28 (r_own r') /\ d28 (r_tree r) = d28 (r_tree r')).
Proof. exact balance_numbers_perm. Qed.
Print Assumptions C02_numbers_order_free.

(* the executable oracle used on the implementation's output is sound for the
   specification it is named after (so a `true` of the oracle means the property) *)
Theorem C02_oracle_sound : forall ps rep,
  report_all_ok ps rep = true ->
  (forall r, In r (b_rows rep) ->
     d28 (r_own r) = spec_own ps (r_key r) /\ d28 (r_tree r) = spec_tree ps (r_key r))
  /\ (forall k, In k (map r_key (b_rows rep)) <-> In k (spec_keys ps))
  /\ (forall c d, In (c, d) (b_deltas rep) -> d28 d = spec_delta (b_rows rep) c).
Proof. exact oracle_sound. Qed.
Print Assumptions C02_oracle_sound.

(* non-vacuity: a tree with a gap (a:b never posted), two commodities *)
Example C02_example :
  let ps := [ mkBpost [[97];[98];[99]]%N [69]%N (mkDec 150 2);
              mkBpost [[97];[100]]%N [69]%N (mkDec (-15) 1);
              mkBpost [[101]]%N [] (mkDec 7 0);
              mkBpost [[97]]%N [] (mkDec (-7) 0) ] in
  Forall bpost_wf ps /\
  option_map (fun rep => (length (b_rows rep), map (fun cd => d28 (snd cd)) (b_deltas rep)))
             (balance_report (fun _ => true) (fun l => l) (fun _ => true) ps)
  = Some (6%nat, [0; 0]).
Proof. exact balance_example. Qed.
