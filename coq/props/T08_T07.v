(* T08_T07 — the part of the capstone extension T08 that rests on T07 (TkModel.T07_run: directory input, charts / strict
   mode, regular-expression account selectors, Git storage): the numbered properties that T06's single-file, non-strict,
   literal-selector runs cannot express, restated about run7_console / run7_files / run7g_console.
   Only statements: each theorem is closed by `exact` of a lemma of TkProofs.T07_proofs (re-exports under the name of
   the property they lift) or TkProofs.T08_T07_proofs (T08_selector_rows_regex, the one new composition).
     C12  T08_strict_text, T08_strict_same_output     = T07_strict_text, T07_strict_same_output
     C04  T08_files_order_irrelevant                   = T07_files_order_irrelevant (several files, any distribution)
     C15  T08_one_bad_file_no_output                   = T07_one_bad_file_no_output (multi-file all-or-nothing)
     C08  T08_git_storage                              = T07_git_eq_fs (Git storage = file-system storage on a checkout, up to the Git item)
     C11  T08_selector_rows_regex                      T07_selector_rows (C11_rows, C11_figures_unchanged, C03_selector_hides_only)
                                                       placed inside the console text of run7_console
     T08_single_file_is_T06                            = T07_coincides_T06: on one file without charts and selectors run7_* ARE run_*,
                                                       so every theorem of props/T08.v is a theorem about these T07 runs *)
From Coq Require Import ZArith List Permutation.
From TkModel Require Import Base Dec Acct Txn Accept Journal Balance Register Round Price Time Group.
From TkModel Require Import ReportText T05_report PriceText Regex T06_run T07_run.
From TkModel Require MetaText Store Load Charts Select.
From TkSpec Require Import Balance_spec Register_spec Regex_spec Charts_spec T07_spec T08_spec.
From TkSpec Require Store_spec.
From TkProofs Require Import T07_proofs T08_T07_proofs.
Local Open Scope Z_scope.

(* C12: a strict run with chart files prints exactly when the non-strict run prints AND every name used is declared *)
Theorem T08_strict_text : forall H c files p pr j,
  r7_strict c = true -> r7_charts c <> None ->
  price_setup (r7_base c) p = Ok pr -> chart_journal c files = Ok j ->
  (forall out, run7_console H c files p = Ok out
               <-> run7_console H (lax c) files p = Ok out /\ declared (chart_config c (fst pr)) j)
  /\ (forall out, run7_files H c files p = Ok out
                  <-> run7_files H (lax c) files p = Ok out /\ declared (chart_config c (fst pr)) j).
Proof. exact strict_text. Qed.
Print Assumptions T08_strict_text.

(* C12: ... and then the bytes are the same *)
Theorem T08_strict_same_output : forall H c files p,
  r7_strict c = true -> r7_charts c <> None ->
  (forall out, run7_console H c files p = Ok out -> run7_console H (lax c) files p = Ok out)
  /\ (forall out, run7_files H c files p = Ok out -> run7_files H (lax c) files p = Ok out).
Proof. exact strict_same_output. Qed.
Print Assumptions T08_strict_same_output.

(* C04: any distribution of the same (pairwise distinguishable) transactions over files and directories, in any order: byte-identical output in both modes *)
Theorem T08_files_order_irrelevant : forall H c files files' p ls ls',
  gate_on c = false ->
  file_results c files = Ok ls -> file_results c files' = Ok ls' ->
  Permutation (concat ls) (concat ls') -> distinct_jhdrs (concat ls) ->
  run7_console H c files p = run7_console H c files' p /\ run7_files H c files p = run7_files H c files' p.
Proof. exact files_distribution_nocharts. Qed.
Print Assumptions T08_files_order_irrelevant.

(* C15: one selected file that is refused: no output at all, whatever the other files hold *)
Theorem T08_one_bad_file_no_output : forall H c files p f code,
  In f (selected7 c files) -> parse_file (rc_journal (r7_base c)) (snd f) = Err code ->
  exists e, run7_console H c files p = Err e /\ run7_files H c files p = Err e.
Proof. exact one_bad_file. Qed.
Print Assumptions T08_one_bad_file_no_output.

(* C08: a run on Git storage prints the framed reports of the run on a checkout of that commit, behind a metadata block that differs by the Git item only *)
Theorem T08_git_storage : forall H c gw gs p id t out,
  Store.resolve (gw_repo gw) (gs_sel gs) = Some id -> Store.lookup_commit (Store.commits (gw_repo gw)) id = Some t ->
  Store_spec.no_links t -> rc_targets (r7_base c) <> [] ->
  run7g_console H c gw gs p = Ok out ->
  exists mdg mdf us rs,
    MetaText.make_items H (rc_audit (r7_base c)) (rc_algo (r7_base c)) (Some (git_reference7 c gw gs id)) (filter_desc (r7_base c)) us = Ok mdg
    /\ MetaText.make_items H (rc_audit (r7_base c)) (rc_algo (r7_base c)) None (filter_desc (r7_base c)) us = Ok mdf
    /\ out = console_text mdg rs
    /\ run7_console H c (checkout gw (gs_dir gs) t) p = Ok (console_text mdf rs).
Proof. exact git_eq_fs_console. Qed.
Print Assumptions T08_git_storage.

(* the runs of props/T08.v are T07 runs *)
Theorem T08_single_file_is_T06 : forall H cfg ext name jtext p,
  Store.has_ext ext name = true ->
  rc_accounts cfg = None /\ rc_bal_acc cfg = None /\ rc_grp_acc cfg = None /\ rc_reg_acc cfg = None /\ rc_eq_acc cfg = None ->
  run7_console H (embed cfg ext) [([name], jtext)] p = run_console H cfg jtext p
  /\ run7_files H (embed cfg ext) [([name], jtext)] p = run_files H cfg jtext p.
Proof. exact run7_coincides. Qed.
Print Assumptions T08_single_file_is_T06.

(* C11 with regular expressions: the balance rows printed are the rows of the unrestricted balance whose account name is matched ENTIRELY by one of
   the patterns, with the exact own / subtree sums over ALL converted postings; the register entries keep the rows of such accounts with the
   running totals of the unrestricted register *)
Theorem T08_selector_rows_regex : forall H c files p out,
  run7_console H c files p = Ok out ->
  let b := r7_base c in
  exists st,
    let ps := conv_bposts (report_ctx (rs_lk st) (rc_commodity b) (rs_db st) (rs_txns st)) (sort_txns (rs_txns st)) in
    run7_prepare H c files p = Ok st
    /\ (In MetaText.RBalance (rc_targets b) ->
        exists rep,
          bal_report7 (Select.report_selector (pats_of c MetaText.RBalance)) st (rc_commodity b) = Some rep
          /\ framed (report_head7 H c st MetaText.RBalance
                     ++ bal_txt_report (rc_title_bal b) (rc_scale b) (b_rows rep) (b_deltas rep)) out
          /\ (Forall bpost_wf ps ->
              exists rows, balance (fun _ => true) ord_sorted ps = Some rows
                /\ b_rows rep = filter (must_listb false (pats_of c MetaText.RBalance)) rows
                /\ (forall r, In r (b_rows rep) <-> In r rows /\ name_selected (pats_of c MetaText.RBalance) (r_acc r))
                /\ (forall r, In r (b_rows rep) -> d28 (r_own r) = spec_own ps (r_key r) /\ d28 (r_tree r) = spec_tree ps (r_key r))))
    /\ (In MetaText.RRegister (rc_targets b) ->
        framed (report_head7 H c st MetaText.RRegister
                ++ reg_txt_report (rc_title_reg b) (rc_scale b) (filler_width (rs_lk st)) (ts_text b)
                     (map (restrict (reg_selector (pats_of c MetaText.RRegister))) (reg_report7 sel_all st (rc_commodity b)))) out
        /\ (forall e r, In r (re_rows (restrict (reg_selector (pats_of c MetaText.RRegister)) e))
                        <-> In r (re_rows e) /\ name_selected (pats_of c MetaText.RRegister) (p_acc (rr_post r)))).
Proof. exact selector_rows7. Qed.
Print Assumptions T08_selector_rows_regex.
