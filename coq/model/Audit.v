(* Audit.v — model of audit mode: UUID syntax and canonical text (p_uuid, Uuid::parse_str,
   Uuid::to_string), the audit test of parse_txn_header, calc_txn_checksum / make_metadata /
   TxnData::filter / get_all (model/txn_data.rs), Hash::from / Hash::checksum (kernel/hash.rs),
   full-haystack wrapping and peeling (tackler-rs/src/regex.rs) and the selector checksum
   impls (kernel/report_item_selector.rs, report.rs write_acc_sel_checksum).
   Strings that are hashed are lists of BYTES (Rust String = UTF-8); UUID texts are ASCII.
   Definitions only. *)
From TkModel Require Import Base Txn.

(* a UUID: 32 nibbles (values 0..15), most significant first *)
Notation uuid := (list N) (only parsing).

(* ------------------------------------------------------------------ *)
(* characters *)
Definition ch_dash : N := 45%N.
Definition ch_nl : N := 10%N.

Definition in_range (lo hi c : N) : bool := N.leb lo c && N.leb c hi.

(* AsChar::is_hex_digit for char: ASCII 0-9 A-F a-f only *)
Definition hex_val (c : N) : option N :=
  if in_range 48 57 c then Some (c - 48)%N
  else if in_range 97 102 c then Some (c - 87)%N
  else if in_range 65 70 c then Some (c - 55)%N
  else None.

(* lower-case hex digit of a nibble (Uuid Display = hyphenated, lower case) *)
Definition hex_digit (v : N) : N := if N.ltb v 10 then (v + 48)%N else (v + 87)%N.

(* ASCII lower-casing *)
Definition to_lower (c : N) : N := if in_range 65 90 c then (c + 32)%N else c.

(* ------------------------------------------------------------------ *)
(* p_uuid: take_while(n, is_hex_digit) groups 8-4-4-4-12 separated by '-' ; then
   Uuid::parse_str on exactly that text (which cannot fail on this shape) *)
Fixpoint take_hex (n : nat) (s : list N) : option (list N * list N) :=
  match n with
  | O => Some ([], s)
  | S n' =>
      match s with
      | c :: s' =>
          match hex_val c with
          | Some v => match take_hex n' s' with
                      | Some (vs, r) => Some (v :: vs, r)
                      | None => None
                      end
          | None => None
          end
      | [] => None
      end
  end.

Fixpoint parse_rest (gs : list nat) (s : list N) : option (list N * list N) :=
  match gs with
  | [] => Some ([], s)
  | g :: gs' =>
      match s with
      | c :: r =>
          if N.eqb c ch_dash then
            match take_hex g r with
            | Some (vs, r') => match parse_rest gs' r' with
                               | Some (ws, r'') => Some (vs ++ ws, r'')
                               | None => None
                               end
            | None => None
            end
          else None
      | [] => None
      end
  end.

Definition uuid_tail_groups : list nat := [4; 4; 4; 12]%nat.

(* the text following "# uuid:" up to the end of line (blanks trimmed by the grammar);
   anything but exactly 8-4-4-4-12 hex digits is a syntax error *)
Definition uuid_parse (s : list N) : option uuid :=
  match take_hex 8 s with
  | Some (vs, r) => match parse_rest uuid_tail_groups r with
                    | Some (ws, []) => Some (vs ++ ws)
                    | _ => None
                    end
  | None => None
  end.

Fixpoint print_rest (gs : list nat) (u : list N) : list N :=
  match gs with
  | [] => []
  | g :: gs' => ch_dash :: map hex_digit (firstn g u) ++ print_rest gs' (skipn g u)
  end.

(* Uuid::to_string *)
Definition uuid_print (u : uuid) : list N :=
  map hex_digit (firstn 8 u) ++ print_rest uuid_tail_groups (skipn 8 u).

(* ------------------------------------------------------------------ *)
(* error classes (coarse) *)
Definition E_no_uuid : N := 20%N.        (* calc_txn_checksum: txn without UUID *)
Definition E_dup_uuid : N := 21%N.       (* calc_txn_checksum: duplicate uuids *)
Definition E_audit_no_uuid : N := 22%N.  (* parse_txn_header: audit mode, txn without UUID *)
Definition E_uuid_syntax : N := 23%N.    (* p_uuid *)

(* parse_txn_header: the metadata block is parsed first (syntax), then the audit test *)
Definition accept_uuid (audit : bool) (raw : option (list N)) : res (option uuid) :=
  match raw with
  | Some s => match uuid_parse s with
              | Some u => Ok (Some u)
              | None => Err E_uuid_syntax
              end
  | None => if audit then Err E_audit_no_uuid else Ok None
  end.

(* a journal is accepted as a whole or not at all; one entry per transaction:
   the uuid text as written, or None when the transaction has no "# uuid:" line *)
Definition accept_journal_uuids (audit : bool) (raws : list (option (list N))) : res (list (option uuid)) :=
  mapM (accept_uuid audit) raws.

(* ------------------------------------------------------------------ *)
(* Hash::from — accepted algorithm names, exactly *)
Definition hash_names : list (list N) :=
  [ [83;72;65;45;50;53;54];                  (* SHA-256 *)
    [83;72;65;45;53;49;50];                  (* SHA-512 *)
    [83;72;65;45;53;49;50;47;50;53;54];      (* SHA-512/256 *)
    [83;72;65;51;45;50;53;54];               (* SHA3-256 *)
    [83;72;65;51;45;53;49;50] ]%N.           (* SHA3-512 *)
Definition hash_supported (name : list N) : bool := existsb (str_eqb name) hash_names.

(* Rust Vec<String>::sort — byte-wise lexicographic *)
Definition str_leb (a b : list N) : bool := cmp_leb (str_cmp a b).
Definition sort_strs (l : list (list N)) : list (list N) := sort_by str_leb l.

(* itertools duplicates(): an element is yielded when it is met for the second time *)
Definition count_str (x : list N) (l : list (list N)) : nat := length (filter (str_eqb x) l).
Fixpoint duplicates_go (seen l : list (list N)) : list (list N) :=
  match l with
  | [] => []
  | x :: l' => if Nat.eqb (count_str x seen) 1 then x :: duplicates_go (x :: seen) l'
               else duplicates_go (x :: seen) l'
  end.
Definition duplicates (l : list (list N)) : list (list N) := duplicates_go [] l.

(* Hash::checksum feeds, for every item, the item's bytes and then the separator *)
Definition feed (items : list (list N)) (sep : list N) : list N :=
  concat (map (fun i => i ++ sep) items).

(* full-haystack wrapping "^(?:" re ")$" and peeling (tackler-rs regex.rs) *)
Definition fh_prefix : list N := [94; 40; 63; 58]%N.
Definition fh_suffix : list N := [41; 36]%N.
Definition into_full_haystack (re : list N) : list N := fh_prefix ++ re ++ fh_suffix.

Fixpoint strip_prefix (pre s : list N) : option (list N) :=
  match pre with
  | [] => Some s
  | p :: pre' => match s with
                 | c :: s' => if N.eqb p c then strip_prefix pre' s' else None
                 | [] => None
                 end
  end.
Definition strip_suffix (suf s : list N) : option (list N) :=
  if Nat.leb (length suf) (length s) then
    let n := (length s - length suf)%nat in
    if str_eqb (skipn n s) suf then Some (firstn n s) else None
  else None.
Definition peel_full_haystack (re : list N) : list N :=
  match strip_prefix fh_prefix re with
  | Some pc => match strip_suffix fh_suffix pc with Some x => x | None => re end
  | None => re
  end.

(* what a report prints as account selector checksum *)
Inductive sel_md : Type :=
| SelNoItem                      (* no audit mode: nothing is printed *)
| SelAll                         (* "None : select all" *)
| SelAllNonZero                  (* "None : select all non-zero" (equity) *)
| SelSum (v : list N).

Section Digest.
  (* the configured digest, bytes -> bytes; update(a);update(b) = update(a++b) is its contract *)
  Variable H : list N -> list N.

  Definition hash_checksum (items : list (list N)) (sep : list N) : list N := H (feed items sep).

  (* calc_txn_checksum over the header uuids of the given transactions *)
  Definition calc_txn_checksum (us : list (option uuid)) : res (list N) :=
    res_bind (mapM (fun o => match o with Some u => Ok (uuid_print u) | None => Err E_no_uuid end) us)
      (fun strs =>
         let u := sort_strs strs in
         match duplicates u with
         | [] => Ok (hash_checksum u [ch_nl])
         | _ :: _ => Err E_dup_uuid
         end).

  (* make_metadata: with a hash (audit mode) the item (size, checksum) is produced *)
  Definition make_metadata (audit : bool) (us : list (option uuid)) : res (option (N * list N)) :=
    if audit then res_map (fun v => Some (N.of_nat (length us), v)) (calc_txn_checksum us)
    else Ok None.

  (* TxnData::filter (Some f) / TxnData::get_all (None): the selected transactions and the
     metadata item recomputed for exactly them *)
  Definition txn_set {T : Type} (uuid_of : T -> option uuid) (audit : bool)
             (flt : option (T -> bool)) (ts : list T) : res (list T * option (N * list N)) :=
    let sel := match flt with Some f => filter f ts | None => ts end in
    res_map (fun md => (sel, md)) (make_metadata audit (map uuid_of sel)).

  (* BalanceByAccountSelector / RegisterByAccountSelector ::checksum:
     new_full_haystack_regex_set wraps, peeled_patterns peels, sort, hash with "\n" *)
  Definition selector_checksum (pats : list (list N)) : list N :=
    hash_checksum (sort_strs (map peel_full_haystack (map into_full_haystack pats))) [ch_nl].

  (* write_acc_sel_checksum / equity export: only with a hash; empty list = select-all selectors *)
  Definition report_selector_md (audit equity : bool) (pats : list (list N)) : sel_md :=
    if audit then
      match pats with
      | [] => if equity then SelAllNonZero else SelAll
      | _ :: _ => SelSum (selector_checksum pats)
      end
    else SelNoItem.
End Digest.

(* journal text to metadata: per transaction the uuid as written and whether the filter selects it *)
Definition audit_pipeline (H : list N -> list N) (audit : bool)
           (j : list (option (list N) * bool)) : res (option (N * list N)) :=
  res_bind (accept_journal_uuids audit (map fst j))
    (fun us => res_map snd (txn_set H (fun p : option uuid * bool => fst p) audit (Some (fun p => snd p))
                                    (combine us (map snd j)))).

(* instance for Txn.txn (its header carries the canonical text) *)
Definition txn_uuid (t : txn) : option uuid :=
  match h_uuid (t_hdr t) with Some s => uuid_parse s | None => None end.
