(* Select.v — account selectors: tackler-core/src/kernel/report_item_selector.rs, their
   construction in report/balance_reporter.rs (acc_selector), report/register_reporter.rs
   (get_acc_selector), export/equity_exporter.rs (get_acc_selector), and their use in
   kernel/balance.rs (Balance::from_iter: filter AFTER the whole balance is computed) and
   kernel/accumulator.rs (register_engine: running totals accumulated BEFORE the selector).
   Definitions only. *)
From TkModel Require Import Base Dec Acct Balance Regex.

(* BalanceTreeNode.acctn.atn.account / Posting.acctn.atn.account: the ':'-joined name *)
Definition acc_text (a : acct) : str := acct_str a.

(* --- balance selectors --- *)
(* BalanceAllSelector *)
Definition sel_all (r : brow) : bool := true.
(* BalanceByAccountSelector: RegexSet of wrapped patterns, is_match on the account name *)
Definition sel_by_account (pats : list re) (r : brow) : bool :=
  full_haystack_set_is_match pats (acc_text (r_acc r)).
(* BalanceNonZeroSelector *)
Definition sel_nonzero (r : brow) : bool := negb (is_zero (r_own r)).
(* BalanceNonZeroByAccountSelector *)
Definition sel_nonzero_by_account (pats : list re) (r : brow) : bool :=
  negb (is_zero (r_own r)) && sel_by_account pats r.

(* BalanceReporter::acc_selector (also used by the balance-group reporter) *)
Definition report_selector (pats : list re) : brow -> bool :=
  match pats with [] => sel_all | _ => sel_by_account pats end.
(* EquityExporter::get_acc_selector *)
Definition equity_selector (pats : list re) : brow -> bool :=
  match pats with [] => sel_nonzero | _ => sel_nonzero_by_account pats end.

(* Balance::from_iter with the report's / the equity export's selector *)
Definition selected_balance (known : acct -> bool) (ord : list ksum -> list ksum)
           (equity : bool) (pats : list re) (ps : list bpost) : option bal_report :=
  balance_report known ord (if equity then equity_selector pats else report_selector pats) ps.
Definition selected_balance_det (equity : bool) (pats : list re) (ps : list bpost)
  : option bal_report := selected_balance (fun _ => true) ord_sorted equity pats ps.

(* --- register (no price conversion: convert_prices is the identity without a report
       commodity) --- *)
(* a register row: the posting (account, commodity, amount) and the running total of its
   (account, commodity) *)
Record rrow : Type := mkRrow { rr_acc : acct; rr_comm : str; rr_amt : dec; rr_total : dec }.
Definition rr_key (r : rrow) : key := (rr_acc r, rr_comm r).

(* HashMap<TxnAccount, Decimal> used for lookup only: association list *)
Fixpoint eng_get (st : list ksum) (k : key) : option dec :=
  match st with
  | [] => None
  | (k', v) :: st' => if key_eqb k' k then Some v else eng_get st' k
  end.
Fixpoint eng_set (st : list ksum) (k : key) (v : dec) : list ksum :=
  match st with
  | [] => [(k, v)]
  | (k', v') :: st' => if key_eqb k' k then (k', v) :: st' else (k', v') :: eng_set st' k v
  end.

(* entry(k).and_modify(|v| *v += amount).or_insert(amount), over the sorted postings *)
Fixpoint reg_rows (st : list ksum) (ps : list bpost) : list rrow * list ksum :=
  match ps with
  | [] => ([], st)
  | p :: ps' =>
      let k := bp_key p in
      let tot := match eng_get st k with Some v => dadd v (bp_amt p) | None => bp_amt p end in
      let (rows, st') := reg_rows (eng_set st k tot) ps' in
      (mkRrow (bp_acc p) (bp_comm p) (bp_amt p) tot :: rows, st')
  end.

Definition post_leb (a b : bpost) : bool := key_leb (bp_key a) (bp_key b).
Definition rrow_leb (a b : rrow) : bool := key_leb (rr_key a) (rr_key b).

(* the rows of every transaction with their running totals, before any selector *)
Fixpoint reg_totals (st : list ksum) (txns : list (list bpost)) : list (list rrow) :=
  match txns with
  | [] => []
  | t :: txns' =>
      let (rows, st') := reg_rows st (sort_by post_leb t) in
      rows :: reg_totals st' txns'
  end.

(* register_engine: per transaction filter by the selector, then filt_postings.sort() *)
Definition register (sel : rrow -> bool) (txns : list (list bpost)) : list (list rrow) :=
  map (fun rows => sort_by rrow_leb (filter sel rows)) (reg_totals [] txns).

(* RegisterAllSelector / RegisterByAccountSelector, RegisterReporter::get_acc_selector *)
Definition rsel_all (r : rrow) : bool := true.
Definition rsel_by_account (pats : list re) (r : rrow) : bool :=
  full_haystack_set_is_match pats (acc_text (rr_acc r)).
Definition register_selector (pats : list re) : rrow -> bool :=
  match pats with [] => rsel_all | _ => rsel_by_account pats end.
Definition selected_register (pats : list re) (txns : list (list bpost)) : list (list rrow) :=
  register (register_selector pats) txns.
