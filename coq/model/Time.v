(* Time.v — civil calendar on Z (proleptic Gregorian), ISO-8601 week dates, and the five
   period keys of tackler-api/src/txn_ts.rs (fmt_year "%Y", fmt_month "%Y-%m", fmt_date
   "%Y-%m-%d", fmt_week "{}-W{:02}", fmt_week_date "{}-W{:02}-{}").  Definitions only.
   The keys carry no zone/offset text; the zone enters only through the civil date
   (`ts.with_time_zone(tz)`), i.e. through the UTC offset at that instant.
   jiff is modelled by contract: civil date of an instant at an offset = floor of
   (instant + offset) to days; ISO week date of a civil date. *)
From TkModel Require Import Base.
Local Open Scope Z_scope.

Definition ns_per_sec : Z := 1000000000.
Definition ns_per_day : Z := 86400000000000.

(* days since 1970-01-01 of the civil date shown by a clock `off` seconds ahead of UTC *)
Definition local_days (off inst : Z) : Z := (inst + off * ns_per_sec) / ns_per_day.

(* 400 Gregorian years *)
Definition cycle_days : Z := 146097.

(* day number -> (year, month, day) *)
Definition civil_of_days (z : Z) : Z * Z * Z :=
  let z0 := z + 719468 in
  let era := z0 / 146097 in
  let doe := z0 mod 146097 in
  let yoe := (doe - doe / 1460 + doe / 36524 - doe / 146096) / 365 in
  let doy := doe - (365 * yoe + yoe / 4 - yoe / 100) in
  let mp := (5 * doy + 2) / 153 in
  let d := doy - (153 * mp + 2) / 5 + 1 in
  let m := if mp <? 10 then mp + 3 else mp - 9 in
  let y := yoe + era * 400 in
  ((if m <=? 2 then y + 1 else y), m, d).

(* (year, month, day) -> day number *)
Definition days_of_civil (y m d : Z) : Z :=
  let y0 := if m <=? 2 then y - 1 else y in
  let era := y0 / 400 in
  let yoe := y0 mod 400 in
  let mp := if m <=? 2 then m + 9 else m - 3 in
  let doy := (153 * mp + 2) / 5 + d - 1 in
  let doe := yoe * 365 + yoe / 4 - yoe / 100 + doy in
  era * 146097 + doe - 719468.

Definition year_of_days (z : Z) : Z := fst (fst (civil_of_days z)).

(* Monday = 1 .. Sunday = 7 (1970-01-01 was a Thursday) *)
Definition weekday (z : Z) : Z := (z + 3) mod 7 + 1.

(* ISO-8601 week date: the week belongs to the year of its Thursday *)
Definition iso_of_days (z : Z) : Z * Z * Z :=
  let wd := weekday z in
  let thu := z - wd + 4 in
  let y := year_of_days thu in
  let w := (thu - days_of_civil y 1 1) / 7 + 1 in
  (y, w, wd).

(* --- text --- *)
Definition digit (d : Z) : N := Z.to_N (48 + d).
Definition dash : N := 45%N.
Definition chW : N := 87%N.

(* decimal digits of n >= 0, least significant first *)
Fixpoint digits_rev (fuel : nat) (n : Z) : list N :=
  match fuel with
  | O => []
  | S f => digit (n mod 10) :: (if n / 10 =? 0 then [] else digits_rev f (n / 10))
  end.
(* Rust `{}` of an integer (i16 year, i8 week: 20 digits of fuel are ample) *)
Definition show_Z (n : Z) : str :=
  if n <? 0 then dash :: rev (digits_rev 20 (- n)) else rev (digits_rev 20 n).
(* `{:02}` / strftime zero padding to a minimal width *)
Definition pad0 (w : nat) (s : str) : str := repeat 48%N (w - length s) ++ s.

Definition fmt_Y (y : Z) : str := pad0 4 (show_Z y).      (* %Y, years 0..9999 *)
Definition fmt_02 (n : Z) : str := pad0 2 (show_Z n).     (* %m %d {:02} *)

Inductive group_by : Type := GbYear | GbMonth | GbDate | GbIsoWeek | GbIsoWeekDate.

(* the period key of a (local) day number *)
Definition period_key (gb : group_by) (days : Z) : str :=
  match gb with
  | GbYear => let '(y, _, _) := civil_of_days days in fmt_Y y
  | GbMonth => let '(y, m, _) := civil_of_days days in fmt_Y y ++ dash :: fmt_02 m
  | GbDate => let '(y, m, d) := civil_of_days days in fmt_Y y ++ dash :: fmt_02 m ++ dash :: fmt_02 d
  | GbIsoWeek => let '(y, w, _) := iso_of_days days in show_Z y ++ dash :: chW :: fmt_02 w
  | GbIsoWeekDate =>
      let '(y, w, wd) := iso_of_days days in show_Z y ++ dash :: chW :: fmt_02 w ++ dash :: show_Z wd
  end.

(* the year printed in the key (civil year or ISO week-year) *)
Definition key_year (gb : group_by) (days : Z) : Z :=
  match gb with
  | GbYear | GbMonth | GbDate => year_of_days days
  | GbIsoWeek | GbIsoWeekDate => fst (fst (iso_of_days days))
  end.

(* as_tz_year / as_tz_month / as_tz_date / as_tz_iso_week / as_tz_iso_week_date:
   tzoff gives the UTC offset (seconds) of the report zone at an instant *)
Definition instant_key (gb : group_by) (tzoff : Z -> Z) (inst : Z) : str :=
  period_key gb (local_days (tzoff inst) inst).
