(* Load.v — model of the loading layer above the per-file parser: paths_to_txns /
   git_to_txns collect the per-file results with `collect::<Result<_,_>>` (first error
   wins, nothing is kept), then TxnData::from sorts. The per-file parser is a parameter
   (Journal.v models it at character level). Arithmetic sites of the load path that can
   exceed the number type are explicit outcomes, never a default value. Definitions only. *)
From TkModel Require Import Base Dec Txn.

Section Load.
  Context {file : Type} (parse : file -> res (list txn)).

  Definition load_files (files : list file) : res (list txn) :=
    res_map (fun ls => sort_txns (concat ls)) (mapM parse files).
End Load.

(* checked Decimal arithmetic of the load path (after the repair of F6): the sites are
   txn_sum (Decimal +) and amount * unit price. `None` = the library reports overflow;
   the exact result is returned whenever it is representable. *)
Definition dadd_checked (a b : dec) : option dec :=
  let r := dadd a b in if fits r then Some r else None.
Definition dmul_checked (a b : dec) : option dec :=
  let r := dmul a b in if fits r then Some r else None.

(* time-stamp fraction: digits * 10^(9-len) for 1..9 digits fits 31 bits *)
Definition frac_ns (digits : N) (len : N) : N := (digits * 10 ^ (9 - len))%N.
