(* Balance.v — model of tackler-core kernel/balance.rs (Balance::balance, bubble_up_acctn,
   get_balance_tree_nodes, Balance::from_iter). Definitions only. *)
From TkModel Require Import Base Dec Acct.

(* a posting as the balance sees it (after price conversion) *)
Record bpost : Type := mkBpost { bp_acc : acct; bp_comm : str; bp_amt : dec }.
Definition bp_key (p : bpost) : key := (bp_acc p, bp_comm p).

Notation ksum := ((list (list N) * list N) * dec)%type (only parsing).

Record brow : Type := mkBrow { r_acc : acct; r_comm : str; r_own : dec; r_tree : dec }.
Definition r_key (r : brow) : key := (r_acc r, r_comm r).

(* --- account sums: sorted_by_key, chunk_by, sum --- *)
Fixpoint chunk_acc (cur : key) (acc : dec) (l : list ksum) : list ksum :=
  match l with
  | [] => [(cur, acc)]
  | (k, v) :: l' =>
      if key_eqb k cur then chunk_acc cur (dadd acc v) l'
      else (cur, acc) :: chunk_acc k (dadd dzero v) l'
  end.
Definition chunk_sums (l : list ksum) : list ksum :=
  match l with
  | [] => []
  | (k, v) :: l' => chunk_acc k (dadd dzero v) l'
  end.

Definition account_sums (ps : list bpost) : list ksum :=
  chunk_sums (sort_by (fun a b => key_leb (fst a) (fst b))
                      (map (fun p => (bp_key p, bp_amt p)) ps)).

(* --- bubble_up_acctn --- *)
(* known: Settings::get_txn_account succeeds for this account name *)
Fixpoint bubble (known : acct -> bool) (sums : list ksum) (fuel : nat) (me : ksum)
  : option (list ksum) :=
  match fuel with
  | O => None
  | S f =>
      let a := fst (fst me) in
      let c := snd (fst me) in
      if Nat.eqb (length a) 1 then Some [me]
      else
        let p := parent a in
        match find (fun e => is_parent_of (fst e) (fst me)) sums with
        | Some pe => option_map (fun x => x ++ [me]) (bubble known sums f pe)
        | None =>
            if known p
            then option_map (fun x => x ++ [me]) (bubble known sums f ((p, c), dzero))
            else None
        end
  end.

Fixpoint bubble_all (known : acct -> bool) (sums todo : list ksum) : option (list ksum) :=
  match todo with
  | [] => Some []
  | e :: todo' =>
      match bubble known sums (S (length (fst (fst e)))) e with
      | None => None
      | Some l => option_map (fun r => l ++ r) (bubble_all known sums todo')
      end
  end.

Definition ksum_eqb (x y : ksum) : bool := key_eqb (fst x) (fst y) && deqb (snd x) (snd y).

(* --- get_balance_tree_nodes --- *)
Fixpoint tree_nodes (fuel : nat) (all : list ksum) (me : ksum) : list brow :=
  match fuel with
  | O => []
  | S f =>
      let childs := filter (fun e => is_parent_of (fst me) (fst e)) all in
      let sub := flat_map (tree_nodes f all) childs in
      let csum := dsum (map r_tree
                         (filter (fun b => acct_eqb (parent (r_acc b)) (fst (fst me))) sub)) in
      mkBrow (fst (fst me)) (snd (fst me)) (snd me) (dadd csum (snd me)) :: sub
  end.

Definition max_depth (l : list ksum) : nat :=
  fold_right Nat.max 0 (map (fun e => length (fst (fst e))) l).

(* Balance::balance. ord models the iteration order of the HashSet used for
   de-duplication: any permutation (hypothesis of the theorems, not of the model). *)
Definition balance (known : acct -> bool) (ord : list ksum -> list ksum) (ps : list bpost)
  : option (list brow) :=
  let sums := account_sums ps in
  match bubble_all known sums sums with
  | None => None
  | Some flat =>
      let all := ord (dedup_by ksum_eqb flat) in
      let roots := filter (fun e => Nat.eqb (length (fst (fst e))) 1) all in
      let bal := flat_map (tree_nodes (S (max_depth all)) all) roots in
      Some (sort_by (fun a b => key_leb (r_key a) (r_key b)) bal)
  end.

(* --- Balance::from_iter: selector, deltas --- *)
Fixpoint delta_acc (cur : str) (acc : dec) (l : list brow) : list (str * dec) :=
  match l with
  | [] => [(cur, acc)]
  | r :: l' =>
      if str_eqb (r_comm r) cur then delta_acc cur (dadd acc (r_own r)) l'
      else (cur, acc) :: delta_acc (r_comm r) (dadd dzero (r_own r)) l'
  end.
Definition deltas (rows : list brow) : list (str * dec) :=
  match rows with
  | [] => []
  | r :: l' => delta_acc (r_comm r) (dadd dzero (r_own r)) l'
  end.

Record bal_report : Type := mkBal { b_rows : list brow; b_deltas : list (str * dec) }.

Definition balance_report (known : acct -> bool) (ord : list ksum -> list ksum)
           (sel : brow -> bool) (ps : list bpost) : option bal_report :=
  match balance known ord ps with
  | None => None
  | Some bal => let rows := filter sel bal in Some (mkBal rows (deltas rows))
  end.

(* the code after the repair of finding F8 (commit 4dd4e5c): the de-duplicated sums are
   sorted by key, so the iteration order of the hash set no longer reaches any output.
   ord_sorted is a permutation, hence every theorem stated for all ord applies. *)
Definition ord_sorted (l : list ksum) : list ksum :=
  sort_by (fun a b => key_leb (fst a) (fst b)) l.
Definition balance_det (known : acct -> bool) (ps : list bpost) : option (list brow) :=
  balance known ord_sorted ps.
Definition balance_report_det (known : acct -> bool) (sel : brow -> bool) (ps : list bpost)
  : option bal_report := balance_report known ord_sorted sel ps.
