(* Txn.v — transactions as tackler holds them after parsing. Definitions only. *)
From TkModel Require Import Base Dec Acct.

Record posting : Type := mkPosting {
  p_acc : acct; p_comm : str; p_amount : dec;
  p_txn_amount : dec; p_total : bool; p_txn_comm : str }.

Record geo : Type := mkGeo { g_lat : dec; g_lon : dec; g_alt : option dec }.

(* header; the time stamp is an instant (ns since the epoch) plus the UTC offset
   (seconds) it was written with; uuid = its 36-character lower-case text *)
Record header : Type := mkHeader {
  h_inst : Z; h_off : Z;
  h_code : option (list N); h_desc : option (list N); h_uuid : option (list N);
  h_loc : option geo; h_tags : list (list N); h_comments : list (list N) }.

Record txn : Type := mkTxn { t_hdr : header; t_posts : list posting }.

(* TxnHeader::cmp — instant, then code, description, uuid (None as "") *)
Definition header_cmp (a b : header) : comparison :=
  cmp_then (Z.compare (h_inst a) (h_inst b))
   (cmp_then (str_cmp (opt_str (h_code a)) (opt_str (h_code b)))
     (cmp_then (str_cmp (opt_str (h_desc a)) (opt_str (h_desc b)))
               (str_cmp (opt_str (h_uuid a)) (opt_str (h_uuid b))))).
Definition txn_leb (a b : txn) : bool := cmp_leb (header_cmp (t_hdr a) (t_hdr b)).

(* TxnData::from: stable sort by header *)
Definition sort_txns (l : list txn) : list txn := sort_by txn_leb l.
