(* Journal.v — C06: the pretty-printers behind the identity export and the
   character-level journal parser. Definitions only.

   PRINTER  (transcribes what the code does)
     print_dec       rust_decimal 1.37.1 `Display for Decimal` (str.rs to_str_internal, no precision)
     ddiv            `Decimal / Decimal` (ops/div.rs) BY CONTRACT on exact integer quotients only
     print_ts        tackler-api/src/txn_ts.rs rfc_3339 = jiff strtime "%Y-%m-%dT%H:%M:%S%.f%:z"
     print_geo       tackler-api/src/location.rs `Display for GeoPoint`
     header_lines    tackler-api/src/txn_header.rs TxnHeader::to_string_with_indent (indent = 3 blanks)
     print_posting   tackler-core/src/model/posting.rs `Display for Posting`
     print_txn       tackler-core/src/model/transaction.rs `Display for Transaction`
     print_journal   tackler-core/src/export/identity_exporter.rs (writeln!("{}", txn) per transaction)
   PARSER   (tackler-core/src/parser/parts/*.rs, winnow combinators read as a grammar;
             DESIGN.md Appendix A).  Line oriented: a line ends in \n or \r\n, a lone \r is an error,
             an unterminated last line is an error; transactions are the maximal runs of non-blank lines.
     take_number     number.rs p_number + Decimal::from_str_exact (<= 28 decimals, < 2^96)
     take_ident / take_name   identifier.rs p_identifier / p_multi_part_id
     parse_ts        timestamp.rs (jiff Date::new / Time::new / Offset::from_seconds / to_zoned range checks)
     parse_header_rest   txn_header.rs + txn_header_code.rs + txn_header_desc.rs
     parse_meta_line / parse_meta   txn_metadata.rs + txn_meta_{uuid,location,tags}.rs (+ GeoPoint::from)
     take_comment / parse_comment_line   comment.rs p_comment, txn_comment.rs
     take_value / parse_posting_line / parse_postings   posting_value.rs, txn_posting.rs, txn_postings.rs
     parse_chunk / parse_journal    txn_header.rs, txns.rs
   The parser yields SYNTAX (ptxn: header + raw postings of Accept.v + comments); the semantic layer
   (commodities, prices, implicit posting, zero sum) is Accept.accept_txn; load_journal = both + the
   stable sort of TxnData::from.  The journal zone is a fixed offset (cfg_off); named zones are outside. *)
From TkModel Require Import Base Dec Acct Txn Accept.
Local Open Scope Z_scope.

Definition E_syntax : N := 20%N.

Notation "'do' p <- a ; b" := (match a with Some p => b | None => None end)
  (at level 200, p pattern, a at level 100, b at level 200, only parsing).

Definition is_nil {A} (l : list A) : bool := match l with [] => true | _ => false end.

(* ------------------------------------------------------------------ characters *)
Definition in_rng (lo hi c : N) : bool := (lo <=? c)%N && (c <=? hi)%N.
Definition is_digit (c : N) : bool := in_rng 48 57 c.
Definition is_sp (c : N) : bool := (c =? 32)%N || (c =? 9)%N.            (* winnow space0/space1, AsChar::is_space *)
Definition is_hex (c : N) : bool := is_digit c || in_rng 97 102 c || in_rng 65 70 c.
Definition lower_hex (c : N) : N := if in_rng 65 70 c then (c + 32)%N else c.
(* Rust char::is_whitespace (White_Space) — used by str::trim / trim_end *)
Definition is_ws (c : N) : bool :=
  in_rng 9 13 c || (c =? 32)%N || (c =? 133)%N || (c =? 160)%N || (c =? 5760)%N || in_rng 8192 8202 c
  || (c =? 8232)%N || (c =? 8233)%N || (c =? 8239)%N || (c =? 8287)%N || (c =? 12288)%N.
(* identifier.rs *)
Definition id_start (c : N) : bool :=
  in_rng 97 122 c || in_rng 65 90 c || (c =? 36)%N || in_rng 162 165 c
  || in_rng 192 214 c || in_rng 216 246 c || in_rng 248 767 c || in_rng 880 893 c || in_rng 895 8191 c
  || in_rng 8204 8205 c || in_rng 8304 8591 c || in_rng 11264 12271 c || in_rng 12289 55295 c
  || in_rng 63744 64975 c || in_rng 65008 65533 c
  || (c =? 181)%N || (c =? 185)%N || (c =? 178)%N || (c =? 179)%N || (c =? 176)%N || in_rng 188 190 c.
Definition id_char (c : N) : bool :=
  id_start c || is_digit c || (c =? 95)%N || (c =? 45)%N || (c =? 183)%N || in_rng 768 879 c || in_rng 8255 8256 c.
(* txn_header_code.rs valid_code_char *)
Definition code_char (c : N) : bool :=
  negb ((c =? 41)%N || (c =? 39)%N || (c =? 40)%N || (c =? 91)%N || (c =? 93)%N || (c =? 123)%N
        || (c =? 125)%N || (c =? 60)%N || (c =? 62)%N || (c =? 13)%N || (c =? 10)%N).

(* ------------------------------------------------------------------ small string tools *)
Fixpoint span (p : N -> bool) (s : list N) : list N * list N :=
  match s with
  | c :: s' => if p c then let '(a, r) := span p s' in (c :: a, r) else ([], s)
  | [] => ([], [])
  end.
Fixpoint drop_while (p : N -> bool) (s : list N) : list N :=
  match s with c :: s' => if p c then drop_while p s' else s | [] => [] end.
Definition trim_end (s : list N) : list N := rev (drop_while is_ws (rev s)).
Definition trim (s : list N) : list N := trim_end (drop_while is_ws s).
Fixpoint take_prefix (p s : list N) : option (list N) :=
  match p, s with
  | [], _ => Some s
  | a :: p', b :: s' => if (a =? b)%N then take_prefix p' s' else None
  | _ :: _, [] => None
  end.
Definition take_char (c : N) (s : list N) : option (list N) :=
  match s with x :: r => if (x =? c)%N then Some r else None | [] => None end.
(* pieces between separators; never the empty list *)
Fixpoint split_on (sep : N) (s : list N) : list (list N) :=
  match s with
  | [] => [[]]
  | c :: r => let ps := split_on sep r in
              if (c =? sep)%N then [] :: ps
              else match ps with p :: ps' => (c :: p) :: ps' | [] => [[c]] end
  end.
Fixpoint join_sep (sep : list N) (l : list (list N)) : list N :=
  match l with [] => [] | [x] => x | x :: l' => x ++ sep ++ join_sep sep l' end.

(* decimal digits *)
Fixpoint digs_val (acc : N) (s : list N) : N :=
  match s with [] => acc | c :: r => digs_val (acc * 10 + (c - 48))%N r end.
Fixpoint digits_fuel (fuel : nat) (n : N) (acc : list N) : list N :=
  match fuel with
  | O => acc
  | S f => if (n =? 0)%N then acc else digits_fuel f (n / 10)%N ((48 + n mod 10)%N :: acc)
  end.
(* no leading zeros; 0 has no digits.  The fuel (bit length) always suffices. *)
Definition digits_N (n : N) : list N := digits_fuel (N.to_nat (N.size n)) n [].
Definition pad_left (w : nat) (s : list N) : list N := repeat 48%N (w - length s) ++ s.
Definition pad_num (w : nat) (z : Z) : list N := pad_left w (digits_N (Z.to_N z)).

(* ------------------------------------------------------------------ decimals *)
(* Display for Decimal: sign, digits, '.', exactly `scale` decimals, at least one integer digit *)
Definition print_dec (d : dec) : list N :=
  let sc := N.to_nat (ds d) in
  let dg := pad_left (sc + 1) (digits_N (Z.abs_N (dm d))) in
  let k := (length dg - sc)%nat in
  (if dm d <? 0 then [45%N] else []) ++ firstn k dg ++ (if (sc =? 0)%nat then [] else 46%N :: skipn k dg).

(* p_number + from_str_exact: '-'? D+ ('.' D+)?, at most 28 decimals, mantissa < 2^96;
   the sign of a zero is dropped (constructors normalise -0) *)
Definition take_number_body (neg : bool) (s1 : list N) : option (dec * list N) :=
  let '(ip, s2) := span is_digit s1 in
  if is_nil ip then None else
  let '(fp, s3) := match s2 with
                   | c :: r => if (c =? 46)%N then
                                 let '(f, r') := span is_digit r in if is_nil f then ([], s2) else (f, r')
                               else ([], s2)
                   | [] => ([], s2)
                   end in
  let m := digs_val 0 (ip ++ fp) in
  let sc := N.of_nat (length fp) in
  if (sc <=? 28)%N && (m <? 2 ^ 96)%N
  then Some (mkDec (if neg then - Z.of_N m else Z.of_N m) sc, s3) else None.
Definition take_number (s : list N) : option (dec * list N) :=
  match s with
  | c :: r => if (c =? 45)%N then take_number_body true r else take_number_body false s
  | [] => None
  end.

(* Decimal / Decimal, contract on exact integer quotients:
   zero dividend -> 0 (scale 0); divisor mantissa divides dividend mantissa -> quotient of mantissas
   at scale sa - sb (scaled up to scale 0 when sb > sa).  Everything else (a remainder: the library
   extends the scale, rounds, strips) is outside the model: None. *)
Definition ddiv (a b : dec) : option dec :=
  if dm b =? 0 then None
  else if dm a =? 0 then Some dzero
  else if dm a mod dm b =? 0 then
    let q := dm a / dm b in
    if (ds b <=? ds a)%N then Some (mkDec q (ds a - ds b))
    else let r := mkDec (q * pow10 (ds b - ds a)) 0 in if fits r then Some r else None
  else None.

(* ------------------------------------------------------------------ civil time *)
Definition NS : Z := 1000000000.
Definition DAY_NS : Z := 86400 * NS.
(* proleptic Gregorian day number (1970-01-01 = 0) *)
Definition days_from_civil (y m d : Z) : Z :=
  let y' := if m <=? 2 then y - 1 else y in
  let era := y' / 400 in
  let yoe := y' - era * 400 in
  let mp := if m <=? 2 then m + 9 else m - 3 in
  let doy := (153 * mp + 2) / 5 + d - 1 in
  let doe := yoe * 365 + yoe / 4 - yoe / 100 + doy in
  era * 146097 + doe - 719468.
Definition civil_from_days (z : Z) : Z * Z * Z :=
  let z' := z + 719468 in
  let era := z' / 146097 in
  let doe := z' - era * 146097 in
  let yoe := (doe - doe / 1460 + doe / 36524 - doe / 146096) / 365 in
  let doy := doe - (365 * yoe + yoe / 4 - yoe / 100) in
  let mp := (5 * doy + 2) / 153 in
  let d := doy - (153 * mp + 2) / 5 + 1 in
  let m := if mp <? 10 then mp + 3 else mp - 9 in
  let y := yoe + era * 400 in
  (if m <=? 2 then y + 1 else y, m, d).
Definition is_leap (y : Z) : bool := (y mod 4 =? 0) && (negb (y mod 100 =? 0) || (y mod 400 =? 0)).
Definition days_in_month (y m : Z) : Z :=
  if m =? 2 then (if is_leap y then 29 else 28)
  else if (m =? 4) || (m =? 6) || (m =? 9) || (m =? 11) then 30 else 31.
(* jiff civil::Date::new restricted to what four digits can say *)
Definition valid_date (y m d : Z) : bool :=
  (0 <=? y) && (y <=? 9999) && (1 <=? m) && (m <=? 12) && (1 <=? d) && (d <=? days_in_month y m).

(* jiff Timestamp range (unix seconds) and Offset range *)
Definition min_unix_s : Z := -377705023201.
Definition max_unix_s : Z := 253402207200.
Definition max_off : Z := 93599.
Definition mk_instant (y m d secs_of_day ns off : Z) : option Z :=
  let secs := days_from_civil y m d * 86400 + secs_of_day - off in
  if (min_unix_s <=? secs) && (secs <=? max_unix_s) then Some (secs * NS + ns) else None.

(* "%:z": seconds only when not zero (finding F13: the grammar cannot read them back) *)
Definition print_off (off : Z) : list N :=
  let a := Z.abs off in
  (if off <? 0 then 45%N else 43%N) :: pad_num 2 (a / 3600) ++ 58%N :: pad_num 2 (a / 60 mod 60)
  ++ (if a mod 60 =? 0 then [] else 58%N :: pad_num 2 (a mod 60)).
(* "%.f": nothing when zero, else '.' and the nanoseconds without trailing zeros *)
Definition print_frac (ns : Z) : list N :=
  if ns =? 0 then [] else 46%N :: rev (drop_while (fun c => (c =? 48)%N) (rev (pad_num 9 ns))).
(* rfc_3339 of an instant (ns) shown at its offset (s); years 0..9999 (4 digits) *)
Definition print_ts (inst off : Z) : list N :=
  let loc := inst + off * NS in
  let '(y, m, d) := civil_from_days (loc / DAY_NS) in
  let tod := loc mod DAY_NS in
  let secs := tod / NS in
  pad_num 4 y ++ 45%N :: pad_num 2 m ++ 45%N :: pad_num 2 d ++ 84%N
  :: pad_num 2 (secs / 3600) ++ 58%N :: pad_num 2 (secs / 60 mod 60) ++ 58%N :: pad_num 2 (secs mod 60)
  ++ print_frac (tod mod NS) ++ print_off off.

(* ------------------------------------------------------------------ printers *)
Record jpost : Type := mkJPost { jp_p : posting; jp_comment : option (list N) }.
Record jtxn : Type := mkJTxn { jt_hdr : header; jt_posts : list jpost }.

Definition indent : list N := [32; 32; 32]%N.
Definition kw_uuid : list N := [117; 117; 105; 100; 58]%N.
Definition kw_location : list N := [108; 111; 99; 97; 116; 105; 111; 110; 58]%N.
Definition kw_tags : list N := [116; 97; 103; 115; 58]%N.
Definition kw_geo : list N := [103; 101; 111; 58]%N.

Definition print_geo (g : geo) : list N :=
  kw_geo ++ print_dec (g_lat g) ++ 44%N :: print_dec (g_lon g)
  ++ match g_alt g with Some a => 44%N :: print_dec a | None => [] end.

(* to_string_with_indent, line by line (each line is followed by \n in the output) *)
Definition header_lines (h : header) : list (list N) :=
  (print_ts (h_inst h) (h_off h)
     ++ match h_code h with Some c => [32; 40]%N ++ c ++ [41%N] | None => [] end
     ++ match h_desc h with Some d => [32; 39]%N ++ d | None => [] end)
  :: match h_uuid h with Some u => [indent ++ [35; 32]%N ++ kw_uuid ++ 32%N :: u] | None => [] end
  ++ match h_loc h with Some g => [indent ++ [35; 32]%N ++ kw_location ++ 32%N :: print_geo g] | None => [] end
  ++ match h_tags h with [] => [] | ts => [indent ++ [35; 32]%N ++ kw_tags ++ 32%N :: join_sep [44; 32]%N ts] end
  ++ map (fun c => indent ++ [59; 32]%N ++ c) (h_comments h).

(* Display for Posting.  A unit price whose quotient is outside ddiv's contract prints '?'
   (never equal to the implementation's text; such cases are outside the exact domain). *)
Definition print_posting (jp : jpost) : list N :=
  let p := jp_p jp in
  join_colon (p_acc p) ++ [32; 32]%N ++ (if is_neg (p_amount p) then [] else [32%N]) ++ print_dec (p_amount p)
  ++ (if is_nil (p_comm p) then [] else 32%N :: p_comm p)
  ++ (if is_nil (p_txn_comm p) then []
      else if str_eqb (p_txn_comm p) (p_comm p) then []
      else if p_total p then [32; 61; 32]%N ++ print_dec (p_txn_amount p) ++ 32%N :: p_txn_comm p
      else [32; 64; 32]%N
           ++ match ddiv (p_txn_amount p) (p_amount p) with Some q => print_dec q | None => [63%N] end
           ++ 32%N :: p_txn_comm p)
  ++ match jp_comment jp with Some c => [32; 59; 32]%N ++ c | None => [] end.

Definition txn_lines (t : jtxn) : list (list N) :=
  header_lines (jt_hdr t) ++ map (fun p => indent ++ print_posting p) (jt_posts t).
Definition unlines (ls : list (list N)) : list N := concat (map (fun l => l ++ [10%N]) ls).
Definition print_txn (t : jtxn) : list N := unlines (txn_lines t).
(* identity export: writeln!("{}", txn) — every transaction is followed by an empty line *)
Definition print_journal (ts : list jtxn) : list N := concat (map (fun t => print_txn t ++ [10%N]) ts).

(* ------------------------------------------------------------------ parser: tokens *)
Definition take_ident (s : list N) : option (list N * list N) :=
  match s with c :: _ => if id_start c then Some (span id_char s) else None | [] => None end.

(* p_multi_part_id: id (':' part)*; result = components *)
Definition take_name (s : list N) : option (list (list N) * list N) :=
  let '(tok, r) := span (fun c => id_char c || (c =? 58)%N) s in
  let comps := split_on 58 tok in
  match comps with
  | (c :: _) :: _ => if id_start c && forallb (fun p => negb (is_nil p)) comps then Some (comps, r) else None
  | _ => None
  end.

(* Semantic name rules of lax mode (unknown names are created through these constructors).
   AccountTreeNode::from: the whole name must not begin or end with white space (str::trim), and every
   component, Unicode-trimmed, must pass parser::is_valid_sub_id: not empty, first character none of
   '-' '_' U+00B7 (digits are fine), no white space inside.  U+1680 OGHAM SPACE MARK is an identifier
   character of the grammar AND White_Space, so these rules bite.  A component that is not the last and
   ENDS in white space passes AccountTreeNode::from but its synthetic parent does not
   (AccountTrees::build_account_tree: expect("IE: synthetic parent is invalid") panics); the model
   rejects such names (the check skips panics). *)
Definition comp_sem_ok (lead : bool) (p : list N) : bool :=
  let t := if lead then drop_while is_ws p else p in
  match t with
  | c :: _ => negb ((c =? 45)%N || (c =? 95)%N || (c =? 183)%N) && forallb (fun x => negb (is_ws x)) t
  | [] => false
  end.
Definition acct_sem_ok (comps : list (list N)) : bool :=
  match comps with
  | [] => false
  | c0 :: rest => comp_sem_ok false c0 && forallb (comp_sem_ok true) rest
  end.
(* Commodity::from = parser::is_valid_id: for identifiers of the grammar this leaves "no white space".
   Looked up: the posting's commodity and the closing-price commodity; the commodity of a '{..}'
   opening position is never looked up. *)
Definition comm_sem_ok (s : list N) : bool := forallb (fun x => negb (is_ws x)) s.

Definition take_digits (n : nat) (s : list N) : option (Z * list N) :=
  let a := firstn n s in
  if Nat.eqb (length a) n && forallb is_digit a then Some (Z.of_N (digs_val 0 a), skipn n s) else None.

Definition take_hex (n : nat) (s : list N) : option (list N * list N) :=
  let a := firstn n s in
  if Nat.eqb (length a) n && forallb is_hex a then Some (map lower_hex a, skipn n s) else None.

(* p_comment on the remainder of a line: nothing -> no comment; ";" -> empty comment;
   ";" + one blank/TAB + text -> text (exactly one separator dropped); ";x" -> error *)
Definition take_comment (s : list N) : option (option (list N)) :=
  match s with
  | [] => Some None
  | c :: r => if (c =? 59)%N then
                match r with
                | [] => Some (Some [])
                | x :: r' => if is_sp x then Some (Some r') else None
                end
              else None
  end.

(* ------------------------------------------------------------------ parser: time stamp *)
Record pcfg : Type := mkCfg { cfg_off : Z;          (* journal zone: fixed offset, seconds *)
                              cfg_deftime : Z }.    (* default time of day, nanoseconds *)

Definition parse_zone (cfg : pcfg) (s : list N) : option (Z * list N) :=
  match s with
  | c :: r =>
      if (c =? 90)%N then Some (0, r)
      else if (c =? 43)%N || (c =? 45)%N then
        do (oh, r1) <- take_digits 2 r;
        do r2 <- take_char 58 r1;
        do (om, r3) <- take_digits 2 r2;
        let off := (if (c =? 45)%N then -1 else 1) * (oh * 3600 + om * 60) in
        if Z.abs off <=? max_off then Some (off, r3) else None
      else Some (cfg_off cfg, s)
  | [] => Some (cfg_off cfg, s)
  end.

Definition parse_frac (s : list N) : option (Z * list N) :=
  match take_char 46 s with
  | None => Some (0, s)
  | Some r => let '(f, r') := span is_digit r in
              if Nat.leb 1 (length f) && Nat.leb (length f) 9
              then Some (Z.of_N (digs_val 0 f) * 10 ^ Z.of_nat (9 - length f), r') else None
  end.

(* result: instant (ns), offset (s), rest of the line *)
Definition parse_ts (cfg : pcfg) (s : list N) : option (Z * Z * list N) :=
  do (y, s1) <- take_digits 4 s;
  do s2 <- take_char 45 s1;
  do (mo, s3) <- take_digits 2 s2;
  do s4 <- take_char 45 s3;
  do (d, s5) <- take_digits 2 s4;
  if negb (valid_date y mo d) then None else
  match take_char 84 s5 with
  | None => do i <- mk_instant y mo d (cfg_deftime cfg / NS) (cfg_deftime cfg mod NS) (cfg_off cfg);
            Some (i, cfg_off cfg, s5)
  | Some s6 =>
      do (h, s7) <- take_digits 2 s6;
      do s8 <- take_char 58 s7;
      do (mi, s9) <- take_digits 2 s8;
      do s10 <- take_char 58 s9;
      do (se, s11) <- take_digits 2 s10;
      if negb ((h <=? 23) && (mi <=? 59) && (se <=? 59)) then None else
      do (ns, s12) <- parse_frac s11;
      do (off, s13) <- parse_zone cfg s12;
      do i <- mk_instant y mo d (h * 3600 + mi * 60 + se) ns off;
      Some (i, off, s13)
  end.

(* [(code)] ['description] after the time stamp *)
Definition parse_header_rest (s : list N) : option (option (list N) * option (list N)) :=
  let '(sp, r) := span is_sp s in
  match r with
  | [] => Some (None, None)
  | c :: r' =>
      if is_nil sp then None
      else if (c =? 40)%N then
        let '(code, r2) := span code_char r' in
        do r3 <- take_char 41 r2;
        let '(sp2, r4) := span is_sp r3 in
        match r4 with
        | [] => Some (Some (trim code), None)
        | y :: r5 => if negb (is_nil sp2) && (y =? 39)%N then Some (Some (trim code), Some (trim_end r5)) else None
        end
      else if (c =? 39)%N then Some (None, Some (trim_end r'))
      else None
  end.

(* ------------------------------------------------------------------ parser: metadata *)
Inductive mline : Type := M_uuid (u : list N) | M_loc (g : geo) | M_tags (t : list (list N)).

Definition is_blank (l : list N) : bool := forallb is_sp l.

Definition take_uuid (s : list N) : option (list N * list N) :=
  do (a, s1) <- take_hex 8 s;  do s2 <- take_char 45 s1;
  do (b, s3) <- take_hex 4 s2; do s4 <- take_char 45 s3;
  do (c, s5) <- take_hex 4 s4; do s6 <- take_char 45 s5;
  do (d, s7) <- take_hex 4 s6; do s8 <- take_char 45 s7;
  do (e, s9) <- take_hex 12 s8;
  Some (a ++ 45%N :: b ++ 45%N :: c ++ 45%N :: d ++ 45%N :: e, s9).

Definition geo_ok (lat lon : dec) (alt : option dec) : bool :=
  negb (dltb lat (mkDec (-90) 0) || dltb (mkDec 90 0) lat)
  && negb (dltb lon (mkDec (-180) 0) || dltb (mkDec 180 0) lon)
  && match alt with Some z => negb (dltb z (mkDec (-6378137) 0)) | None => true end.

(* "geo:" sp0 num sp0 ',' sp0 num sp0 (',' sp0 num)? sp0 EOL *)
Definition parse_geo (s : list N) : option geo :=
  do s1 <- take_prefix kw_geo s;
  do (lat, s2) <- take_number (snd (span is_sp s1));
  do s3 <- take_char 44 (snd (span is_sp s2));
  do (lon, s4) <- take_number (snd (span is_sp s3));
  let s5 := snd (span is_sp s4) in
  do (alt, s6) <- match take_char 44 s5 with
                  | Some r => do (a, r') <- take_number (snd (span is_sp r)); Some (Some a, r')
                  | None => Some (None, s5)
                  end;
  if is_blank s6 && geo_ok lat lon alt then Some (mkGeo lat lon alt) else None.

Definition strip_sp (s : list N) : list N := rev (drop_while is_sp (rev (drop_while is_sp s))).

(* name (sp0 ',' sp0 name)* sp0 EOL; duplicates rejected (handle_tags).
   Names contain neither ',' nor blanks, so the payload is cut at the commas and every piece,
   stripped of blanks, must be exactly one name.  (The first name follows "tags:" sp1 directly:
   the caller has consumed the blanks.) *)
Fixpoint tag_names (ps : list (list N)) : option (list (list N)) :=
  match ps with
  | [] => Some []
  | p :: ps' => match take_name p with
                | Some (comps, []) => do r <- tag_names ps'; Some (join_colon comps :: r)
                | _ => None
                end
  end.
Definition parse_tags (s : list N) : option (list (list N)) :=
  do names <- tag_names (map strip_sp (split_on 44 s));
  if Nat.eqb (length (distinct_strs names)) (length names) then Some names else None.

(* None: not a '#' line.  Some None: a '#' line that is not a well-formed metadata line. *)
Definition parse_meta_line (l : list N) : option (option mline) :=
  let '(sp, r) := span is_sp l in
  match r with
  | c :: r1 =>
      if negb (is_nil sp) && (c =? 35)%N then
        Some (
          let '(sp1, r2) := span is_sp r1 in
          if is_nil sp1 then None else
          let payload (kw : list N) : option (list N) :=
            do r3 <- take_prefix kw r2;
            let '(sp2, r4) := span is_sp r3 in if is_nil sp2 then None else Some r4 in
          match take_prefix kw_uuid r2, take_prefix kw_location r2, take_prefix kw_tags r2 with
          | Some _, _, _ => do p <- payload kw_uuid; do (u, r5) <- take_uuid p;
                            if is_blank r5 then Some (M_uuid u) else None
          | None, Some _, _ => do p <- payload kw_location; do g <- parse_geo p; Some (M_loc g)
          | None, None, Some _ => do p <- payload kw_tags; do t <- parse_tags p; Some (M_tags t)
          | None, None, None => None
          end)
      else None
  | [] => None
  end.

(* at most one line of each kind, in any order, before the first comment *)
Fixpoint parse_meta (ls : list (list N)) (u : option (list N)) (g : option geo) (t : option (list (list N)))
  : option (option (list N) * option geo * option (list (list N)) * list (list N)) :=
  match ls with
  | [] => Some (u, g, t, [])
  | l :: r =>
      match parse_meta_line l with
      | None => Some (u, g, t, ls)
      | Some None => None
      | Some (Some (M_uuid v)) => match u with Some _ => None | None => parse_meta r (Some v) g t end
      | Some (Some (M_loc v)) => match g with Some _ => None | None => parse_meta r u (Some v) t end
      | Some (Some (M_tags v)) => match t with Some _ => None | None => parse_meta r u g (Some v) end
      end
  end.

(* None: not a comment line.  Some None: sp1 ';' followed by something else than a blank *)
Definition parse_comment_line (l : list N) : option (option (list N)) :=
  let '(sp, r) := span is_sp l in
  match r with
  | c :: _ => if negb (is_nil sp) && (c =? 59)%N
              then Some (match take_comment r with Some (Some x) => Some x | _ => None end)
              else None
  | [] => None
  end.

Fixpoint parse_comments (ls : list (list N)) : option (list (list N) * list (list N)) :=
  match ls with
  | [] => Some ([], [])
  | l :: r =>
      match parse_comment_line l with
      | None => Some ([], ls)
      | Some None => None
      | Some (Some c) => do (cs, rest) <- parse_comments r; Some (c :: cs, rest)
      end
  end.

(* ------------------------------------------------------------------ parser: postings *)
Definition take_opening (s : list N) : option (option (dec * list N) * list N) :=
  let '(sp, r) := span is_sp s in
  match r with
  | c :: r1 =>
      if negb (is_nil sp) && (c =? 123)%N then
        do (v, r2) <- take_number (snd (span is_sp r1));
        let '(sp2, r3) := span is_sp r2 in
        if is_nil sp2 then None else
        do (cm, r4) <- take_ident r3;
        do r5 <- take_char 125 (snd (span is_sp r4));
        Some (Some (v, cm), r5)
      else Some (None, s)
  | [] => Some (None, s)
  end.

Definition take_closing (s : list N) : option (option (ptype * dec * list N) * list N) :=
  let '(sp, r) := span is_sp s in
  match r with
  | c :: r1 =>
      if negb (is_nil sp) && ((c =? 64)%N || (c =? 61)%N) then
        let '(sp1, r2) := span is_sp r1 in
        if is_nil sp1 then None else
        do (v, r3) <- take_number r2;
        let '(sp2, r4) := span is_sp r3 in
        if is_nil sp2 then None else
        do (cm, r5) <- take_ident r4;
        Some (Some (if (c =? 64)%N then UnitPrice else TotalPrice, v, cm), r5)
      else Some (None, s)
  | [] => Some (None, s)
  end.

(* num (sp1 id position?)? *)
Definition take_value (s : list N) : option (dec * option raw_unit * list N) :=
  do (amt, r) <- take_number s;
  let '(sp, r1) := span is_sp r in
  match (if is_nil sp then None else take_ident r1) with
  | None => Some (amt, None, r)
  | Some (cm, r2) =>
      do (op, r3) <- take_opening r2;
      do (cl, r4) <- take_closing r3;
      Some (amt, Some (mkUnit cm op cl), r4)
  end.

Definition unit_sem_ok (u : option raw_unit) : bool :=
  match u with
  | Some ru => comm_sem_ok (u_comm ru)
               && match u_closing ru with Some (_, _, c) => comm_sem_ok c | None => true end
  | None => true
  end.

Inductive pline : Type :=
| PL_post (rp : raw_post) (c : option (list N))
| PL_last (a : list (list N)) (c : option (list N)).

(* posting: sp1 name sp1 value sp0 comment? EOL;  last: sp1 name sp0 comment? EOL *)
Definition parse_posting_line (l : list N) : option pline :=
  let '(sp, r) := span is_sp l in
  if is_nil sp then None else
  do (acc, r1) <- take_name r;
  if negb (acct_sem_ok acc) then None else
  let '(sp1, r2) := span is_sp r1 in
  match r2 with
  | [] => Some (PL_last acc None)
  | c :: _ =>
      if (c =? 59)%N then do cm <- take_comment r2; Some (PL_last acc cm)
      else if is_nil sp1 then None
      else
        do (amt, u, r3) <- take_value r2;
        if negb (unit_sem_ok u) then None else
        do cm <- take_comment (snd (span is_sp r3));
        Some (PL_post (mkRawPost acc amt u) cm)
  end.

(* posting+ last?  — and nothing else in the transaction *)
Fixpoint parse_postings (ls : list (list N))
  : option (list (raw_post * option (list N)) * option (list (list N) * option (list N))) :=
  match ls with
  | [] => Some ([], None)
  | l :: r =>
      do pl <- parse_posting_line l;
      match pl with
      | PL_post rp c => do (ps, la) <- parse_postings r; Some ((rp, c) :: ps, la)
      | PL_last a c => if is_nil r then Some ([], Some (a, c)) else None
      end
  end.

(* ------------------------------------------------------------------ parser: transaction, journal *)
Record ptxn : Type := mkPTxn {
  pt_hdr : header;
  pt_posts : list (raw_post * option (list N));
  pt_last : option (list (list N) * option (list N)) }.

Definition parse_chunk (cfg : pcfg) (ls : list (list N)) : option ptxn :=
  match ls with
  | [] => None
  | hl :: body =>
      do (inst, off, r) <- parse_ts cfg hl;
      do (code, desc) <- parse_header_rest r;
      do (u, g, t, body1) <- parse_meta body None None None;
      do (cs, body2) <- parse_comments body1;
      do (ps, la) <- parse_postings body2;
      if is_nil ps then None else
      Some (mkPTxn (mkHeader inst off code desc u g (match t with Some x => x | None => [] end) cs) ps la)
  end.

(* terminated lines and the unterminated tail *)
Fixpoint split_lines (s : list N) : list (list N) * list N :=
  match s with
  | [] => ([], [])
  | c :: r => let '(ls, tl) := split_lines r in
              if (c =? 10)%N then ([] :: ls, tl)
              else match ls with
                   | l :: ls' => ((c :: l) :: ls', tl)
                   | [] => ([], c :: tl)
                   end
  end.
Definition strip_cr (l : list N) : list N :=
  match rev l with c :: r => if (c =? 13)%N then rev r else l | [] => l end.

(* maximal runs of non-blank lines *)
Fixpoint chunk_lines (ls : list (list N)) : list (list (list N)) :=
  match ls with
  | [] => [[]]
  | l :: r => let cs := chunk_lines r in
              if is_blank l then [] :: cs
              else match cs with c :: cs' => (l :: c) :: cs' | [] => [[l]] end
  end.
Definition chunks (ls : list (list N)) : list (list (list N)) :=
  filter (fun c => negb (is_nil c)) (chunk_lines ls).

Fixpoint mapO {A B} (f : A -> option B) (l : list A) : option (list B) :=
  match l with
  | [] => Some []
  | x :: l' => do y <- f x; do ys <- mapO f l'; Some (y :: ys)
  end.

Definition parse_journal (cfg : pcfg) (s : list N) : res (list ptxn) :=
  let '(ls0, tl) := split_lines s in
  if negb (is_nil tl) then Err E_syntax else
  let ls := map strip_cr ls0 in
  if existsb (existsb (fun c => (c =? 13)%N)) ls then Err E_syntax else
  match chunks ls with
  | [] => Err E_syntax
  | cs => match mapO (parse_chunk cfg) cs with Some l => Ok l | None => Err E_syntax end
  end.

(* ------------------------------------------------------------------ semantic layer and loading *)
Definition ptxn_raw (pt : ptxn) : raw_txn :=
  mkRawTxn (map fst (pt_posts pt)) (option_map fst (pt_last pt)).
Definition ptxn_comments (pt : ptxn) : list (option (list N)) :=
  map snd (pt_posts pt) ++ match pt_last pt with Some (_, c) => [c] | None => [] end.

Definition accept_ptxn (pt : ptxn) : res jtxn :=
  res_bind (accept_txn (ptxn_raw pt))
    (fun ps => Ok (mkJTxn (pt_hdr pt) (map (fun pc => mkJPost (fst pc) (snd pc)) (combine ps (ptxn_comments pt))))).

Definition jtxn_leb (a b : jtxn) : bool := cmp_leb (header_cmp (jt_hdr a) (jt_hdr b)).

(* string_to_txns: parse, accept, TxnData::from (stable sort by header) *)
Definition load_journal (cfg : pcfg) (s : list N) : res (list jtxn) :=
  res_bind (parse_journal cfg s) (fun pts =>
  res_bind (mapM accept_ptxn pts) (fun ts => Ok (sort_by jtxn_leb ts))).
