(* Base.v — text, ordering, stable sort, small list utilities. Definitions only. *)
From Coq Require Export List ZArith NArith Bool Arith Lia.
Export ListNotations.

(* text: Unicode scalar values (Rust `char`), strings are lists of them *)
Notation cp := N (only parsing).
Notation str := (list N) (only parsing).

Inductive res (A : Type) : Type :=
| Ok (a : A)
| Err (code : N).            (* an error outcome of the implementation, coarse class *)
Arguments Ok {A} a.
Arguments Err {A} code.

Definition res_map {A B} (f : A -> B) (r : res A) : res B :=
  match r with Ok a => Ok (f a) | Err c => Err c end.
Definition res_bind {A B} (r : res A) (f : A -> res B) : res B :=
  match r with Ok a => f a | Err c => Err c end.

Fixpoint mapM {A B} (f : A -> res B) (l : list A) : res (list B) :=
  match l with
  | [] => Ok []
  | x :: l' => match f x with
               | Err c => Err c
               | Ok y => match mapM f l' with Err c => Err c | Ok ys => Ok (y :: ys) end
               end
  end.

(* lexicographic comparison of strings = Rust's byte-wise String::cmp
   (UTF-8 preserves scalar-value order) *)
Fixpoint str_cmp (a b : str) : comparison :=
  match a, b with
  | [], [] => Eq
  | [], _ :: _ => Lt
  | _ :: _, [] => Gt
  | x :: a', y :: b' => match N.compare x y with Eq => str_cmp a' b' | c => c end
  end.

Fixpoint str_eqb (a b : str) : bool :=
  match a, b with
  | [], [] => true
  | x :: a', y :: b' => N.eqb x y && str_eqb a' b'
  | _, _ => false
  end.

Definition cmp_leb (c : comparison) : bool := match c with Gt => false | _ => true end.
Definition cmp_then (c d : comparison) : comparison := match c with Eq => d | _ => c end.

Definition opt_str (o : option str) : str := match o with Some s => s | None => [] end.

(* join with ':' (58) *)
Definition colon : N := 58%N.
Fixpoint join_colon (l : list str) : str :=
  match l with
  | [] => []
  | [x] => x
  | x :: l' => x ++ colon :: join_colon l'
  end.

(* stable insertion sort: equal elements keep their input order *)
Section Sort.
  Context {A : Type} (leb : A -> A -> bool).
  Fixpoint insert_by (x : A) (l : list A) : list A :=
    match l with
    | [] => [x]
    | y :: l' => if leb x y then x :: y :: l' else y :: insert_by x l'
    end.
  Fixpoint sort_by (l : list A) : list A :=
    match l with
    | [] => []
    | x :: l' => insert_by x (sort_by l')
    end.
End Sort.

Fixpoint list_eqb {A} (eqb : A -> A -> bool) (a b : list A) : bool :=
  match a, b with
  | [], [] => true
  | x :: a', y :: b' => eqb x y && list_eqb eqb a' b'
  | _, _ => false
  end.

Definition opt_eqb {A} (eqb : A -> A -> bool) (a b : option A) : bool :=
  match a, b with
  | None, None => true
  | Some x, Some y => eqb x y
  | _, _ => false
  end.

Definition zsum (l : list Z) : Z := fold_right Z.add 0%Z l.

(* first-occurrence de-duplication under a boolean equivalence *)
Fixpoint dedup_by {A} (eqb : A -> A -> bool) (l : list A) : list A :=
  match l with
  | [] => []
  | x :: l' => x :: filter (fun y => negb (eqb x y)) (dedup_by eqb l')
  end.
