(* Output.v — model of the output layer: create_output_file (File::create_new + BufWriter),
   the write sequence of write_txt_reports / write_exports, announcement, drop.
   The operating system is a fault oracle: a destination file can hold at most `limit`
   bytes (RLIMIT_FSIZE / a full disk); a write crossing the limit stores the part that
   fits and fails. Definitions only. *)
From TkModel Require Import Base.

Definition cap : nat := 8192.          (* BufWriter default capacity *)

(* write(2) on the destination *)
Definition fwrite (limit : nat) (file data : list N) : list N * bool :=
  if Nat.leb (length file + length data) limit then (file ++ data, true)
  else (file ++ firstn (limit - length file) data, false).

Record bufw : Type := mkBufw { bw_file : list N; bw_buf : list N }.

Definition bw_flush (limit : nat) (w : bufw) : bufw * bool :=
  let '(f, ok) := fwrite limit (bw_file w) (bw_buf w) in
  (mkBufw f (if ok then [] else bw_buf w), ok).

(* BufWriter::write_all of one chunk *)
Definition bw_write_all (limit : nat) (w : bufw) (data : list N) : bufw * bool :=
  if Nat.leb (length (bw_buf w) + length data) cap
  then (mkBufw (bw_file w) (bw_buf w ++ data), true)
  else
    let '(w1, ok) := bw_flush limit w in
    if negb ok then (w1, false)
    else if Nat.leb cap (length data)
         then let '(f, ok2) := fwrite limit (bw_file w1) data in (mkBufw f [], ok2)
         else (mkBufw (bw_file w1) data, true).

Fixpoint bw_write_chunks (limit : nat) (w : bufw) (chunks : list (list N)) : bufw * bool :=
  match chunks with
  | [] => (w, true)
  | c :: cs => let '(w1, ok) := bw_write_all limit w c in
               if ok then bw_write_chunks limit w1 cs else (w1, false)
  end.

(* one destination: returns what is on disk after the writer is dropped, and whether
   the code saw success. explicit_flush = the `flush()?` before the announcement
   (the code after the repair of F5); without it the last buffer is written in drop,
   whose error is discarded. *)
Definition write_target (explicit_flush : bool) (limit : nat) (chunks : list (list N)) : list N * bool :=
  let '(w, ok) := bw_write_chunks limit (mkBufw [] []) chunks in
  if negb ok then (fst (fwrite limit (bw_file w) (bw_buf w)), false)        (* drop after error *)
  else
    let '(w2, okf) := bw_flush limit w in
    (bw_file w2, if explicit_flush then okf else true).

(* file system: destinations that already exist make create_new fail *)
Record run_result : Type := mkRun {
  rr_ok : bool;                          (* exit status 0 *)
  rr_announced : list nat;               (* indices of announced destinations *)
  rr_disk : list (option (list N)) }.    (* content of each destination afterwards; None = absent *)

Fixpoint run_from (explicit_flush : bool) (limit : nat) (i : nat)
         (targets : list (option (list N) * list (list N)))   (* pre-existing content, chunks *)
  : run_result :=
  match targets with
  | [] => mkRun true [] []
  | (Some old, _) :: rest =>            (* create_new fails: untouched; nothing further is attempted *)
      mkRun false [] (Some old :: map fst rest)
  | (None, chunks) :: rest =>
      let '(disk, ok) := write_target explicit_flush limit chunks in
      if ok then
        let r := run_from explicit_flush limit (S i) rest in
        mkRun (rr_ok r) (i :: rr_announced r) (Some disk :: rr_disk r)
      else mkRun false [] (Some disk :: map fst rest)
  end.

Definition run_targets (explicit_flush : bool) (limit : nat) targets : run_result :=
  run_from explicit_flush limit 0 targets.

(* size-level summary of the repaired code (proved equal to the byte level for every chunking):
   destination i succeeds iff its content fits *)
Fixpoint outcome_from (limit : nat) (i : nat) (sizes : list nat) : bool * list nat * list bool :=
  match sizes with
  | [] => (true, [], [])
  | s :: rest =>
      if Nat.leb s limit then
        let '(ok, ann, comp) := outcome_from limit (S i) rest in (ok, i :: ann, true :: comp)
      else (false, [], false :: map (fun _ => false) rest)
  end.
Definition outcome (limit : nat) (sizes : list nat) := outcome_from limit 0 sizes.
