(* Register.v — model of the register report engine. Definitions only.
   Transcribes
     tackler-core/src/kernel/accumulator.rs   register_engine
     tackler-core/src/model/register.rs       RegisterPosting (Ord), RegisterEntry
     tackler-core/src/report/register_reporter.rs  reg_entry_txt_writer (drops empty entries)
     tackler-core/src/model/txn_data.rs       TxnData::from (stable sort, Txn.sort_txns)
     tackler-api/src/txn_header.rs            TxnHeader::cmp (Txn.header_cmp)
   The per-posting price conversion (PriceLookupCtx::convert_prices) is a parameter;
   without a report commodity it is the identity (conv_id). Conversion itself is C07. *)
From TkModel Require Import Base Dec Acct Txn.

Definition p_key (p : posting) : key := (p_acc p, p_comm p).

(* result of convert_prices for one posting: (converted TxnAccount, converted amount, rate) *)
Notation conv_res := ((list (list N) * list N) * dec * option dec)%type (only parsing).
Notation conv_fn := (header -> posting -> ((list (list N) * list N) * dec * option dec)%type)
                    (only parsing).

(* PriceLookupCtx with in_commodity = None: (p.acctn.clone(), p.amount, None) *)
Definition conv_id (h : header) (p : posting) : conv_res := (p_key p, p_amount p, None).

(* RegisterPosting: the original posting, the running total, target commodity, rate *)
Record rrow : Type := mkRrow {
  rr_post : posting; rr_total : dec; rr_target : list N; rr_rate : option dec }.

(* RegisterEntry *)
Record rentry : Type := mkRentry { re_txn : txn; re_rows : list rrow }.

(* HashMap<TxnAccount, Decimal>: used for lookup/update only, so an association list
   (first match; keys stay unique because an existing key is updated in place) *)
Notation rstate := (list ((list (list N) * list N) * dec)) (only parsing).

Fixpoint st_get (st : rstate) (k : key) : option dec :=
  match st with
  | [] => None
  | (k', v) :: st' => if key_eqb k' k then Some v else st_get st' k
  end.

(* entry(k).and_modify(|v| *v += amt).or_insert(amt); returns the new state and the
   value now stored (the running total) *)
Fixpoint st_upd (st : rstate) (k : key) (amt : dec) : rstate * dec :=
  match st with
  | [] => ([(k, amt)], amt)
  | (k', v) :: st' =>
      if key_eqb k' k then ((k', dadd v amt) :: st', dadd v amt)
      else ((k', v) :: fst (st_upd st' k amt), snd (st_upd st' k amt))
  end.

(* TxnAccount::cmp on the ORIGINAL posting: commodity name, then account string *)
Definition post_leb (a b : posting) : bool := key_leb (p_key a) (p_key b).
(* RegisterPosting::cmp = self.post.acctn.cmp(other.post.acctn) *)
Definition rrow_leb (a b : rrow) : bool := post_leb (rr_post a) (rr_post b).

(* the .map(...) closure of register_engine run over the sorted postings: every posting
   updates the state, selected or not *)
Fixpoint acc_rows (conv : conv_fn) (h : header) (st : rstate) (ps : list posting)
  : rstate * list rrow :=
  match ps with
  | [] => (st, [])
  | p :: ps' =>
      let c := conv h p in
      let k := fst (fst c) in
      let u := st_upd st k (snd (fst c)) in
      let r := acc_rows conv h (fst u) ps' in
      (fst r, mkRrow p (snd u) (snd k) (snd c) :: snd r)
  end.

(* the body of `for txn in txns`: sort postings (stable) by the original TxnAccount,
   accumulate, THEN filter by the account selector, sort the kept rows (stable) *)
Definition reg_txn (conv : conv_fn) (sel : rrow -> bool) (st : rstate) (t : txn)
  : rstate * rentry :=
  let r := acc_rows conv (t_hdr t) st (sort_by post_leb (t_posts t)) in
  (fst r, mkRentry t (sort_by rrow_leb (filter sel (snd r)))).

(* register_engine: what the reporter callback sees, entry by entry (empty ones included),
   and the final accumulator *)
Fixpoint reg_engine (conv : conv_fn) (sel : rrow -> bool) (st : rstate) (ts : list txn)
  : rstate * list rentry :=
  match ts with
  | [] => (st, [])
  | t :: ts' =>
      let r := reg_txn conv sel st t in
      let r' := reg_engine conv sel (fst r) ts' in
      (fst r', snd r :: snd r')
  end.

(* RegisterAllSelector / RegisterByAccountSelector restricted to literal account names
   (whole-name match; regular expressions are C11) *)
Definition sel_all (r : rrow) : bool := true.
Definition sel_names (names : list (list (list N))) (r : rrow) : bool :=
  match names with
  | [] => true
  | _ => existsb (acct_eqb (p_acc (rr_post r))) names
  end.

(* the whole pipeline: journal in input order -> TxnData::from -> register_engine *)
Definition register (conv : conv_fn) (sel : rrow -> bool) (input : list txn) : list rentry :=
  snd (reg_engine conv sel [] (sort_txns input)).
Definition register_final (conv : conv_fn) (sel : rrow -> bool) (input : list txn) : rstate :=
  fst (reg_engine conv sel [] (sort_txns input)).

(* reg_entry_txt_writer: `if !re.posts.is_empty()` *)
Definition drop_empty (es : list rentry) : list rentry :=
  filter (fun e => match re_rows e with [] => false | _ => true end) es.
Definition register_text_entries (conv : conv_fn) (sel : rrow -> bool) (input : list txn)
  : list rentry := drop_empty (register conv sel input).
