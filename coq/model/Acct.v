(* Acct.v — account names as component lists; keys (account, commodity). Definitions only. *)
From TkModel Require Import Base.

Notation acct := (list (list N)) (only parsing).          (* non-empty components *)
Notation key := (list (list N) * list N)%type (only parsing). (* account, commodity name *)

Definition acct_eqb (a b : acct) : bool := list_eqb str_eqb a b.
(* AccountTreeNode.parent: all components but the last *)
Definition parent (a : acct) : acct := removelast a.
Definition depth (a : acct) : nat := length a.
Definition acct_str (a : acct) : str := join_colon a.

Definition key_eqb (k1 k2 : key) : bool := acct_eqb (fst k1) (fst k2) && str_eqb (snd k1) (snd k2).
(* TxnAccount::cmp: commodity name, then the account *string* *)
Definition key_cmp (k1 k2 : key) : comparison :=
  cmp_then (str_cmp (snd k1) (snd k2)) (str_cmp (acct_str (fst k1)) (acct_str (fst k2))).
Definition key_leb (k1 k2 : key) : bool := cmp_leb (key_cmp k1 k2).

(* TxnAccount::is_parent_of *)
Definition is_parent_of (p c : key) : bool :=
  acct_eqb (fst p) (parent (fst c)) && str_eqb (snd p) (snd c).

Definition is_prefix (a b : acct) : bool := acct_eqb (firstn (length a) b) a.
