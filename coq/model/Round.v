(* Round.v — how report figures are turned into text.
   Model of  Scale::get_precision, Scale::format, Scale::with_decimals
                                                       (tackler-core/src/config/items.rs),
   used by the three formatting sites of BalanceReporter::txt_report
   (report/balance_reporter.rs) and by amount_to_string in RegisterEntry::fmt_with_cfg
   (model/register.rs), and of the rust_decimal 1.37.1 operations they use, by contract
   (as read in the library source and measured through the harness):
     Decimal::round_dp_with_strategy(k, MidpointAwayFromZero)      -> dround_hafz
     Decimal::to_string() (Display without precision)              -> dfmt
   Also kept, for the value-level correspondence only (tackler does not call it any more):
     Display with a precision  (format!("{:.prec$}", d))           -> dfmt_prec
   Definitions only.

   The sign of zero is not modelled (Dec.v): a figure that rounds to zero is +0 in the
   library (from_parts normalises) and prints without '-'. *)
From TkModel Require Import Base Dec Acct Balance.
Local Open Scope Z_scope.

(* [report] scale = { min = .., max = .. }; Scale::from guarantees min <= max <= 28 *)
Record scale_cfg : Type := mkScale { sc_min : N; sc_max : N }.
Definition scale_wf (sc : scale_cfg) : Prop := (sc_min sc <= sc_max sc)%N /\ (sc_max sc <= 28)%N.

(* Scale::get_precision: cmp::max(cmp::min(d.scale(), self.max), self.min) *)
Definition precision (sc : scale_cfg) (d : dec) : N :=
  N.max (N.min (ds d) (sc_max sc)) (sc_min sc).

(* round_dp_with_strategy(k, MidpointAwayFromZero):
   - stored scale <= k: the value is returned unchanged (same mantissa, same scale);
   - otherwise the magnitude is divided by 10^(scale-k) (truncating), the dropped part is
     compared with cap = 5 * 10^(scale-k-1), one is added to the quotient when it is >= cap,
     and the result is rebuilt with the sign of the input at scale k. *)
Definition dround_hafz (d : dec) (k : N) : dec :=
  if (ds d <=? k)%N then d
  else
    let diff := (ds d - k)%N in
    let a := Z.abs (dm d) in
    let q := a / pow10 diff in
    let dropped := a - q * pow10 diff in
    let cap := 5 * pow10 (diff - 1) in
    let q' := match dropped ?= cap with Lt => q | _ => q + 1 end in
    mkDec (if dm d <? 0 then - q' else q') k.

(* --- digits --- *)
Definition digit (n : Z) : N := (48 + Z.to_N n)%N.          (* '0' + n, for 0 <= n <= 9 *)
Definition ch_minus : N := 45%N.
Definition ch_dot : N := 46%N.

(* exactly k digits of n (n mod 10^k), most significant first *)
Fixpoint fixed_digits (n : Z) (k : nat) : str :=
  match k with
  | O => []
  | S k' => fixed_digits (n / 10) k' ++ [digit (n mod 10)]
  end.

(* decimal digits of n >= 0 without leading zeros, "0" for zero; fuel = upper bound of the length *)
Fixpoint int_digits (fuel : nat) (n : Z) : str :=
  match fuel with
  | O => []
  | S f => (if n <? 10 then [] else int_digits f (n / 10)) ++ [digit (n mod 10)]
  end.
Definition nat_digits (n : Z) : str := int_digits (S (Z.to_nat (Z.log2 n))) n.

(* The library's text of a decimal with p decimals: sign, integer part, and - when p > 0 -
   '.' followed by exactly p decimals: the stored decimals TRUNCATED to p, or padded with
   zeros. No rounding happens here. (str.rs to_str_internal + Formatter::pad_integral.) *)
Definition dfmt_int (d : dec) : str := nat_digits (Z.abs (dm d) / pow10 (ds d)).

Definition dfmt_raw (d : dec) (p : N) : str :=
  let a := Z.abs (dm d) in
  let s := ds d in
  let fp := a mod pow10 s in
  let frac := fp * pow10 (p - s) / pow10 (s - p) in     (* one of the two factors is 1 *)
  (if dm d <? 0 then [ch_minus] else [])
  ++ dfmt_int d
  ++ (if (p =? 0)%N then [] else ch_dot :: fixed_digits frac (N.to_nat p)).

(* Decimal::to_string / Display without precision: all stored decimals, no '.' at scale 0.
   At most 29 digits and a point: never longer than the library's 32-character buffer. *)
Definition dfmt (d : dec) : str := dfmt_raw d (ds d).

(* Display WITH a precision, format!("{:.p$}", d): the same text built in an
   ArrayString<MAX_STR_BUFFER_SIZE = 32> (integer digits, '.', decimals; not the sign); a
   push beyond the capacity PANICS (str.rs:64, CapacityError) = None. This was how the
   reports printed until finding F18 was repaired; only the value-level correspondence
   uses it now. *)
Definition fmt_capacity : nat := 32.
Definition dfmt_room (d : dec) (p : N) : bool :=
  (length (dfmt_int d) + (if (p =? 0)%N then 0 else 1 + N.to_nat p) <=? fmt_capacity)%nat.
Definition dfmt_prec (d : dec) (p : N) : option str :=
  if dfmt_room d p then Some (dfmt_raw d p) else None.

(* Scale::with_decimals(d, prec) — d has at most prec decimals:
     let mut txt = d.to_string();
     if scale < prec { if scale == 0 { txt.push('.') }; txt.push_str(&"0".repeat(prec - scale)) } *)
Definition with_decimals (d : dec) (prec : N) : str :=
  let txt := dfmt d in
  if (ds d <? prec)%N
  then txt ++ (if (ds d =? 0)%N then [ch_dot] else []) ++ repeat 48%N (N.to_nat (prec - ds d))
  else txt.

(* --- what a report shows for the figure d: Scale::format ---
   let prec = self.get_precision(d);
   let rounded = d.round_dp_with_strategy(prec as u32, MidpointAwayFromZero);
   Self::with_decimals(&rounded, prec) *)
Definition shown_dec (sc : scale_cfg) (d : dec) : dec := dround_hafz d (precision sc d).
Definition shown (sc : scale_cfg) (d : dec) : dec * N := (shown_dec sc d, precision sc d).
Definition shown_text (sc : scale_cfg) (d : dec) : str :=
  with_decimals (shown_dec sc d) (precision sc d).

(* --- the amount columns of the text reports (widths, rulers, titles are not modelled) --- *)
(* balance / balance-group row: account sum, account tree sum, commodity, account *)
Record bal_text_row : Type := mkBalTextRow {
  bt_own : str; bt_tree : str; bt_comm : str; bt_acc : acct }.

Definition bal_text_rows (sc : scale_cfg) (rows : list brow) : list bal_text_row :=
  map (fun r => mkBalTextRow (shown_text sc (r_own r)) (shown_text sc (r_tree r)) (r_comm r) (r_acc r)) rows.

(* delta lines, sorted by commodity name (sorted_by_key, stable) *)
Definition bal_text_deltas (sc : scale_cfg) (deltas : list (str * dec)) : list (str * str) :=
  map (fun cd => (shown_text sc (snd cd), fst cd))
      (sort_by (fun a b => cmp_leb (str_cmp (fst a) (fst b))) deltas).

Definition bal_text (sc : scale_cfg) (rep : bal_report) : list bal_text_row * list (str * str) :=
  (bal_text_rows sc (b_rows rep), bal_text_deltas sc (b_deltas rep)).

(* register row: posting amount and running total, each through amount_to_string *)
Definition reg_text_row (sc : scale_cfg) (amount total : dec) : str * str :=
  (shown_text sc amount, shown_text sc total).
