(* Accept.v — model of the semantic layer of the journal parser:
   handle_posting_value, handle_posting / Posting::from, parse_txn_postings
   (implicit last posting), parse_txn (single commodity), Transaction::from (zero sum).
   Lax mode (every name acceptable); strict-mode charts are layered on in Charts.v.
   Definitions only. *)
From TkModel Require Import Base Dec Acct Txn.

Inductive ptype : Type := UnitPrice | TotalPrice.

Record raw_unit : Type := mkUnit {
  u_comm : str;
  u_opening : option (dec * list N);
  u_closing : option (ptype * dec * list N) }.

Record raw_post : Type := mkRawPost { rp_acc : acct; rp_amount : dec; rp_unit : option raw_unit }.
Record raw_txn : Type := mkRawTxn { rt_posts : list raw_post; rt_last : option (list (list N)) }.

(* error classes (coarse) *)
Definition E_same_comm : N := 1%N.
Definition E_neg_opening : N := 2%N.
Definition E_total_sign : N := 3%N.
Definition E_neg_unit : N := 4%N.
Definition E_zero : N := 5%N.
Definition E_commodities : N := 6%N.
Definition E_unbalanced : N := 7%N.
Definition E_empty : N := 8%N.

(* handle_posting_value *)
Definition value_position (amount : dec) (ou : option raw_unit)
  : res (list N * list N * dec * bool) :=       (* post commodity, txn commodity, txn amount, is_total *)
  match ou with
  | None => Ok ([], [], amount, false)
  | Some u =>
      let pc := u_comm u in
      let has_pos := match u_opening u, u_closing u with None, None => false | _, _ => true end in
      (* transaction commodity *)
      let tc : res (list N) :=
        if has_pos then
          match u_closing u with
          | Some (_, _, c) => if str_eqb pc c then Err E_same_comm else Ok c
          | None => Ok pc     (* opening position only: the posting's own commodity *)
          end
        else Ok pc in
      res_bind tc (fun tc =>
        let open_neg := match u_opening u with Some (v, _) => is_neg v | None => false end in
        if open_neg then Err E_neg_opening
        else
          match u_closing u with
          | Some (TotalPrice, v, _) =>
              if (is_neg v && negb (is_neg amount)) || (is_neg amount && negb (is_neg v))
              then Err E_total_sign else Ok (pc, tc, v, true)
          | Some (UnitPrice, v, _) =>
              if is_neg v then Err E_neg_unit else Ok (pc, tc, dmul amount v, false)
          | None => Ok (pc, tc, amount, false)
          end)
  end.

(* Posting::from *)
Definition mk_posting (a : acct) (pc : list N) (amount txn_amount : dec) (total : bool) (tc : list N)
  : res posting :=
  if is_zero amount then Err E_zero else Ok (mkPosting a pc amount txn_amount total tc).

Definition accept_posting (rp : raw_post) : res posting :=
  res_bind (value_position (rp_amount rp) (rp_unit rp))
    (fun '(pc, tc, ta, tot) => mk_posting (rp_acc rp) pc (rp_amount rp) ta tot tc).

Definition txn_sum (ps : list posting) : dec := dsum (map p_txn_amount ps).

Fixpoint distinct_strs (l : list (list N)) : list (list N) :=
  match l with
  | [] => []
  | x :: l' => x :: filter (fun y => negb (str_eqb x y)) (distinct_strs l')
  end.

(* parse_txn_postings + parse_txn + Transaction::from *)
Definition accept_txn (rt : raw_txn) : res (list posting) :=
  match rt_posts rt with
  | [] => Err E_empty
  | _ =>
    res_bind (mapM accept_posting (rt_posts rt)) (fun ps =>
      let with_last : res (list posting) :=
        match rt_last rt with
        | None => Ok ps
        | Some a =>
            let amount := dneg (txn_sum ps) in
            let comm := match ps with p :: _ => p_txn_comm p | [] => [] end in
            res_bind (mk_posting a comm amount amount false comm) (fun lp => Ok (ps ++ [lp]))
        end in
      res_bind with_last (fun ps =>
        if Nat.ltb 1 (length (distinct_strs (map p_txn_comm ps))) then Err E_commodities
        else if is_zero (txn_sum ps) then Ok ps else Err E_unbalanced))
  end.

(* a journal is accepted as a whole or not at all *)
Definition accept_journal (j : list raw_txn) : res (list (list posting)) := mapM accept_txn j.
