(* Codec.v — model of the filter-definition codec (C18). Definitions only.
   Transcribes
     tackler-rs/src/regex.rs                 into_full_haystack_pattern, peel_full_haystack_pattern
     tackler-rs/src/regex/serde/full_haystack_matcher.rs   (deserialize wraps, serialize peels)
     tackler-api/src/filters/filter_definition.rs          from_json_str, is_armored, from_armor
     tackler-api/src/filters.rs + filters/**               serde shapes (derive(Serialize, Deserialize),
                                                           externally tagged enum, no deny_unknown_fields)
                                                           and the IndentDisplay text
   Libraries modelled by contract (text level, as read in their sources / observed):
     base64 0.22 general_purpose::STANDARD (canonical padding required, trailing bits rejected),
     core::str::from_utf8, rust_decimal 1.37.1 from_str / from_scientific / Display,
     uuid 1.16 parse_str / hyphenated Display, jiff 0.2.5 Timestamp parse (a defined sub-grammar) / Display.
   JSON text <-> tree (serde_json) and regex validity (Regex::new(text).is_ok(), regex crate) are parameters.
   The filter AST `cfilter` is local to this file: TkModel.Filter.tfilter carries regex *ids* and
   uuid text, the codec needs the pattern text and the parsed values. *)
From TkModel Require Import Base Dec.
Local Open Scope Z_scope.

(* ------------------------------------------------------------------ strings *)
Fixpoint strip_prefix (p s : list N) : option (list N) :=
  match p, s with
  | [], _ => Some s
  | x :: p', y :: s' => if N.eqb x y then strip_prefix p' s' else None
  | _ :: _, [] => None
  end.
Definition starts_with (p s : list N) : bool :=
  match strip_prefix p s with Some _ => true | None => false end.
Definition strip_suffix (p s : list N) : option (list N) :=
  option_map (@rev N) (strip_prefix (rev p) (rev s)).

(* "^(?:" and ")$" *)
Definition wrap_pre : list N := [94; 40; 63; 58]%N.
Definition wrap_suf : list N := [41; 36]%N.
(* into_full_haystack_pattern: format!("^(?:{})$", re) *)
Definition wrap_s (p : list N) : list N := wrap_pre ++ p ++ wrap_suf.
(* peel_full_haystack_pattern:
     match re.strip_prefix("^(?:") { Some(c) => c.strip_suffix(")$").unwrap_or(re), None => re } *)
Definition peel_s (re : list N) : list N :=
  match strip_prefix wrap_pre re with
  | Some c => match strip_suffix wrap_suf c with Some x => x | None => re end
  | None => re
  end.
Definition is_wrapped (re : list N) : bool :=
  match strip_prefix wrap_pre re with
  | Some c => match strip_suffix wrap_suf c with Some _ => true | None => false end
  | None => false
  end.

(* ------------------------------------------------------------------ base64 (STANDARD) *)
Local Open Scope N_scope.
Definition b64_char (v : N) : N :=
  if v <? 26 then v + 65 else if v <? 52 then v + 71 else if v <? 62 then v - 4
  else if v =? 62 then 43 else 47.
Definition b64_val (c : N) : option N :=
  if (65 <=? c) && (c <=? 90) then Some (c - 65)
  else if (97 <=? c) && (c <=? 122) then Some (c - 71)
  else if (48 <=? c) && (c <=? 57) then Some (c + 4)
  else if c =? 43 then Some 62 else if c =? 47 then Some 63 else None.
Definition b64_pad : N := 61.

Fixpoint b64_enc (bs : list N) : list N :=
  match bs with
  | [] => []
  | [a] => [b64_char (a / 4); b64_char ((a mod 4) * 16); b64_pad; b64_pad]
  | [a; b] => [b64_char (a / 4); b64_char ((a mod 4) * 16 + b / 16); b64_char ((b mod 16) * 4); b64_pad]
  | a :: b :: c :: r =>
      b64_char (a / 4) :: b64_char ((a mod 4) * 16 + b / 16)
      :: b64_char ((b mod 16) * 4 + c / 64) :: b64_char (c mod 64) :: b64_enc r
  end.

Definition b64_quad (c1 c2 c3 c4 : N) : option (list N) :=
  match b64_val c1, b64_val c2, b64_val c3, b64_val c4 with
  | Some v1, Some v2, Some v3, Some v4 =>
      Some [v1 * 4 + v2 / 16; (v2 mod 16) * 16 + v3 / 4; (v3 mod 4) * 64 + v4]
  | _, _, _, _ => None
  end.
(* the last quantum may be padded; padding must be canonical and the unused bits zero *)
Definition b64_last (c1 c2 c3 c4 : N) : option (list N) :=
  if c4 =? b64_pad then
    if c3 =? b64_pad then
      match b64_val c1, b64_val c2 with
      | Some v1, Some v2 => if v2 mod 16 =? 0 then Some [v1 * 4 + v2 / 16] else None
      | _, _ => None
      end
    else
      match b64_val c1, b64_val c2, b64_val c3 with
      | Some v1, Some v2, Some v3 =>
          if v3 mod 4 =? 0 then Some [v1 * 4 + v2 / 16; (v2 mod 16) * 16 + v3 / 4] else None
      | _, _, _ => None
      end
  else b64_quad c1 c2 c3 c4.
Fixpoint b64_dec (s : list N) : option (list N) :=
  match s with
  | [] => Some []
  | c1 :: c2 :: c3 :: c4 :: r =>
      match r with
      | [] => b64_last c1 c2 c3 c4
      | _ :: _ => match b64_quad c1 c2 c3 c4, b64_dec r with
                  | Some x, Some y => Some (x ++ y)
                  | _, _ => None
                  end
      end
  | _ => None
  end.

(* ------------------------------------------------------------------ UTF-8 *)
Definition is_scalar (c : N) : bool := (c <? 1114112) && negb ((55296 <=? c) && (c <? 57344)).
Definition utf8_enc1 (c : N) : list N :=
  if c <? 128 then [c]
  else if c <? 2048 then [192 + c / 64; 128 + c mod 64]
  else if c <? 65536 then [224 + c / 4096; 128 + (c / 64) mod 64; 128 + c mod 64]
  else [240 + c / 262144; 128 + (c / 4096) mod 64; 128 + (c / 64) mod 64; 128 + c mod 64].
Definition utf8_enc (s : list N) : list N := flat_map utf8_enc1 s.
Definition is_cont (b : N) : bool := (128 <=? b) && (b <? 192).
(* core::str::from_utf8: strict (no overlong forms, no surrogates, <= U+10FFFF, no truncation) *)
Fixpoint utf8_dec (bs : list N) : option (list N) :=
  match bs with
  | [] => Some []
  | b1 :: r =>
      if b1 <? 128 then option_map (cons b1) (utf8_dec r)
      else if (194 <=? b1) && (b1 <? 224) then
        match r with
        | b2 :: r2 => if is_cont b2
                      then option_map (cons ((b1 - 192) * 64 + (b2 - 128))) (utf8_dec r2) else None
        | _ => None
        end
      else if (224 <=? b1) && (b1 <? 240) then
        match r with
        | b2 :: b3 :: r3 =>
            let c := (b1 - 224) * 4096 + (b2 - 128) * 64 + (b3 - 128) in
            if is_cont b2 && is_cont b3 && (2048 <=? c) && is_scalar c
            then option_map (cons c) (utf8_dec r3) else None
        | _ => None
        end
      else if (240 <=? b1) && (b1 <? 245) then
        match r with
        | b2 :: b3 :: b4 :: r4 =>
            let c := (b1 - 240) * 262144 + (b2 - 128) * 4096 + (b3 - 128) * 64 + (b4 - 128) in
            if is_cont b2 && is_cont b3 && is_cont b4 && (65536 <=? c) && is_scalar c
            then option_map (cons c) (utf8_dec r4) else None
        | _ => None
        end
      else None
  end.

(* ------------------------------------------------------------------ numerals *)
Definition is_digit (c : N) : bool := (48 <=? c) && (c <=? 57).
Fixpoint val_digits (acc : N) (s : list N) : N :=
  match s with [] => acc | c :: r => val_digits (acc * 10 + (c - 48)) r end.
(* fixed width, most significant first *)
Fixpoint show_fixed (w : nat) (n : N) : list N :=
  match w with O => [] | S w' => show_fixed w' (n / 10) ++ [48 + n mod 10] end.
(* shortest form (Rust `{}` of an unsigned integer) *)
Fixpoint digs_rev (fuel : nat) (n : N) : list N :=
  match fuel with
  | O => []
  | S f => (48 + n mod 10) :: (if n / 10 =? 0 then [] else digs_rev f (n / 10))
  end.
Definition show_N (n : N) : list N := rev (digs_rev (S (N.to_nat (N.log2 n))) n).
(* longest prefix of ASCII digits *)
Fixpoint span_digits (s : list N) : list N * list N :=
  match s with
  | c :: r => if is_digit c then let (a, b) := span_digits r in (c :: a, b) else ([], s)
  | [] => ([], [])
  end.
(* exactly w digits *)
Definition take_digits (w : nat) (s : list N) : option (N * list N) :=
  let a := firstn w s in
  if Nat.eqb (length a) w && forallb is_digit a then Some (val_digits 0 a, skipn w s) else None.

(* ------------------------------------------------------------------ Decimal text *)
(* <Decimal as Display>::fmt / to_str_internal(value, true, None): sign, digits, point placed
   `scale` digits from the right, zero-filled to at least one integer digit *)
Definition dec_show (d : dec) : list N :=
  let m := Z.abs_N (dm d) in
  let s := N.to_nat (ds d) in
  let g := show_N m in
  let g' := repeat 48 (S s - length g) ++ g in
  let body := if (ds d =? 0) then g'
              else firstn (length g' - s) g' ++ 46 :: skipn (length g' - s) g' in
  if (dm d <? 0)%Z then 45 :: body else body.

(* parse_str_radix_10 (Decimal::from_str) as a scanner: FIRST, NEG, HAS, POINT, mantissa, scale *)
Fixpoint dec_scan (first neg has point : bool) (m sc : N) (s : list N) : option (bool * N * N) :=
  match s with
  | [] => if has then Some (neg, m, sc) else None
  | c :: r =>
      if is_digit c then dec_scan false neg true point (m * 10 + (c - 48)) (if point then sc + 1 else 0) r
      else if (c =? 46) && negb point then dec_scan false neg has true m sc r
      else if (c =? 45) && first && negb has then dec_scan false true false false m sc r
      else if (c =? 43) && first && negb has then dec_scan false false false false m sc r
      else if (c =? 95) && has then dec_scan false neg true point m sc r
      else None
  end.
Definition mk_sdec (neg : bool) (m sc : N) : dec :=
  mkDec (if neg then (- Z.of_N m)%Z else Z.of_N m) sc.
Definition dec_from_str (s : list N) : option dec :=
  match dec_scan true false false false 0 0 s with
  | Some (neg, m, sc) => Some (mk_sdec neg m sc)
  | None => None
  end.

(* u32::from_str: optional '+', at least one digit, value < 2^32 *)
Definition parse_u32 (s : list N) : option N :=
  let t := match s with c :: r => if c =? 43 then r else s | [] => s end in
  match t with
  | [] => None
  | _ => if forallb is_digit t then let v := val_digits 0 t in if v <? 4294967296 then Some v else None
         else None
  end.
(* splitn(2, ['e','E']) *)
Fixpoint split_e (s : list N) : list N * option (list N) :=
  match s with
  | [] => ([], None)
  | c :: r => if (c =? 101) || (c =? 69) then ([], Some r)
              else let (a, b) := split_e r in (c :: a, b)
  end.
(* Decimal::normalize_assign on (mantissa, scale) *)
Fixpoint normalize_f (fuel : nat) (m sc : N) : N * N :=
  match fuel with
  | O => (m, sc)
  | S f => if (sc =? 0) || negb (m mod 10 =? 0) then (m, sc) else normalize_f f (m / 10) (sc - 1)
  end.
Definition normalize (m sc : N) : N * N :=
  if m =? 0 then (0, 0) else normalize_f (N.to_nat sc) m sc.
(* Decimal::from_scientific *)
Definition dec_from_scientific (s : list N) : option dec :=
  match split_e s with
  | (base, Some ex) =>
      match dec_scan true false false false 0 0 base with
      | None => None
      | Some (neg, m, sc) =>
          let positive :=
              match parse_u32 ex with
              | Some e => if e <=? sc then (if 28 <? sc - e then None else Some (mk_sdec neg m (sc - e)))
                          else if 28 <? e then None
                          else let (m', sc') := normalize (m * 10 ^ e) sc in Some (mk_sdec neg m' sc')
              | None => None
              end in
          match ex with
          | c :: ex' =>
              if c =? 45 then
                match parse_u32 ex' with
                | Some e => if 28 <? e then None
                            else if 28 <? sc + e then None else Some (mk_sdec neg m (sc + e))
                | None => None
                end
              else positive
          | [] => positive
          end
      end
  | (_, None) => None
  end.
(* DecimalVisitor::visit_str / DecimalFromString: from_str(v).or_else(|_| from_scientific(v)) *)
Definition dec_parse (s : list N) : option dec :=
  match dec_from_str s with Some d => Some d | None => dec_from_scientific s end.

(* where the library computes exactly what the scanner above computes: 96-bit mantissa, scale <= 28
   (beyond that it rounds or reports overflow), separators only on the short path *)
Definition dec_text_exact (s : list N) : bool :=
  let chk (m sc : N) := (m <? 2 ^ 96) && (sc <=? 28) in
  let sep_ok (t : list N) := negb (existsb (N.eqb 95) t) || (N.of_nat (length t) <? 18) in
  match dec_scan true false false false 0 0 s with
  | Some (_, m, sc) => chk m sc && sep_ok s
  | None =>
      match split_e s with
      | (base, Some ex) =>
          match dec_scan true false false false 0 0 base with
          | Some (_, m, sc) =>
              chk m sc && sep_ok base &&
              (if match ex with c :: _ => c =? 45 | [] => false end then true
               else match parse_u32 ex with
                    | Some e => (e <=? sc) || (28 <? e) || (m * 10 ^ e <? 2 ^ 96)
                    | None => true
                    end)
          | None => true
          end
      | (_, None) => true
      end
  end.

(* ------------------------------------------------------------------ UUID text *)
(* a Uuid is carried as its 32 nibbles *)
Definition hex_char (v : N) : N := if v <? 10 then 48 + v else 87 + v.     (* lower case *)
Definition hex_val (c : N) : option N :=
  if (48 <=? c) && (c <=? 57) then Some (c - 48)
  else if (97 <=? c) && (c <=? 102) then Some (c - 87)
  else if (65 <=? c) && (c <=? 70) then Some (c - 55) else None.
Fixpoint hex_vals (s : list N) : option (list N) :=
  match s with
  | [] => Some []
  | c :: r => match hex_val c, hex_vals r with Some v, Some vs => Some (v :: vs) | _, _ => None end
  end.
Definition hyphen : N := 45.
(* Uuid Display / Serialize (human readable): hyphenated lower case 8-4-4-4-12 *)
Definition uuid_show (u : list N) : list N :=
  let h := map hex_char u in
  firstn 8 h ++ hyphen :: firstn 4 (skipn 8 h) ++ hyphen :: firstn 4 (skipn 12 h) ++ hyphen
  :: firstn 4 (skipn 16 h) ++ hyphen :: skipn 20 h.
Definition uuid_parse_simple (s : list N) : option (list N) :=
  if Nat.eqb (length s) 32 then hex_vals s else None.
Definition uuid_parse_hyphenated (s : list N) : option (list N) :=
  if Nat.eqb (length s) 36
     && (nth 8 s 0 =? hyphen) && (nth 13 s 0 =? hyphen) && (nth 18 s 0 =? hyphen) && (nth 23 s 0 =? hyphen)
  then hex_vals (firstn 8 s ++ firstn 4 (skipn 9 s) ++ firstn 4 (skipn 14 s)
                 ++ firstn 4 (skipn 19 s) ++ skipn 24 s)
  else None.
Definition urn_prefix : list N := [117; 114; 110; 58; 117; 117; 105; 100; 58].   (* "urn:uuid:" *)
(* uuid::parser::try_parse: by length 32 / 36 / 38 {..} / 45 urn:uuid: *)
Definition uuid_parse (s : list N) : option (list N) :=
  match length s with
  | 32%nat => uuid_parse_simple s
  | 36%nat => uuid_parse_hyphenated s
  | 38%nat => match s with
              | c :: r => if c =? 123 then match strip_suffix [125] r with
                                          | Some x => uuid_parse_hyphenated x | None => None end
                          else None
              | [] => None
              end
  | 45%nat => match strip_prefix urn_prefix s with
              | Some x => uuid_parse_hyphenated x | None => None end
  | _ => None
  end.

(* ------------------------------------------------------------------ time stamps *)
Local Open Scope Z_scope.
(* proleptic Gregorian calendar, day 0 = 1970-01-01 *)
Definition cd_civil_of_days (z : Z) : Z * Z * Z :=
  let z0 := z + 719468 in
  let era := z0 / 146097 in
  let doe := z0 mod 146097 in
  let yoe := (doe - doe / 1460 + doe / 36524 - doe / 146096) / 365 in
  let doy := doe - (365 * yoe + yoe / 4 - yoe / 100) in
  let mp := (5 * doy + 2) / 153 in
  let d := doy - (153 * mp + 2) / 5 + 1 in
  let m := if mp <? 10 then mp + 3 else mp - 9 in
  let y := yoe + era * 400 in
  ((if m <=? 2 then y + 1 else y), m, d).
Definition cd_days_of_civil (y m d : Z) : Z :=
  let y0 := if m <=? 2 then y - 1 else y in
  let era := y0 / 400 in
  let yoe := y0 mod 400 in
  let mp := if m <=? 2 then m + 9 else m - 3 in
  let doy := (153 * mp + 2) / 5 + d - 1 in
  let doe := yoe * 365 + yoe / 4 - yoe / 100 + doy in
  era * 146097 + doe - 719468.
Definition cd_is_leap (y : Z) : bool :=
  (y mod 4 =? 0) && (negb (y mod 100 =? 0) || (y mod 400 =? 0)).
Definition cd_days_in_month (y m : Z) : Z :=
  if m =? 2 then (if cd_is_leap y then 29 else 28)
  else if (m =? 4) || (m =? 6) || (m =? 9) || (m =? 11) then 30 else 31.

Definition ns_per_s : Z := 1000000000.
(* jiff Timestamp::MIN / MAX (seconds): -9999-01-02T01:59:59Z .. 9999-12-30T22:00:00Z *)
Definition ts_min_s : Z := -377705023201.
Definition ts_max_s : Z := 253402207200.
Definition ts_in_range (z : Z) : bool := (ts_min_s <=? z / ns_per_s) && (z / ns_per_s <=? ts_max_s).

(* fraction: no digits for 0, otherwise the nine digits without trailing zeros *)
Fixpoint show_frac (w : nat) (n : N) : list N :=
  match w with
  | O => []
  | S w' => if (n mod 10 =? 0)%N then show_frac w' (n / 10)%N else show_fixed (S w') n
  end.
Definition colon_c : N := 58%N.
Record civil_ts : Type := mkCivil { c_y : Z; c_m : Z; c_d : Z; c_hh : Z; c_mi : Z; c_ss : Z; c_ns : Z }.
Definition ts_civil (z : Z) : civil_ts :=
  let secs := z / ns_per_s in
  let days := secs / 86400 in
  let sod := secs mod 86400 in
  let '(y, m, d) := cd_civil_of_days days in
  mkCivil y m d (sod / 3600) ((sod / 60) mod 60) (sod mod 60) (z mod ns_per_s).
(* "%Y-%m-%dT%H:%M:%S%.f" of the UTC civil time (years 0..9999 print as four digits; a negative year
   prints as '-' and six digits, which the parser below does not read back) *)
Definition show_year (y : Z) : list N :=
  if y <? 0 then 45%N :: show_fixed 6 (Z.to_N (- y)) else show_fixed 4 (Z.to_N y).
Definition ts_show_civil (c : civil_ts) : list N :=
  show_year (c_y c) ++ hyphen :: show_fixed 2 (Z.to_N (c_m c)) ++ hyphen :: show_fixed 2 (Z.to_N (c_d c))
  ++ 84%N :: show_fixed 2 (Z.to_N (c_hh c)) ++ colon_c :: show_fixed 2 (Z.to_N (c_mi c))
  ++ colon_c :: show_fixed 2 (Z.to_N (c_ss c))
  ++ (if c_ns c =? 0 then [] else 46%N :: show_frac 9 (Z.to_N (c_ns c))).
(* <Timestamp as Display> / Serialize: UTC, 'Z' *)
Definition ts_show (z : Z) : list N := ts_show_civil (ts_civil z) ++ [90%N].
(* txn_ts::rfc_3339(&ts.to_zoned(UTC)): "%Y-%m-%dT%H:%M:%S%.f%:z" *)
Definition ts_show_rfc3339_utc (z : Z) : list N :=
  ts_show_civil (ts_civil z) ++ [43; 48; 48; 58; 48; 48]%N.

(* the modelled sub-grammar of jiff's timestamp parser:
     YYYY-MM-DD ('T'|'t'|' ') HH:MM:SS [('.'|',') 1..9 digits] [ 'Z' | 'z' | ('+'|'-') HH [:MM [:SS]] ]
   lexical phase (field values unchecked), then validation *)
Record ts_fields : Type := mkTsF {
  f_y : N; f_m : N; f_d : N; f_hh : N; f_mi : N; f_ss : N; f_ns : N;
  f_off : option (bool * N * N * N) }.            (* negative?, hours, minutes, seconds *)

Definition opt_bind {A B} (o : option A) (f : A -> option B) : option B :=
  match o with Some a => f a | None => None end.
Definition expect (c : N) (s : list N) : option (list N) :=
  match s with x :: r => if N.eqb x c then Some r else None | [] => None end.

Definition ts_lex_offset (s : list N) : option (option (bool * N * N * N)) :=
  match s with
  | [] => Some None
  | [c] => if (c =? 90)%N || (c =? 122)%N then Some (Some (false, 0, 0, 0)%N) else None
  | c :: r =>
      if (c =? 43)%N || (c =? 45)%N then
        let ng := (c =? 45)%N in
        opt_bind (take_digits 2 r) (fun '(h, r1) =>
          match r1 with
          | [] => Some (Some (ng, h, 0, 0)%N)
          | _ => opt_bind (expect colon_c r1) (fun r2 =>
                 opt_bind (take_digits 2 r2) (fun '(mi, r3) =>
                   match r3 with
                   | [] => Some (Some (ng, h, mi, 0%N))
                   | _ => opt_bind (expect colon_c r3) (fun r4 =>
                          opt_bind (take_digits 2 r4) (fun '(ss, r5) =>
                            match r5 with [] => Some (Some (ng, h, mi, ss)) | _ => None end))
                   end))
          end)
      else None
  end.
Definition ts_lex (s : list N) : option ts_fields :=
  opt_bind (take_digits 4 s) (fun '(y, s1) =>
  opt_bind (expect hyphen s1) (fun s2 =>
  opt_bind (take_digits 2 s2) (fun '(m, s3) =>
  opt_bind (expect hyphen s3) (fun s4 =>
  opt_bind (take_digits 2 s4) (fun '(d, s5) =>
  match s5 with
  | sep :: s6 =>
    if (sep =? 84)%N || (sep =? 116)%N || (sep =? 32)%N then
      opt_bind (take_digits 2 s6) (fun '(hh, s7) =>
      opt_bind (expect colon_c s7) (fun s8 =>
      opt_bind (take_digits 2 s8) (fun '(mi, s9) =>
      opt_bind (expect colon_c s9) (fun s10 =>
      opt_bind (take_digits 2 s10) (fun '(ss, s11) =>
      let frac :=
        match s11 with
        | c :: r => if (c =? 46)%N || (c =? 44)%N then
                      let (a, b) := span_digits r in
                      if Nat.eqb (length a) 0 || Nat.ltb 9 (length a) then None
                      else Some ((val_digits 0 a * 10 ^ (9 - N.of_nat (length a)))%N, b)
                    else Some (0%N, s11)
        | [] => Some (0%N, s11)
        end in
      opt_bind frac (fun '(ns, s12) =>
      opt_bind (ts_lex_offset s12) (fun off =>
      Some (mkTsF y m d hh mi ss ns off))))))))
    else None
  | [] => None
  end))))).

Definition ts_validate (f : ts_fields) : option Z :=
  let y := Z.of_N (f_y f) in let m := Z.of_N (f_m f) in let d := Z.of_N (f_d f) in
  if (1 <=? m) && (m <=? 12) && (1 <=? d) && (d <=? cd_days_in_month y m)
     && (f_hh f <=? 23)%N && (f_mi f <=? 59)%N && (f_ss f <=? 60)%N
     && (f_ns f <? 1000000000)%N          (* always true after ts_lex: at most nine fraction digits *)
  then
    match f_off f with
    | None => None                                   (* an offset is required for an instant *)
    | Some (ng, oh, om, os) =>
        if (oh <=? 25)%N && (om <=? 59)%N && (os <=? 59)%N then
          let o := Z.of_N (oh * 3600 + om * 60 + os) in
          let o := if ng then - o else o in
          (* a leap second is accepted and read as :59 *)
          let ss := if (f_ss f =? 60)%N then 59 else Z.of_N (f_ss f) in
          let secs := cd_days_of_civil y m d * 86400 + Z.of_N (f_hh f) * 3600 + Z.of_N (f_mi f) * 60 + ss - o in
          if (ts_min_s <=? secs) && (secs <=? ts_max_s) then Some (secs * ns_per_s + Z.of_N (f_ns f)) else None
        else None
    end
  else None.
Definition ts_parse (s : list N) : option Z := opt_bind (ts_lex s) ts_validate.
(* what the sub-grammar decides: its lexical shape, or anything shorter than the shortest time stamp *)
Definition ts_text_dom (s : list N) : bool :=
  match ts_lex s with Some _ => true | None => Nat.ltb (length s) 12 end.

(* ------------------------------------------------------------------ JSON tree and filter AST *)
Inductive jv : Type :=
| JNull
| JBool (b : bool)
| JNum (text : list N)          (* serde_json arbitrary_precision: the number's own text *)
| JStr (s : list N)
| JArr (l : list jv)
| JObj (kvs : list (list N * jv)).

Inductive cfilter : Type :=
| CTrue | CFalse
| CAnd (fs : list cfilter) | COr (fs : list cfilter) | CNot (f : cfilter)
| CTsBegin (b : Z) | CTsEnd (e : Z)
| CCode (r : list N) | CDesc (r : list N)          (* r = Regex::as_str(): the wrapped pattern *)
| CUuid (u : list N)
| CBBox (south west north east : dec)
| CBBoxAlt (south west depth north east height : dec)
| CTags (r : list N) | CComments (r : list N)
| CPAccount (r : list N) | CPComment (r : list N)
| CPAmountEq (r : list N) (a : dec) | CPAmountLt (r : list N) (a : dec) | CPAmountGt (r : list N) (a : dec)
| CPCommodity (r : list N).

(* key / variant names *)
Definition k_txnFilter : list N := [116;120;110;70;105;108;116;101;114]%N.
Definition k_txnFilters : list N := k_txnFilter ++ [115]%N.
Definition k_regex : list N := [114;101;103;101;120]%N.
Definition k_amount : list N := [97;109;111;117;110;116]%N.
Definition k_begin : list N := [98;101;103;105;110]%N.
Definition k_end : list N := [101;110;100]%N.
Definition k_uuid : list N := [117;117;105;100]%N.
Definition k_south : list N := [115;111;117;116;104]%N.
Definition k_west : list N := [119;101;115;116]%N.
Definition k_north : list N := [110;111;114;116;104]%N.
Definition k_east : list N := [101;97;115;116]%N.
Definition k_depth : list N := [100;101;112;116;104]%N.
Definition k_height : list N := [104;101;105;103;104;116]%N.
Definition k_number_token : list N :=        (* "$serde_json::private::Number" *)
  [36;115;101;114;100;101;95;106;115;111;110;58;58;112;114;105;118;97;116;101;58;58;78;117;109;98;101;114]%N.
Definition p_TxnFilter : list N := [84;120;110;70;105;108;116;101;114]%N.      (* "TxnFilter" *)
Definition v_NullaryTRUE : list N := [78;117;108;108;97;114;121;84;82;85;69]%N.
Definition v_NullaryFALSE : list N := [78;117;108;108;97;114;121;70;65;76;83;69]%N.
Definition v_AND : list N := p_TxnFilter ++ [65;78;68]%N.
Definition v_OR : list N := p_TxnFilter ++ [79;82]%N.
Definition v_NOT : list N := p_TxnFilter ++ [78;79;84]%N.
Definition v_TxnTSBegin : list N := p_TxnFilter ++ [84;120;110;84;83;66;101;103;105;110]%N.
Definition v_TxnTSEnd : list N := p_TxnFilter ++ [84;120;110;84;83;69;110;100]%N.
Definition v_TxnCode : list N := p_TxnFilter ++ [84;120;110;67;111;100;101]%N.
Definition v_TxnDescription : list N := p_TxnFilter ++ [84;120;110;68;101;115;99;114;105;112;116;105;111;110]%N.
Definition v_TxnUUID : list N := p_TxnFilter ++ [84;120;110;85;85;73;68]%N.
Definition v_BBoxLatLon : list N := p_TxnFilter ++ [66;66;111;120;76;97;116;76;111;110]%N.
Definition v_BBoxLatLonAlt : list N := v_BBoxLatLon ++ [65;108;116]%N.
Definition v_TxnTags : list N := p_TxnFilter ++ [84;120;110;84;97;103;115]%N.
Definition v_TxnComments : list N := p_TxnFilter ++ [84;120;110;67;111;109;109;101;110;116;115]%N.
Definition p_Posting : list N := p_TxnFilter ++ [80;111;115;116;105;110;103]%N.
Definition v_PostingAccount : list N := p_Posting ++ [65;99;99;111;117;110;116]%N.
Definition v_PostingComment : list N := p_Posting ++ [67;111;109;109;101;110;116]%N.
Definition v_PostingAmountEqual : list N := p_Posting ++ [65;109;111;117;110;116;69;113;117;97;108]%N.
Definition v_PostingAmountLess : list N := p_Posting ++ [65;109;111;117;110;116;76;101;115;115]%N.
Definition v_PostingAmountGreater : list N := p_Posting ++ [65;109;111;117;110;116;71;114;101;97;116;101;114]%N.
Definition v_PostingCommodity : list N := p_Posting ++ [67;111;109;109;111;100;105;116;121]%N.

(* ---- Serialize ---- *)
Definition j_variant (tag : list N) (fields : list (list N * jv)) : jv := JObj [(tag, JObj fields)].
Definition j_regex (r : list N) : jv := JStr (peel_s r).            (* Serde<&Regex>: peeled_pattern *)
Definition j_dec_str (d : dec) : jv := JStr (dec_show d).           (* impl Serialize for Decimal *)
Definition j_dec_num (d : dec) : jv := JNum (dec_show d).           (* arbitrary_precision::serialize *)
Fixpoint to_jv (f : cfilter) : jv :=
  match f with
  | CTrue => j_variant v_NullaryTRUE []
  | CFalse => j_variant v_NullaryFALSE []
  | CAnd fs => j_variant v_AND [(k_txnFilters, JArr (map to_jv fs))]
  | COr fs => j_variant v_OR [(k_txnFilters, JArr (map to_jv fs))]
  | CNot g => j_variant v_NOT [(k_txnFilter, to_jv g)]
  | CTsBegin b => j_variant v_TxnTSBegin [(k_begin, JStr (ts_show b))]
  | CTsEnd e => j_variant v_TxnTSEnd [(k_end, JStr (ts_show e))]
  | CCode r => j_variant v_TxnCode [(k_regex, j_regex r)]
  | CDesc r => j_variant v_TxnDescription [(k_regex, j_regex r)]
  | CUuid u => j_variant v_TxnUUID [(k_uuid, JStr (uuid_show u))]
  | CBBox s w n e =>
      j_variant v_BBoxLatLon [(k_south, j_dec_str s); (k_west, j_dec_str w); (k_north, j_dec_str n); (k_east, j_dec_str e)]
  | CBBoxAlt s w d n e h =>
      j_variant v_BBoxLatLonAlt [(k_south, j_dec_str s); (k_west, j_dec_str w); (k_depth, j_dec_str d);
                                 (k_north, j_dec_str n); (k_east, j_dec_str e); (k_height, j_dec_str h)]
  | CTags r => j_variant v_TxnTags [(k_regex, j_regex r)]
  | CComments r => j_variant v_TxnComments [(k_regex, j_regex r)]
  | CPAccount r => j_variant v_PostingAccount [(k_regex, j_regex r)]
  | CPComment r => j_variant v_PostingComment [(k_regex, j_regex r)]
  | CPAmountEq r a => j_variant v_PostingAmountEqual [(k_regex, j_regex r); (k_amount, j_dec_num a)]
  | CPAmountLt r a => j_variant v_PostingAmountLess [(k_regex, j_regex r); (k_amount, j_dec_num a)]
  | CPAmountGt r a => j_variant v_PostingAmountGreater [(k_regex, j_regex r); (k_amount, j_dec_num a)]
  | CPCommodity r => j_variant v_PostingCommodity [(k_regex, j_regex r)]
  end.
(* FilterDefinition { #[serde(rename = "txnFilter")] txn_filter } *)
Definition def_to_jv (f : cfilter) : jv := JObj [(k_txnFilter, to_jv f)].

(* ---- Deserialize ---- *)
Fixpoint has_key (k : list N) (kvs : list (list N * jv)) : bool :=
  match kvs with [] => false | (k', _) :: r => str_eqb k k' || has_key k r end.
(* one named field of a derived struct read from a JSON object: the first occurrence is
   deserialised, a second occurrence is `duplicate field`, absence is `missing field`;
   other keys are skipped (no deny_unknown_fields) *)
Definition get_field {A} (f : jv -> option A) (k : list N) : list (list N * jv) -> option A :=
  fix go (kvs : list (list N * jv)) : option A :=
    match kvs with
    | [] => None
    | (k', v) :: r => if str_eqb k k' then (if has_key k r then None else f v) else go r
    end.
Definition map_opt {A B} (f : A -> option B) : list A -> option (list B) :=
  fix go (l : list A) : option (list B) :=
    match l with
    | [] => Some []
    | x :: r => match f x, go r with Some y, Some ys => Some (y :: ys) | _, _ => None end
    end.

Section Deser.
  (* Regex::new(text).is_ok() *)
  Variable rx_ok : list N -> bool.

  (* full_haystack_matcher::deserialize: a JSON string; new_full_haystack_regex compiles the pattern
     on its own first (`Regex::new(re)?`, since commit f40ad68; before, only the wrapped text was
     compiled: finding F15, first half) and then as ^(?:re)$ *)
  Definition de_regex (j : jv) : option (list N) :=
    match j with
    | JStr p => if rx_ok p && rx_ok (wrap_s p) then Some (wrap_s p) else None
    | _ => None
    end.
  (* Decimal: deserialize_any(DecimalVisitor): a string, a number (its text), or the private
     one-entry map serde_json uses for arbitrary-precision numbers *)
  Definition de_dec (j : jv) : option dec :=
    match j with
    | JStr s => dec_parse s
    | JNum s => dec_parse s
    | JObj [(k, JStr s)] => if str_eqb k k_number_token then dec_parse s else None
    | _ => None
    end.
  Definition de_ts (j : jv) : option Z := match j with JStr s => ts_parse s | _ => None end.
  Definition de_uuid (j : jv) : option (list N) := match j with JStr s => uuid_parse s | _ => None end.

  (* a derived struct: from an object by field name, or from an array by position (visit_seq;
     surplus elements are `trailing characters`) *)
  Definition de_struct1 {A} (k : list N) (f : jv -> option A) (body : jv) : option A :=
    match body with
    | JObj kvs => get_field f k kvs
    | JArr [x] => f x
    | _ => None
    end.
  Definition de_struct0 (body : jv) : option unit :=
    match body with JObj _ => Some tt | JArr [] => Some tt | _ => None end.
  Definition de_regex_amount (body : jv) : option (list N * dec) :=
    match body with
    | JObj kvs => match get_field de_regex k_regex kvs, get_field de_dec k_amount kvs with
                  | Some r, Some a => Some (r, a) | _, _ => None end
    | JArr [x; y] => match de_regex x, de_dec y with Some r, Some a => Some (r, a) | _, _ => None end
    | _ => None
    end.
  Definition de_decs (ks : list (list N)) (body : jv) : option (list dec) :=
    match body with
    | JObj kvs => map_opt (fun k => get_field de_dec k kvs) ks
    | JArr l => if Nat.eqb (length l) (length ks) then map_opt de_dec l else None
    | _ => None
    end.

  (* enum TxnFilter, externally tagged: an object with exactly one entry *)
  Fixpoint of_jv (j : jv) : option cfilter :=
    match j with
    | JObj [(tag, body)] =>
        if str_eqb tag v_NullaryTRUE then option_map (fun _ => CTrue) (de_struct0 body)
        else if str_eqb tag v_NullaryFALSE then option_map (fun _ => CFalse) (de_struct0 body)
        else if str_eqb tag v_AND then
          option_map CAnd
            match body with
            | JObj kvs => get_field (fun x => match x with JArr l => map_opt of_jv l | _ => None end) k_txnFilters kvs
            | JArr [JArr l] => map_opt of_jv l
            | _ => None
            end
        else if str_eqb tag v_OR then
          option_map COr
            match body with
            | JObj kvs => get_field (fun x => match x with JArr l => map_opt of_jv l | _ => None end) k_txnFilters kvs
            | JArr [JArr l] => map_opt of_jv l
            | _ => None
            end
        else if str_eqb tag v_NOT then
          option_map CNot
            match body with
            | JObj kvs => get_field of_jv k_txnFilter kvs
            | JArr [x] => of_jv x
            | _ => None
            end
        else if str_eqb tag v_TxnTSBegin then option_map CTsBegin (de_struct1 k_begin de_ts body)
        else if str_eqb tag v_TxnTSEnd then option_map CTsEnd (de_struct1 k_end de_ts body)
        else if str_eqb tag v_TxnCode then option_map CCode (de_struct1 k_regex de_regex body)
        else if str_eqb tag v_TxnDescription then option_map CDesc (de_struct1 k_regex de_regex body)
        else if str_eqb tag v_TxnUUID then option_map CUuid (de_struct1 k_uuid de_uuid body)
        else if str_eqb tag v_BBoxLatLon then
          match de_decs [k_south; k_west; k_north; k_east] body with
          | Some [s; w; n; e] => Some (CBBox s w n e) | _ => None end
        else if str_eqb tag v_BBoxLatLonAlt then
          match de_decs [k_south; k_west; k_depth; k_north; k_east; k_height] body with
          | Some [s; w; d; n; e; h] => Some (CBBoxAlt s w d n e h) | _ => None end
        else if str_eqb tag v_TxnTags then option_map CTags (de_struct1 k_regex de_regex body)
        else if str_eqb tag v_TxnComments then option_map CComments (de_struct1 k_regex de_regex body)
        else if str_eqb tag v_PostingAccount then option_map CPAccount (de_struct1 k_regex de_regex body)
        else if str_eqb tag v_PostingComment then option_map CPComment (de_struct1 k_regex de_regex body)
        else if str_eqb tag v_PostingAmountEqual then option_map (fun '(r, a) => CPAmountEq r a) (de_regex_amount body)
        else if str_eqb tag v_PostingAmountLess then option_map (fun '(r, a) => CPAmountLt r a) (de_regex_amount body)
        else if str_eqb tag v_PostingAmountGreater then option_map (fun '(r, a) => CPAmountGt r a) (de_regex_amount body)
        else if str_eqb tag v_PostingCommodity then option_map CPCommodity (de_struct1 k_regex de_regex body)
        else None
    | _ => None
    end.

  (* struct FilterDefinition *)
  Definition def_of_jv (j : jv) : option cfilter :=
    match j with
    | JObj kvs => get_field of_jv k_txnFilter kvs
    | JArr [x] => of_jv x
    | _ => None
    end.

  (* ---- armor ---- *)
  (* serde_json::from_str::<Value-like>: text -> tree *)
  Variable json_parse : list N -> option jv.

  (* FilterDefinition::from_json_str *)
  Definition from_json_str (s : list N) : option cfilter := opt_bind (json_parse s) def_of_jv.
  Definition armor_tag : list N := [98; 97; 115; 101; 54; 52; 58]%N.      (* "base64:" *)
  (* FilterDefinition::is_armored *)
  Definition is_armored (s : list N) : bool := starts_with armor_tag s.
  (* the bytes handed to from_utf8: is_armored, strip_prefix(FILTER_ARMOR).unwrap_or(s) (exactly one
     prefix since commit 4ca1b54; before: trim_start_matches, finding F14), STANDARD.decode *)
  Definition armor_payload (s : list N) : option (list N) :=
    if is_armored s
    then b64_dec (match strip_prefix armor_tag s with Some r => r | None => s end)
    else None.
  (* FilterDefinition::from_armor *)
  Definition from_armor (s : list N) : option cfilter :=
    opt_bind (armor_payload s) (fun bytes => opt_bind (utf8_dec bytes) from_json_str).
  (* what tackler's CLI does with --api-filter-def *)
  Definition from_any (s : list N) : option cfilter :=
    if is_armored s then from_armor s else from_json_str s.
End Deser.

(* ------------------------------------------------------------------ Display (FilterDefZoned, UTC) *)
Definition nl : N := 10%N.
Definition quote : N := 34%N.
Definition ind2 (indent : list N) : list N := indent ++ [32; 32]%N.
Definition line (indent text : list N) : list N := indent ++ text ++ [nl].
Definition quoted (s : list N) : list N := quote :: s ++ [quote].
(* posting_filter_indent_fmt *)
Definition describe_amount (indent : list N) (r : list N) (op : list N) (a : dec) : list N :=
  line indent [80;111;115;116;105;110;103;32;65;109;111;117;110;116]%N                     (* "Posting Amount" *)
  ++ line (ind2 indent) ([97;99;99;111;117;110;116;58;32]%N ++ quoted (peel_s r))            (* account: "re" *)
  ++ line (ind2 indent) ([97;109;111;117;110;116;32]%N ++ op ++ 32%N :: dec_show a).          (* amount op a *)
Definition geo_c : list N := [103;101;111;58]%N.                                             (* "geo:" *)
Definition comma : N := 44%N.
Fixpoint describe (indent : list N) (f : cfilter) : list N :=
  match f with
  | CTrue => line indent [65;108;108;32;112;97;115;115]%N
  | CFalse => line indent [78;111;110;101;32;112;97;115;115]%N
  | CAnd fs => line indent [65;78;68]%N ++ concat (map (describe (ind2 indent)) fs)
  | COr fs => line indent [79;82]%N ++ concat (map (describe (ind2 indent)) fs)
  | CNot g => line indent [78;79;84]%N ++ describe (ind2 indent) g
  | CTsBegin b => line indent ([84;120;110;32;84;83;58;32;98;101;103;105;110;32]%N ++ ts_show_rfc3339_utc b)
  | CTsEnd e => line indent ([84;120;110;32;84;83;58;32;101;110;100;32;32;32]%N ++ ts_show_rfc3339_utc e)
  | CCode r => line indent ([84;120;110;32;67;111;100;101;58;32]%N ++ quoted (peel_s r))
  | CDesc r => line indent ([84;120;110;32;68;101;115;99;114;105;112;116;105;111;110;58;32]%N ++ quoted (peel_s r))
  | CUuid u => line indent ([84;120;110;32;85;85;73;68;58;32]%N ++ uuid_show u)
  | CBBox s w n e =>
      line indent [84;120;110;32;66;111;117;110;100;105;110;103;32;66;111;120;32;50;68]%N
      ++ line (ind2 indent) ([78;111;114;116;104;44;32;69;97;115;116;58;32]%N ++ geo_c ++ dec_show n ++ comma :: dec_show e)
      ++ line (ind2 indent) ([83;111;117;116;104;44;32;87;101;115;116;58;32]%N ++ geo_c ++ dec_show s ++ comma :: dec_show w)
  | CBBoxAlt s w d n e h =>
      line indent [84;120;110;32;66;111;117;110;100;105;110;103;32;66;111;120;32;51;68]%N
      ++ line (ind2 indent) ([78;111;114;116;104;44;32;69;97;115;116;44;32;72;101;105;103;104;116;58;32]%N
                             ++ geo_c ++ dec_show n ++ comma :: dec_show e ++ comma :: dec_show h)
      ++ line (ind2 indent) ([83;111;117;116;104;44;32;87;101;115;116;44;32;68;101;112;116;104;58;32;32]%N
                             ++ geo_c ++ dec_show s ++ comma :: dec_show w ++ comma :: dec_show d)
  | CTags r => line indent ([84;120;110;32;84;97;103;115;58;32]%N ++ quoted (peel_s r))
  | CComments r => line indent ([84;120;110;32;67;111;109;109;101;110;116;115;58;32]%N ++ quoted (peel_s r))
  | CPAccount r => line indent ([80;111;115;116;105;110;103;32;65;99;99;111;117;110;116;58;32]%N ++ quoted (peel_s r))
  | CPComment r => line indent ([80;111;115;116;105;110;103;32;67;111;109;109;101;110;116;58;32]%N ++ quoted (peel_s r))
  | CPAmountEq r a => describe_amount indent r [61;61]%N a
  | CPAmountLt r a => describe_amount indent r [60]%N a
  | CPAmountGt r a => describe_amount indent r [62]%N a
  | CPCommodity r => line indent ([80;111;115;116;105;110;103;32;67;111;109;109;111;100;105;116;121;58;32]%N ++ quoted (peel_s r))
  end.
(* impl Display for FilterDefZoned: "Filter\n" then the tree at indent "  " *)
Definition describe_def (f : cfilter) : list N :=
  [70;105;108;116;101;114;10]%N ++ describe [32;32]%N f.
