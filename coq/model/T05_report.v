(* T05_report.v — the three text reports UNDER PRICE CONVERSION: the existing models composed
   the way the reporters compose the code.  Definitions only.
     report/register_reporter.rs      write_txt_report: make_ctx, then accumulator::register_engine
                                      fed by PriceLookupCtx::convert_prices(txn).zip(&txn.posts)
     report/balance_reporter.rs       write_txt_report: make_ctx, Balance::from(.., &ctx, ..)
     report/balance_group_reporter.rs write_txt_report: make_ctx, accumulator::balance_groups
     model/register.rs                fmt_with_cfg: filler_width of the configured lookup
   Price.make_ctx / convert_post (C07), Register.reg_engine (C03), Balance.balance_report (C02),
   Group.balance_groups (C13), Round.shown_text (C17), ReportText (T01).
   Rounding happens in ReportText only (Scale::format inside the line formatting): the engines
   multiply (convert_post: dmul) and add (st_upd / account_sums: dadd) unrounded decimals. *)
From TkModel Require Import Base Dec Acct Txn Balance Register Round Price Time Group ReportText.
Local Open Scope Z_scope.

(* PriceLookupCtx::convert_prices, one posting of a transaction with header h *)
Definition ctx_conv (ctx : pctx) (h : header) (p : posting) : conv :=
  match c_target ctx with
  | Some tgt => convert_post (c_cache ctx) tgt (h_inst h) p
  | None => unconverted p
  end.

(* what register_engine receives for the posting: (TxnAccount, amount, rate) *)
Definition reg_conv (ctx : pctx) (h : header) (p : posting)
  : (list (list N) * list N) * dec * option dec :=
  let c := ctx_conv ctx h p in ((cv_acc c, cv_comm c), cv_amount c, cv_rate c).

(* what Balance::balance receives for a transaction *)
Definition conv_bpost (c : conv) : bpost := mkBpost (cv_acc c) (cv_comm c) (cv_amount c).
Definition bal_conv (ctx : pctx) (t : txn) : list bpost := map conv_bpost (convert_prices ctx t).

(* fmt_with_cfg: filler_width, from the configured lookup (also without report commodity) *)
Definition filler_width (lk : lookup) : nat :=
  match lk with LkTxnTime => 20 | LkLastPrice => 8 | LkGivenTime _ => 8 | LkNone => 0 end%nat.

(* the context of a report: make_ctx over the transaction set in TxnData order *)
Definition report_ctx (lk : lookup) (rc : option (list N)) (db : list pentry) (input : list txn) : pctx :=
  make_ctx lk (sort_txns input) rc db.

(* account selectors restricted to literal account names (regular expressions: C11) *)
Definition bal_sel_names (names : list (list (list N))) (r : brow) : bool :=
  match names with
  | [] => true
  | _ => existsb (acct_eqb (r_acc r)) names
  end.

(* ---------------------------------------------------------------- register *)
Definition conv_register (lk : lookup) (rc : option (list N)) (db : list pentry)
           (names : list (list (list N))) (input : list txn) : list rentry :=
  register (reg_conv (report_ctx lk rc db input)) (sel_names names) input.

Definition conv_register_text (title : str) (sc : scale_cfg) (ts_text : header -> str)
           (lk : lookup) (rc : option (list N)) (db : list pentry)
           (names : list (list (list N))) (input : list txn) : str :=
  reg_txt_report title sc (filler_width lk) ts_text (conv_register lk rc db names input).

(* ---------------------------------------------------------------- balance *)
(* lax mode without chart of accounts: every ancestor can be created (known = true);
   de-duplicated sums in key order (the code after the repair of F8) *)
Definition conv_bposts (ctx : pctx) (txns : list txn) : list bpost := flat_map (bal_conv ctx) txns.

Definition conv_balance (lk : lookup) (rc : option (list N)) (db : list pentry)
           (names : list (list (list N))) (input : list txn) : option bal_report :=
  balance_report_det (fun _ => true) (bal_sel_names names)
                     (conv_bposts (report_ctx lk rc db input) (sort_txns input)).

Definition conv_balance_text (title : str) (sc : scale_cfg)
           (lk : lookup) (rc : option (list N)) (db : list pentry)
           (names : list (list (list N))) (input : list txn) : option str :=
  option_map (fun rep => bal_txt_report title sc (b_rows rep) (b_deltas rep))
             (conv_balance lk rc db names input).

(* ---------------------------------------------------------------- balance groups *)
Definition conv_balgrp (gb : group_by) (tzoff : Z -> Z)
           (lk : lookup) (rc : option (list N)) (db : list pentry)
           (names : list (list (list N))) (input : list txn) : option (list bgroup) :=
  balance_group_report (fun _ => true) ord_sorted (bal_sel_names names)
                       (bal_conv (report_ctx lk rc db input)) gb tzoff input.

Definition text_group (g : bgroup) : bal_group :=
  mkBalGroup (g_title g) (b_rows (g_rep g)) (b_deltas (g_rep g)).

Definition conv_balgrp_text (title : str) (sc : scale_cfg) (gb : group_by) (tzoff : Z -> Z)
           (lk : lookup) (rc : option (list N)) (db : list pentry)
           (names : list (list (list N))) (input : list txn) : option str :=
  option_map (fun gs => balgrp_txt_report title sc (map text_group gs))
             (conv_balgrp gb tzoff lk rc db names input).
