(* Store.v — model of journal-file selection: parser::git_to_txns (tree walk of the
   selected commit) and tackler_rs::get_paths_by_ext (file-system storage).
   A repository is a map from commit ids to trees and from reference names to commit
   ids; a tree is the list of its (path, kind, content) entries. Definitions only. *)
From TkModel Require Import Base.

Inductive kind : Type := Blob | BlobExec | Link | Other.   (* gix EntryKind of a tree entry *)

Record entry : Type := mkEntry {
  en_path : list (list N);     (* path components, directories first, file name last *)
  en_kind : kind;
  en_blob : N }.               (* identity of the content *)

Notation tree := (list entry) (only parsing).

Definition slash : N := 47%N.
Definition dot : N := 46%N.

Fixpoint join_slash (l : list (list N)) : list N :=
  match l with
  | [] => []
  | [x] => x
  | x :: l' => x ++ slash :: join_slash l'
  end.

Fixpoint starts_with (p s : list N) : bool :=
  match p, s with
  | [], _ => true
  | x :: p', y :: s' => N.eqb x y && starts_with p' s'
  | _ :: _, [] => false
  end.
Definition ends_with (p s : list N) : bool := starts_with (rev p) (rev s).

(* std::path::Path::extension of the file name: the part after the last '.', none if
   there is no '.', or the only '.' is the first character *)
Fixpoint after_last_dot (acc : option (list N)) (s : list N) : option (list N) :=
  match s with
  | [] => acc
  | c :: s' => if N.eqb c dot then after_last_dot (Some s') s'
               else after_last_dot acc s'
  end.
Definition extension (name : list N) : option (list N) :=
  match name with
  | [] => None
  | c :: rest => if N.eqb c dot then after_last_dot None rest     (* leading dot does not count *)
                 else after_last_dot None name
  end.
Definition has_ext (ext name : list N) : bool :=
  match extension name with Some e => str_eqb e ext | None => false end.

Definition file_name (p : list (list N)) : list N := last p [].
Definition dir_of (p : list (list N)) : list (list N) := removelast p.

Fixpoint comps_prefix (d p : list (list N)) : bool :=
  match d, p with
  | [], _ => true
  | x :: d', y :: p' => str_eqb x y && comps_prefix d' p'
  | _ :: _, [] => false
  end.

(* the configured directory as components ("" = the whole tree) *)
Definition is_regular (k : kind) : bool := match k with Blob | BlobExec => true | _ => false end.

(* git_to_txns after the repair of F4: regular files (also executable ones) whose path
   lies under <dir>/ and whose file name has the extension; a symbolic link anywhere in
   the tree is an error *)
Definition select_git (dir : list (list N)) (ext : list N) (t : tree) : option (list entry) :=
  if existsb (fun e => match en_kind e with Link => true | _ => false end) t then None
  else Some (filter (fun e => is_regular (en_kind e)
                             && comps_prefix dir (dir_of (en_path e))
                             && has_ext ext (file_name (en_path e))) t).

(* the code before the repair: raw byte prefix / suffix on the path string, plain blobs only *)
Definition select_git_old (dir : list N) (ext : list N) (t : tree) : option (list entry) :=
  if existsb (fun e => match en_kind e with Link => true | _ => false end) t then None
  else Some (filter (fun e => (match en_kind e with Blob => true | _ => false end)
                             && starts_with dir (join_slash (en_path e))
                             && ends_with ext (join_slash (en_path e))) t).

(* get_paths_by_ext on a checkout of the tree (regular files; links are not part of the
   property's histories) *)
Definition select_fs (dir : list (list N)) (ext : list N) (t : tree) : list entry :=
  filter (fun e => is_regular (en_kind e)
                   && comps_prefix dir (dir_of (en_path e))
                   && has_ext ext (file_name (en_path e))) t.

(* repository and selection of the commit *)
Record repo : Type := mkRepo {
  commits : list (N * list entry);        (* commit id -> tree *)
  refs : list (list N * N) }.             (* reference name -> commit id *)

Fixpoint lookup_commit (cs : list (N * list entry)) (id : N) : option (list entry) :=
  match cs with
  | [] => None
  | (i, t) :: cs' => if N.eqb i id then Some t else lookup_commit cs' id
  end.
Fixpoint lookup_ref (rs : list (list N * N)) (name : list N) : option N :=
  match rs with
  | [] => None
  | (n, i) :: rs' => if str_eqb n name then Some i else lookup_ref rs' name
  end.

Inductive selector : Type := ByCommit (id : N) | ByRef (name : list N).

Definition resolve (r : repo) (s : selector) : option N :=
  match s with ByCommit id => Some id | ByRef n => lookup_ref (refs r) n end.

(* load: the commit id used (reported in metadata) and the selected files *)
Definition load_git (r : repo) (s : selector) (dir : list (list N)) (ext : list N)
  : option (N * list entry) :=
  match resolve r s with
  | None => None
  | Some id => match lookup_commit (commits r) id with
               | None => None
               | Some t => option_map (fun l => (id, l)) (select_git dir ext t)
               end
  end.
