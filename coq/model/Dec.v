(* Dec.v — rust_decimal 1.37.1 contract on the exact domain. Definitions only.
   dec = signed mantissa and scale; value = dm / 10^ds.
   The sign of zero is not modelled (constructors normalise -0; see DESIGN 4). *)
From TkModel Require Import Base.
Local Open Scope Z_scope.

Record dec : Type := mkDec { dm : Z; ds : N }.

Definition dzero : dec := mkDec 0 0.
Definition is_zero (d : dec) : bool := dm d =? 0.
Definition is_neg (d : dec) : bool := dm d <? 0.

Definition pow10 (n : N) : Z := 10 ^ (Z.of_N n).

(* mantissa at a larger scale *)
Definition rescale (d : dec) (s : N) : Z := dm d * pow10 (s - ds d).

(* Decimal + : a zero operand returns the other operand unchanged (its own
   scale is dropped); otherwise the result has the larger scale *)
Definition dadd (a b : dec) : dec :=
  if is_zero a then b
  else if is_zero b then a
  else let s := N.max (ds a) (ds b) in mkDec (rescale a s + rescale b s) s.

Definition dneg (a : dec) : dec := mkDec (- dm a) (ds a).
Definition dsub (a b : dec) : dec := dadd a (dneg b).

(* Decimal * : zero gives 0 at scale 0, otherwise scales add *)
Definition dmul (a b : dec) : dec :=
  if is_zero a || is_zero b then dzero
  else mkDec (dm a * dm b) (ds a + ds b).

(* Iterator::sum::<Decimal>() *)
Definition dsum (l : list dec) : dec := fold_left dadd l dzero.

(* comparison and equality are by value *)
Definition dcmp (a b : dec) : comparison :=
  let s := N.max (ds a) (ds b) in Z.compare (rescale a s) (rescale b s).
Definition deqb (a b : dec) : bool := match dcmp a b with Eq => true | _ => false end.
Definition dltb (a b : dec) : bool := match dcmp a b with Lt => true | _ => false end.
Definition dleb (a b : dec) : bool := match dcmp a b with Gt => false | _ => true end.

(* exact representation equality (mantissa and scale), for byte-level outputs *)
Definition drepr_eqb (a b : dec) : bool := (dm a =? dm b) && (ds a =? ds b)%N.

(* the exact domain: 96-bit mantissa, scale <= 28 *)
Definition fits (d : dec) : bool := (Z.abs (dm d) <? 2 ^ 96) && (ds d <=? 28)%N.

(* value scaled by 10^28: an integer for every scale <= 28 *)
Definition d28 (d : dec) : Z := dm d * pow10 (28 - ds d).
Definition dwf (d : dec) : Prop := (ds d <= 28)%N.
