(* ReportText.v — the TEXT of the three reports, character by character. Definitions only.
   Transcribes
     tackler-core/src/report/balance_reporter.rs        BalanceReporter::txt_report
                                                        (get_max_sum_len, get_max_delta_len,
                                                         get_max_commodity_len, make_commodity_field)
     tackler-core/src/report/balance_group_reporter.rs  the body written after the metadata
                                                        (title, underline, one txt_report per group)
     tackler-core/src/model/register.rs                 RegisterEntry::fmt_with_cfg, amount_to_string
     tackler-core/src/report/register_reporter.rs       reg_entry_txt_writer, title lines
     tackler-api/src/txn_header.rs                      TxnHeader::to_string_with_indent, t_to_s
     tackler-api/src/location.rs                        Display for GeoPoint
   Text = list of Unicode scalar values; every width below is a number of CHARACTERS
   (Rust: chars().count(); the width of `{:>w$}` / `{:<w$}` counts characters as well).
   `{:>w$}` pads with blanks on the left, `{:<w$}` on the right, neither ever truncates.

   Not in this model (written by write_txt_report before the title line): account selector
   checksum, report time zone, price metadata, the blank lines before the title.
   The time stamp text of a register header is an input (ts_text): it is produced by
   txn_ts::as_tz_date / as_tz_seconds / as_tz_full (jiff). *)
From TkModel Require Import Base Dec Acct Txn Balance Register Round.
Local Open Scope Z_scope.

Definition ch_sp : N := 32%N.
Definition ch_nl : N := 10%N.
Definition ch_dash : N := 45%N.     (* '-' *)
Definition ch_eq : N := 61%N.       (* '=' *)

Definition spaces (n : nat) : str := repeat ch_sp n.
(* format!("{:>w$}", s) *)
Definition pad_left (w : nat) (s : str) : str := spaces (w - length s) ++ s.
(* format!("{:<w$}", s) *)
Definition pad_right (w : nat) (s : str) : str := s ++ spaces (w - length s).
(* writeln!(w, "{}", s) *)
Definition line (s : str) : str := s ++ [ch_nl].

Definition max_len (l : list nat) : nat := fold_left Nat.max l 0%nat.   (* .fold(0, max) *)

(* ------------------------------------------------------------------ balance report *)

(* Decimal::round_dp_with_strategy(k, RoundingStrategy::ToZero): unchanged when the stored
   scale is <= k, otherwise the magnitude is divided by 10^(scale-k) (truncating) and the
   result is rebuilt at scale k with the sign of the input (from_parts: zero is +0) *)
Definition dtrunc (d : dec) (k : N) : dec :=
  if (ds d <=? k)%N then d
  else
    let q := Z.abs (dm d) / pow10 (ds d - k) in
    mkDec (if dm d <? 0 then - q else q) k.

(* the closure get_max_sum_len, per figure:
     let prec = scale.get_precision(&d);
     let txt = Scale::with_decimals(&d.round_dp_with_strategy(prec, ToZero), prec);
     txt.chars().count() + usize::from(!d.is_sign_negative()) *)
Definition sum_len (sc : scale_cfg) (d : dec) : nat :=
  (length (with_decimals (dtrunc d (precision sc d)) (precision sc d))
   + (if is_neg d then 0 else 1))%nat.

Definition max_sum_len (sc : scale_cfg) (f : brow -> dec) (rows : list brow) : nat :=
  max_len (map (fun r => sum_len sc (f r)) rows).

(* get_max_delta_len: format!("{}", d) — the unrounded Display of the delta *)
Definition max_delta_len (deltas : list (str * dec)) : nat :=
  max_len (map (fun cd => length (dfmt (snd cd))) deltas).

(* get_max_commodity_len (no commodity = empty name = 0) *)
Definition max_comm_len (deltas : list (str * dec)) : nat :=
  max_len (map (fun cd => length (fst cd)) deltas).

Definition left_sum_len (sc : scale_cfg) (rows : list brow) (deltas : list (str * dec)) : nat :=
  Nat.max 12 (Nat.max (max_sum_len sc r_own rows) (max_delta_len deltas)).

Definition tree_sum_len (sc : scale_cfg) (rows : list brow) : nat := max_sum_len sc r_tree rows.

(* filler_field.chars().count() *)
Definition filler_len (cml : nat) : nat :=
  match cml with O => 3%nat | _ => (4 + cml)%nat end.

(* make_commodity_field *)
Definition comm_field (cml : nat) (comm : str) : str :=
  match cml with
  | O => spaces 2
  | _ => match comm with
         | [] => ch_sp :: spaces cml ++ spaces 2                 (* format!(" {}  ", " ".repeat(cml)) *)
         | _ => ch_sp :: pad_right cml comm ++ spaces 2          (* format!(" {: <cl$}  ", name) *)
         end
  end.

Definition left_ruler : str := spaces 9.

(* "{left_ruler}{:>asl$}{:>width$}{:>satsl$}{}{}" *)
Definition bal_row_line (sc : scale_cfg) (asl fl satsl cml : nat) (r : brow) : str :=
  left_ruler ++ pad_left asl (shown_text sc (r_own r)) ++ pad_left fl []
  ++ pad_left satsl (shown_text sc (r_tree r)) ++ comm_field cml (r_comm r) ++ acct_str (r_acc r).

Definition bal_ruler_len (asl cml : nat) : nat :=
  (length left_ruler + asl + match cml with O => 0 | _ => cml + 1 end)%nat.

(* deltas.iter().sorted_by_key(commodity name or "") *)
Definition sort_deltas (deltas : list (str * dec)) : list (str * dec) :=
  sort_by (fun a b => cmp_leb (str_cmp (fst a) (fst b))) deltas.

(* "{left_ruler}{:>width$}{}" *)
Definition bal_delta_line (sc : scale_cfg) (asl : nat) (cd : str * dec) : str :=
  left_ruler ++ pad_left asl (shown_text sc (snd cd))
  ++ match fst cd with [] => [] | c => ch_sp :: c end.

Definition title_lines (title : str) : str :=
  line title ++ line (repeat ch_dash (length title)).

Definition bal_body (sc : scale_cfg) (rows : list brow) (deltas : list (str * dec)) : str :=
  let asl := left_sum_len sc rows deltas in
  let satsl := tree_sum_len sc rows in
  let cml := max_comm_len deltas in
  let fl := filler_len cml in
  flat_map (fun r => line (bal_row_line sc asl fl satsl cml r)) rows
  ++ line (repeat ch_eq (bal_ruler_len asl cml))
  ++ flat_map (fun cd => line (bal_delta_line sc asl cd)) (sort_deltas deltas).

(* BalanceReporter::txt_report *)
Definition bal_txt_report (title : str) (sc : scale_cfg) (rows : list brow)
           (deltas : list (str * dec)) : str :=
  title_lines title
  ++ match rows with
     | [] => []                              (* bal_report.is_empty() *)
     | _ => bal_body sc rows deltas
     end.

(* ------------------------------------------------------------------ balance-group report *)
Record bal_group : Type := mkBalGroup {
  bg_title : str; bg_rows : list brow; bg_deltas : list (str * dec) }.

Definition balgrp_txt_report (title : str) (sc : scale_cfg) (groups : list bal_group) : str :=
  title_lines title
  ++ flat_map (fun g => bal_txt_report (bg_title g) sc (bg_rows g) (bg_deltas g)) groups.

(* ------------------------------------------------------------------ register report *)
Definition indent12 : str := spaces 12.

Fixpoint join_with (sep : str) (l : list str) : str :=
  match l with
  | [] => []
  | [x] => x
  | x :: l' => x ++ sep ++ join_with sep l'
  end.

(* Display for GeoPoint: "geo:{lat},{lon}" + ",{alt}" *)
Definition geo_text (g : geo) : str :=
  [103; 101; 111; 58]%N ++ dfmt (g_lat g) ++ [44%N] ++ dfmt (g_lon g)
  ++ match g_alt g with Some a => 44%N :: dfmt a | None => [] end.

(* TxnHeader::to_string_with_indent; ts = ts_formatter(&self.timestamp, tz) *)
Definition header_text (indent ts : str) (h : header) : str :=
  ts
  ++ match h_code h with Some c => [32; 40]%N ++ c ++ [41%N] | None => [] end      (* " ({c})" *)
  ++ match h_desc h with Some d => [32; 39]%N ++ d | None => [] end               (* " '{desc}" *)
  ++ [ch_nl]
  ++ match h_uuid h with
     | Some u => line (indent ++ [35; 32; 117; 117; 105; 100; 58; 32]%N ++ u)     (* "# uuid: " *)
     | None => [] end
  ++ match h_loc h with
     | Some g => line (indent ++ [35; 32; 108; 111; 99; 97; 116; 105; 111; 110; 58; 32]%N
                       ++ geo_text g)                                             (* "# location: " *)
     | None => [] end
  ++ match h_tags h with
     | [] => []
     | ts => line (indent ++ [35; 32; 116; 97; 103; 115; 58; 32]%N
                   ++ join_with [44; 32]%N ts)                                    (* "# tags: " *)
     end
  ++ flat_map (fun c => line (indent ++ [59; 32]%N ++ c)) (h_comments h).         (* "; {c}" *)

(* amount_to_string *)
Definition amount_to_string (sc : scale_cfg) (d : dec) (width : nat) : str :=
  let t := shown_text sc d in
  if negb (is_neg d) && (width <=? length t)%nat then ch_sp :: t else t.

(* RegisterPosting::is_commodity_conv *)
Definition is_conv (r : rrow) : bool := negb (str_eqb (rr_target r) (p_comm (rr_post r))).

(* the body of `for p in &self.posts`; fw = filler_width of the configured price lookup
   (AtTheTimeOfTxn 20, LastPriceDbEntry 8, GivenTime 8, None 0) *)
Definition reg_row_line (sc : scale_cfg) (fw : nat) (r : rrow) : str :=
  let p := rr_post r in
  let cbw :=
    if is_conv r then
      match rr_rate r with
      | Some rt => (rr_target r, ch_sp :: p_comm p ++ [32; 64; 32]%N ++ dfmt rt, 20%nat)
      | None => (rr_target r, ch_sp :: p_comm p, 8%nat)
      end
    else (p_comm p, [], fw) in
  let comm := fst (fst cbw) in
  indent12 ++ pad_right 33 (acct_str (p_acc p))
  ++ pad_left 18 (amount_to_string sc (p_amount p) 18)
  ++ pad_right (snd cbw) (snd (fst cbw))
  ++ [ch_sp]
  ++ pad_left 18 (amount_to_string sc (rr_total r) 18)
  ++ match comm with [] => [] | c => ch_sp :: c end.

(* RegisterEntry::fmt_with_cfg *)
Definition reg_entry_text (sc : scale_cfg) (fw : nat) (ts : str) (e : rentry) : str :=
  let ls := map (reg_row_line sc fw) (re_rows e) in
  header_text indent12 ts (t_hdr (re_txn e))
  ++ flat_map line ls
  ++ line (repeat ch_dash (max_len (map (@length N) ls))).

(* reg_entry_txt_writer: entries without rows print nothing *)
Definition reg_entry_out (sc : scale_cfg) (fw : nat) (ts : str) (e : rentry) : str :=
  match re_rows e with
  | [] => []
  | _ => reg_entry_text sc fw ts e
  end.

(* RegisterReporter::write_txt_report from the title line on; every entry comes with the
   text of its time stamp *)
Definition reg_txt_report_with (title : str) (sc : scale_cfg) (fw : nat)
           (es : list (str * rentry)) : str :=
  title_lines title ++ flat_map (fun te => reg_entry_out sc fw (fst te) (snd te)) es.

Definition with_ts (ts_text : header -> str) (es : list rentry) : list (str * rentry) :=
  map (fun e => (ts_text (t_hdr (re_txn e)), e)) es.

(* ts_text = txn_ts::as_tz_date / as_tz_seconds / as_tz_full in the report zone *)
Definition reg_txt_report (title : str) (sc : scale_cfg) (fw : nat) (ts_text : header -> str)
           (es : list rentry) : str :=
  reg_txt_report_with title sc fw (with_ts ts_text es).
