(* T07_run.v — extension T07: the whole-run model of T06_run.v with
     (1) DIRECTORY INPUT: the journal is a list of (path below the journal directory, text); the files are
         selected as tackler_rs::get_paths_by_ext does (Store.has_ext on the file name: nested directories,
         dot directories and dot files count, a name that is only ".<suffix>" has no extension) and loaded as
         parser::paths_to_txns does (Load.load_files: every file parsed and accepted, the first error wins,
         then TxnData::from sorts);
     (2) STRICT MODE / CHARTS: accounts, commodities (permit-empty-commodity) and tags files in the run
         configuration; the run is refused exactly when Charts.load (Settings::try_from + the look-ups of the
         parser in file order) refuses the configuration or the journal; an accepted run is the run of the
         same transactions (C12_modes_agree / C12_balance_resolves: the reports cannot see the charts);
     (3) REGULAR-EXPRESSION ACCOUNT SELECTORS: the selectors are pattern ASTs of Regex.v, evaluated through
         the `^(?:p)$` wrapper (Regex.full_haystack_set_is_match) as Select.v / C11 do; their configured text
         is Regex.pp.
   It is built ON TOP of T06_run.v: the run configuration run7 carries a T06 run_cfg (whose five name-selector
   fields are not read here) plus the new items; everything after loading is T06's machinery
   (prepare_from, console_with, files_with, report heads, exports).  T07_proofs.run7_coincides: on the old
   fragment — one file, no charts, strict off, literal selectors — run7_console / run7_files ARE
   run_console / run_files.  Definitions only. *)
From TkModel Require Import Base Dec Acct Txn Accept Journal Balance Register Round Price Time Group.
From TkModel Require Import ReportText T05_report PriceText Regex T06_run.
From TkModel Require Filter Equity EquityText MetaText Audit Codec Tstamp Store Load Charts Select.
Local Open Scope Z_scope.

(* ------------------------------------------------------------------ configuration *)
Record chart_cfg : Type := mkChartCfg {
  ch_accounts : list (list (list N));       (* accounts.toml: accounts *)
  ch_comms : list (list N);                 (* commodities.toml: commodities *)
  ch_permit_empty : bool;                   (* commodities.toml: permit-empty-commodity *)
  ch_tags : list (list N) }.                (* tags.toml: tags *)

Record run7 : Type := mkRun7 {
  r7_base : run_cfg;                        (* everything of T06 (its name selectors are not read) *)
  r7_ext : list N;                          (* kernel.input.fs.suffix *)
  r7_strict : bool;                         (* kernel.strict *)
  r7_charts : option chart_cfg;             (* None: the three paths are "none" *)
  r7_accounts : option (list re);           (* report.accounts *)
  r7_bal : option (list re);                (* report.balance.accounts *)
  r7_grp : option (list re);                (* report.balance-group.accounts *)
  r7_reg : option (list re);                (* report.register.accounts *)
  r7_eq : option (list re) }.               (* export.equity.accounts *)

Notation input_file := (list (list N) * list N)%type (only parsing).     (* path components, text *)

(* ------------------------------------------------------------------ (1) selection and loading *)
(* get_paths_by_ext below the journal directory: regular files whose file name has the extension *)
Definition wanted_file (ext : list N) (f : input_file) : bool := Store.has_ext ext (Store.file_name (fst f)).
Definition selected7 (c : run7) (files : list input_file) : list input_file := filter (wanted_file (r7_ext c)) files.
(* the same selection as Store.select_fs makes on the tree of these files (directory = the root) *)
Definition tree_of (files : list input_file) : list Store.entry :=
  map (fun f => Store.mkEntry (fst f) Store.Blob 0%N) files.

(* one file: the grammar, then the semantic layer of every transaction (file order) *)
Definition parse_file (cfg : pcfg) (s : list N) : res (list jtxn) :=
  res_bind (parse_journal cfg s) (mapM accept_ptxn).
(* paths_to_txns + TxnData::from, in the shape of Load.load_files *)
Definition load_dir (c : run7) (files : list input_file) : res (list jtxn) :=
  res_map (fun ls => sort_by jtxn_leb (concat ls))
          (mapM (fun f => parse_file (rc_journal (r7_base c)) (snd f)) (selected7 c files)).

(* ------------------------------------------------------------------ (2) charts and strict mode *)
Definition no_charts : chart_cfg := mkChartCfg [] [] true [].
Definition charts_of (c : run7) : chart_cfg := match r7_charts c with Some ch => ch | None => no_charts end.
Definition has_equity (xs : list export_kind) : bool :=
  existsb (fun x => match x with XEquity => true | XIdentity => false end) xs.

(* the configuration as Charts.settings_from reads it; price = the entries of the price file as written *)
Definition chart_config (c : run7) (price : list pentry) : Charts.config :=
  let b := r7_base c in
  let ch := charts_of c in
  Charts.mkConfig (r7_strict c) (ch_accounts ch) (ch_comms ch) (ch_permit_empty ch) (ch_tags ch)
                  (has_equity (rc_exports b)) (rc_eq_account b) (rc_commodity b) None
                  (match rc_lookup b with LtNone => false | _ => true end)
                  (map (fun e => (pe_base e, pe_eq e)) price).

(* a transaction as the chart look-ups see it: its tags, then Accept's raw transaction *)
Definition craw_of (pt : ptxn) : Charts.craw_txn := Charts.mkCrawTxn (h_tags (pt_hdr pt)) (ptxn_raw pt).
(* the journal of the chart look-ups: every transaction of every selected file, in file order *)
Definition chart_journal (c : run7) (files : list input_file) : res (list Charts.craw_txn) :=
  res_map (fun ls => map craw_of (concat ls))
          (mapM (fun f => parse_journal (rc_journal (r7_base c)) (snd f)) (selected7 c files)).

Definition E_charts : N := 50%N.
(* without chart files and with strict off nothing is looked up that could fail (T06's runs) *)
Definition gate_on (c : run7) : bool := r7_strict c || match r7_charts c with Some _ => true | None => false end.
Definition chart_gate (c : run7) (price : list pentry) (files : list input_file) : res unit :=
  if gate_on c then
    res_bind (chart_journal c files) (fun j =>
      match Charts.load (chart_config c price) j with Ok _ => Ok tt | Err e => Err e end)
  else Ok tt.

(* ------------------------------------------------------------------ (3) pattern selectors *)
Definition eff_pats (global per : option (list re)) : list re :=
  match per with Some l => l | None => match global with Some g => g | None => [] end end.
Definition pats_of (c : run7) (k : MetaText.report_kind) : list re :=
  eff_pats (r7_accounts c)
           (match k with
            | MetaText.RBalance => r7_bal c
            | MetaText.RBalGroup => r7_grp c
            | MetaText.RRegister => r7_reg c
            end).
Definition pats_equity (c : run7) : list re := eff_pats (r7_accounts c) (r7_eq c).
(* the configured texts *)
Definition pat_texts (pats : list re) : list (list N) := map pp pats.

(* RegisterAllSelector / RegisterByAccountSelector on Register.v's rows *)
Definition reg_selector (pats : list re) (r : rrow) : bool :=
  match pats with
  | [] => true
  | _ => full_haystack_set_is_match pats (acct_str (p_acc (rr_post r)))
  end.

(* the engines of T05_report with an arbitrary selector *)
Definition bal_report7 (sel : brow -> bool) (st : run_state) (rc : option (list N)) : option bal_report :=
  balance_report_det (fun _ => true) sel
    (conv_bposts (report_ctx (rs_lk st) rc (rs_db st) (rs_txns st)) (sort_txns (rs_txns st))).
Definition grp_report7 (sel : brow -> bool) (gb : group_by) (tzoff : Z -> Z) (st : run_state) (rc : option (list N))
  : option (list bgroup) :=
  balance_group_report (fun _ => true) ord_sorted sel
    (bal_conv (report_ctx (rs_lk st) rc (rs_db st) (rs_txns st))) gb tzoff (rs_txns st).
Definition reg_report7 (sel : rrow -> bool) (st : run_state) (rc : option (list N)) : list rentry :=
  register (reg_conv (report_ctx (rs_lk st) rc (rs_db st) (rs_txns st))) sel (rs_txns st).

Definition report_body7 (c : run7) (st : run_state) (k : MetaText.report_kind) : option (list N) :=
  let b := r7_base c in
  let pats := pats_of c k in
  match k with
  | MetaText.RBalance =>
      option_map (fun rep => bal_txt_report (rc_title_bal b) (rc_scale b) (b_rows rep) (b_deltas rep))
                 (bal_report7 (Select.report_selector pats) st (rc_commodity b))
  | MetaText.RBalGroup =>
      option_map (fun gs => balgrp_txt_report (rc_title_grp b) (rc_scale b) (map text_group gs))
                 (grp_report7 (Select.report_selector pats) (rc_group_by b) (rtz b) st (rc_commodity b))
  | MetaText.RRegister =>
      Some (reg_txt_report (rc_title_reg b) (rc_scale b) (filler_width (rs_lk st)) (ts_text b)
                           (reg_report7 (reg_selector pats) st (rc_commodity b)))
  end.

Section Digest.
  Variable H : list N -> list N.

  Definition report_head7 (c : run7) (st : run_state) (k : MetaText.report_kind) : list N :=
    let b := r7_base c in
    MetaText.report_head k (MetaText.sel_item H (rc_audit b) false (rc_algo b) (pat_texts (pats_of c k)))
                         (rc_zone_name b) (report_prices b st).
  Definition report_text7 (c : run7) (st : run_state) (k : MetaText.report_kind) : option (list N) :=
    if conv_overflow (r7_base c) st then None
    else option_map (fun body => report_head7 c st k ++ body) (report_body7 c st k).

  Definition equity_ras7 (pats : list re) : option (list (list N) -> bool) :=
    match pats with [] => None | _ => Some (fun a => full_haystack_set_is_match pats (acct_str a)) end.
  Definition equity_file7 (c : run7) (st : run_state) : option (list N) :=
    let b := r7_base c in
    option_map
      (EquityText.print_equity
         (MetaText.equity_md (rs_md st) (MetaText.sel_item H (rc_audit b) true (rc_algo b) (pat_texts (pats_equity c))))
         EquityText.default_warn_lines)
      (Equity.equity (fun _ => true) (rc_eq_account b) (equity_ras7 (pats_equity c)) (rs_txns st)).
  Definition export_file7 (c : run7) (st : run_state) (x : export_kind) : option (list N) :=
    match x with
    | XEquity => equity_file7 c st
    | XIdentity => Some (print_journal (rs_sel st))
    end.

  (* everything before the first write: settings (price data, charts), loading, the chart look-ups of the
     parser, the audit uuid rule, then T06's selection / metadata / empty-set test *)
  Definition run7_prepare (c : run7) (files : list input_file) (ptext : option (list N)) : res run_state :=
    let b := r7_base c in
    res_bind (price_setup b ptext) (fun pr =>
    res_bind (load_dir c files) (fun js0 =>
    res_bind (audit_uuids (rc_audit b) js0) (fun js =>
    res_bind (chart_gate c (fst pr) files) (fun _ =>
    prepare_from H b pr js)))).

  Definition run7_console (c : run7) (files : list input_file) (ptext : option (list N)) : res (list N) :=
    res_bind (run7_prepare c files ptext) (fun st =>
      console_with (r7_base c) (rs_md st) (report_text7 c st)).

  Definition run7_files (c : run7) (files : list input_file) (ptext : option (list N))
    : res (list (list N * list N) * list N) :=
    res_bind (run7_prepare c files ptext) (fun st =>
      files_with (r7_base c) (rs_md st) (report_text7 c st) (export_file7 c st)).
End Digest.

(* ------------------------------------------------------------------ (4) Git storage *)
(* a repository as Store.v sees it (commits, trees, references) with the contents of its blobs, and - taken from
   the git command line, not modelled - the 40-digit id and the message title (gix message().title) of every commit *)
Record git_world : Type := mkGitWorld {
  gw_repo : Store.repo;
  gw_blobs : list (N * list N);             (* blob identity -> text *)
  gw_hex : list (N * list N);               (* commit identity -> its id as printed *)
  gw_title : list (N * list N) }.           (* commit identity -> title of its message *)
(* --input.git.ref / --input.git.commit and --input.git.dir: the selector as Store.resolve reads it (an abbreviated
   commit id is resolved by git: the identity is an input), its text as given, the directory as components and as given *)
Record git_sel : Type := mkGitSel {
  gs_sel : Store.selector; gs_text : list N; gs_dir : list (list N); gs_dir_text : list N }.

Fixpoint tbl_get (tbl : list (N * list N)) (k : N) : list N :=
  match tbl with
  | [] => []
  | (k', v) :: r => if N.eqb k k' then v else tbl_get r k
  end.
Definition entry_file (gw : git_world) (e : Store.entry) : input_file := (Store.en_path e, tbl_get (gw_blobs gw) (Store.en_blob e)).
Definition git_files (gw : git_world) (es : list Store.entry) : list input_file := map (entry_file gw) es.
Definition by_commit (s : Store.selector) : bool := match s with Store.ByCommit _ => true | Store.ByRef _ => false end.
(* the GitInputReference of the run *)
Definition git_reference7 (c : run7) (gw : git_world) (gs : git_sel) (id : N) : MetaText.git_in :=
  MetaText.mkGitIn (by_commit (gs_sel gs)) (gs_text gs) (tbl_get (gw_hex gw) id) (gs_dir_text gs) (r7_ext c)
                   (tbl_get (gw_title gw) id).
Definition E_git : N := 51%N.

(* a checkout of the tree t, seen from the directory d: the regular files below d, paths relative to d *)
Definition checkout (gw : git_world) (d : list (list N)) (t : list Store.entry) : list input_file :=
  map (fun e => (skipn (length d) (Store.en_path e), tbl_get (gw_blobs gw) (Store.en_blob e)))
      (filter (fun e => Store.is_regular (Store.en_kind e) && Store.comps_prefix d (Store.dir_of (Store.en_path e))) t).

Section DigestGit.
  Variable H : list N -> list N.

  (* parser::git_to_txns in place of paths_to_txns: the commit is resolved, its tree walked (a link anywhere is an
     error), the journal files parsed and accepted one by one, TxnData::from with the Git metadata item *)
  Definition run7g_prepare (c : run7) (gw : git_world) (gs : git_sel) (ptext : option (list N)) : res run_state :=
    let b := r7_base c in
    res_bind (price_setup b ptext) (fun pr =>
    match Store.load_git (gw_repo gw) (gs_sel gs) (gs_dir gs) (r7_ext c) with
    | None => Err E_git
    | Some (id, es) =>
        let files := git_files gw es in
        res_bind (load_dir c files) (fun js0 =>
        res_bind (audit_uuids (rc_audit b) js0) (fun js =>
        res_bind (chart_gate c (fst pr) files) (fun _ =>
        prepare_with H (Some (git_reference7 c gw gs id)) b pr js)))
    end).
  Definition run7g_console (c : run7) (gw : git_world) (gs : git_sel) (ptext : option (list N)) : res (list N) :=
    res_bind (run7g_prepare c gw gs ptext) (fun st => console_with (r7_base c) (rs_md st) (report_text7 H c st)).
  Definition run7g_files (c : run7) (gw : git_world) (gs : git_sel) (ptext : option (list N))
    : res (list (list N * list N) * list N) :=
    res_bind (run7g_prepare c gw gs ptext) (fun st =>
      files_with (r7_base c) (rs_md st) (report_text7 H c st) (export_file7 H c st)).
End DigestGit.

(* ------------------------------------------------------------------ the old fragment *)
(* a literal string as a pattern: the concatenation of its characters *)
Fixpoint lit_re (s : list N) : re :=
  match s with
  | [] => Empty
  | [c] => Chr c
  | c :: r => Seq (Chr c) (lit_re r)
  end.
Definition lit_pats (o : option (list (list (list N)))) : option (list re) :=
  option_map (map (fun a => lit_re (acct_str a))) o.
(* a T06 configuration as a T07 configuration: one journal file j.<ext>, no charts, strict off, the name
   selectors as literal patterns *)
Definition embed (cfg : run_cfg) (ext : list N) : run7 :=
  mkRun7 cfg ext false None (lit_pats (rc_accounts cfg)) (lit_pats (rc_bal_acc cfg)) (lit_pats (rc_grp_acc cfg))
         (lit_pats (rc_reg_acc cfg)) (lit_pats (rc_eq_acc cfg)).
