(* Config.v — model of the configuration overlay: DefaultModeArgs::get_overlaps (tackler-cli),
   Settings::try_from, config::items::get_account_selector, Settings::get_*_ras.
   Definitions only. Enumerations are small numbers:
   lookup type 0 none / 1 txn-time / 2 last-price / 3 given-time. *)
From TkModel Require Import Base.

Record file_cfg : Type := mkFile {
  f_strict : bool; f_audit : bool;
  f_reports : list N; f_exports : list N;
  f_accounts : option (list (list N));                 (* [report] accounts *)
  f_bal_acc : option (list (list N));                  (* [report.balance] accounts *)
  f_balgrp_acc : option (list (list N));
  f_reg_acc : option (list (list N));
  f_eq_acc : option (list (list N));                   (* [export.equity] accounts *)
  f_commodity : option (list N);
  f_lookup : N; f_db : option (list N);
  f_group_by : N;
  f_eq_declared : bool }.                              (* export.equity.equity-account is in the chart of accounts *)

Record cli_opts : Type := mkCli {
  c_strict : option bool; c_audit : option bool;
  c_reports : option (list N); c_exports : option (list N);
  c_accounts : option (list (list N));                 (* --accounts as given on the command line *)
  c_commodity : option (list N);
  c_lookup : option N; c_db : option (list N); c_before : option (list N);
  c_group_by : option N }.

Definition no_opts : cli_opts := mkCli None None None None None None None None None None.

Record eff : Type := mkEff {
  e_strict : bool; e_audit : bool; e_reports : list N; e_exports : list N;
  e_commodity : option (list N); e_lookup : N; e_given : option (list N); e_db : option (list N);
  e_group_by : N;
  e_ras_bal : list (list N); e_ras_balgrp : list (list N); e_ras_reg : list (list N); e_ras_eq : list (list N) }.

Definition or_else {A} (o : option A) (d : A) : A := match o with Some x => x | None => d end.
Definition or_opt {A} (o d : option A) : option A := match o with Some x => Some x | None => d end.

(* get_overlaps: the account list of the command line; the documented `--accounts ""`
   (all accounts) is the list without its empty strings *)
Definition cli_accounts (c : cli_opts) : option (list (list N)) :=
  option_map (filter (fun s => negb (Nat.eqb (length s) 0))) (c_accounts c).

(* config::items::get_account_selector: per-report list, else the file's global list, else all *)
Definition file_sel (f : file_cfg) (per : option (list (list N))) : list (list N) :=
  match per with Some l => l | None => or_else (f_accounts f) [] end.
(* Settings::get_account_selector: a command-line list replaces everything *)
Definition sel (f : file_cfg) (c : cli_opts) (per : option (list (list N))) : list (list N) :=
  match cli_accounts c with Some g => g | None => file_sel f per end.

Definition E_no_commodity : N := 1%N.
Definition E_before_not_allowed : N := 2%N.
Definition E_before_missing : N := 3%N.
Definition E_no_db : N := 4%N.
Definition E_equity_account : N := 5%N.

(* Settings::try_from *)
Definition effective (f : file_cfg) (c : cli_opts) : res eff :=
  let lookup := or_else (c_lookup c) (f_lookup f) in
  let db := or_opt (c_db c) (f_db f) in
  let commodity := or_opt (c_commodity c) (f_commodity f) in
  (* strict mode (as overridden) + equity export (as overridden) need a declared equity account *)
  if or_else (c_strict c) (f_strict f) && existsb (N.eqb 0) (or_else (c_exports c) (f_exports f))
     && negb (f_eq_declared f) then Err E_equity_account
  else if (match commodity with None => true | Some _ => false end) && negb (N.eqb lookup 0) then Err E_no_commodity
  else if negb (N.eqb lookup 3) && (match c_before c with Some _ => true | None => false end) then Err E_before_not_allowed
  else if N.eqb lookup 3 && (match c_before c with Some _ => false | None => true end) then Err E_before_missing
  else if negb (N.eqb lookup 0) && (match db with None => true | Some _ => false end) then Err E_no_db
  else Ok (mkEff (or_else (c_strict c) (f_strict f)) (or_else (c_audit c) (f_audit f))
                 (or_else (c_reports c) (f_reports f)) (or_else (c_exports c) (f_exports f))
                 commodity lookup (if N.eqb lookup 3 then c_before c else None)
                 (if N.eqb lookup 0 then None else db)
                 (or_else (c_group_by c) (f_group_by f))
                 (sel f c (f_bal_acc f)) (sel f c (f_balgrp_acc f)) (sel f c (f_reg_acc f)) (sel f c (f_eq_acc f))).

(* the configuration file with the options' values written into it *)
Definition merge (f : file_cfg) (c : cli_opts) : file_cfg :=
  let acc := cli_accounts c in
  mkFile (or_else (c_strict c) (f_strict f)) (or_else (c_audit c) (f_audit f))
         (or_else (c_reports c) (f_reports f)) (or_else (c_exports c) (f_exports f))
         (match acc with Some g => Some g | None => f_accounts f end)
         (match acc with Some _ => None | None => f_bal_acc f end)
         (match acc with Some _ => None | None => f_balgrp_acc f end)
         (match acc with Some _ => None | None => f_reg_acc f end)
         (match acc with Some _ => None | None => f_eq_acc f end)
         (or_opt (c_commodity c) (f_commodity f))
         (or_else (c_lookup c) (f_lookup f)) (or_opt (c_db c) (f_db f))
         (or_else (c_group_by c) (f_group_by f)) (f_eq_declared f).
(* --price.before has no configuration key: it stays an option *)
Definition only_before (c : cli_opts) : cli_opts :=
  mkCli None None None None None None None None (c_before c) None.
