(* Regex.v — the regular-expression subset used for account selectors, the contract of
   the `regex` crate's `is_match` on that subset (relational semantics + an executable
   matcher), the concrete-syntax printer, and tackler-rs/src/regex.rs
   (into_full_haystack_pattern, peel_full_haystack_pattern, new_full_haystack_regex[_set],
   peeled_patterns). Definitions only.

   Haystacks are lists of Unicode scalar values (the crate is Unicode-aware: `.`, a
   literal and a class item each consume one scalar value); positions are indices into
   that list (nat). No flags: `^` = start of haystack, `$` = end of haystack, `.` = any
   scalar value except \n. *)
From TkModel Require Import Base.

Inductive re : Type :=
| Empty                                   (* the empty regex *)
| Chr (c : N)                             (* a literal scalar value *)
| Any                                     (* .  *)
| Class (neg : bool) (rs : list (N * N))  (* [a-cx] / [^a-cx]: inclusive ranges *)
| Seq (a b : re)
| Alt (a b : re)
| Star (a : re)
| Plus (a : re)
| Opt (a : re)
| Group (cap : bool) (a : re)             (* (..) / (?:..): same for matching *)
| Bol                                     (* ^ *)
| Eol.                                    (* $ *)

Definition nl : N := 10%N.
Definition in_range (c : N) (r : N * N) : bool := (fst r <=? c)%N && (c <=? snd r)%N.
Definition class_mem (neg : bool) (rs : list (N * N)) (c : N) : bool :=
  xorb neg (existsb (in_range c) rs).

(* --- contract of the regex engine: "r matches haystack s from position i to j" --- *)
Inductive m (s : str) : re -> nat -> nat -> Prop :=
| m_empty i : i <= length s -> m s Empty i i
| m_chr c i : nth_error s i = Some c -> m s (Chr c) i (S i)
| m_any c i : nth_error s i = Some c -> c <> nl -> m s Any i (S i)
| m_class neg rs c i : nth_error s i = Some c -> class_mem neg rs c = true ->
                       m s (Class neg rs) i (S i)
| m_seq a b i k j : m s a i k -> m s b k j -> m s (Seq a b) i j
| m_alt_l a b i j : m s a i j -> m s (Alt a b) i j
| m_alt_r a b i j : m s b i j -> m s (Alt a b) i j
| m_star_nil a i : i <= length s -> m s (Star a) i i
| m_star_step a i k j : m s a i k -> m s (Star a) k j -> m s (Star a) i j
| m_plus a i k j : m s a i k -> m s (Star a) k j -> m s (Plus a) i j
| m_opt_none a i : i <= length s -> m s (Opt a) i i
| m_opt_some a i j : m s a i j -> m s (Opt a) i j
| m_group cap a i j : m s a i j -> m s (Group cap a) i j
| m_bol : m s Bol 0 0                                  (* only at the start of the haystack *)
| m_eol : m s Eol (length s) (length s).               (* only at the end of the haystack *)

(* Regex::is_match / RegexSet::is_match on one pattern: an unanchored SEARCH *)
Definition search (r : re) (s : str) : Prop := exists i j, m s r i j.

(* --- executable matcher: the set of end positions of matches starting at i --- *)
Fixpoint undup (l : list nat) : list nat :=
  match l with
  | [] => []
  | x :: t => if existsb (Nat.eqb x) t then undup t else x :: undup t
  end.

Definition step_chr (s : str) (p : N -> bool) (i : nat) : list nat :=
  match nth_error s i with
  | Some c => if p c then [S i] else []
  | None => []
  end.

(* closure of a set of positions under "one more iteration"; fuel = number of rounds *)
Fixpoint star_close (f : nat -> list nat) (fuel : nat) (cur : list nat) : list nat :=
  match fuel with
  | O => cur
  | S n => star_close f n (undup (cur ++ flat_map f cur))
  end.

Definition here (s : str) (i : nat) : list nat := if i <=? length s then [i] else [].

Fixpoint ends (s : str) (r : re) (i : nat) {struct r} : list nat :=
  match r with
  | Empty => here s i
  | Chr c => step_chr s (N.eqb c) i
  | Any => step_chr s (fun c => negb (N.eqb c nl)) i
  | Class neg rs => step_chr s (class_mem neg rs) i
  | Seq a b => undup (flat_map (ends s b) (ends s a i))
  | Alt a b => undup (ends s a i ++ ends s b i)
  | Star a => star_close (ends s a) (length s) (here s i)
  | Plus a => star_close (ends s a) (length s) (ends s a i)
  | Opt a => undup (here s i ++ ends s a i)
  | Group _ a => ends s a i
  | Bol => if i =? 0 then [0] else []
  | Eol => if i =? length s then [i] else []
  end.

Definition nonempty {A} (l : list A) : bool := match l with [] => false | _ => true end.

(* is_match: some start position has a match *)
Definition searchb (r : re) (s : str) : bool :=
  existsb (fun i => nonempty (ends s r i)) (seq 0 (S (length s))).

(* --- tackler-rs/src/regex.rs --- *)
(* the AST of "^(?:" + p + ")$" when p is the concrete syntax of a regex on its own *)
Definition wrap (p : re) : re := Seq Bol (Seq (Group false p) Eol).

(* into_full_haystack_pattern on text *)
Definition wrap_pre : str := [94; 40; 63; 58]%N.      (* ^(?: *)
Definition wrap_suf : str := [41; 36]%N.              (* )$   *)
Definition wrap_text (t : str) : str := wrap_pre ++ t ++ wrap_suf.

Fixpoint strip_prefix (pre t : str) : option str :=
  match pre, t with
  | [], _ => Some t
  | c :: pre', d :: t' => if N.eqb c d then strip_prefix pre' t' else None
  | _ :: _, [] => None
  end.
Definition strip_suffix (suf t : str) : option str :=
  option_map (@rev N) (strip_prefix (rev suf) (rev t)).

(* peel_full_haystack_pattern *)
Definition peel (t : str) : str :=
  match strip_prefix wrap_pre t with
  | Some rest => match strip_suffix wrap_suf rest with Some x => x | None => t end
  | None => t
  end.

(* new_full_haystack_regex(p).is_match(s) *)
Definition full_haystack_is_match (p : re) (s : str) : bool := searchb (wrap p) s.
(* new_full_haystack_regex_set(ps).is_match(s): any member matches *)
Definition full_haystack_set_is_match (ps : list re) (s : str) : bool :=
  existsb (fun p => full_haystack_is_match p s) ps.

(* --- concrete syntax (printer with precedence levels):
       0 alternation, 1 concatenation, 2 repetition operand result, 3 atom --- *)
Definition is_meta (c : N) : bool :=
  existsb (N.eqb c) [92; 46; 43; 42; 63; 40; 41; 124; 91; 93; 123; 125; 94; 36]%N.
Definition pp_chr (c : N) : str := if is_meta c then [92; c]%N else [c].
(* inside a class: \ ] [ ^ - & ~ are escaped *)
Definition is_cmeta (c : N) : bool := existsb (N.eqb c) [92; 93; 91; 94; 45; 38; 126]%N.
Definition pp_cchr (c : N) : str := if is_cmeta c then [92; c]%N else [c].
Definition pp_range (r : N * N) : str :=
  if N.eqb (fst r) (snd r) then pp_cchr (fst r) else pp_cchr (fst r) ++ [45%N] ++ pp_cchr (snd r).

Definition ncg (t : str) : str := [40; 63; 58]%N ++ t ++ [41%N].     (* (?:t) *)
Definition paren (b : bool) (t : str) : str := if b then ncg t else t.

Fixpoint pp_at (lvl : nat) (r : re) : str :=
  match r with
  | Empty => paren (2 <=? lvl) []
  | Chr c => pp_chr c
  | Any => [46%N]
  | Class neg rs => [91%N] ++ (if neg then [94%N] else []) ++ flat_map pp_range rs ++ [93%N]
  | Seq a b => paren (2 <=? lvl) (pp_at 1 a ++ pp_at 1 b)
  | Alt a b => paren (1 <=? lvl) (pp_at 0 a ++ [124%N] ++ pp_at 0 b)
  | Star a => paren (3 <=? lvl) (pp_at 3 a ++ [42%N])
  | Plus a => paren (3 <=? lvl) (pp_at 3 a ++ [43%N])
  | Opt a => paren (3 <=? lvl) (pp_at 3 a ++ [63%N])
  | Group cap a => (if cap then [40%N] else [40; 63; 58]%N) ++ pp_at 0 a ++ [41%N]
  | Bol => paren (3 <=? lvl) [94%N]
  | Eol => paren (3 <=? lvl) [36%N]
  end.
Definition pp (r : re) : str := pp_at 0 r.

(* ASTs that have a concrete syntax in the crate: classes are non-empty with lo <= hi,
   no surrogate code points, scalar values only *)
Definition scalar_ok (c : N) : bool :=
  ((c <? 55296)%N || ((57343 <? c)%N && (c <=? 1114111)%N)).
Fixpoint re_wf (r : re) : bool :=
  match r with
  | Chr c => scalar_ok c
  | Class _ rs => nonempty rs && forallb (fun r => scalar_ok (fst r) && scalar_ok (snd r) && (fst r <=? snd r)%N) rs
  | Seq a b | Alt a b => re_wf a && re_wf b
  | Star a | Plus a | Opt a | Group _ a => re_wf a
  | _ => true
  end.
