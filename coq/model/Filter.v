(* Filter.v — model of transaction filters:
   every `impl Predicate<Transaction>` of tackler-core/src/filter.rs and
   tackler-core/src/filter/{logic,txn,posting}/*.rs, nullary_true.rs, nullary_false.rs,
   and TxnData::from / filter / make_metadata / calc_txn_checksum (pre-image) of
   tackler-core/src/model/txn_data.rs.
   Regular expressions are NOT modelled here (C11/C18): a regex leaf carries a pattern id
   and is evaluated through an abstract whole-haystack matcher
   `re : N -> list N -> bool` (Regex::is_match of the pattern compiled as ^(?:p)$).
   Definitions only. *)
From TkModel Require Import Base Dec Acct Txn.
Local Open Scope Z_scope.

(* Txn.posting has no comment field; the posting comments (Posting.comment : Option<String>)
   travel as a list parallel to t_posts *)
Record ftxn : Type := mkFtxn { ft_txn : txn; ft_pcomments : list (option (list N)) }.

Definition ft_hdr (t : ftxn) : header := t_hdr (ft_txn t).
Definition ft_posts (t : ftxn) : list posting := t_posts (ft_txn t).

(* tackler_api::filters::TxnFilter — 2 nullary, 3 logic, 9 header, 6 posting variants.
   Field order as in the Rust structs. Time stamps are instants (ns), uuid = canonical
   lower-case text, regex = pattern id. *)
Inductive tfilter : Type :=
| FTrue                                                   (* NullaryTRUE *)
| FFalse                                                  (* NullaryFALSE *)
| FAnd (fs : list tfilter)                                 (* TxnFilterAND *)
| FOr (fs : list tfilter)                                  (* TxnFilterOR *)
| FNot (f : tfilter)                                       (* TxnFilterNOT *)
| FTsBegin (b : Z)                                        (* TxnFilterTxnTSBegin *)
| FTsEnd (e : Z)                                          (* TxnFilterTxnTSEnd *)
| FCode (r : N)                                           (* TxnFilterTxnCode *)
| FDesc (r : N)                                           (* TxnFilterTxnDescription *)
| FUuid (u : list N)                                      (* TxnFilterTxnUUID *)
| FBBox (south west north east : dec)                     (* TxnFilterBBoxLatLon *)
| FBBoxAlt (south west depth north east height : dec)     (* TxnFilterBBoxLatLonAlt *)
| FTags (r : N)                                           (* TxnFilterTxnTags *)
| FComments (r : N)                                       (* TxnFilterTxnComments *)
| FPAccount (r : N)                                       (* TxnFilterPostingAccount *)
| FPComment (r : N)                                       (* TxnFilterPostingComment *)
| FPAmountEq (r : N) (a : dec)                            (* TxnFilterPostingAmountEqual *)
| FPAmountLt (r : N) (a : dec)                            (* TxnFilterPostingAmountLess *)
| FPAmountGt (r : N) (a : dec)                            (* TxnFilterPostingAmountGreater *)
| FPCommodity (r : N).                                    (* TxnFilterPostingCommodity *)

(* Option::is_some_and *)
Definition is_some_and {A} (o : option A) (p : A -> bool) : bool :=
  match o with Some x => p x | None => false end.

(* south <= lat && lat <= north *)
Definition lat_in_box (south north lat : dec) : bool := dleb south lat && dleb lat north.

(* the longitude test of both bounding-box filters (single definition, so that a change of
   the branch condition is one token here):
     if self.west <= self.east { west <= lon && lon <= east } else { west <= lon || lon <= east }
   (before commit be14958 the condition was `west < east`: west == east took the wrapping
   branch and matched every longitude — finding F3, fixed) *)
Definition lon_in_box (west east lon : dec) : bool :=
  if dleb west east then dleb west lon && dleb lon east
  else dleb west lon || dleb lon east.

Definition bbox2d (south west north east : dec) (g : geo) : bool :=
  lat_in_box south north (g_lat g) && lon_in_box west east (g_lon g).

Definition post_account_str (p : posting) : list N := acct_str (p_acc p).

(* impl Predicate<Transaction> for TxnFilter and every variant *)
Fixpoint eval (re : N -> list N -> bool) (f : tfilter) (t : ftxn) : bool :=
  match f with
  | FTrue => true
  | FFalse => false
  | FAnd fs => forallb (fun g => eval re g t) fs               (* iter().all *)
  | FOr fs => existsb (fun g => eval re g t) fs                (* iter().any *)
  | FNot g => negb (eval re g t)
  | FTsBegin b =>                                              (* begin.cmp(txn instant): Less | Equal *)
      match Z.compare b (h_inst (ft_hdr t)) with Gt => false | _ => true end
  | FTsEnd e =>                                                (* (txn instant).cmp(end): Less *)
      match Z.compare (h_inst (ft_hdr t)) e with Lt => true | _ => false end
  | FCode r => is_some_and (h_code (ft_hdr t)) (re r)
  | FDesc r => is_some_and (h_desc (ft_hdr t)) (re r)
  | FUuid u => is_some_and (h_uuid (ft_hdr t)) (fun x => str_eqb x u)
  | FBBox s w n e => is_some_and (h_loc (ft_hdr t)) (bbox2d s w n e)
  | FBBoxAlt s w d n e h =>
      is_some_and (h_loc (ft_hdr t)) (fun g =>
        if bbox2d s w n e g
        then match g_alt g with Some z => dleb d z && dleb z h | None => false end
        else false)
  | FTags r => existsb (re r) (h_tags (ft_hdr t))              (* None / empty: false *)
  | FComments r => existsb (re r) (h_comments (ft_hdr t))
  | FPAccount r => existsb (fun p => re r (post_account_str p)) (ft_posts t)
  | FPComment r => existsb (fun c => is_some_and c (re r)) (ft_pcomments t)
  | FPAmountEq r a => existsb (fun p => deqb (p_amount p) a && re r (post_account_str p)) (ft_posts t)
  | FPAmountLt r a => existsb (fun p => dltb (p_amount p) a && re r (post_account_str p)) (ft_posts t)
  | FPAmountGt r a => existsb (fun p => dltb a (p_amount p) && re r (post_account_str p)) (ft_posts t)
  | FPCommodity r => existsb (fun p => re r (p_comm p)) (ft_posts t)
  end.

(* TxnData::from: stable sort by header *)
Definition ftxn_leb (a b : ftxn) : bool := txn_leb (ft_txn a) (ft_txn b).
Definition txn_data_from (l : list ftxn) : list ftxn := sort_by ftxn_leb l.

(* calc_txn_checksum up to the hash: the sorted uuid texts that are fed to the hasher *)
Definition E_no_uuid : N := 1%N.
Definition E_dup_uuid : N := 2%N.
Definition str_leb (a b : list N) : bool := cmp_leb (str_cmp a b).
Fixpoint has_dup (l : list (list N)) : bool :=
  match l with
  | [] => false
  | x :: l' => existsb (str_eqb x) l' || has_dup l'
  end.
Definition checksum_preimage (txns : list ftxn) : res (list (list N)) :=
  res_bind
    (mapM (fun t => match h_uuid (ft_hdr t) with Some u => Ok u | None => Err E_no_uuid end) txns)
    (fun us => let u := sort_by str_leb us in if has_dup u then Err E_dup_uuid else Ok u).

(* make_metadata: the TxnSetChecksum item exists only when a hash is configured (audit mode) *)
Record set_md : Type := mkSetMd { md_size : nat; md_preimage : list (list N) }.
Definition make_metadata (audit : bool) (txns : list ftxn) : res (option set_md) :=
  if audit then res_map (fun u => Some (mkSetMd (length txns) u)) (checksum_preimage txns)
  else Ok None.

(* TxnData::filter on the (sorted) transaction data *)
Definition txn_filter (re : N -> list N -> bool) (f : tfilter) (data : list ftxn) : list ftxn :=
  filter (eval re f) data.
Definition txn_data_filter (re : N -> list N -> bool) (audit : bool) (f : tfilter) (data : list ftxn)
  : res (list ftxn * option set_md) :=
  let refvec := txn_filter re f data in
  res_map (fun md => (refvec, md)) (make_metadata audit refvec).
