(* Price.v — price data base and price conversion, transcribed from
     tackler-core/src/model/price_entry.rs      PriceEntry: Ord / PartialEq
     tackler-core/src/parser/pricedb_parser.rs  pricedb_from_str: sorted().dedup()
     tackler-core/src/kernel/settings.rs        Settings::try_from: choice of the lookup
     tackler-core/src/kernel/price_lookup.rs    PriceLookup::make_ctx, PriceLookupCtx::convert_prices(_inner), metadata
   Definitions only.  Instants are Z nanoseconds (jiff::Zoned compares by instant only). *)
From TkModel Require Import Base Dec Acct Txn.
Local Open Scope Z_scope.

(* one `P <timestamp> <base> <rate> <eq>` line (the comment is not modelled: nothing reads it) *)
Record pentry : Type := mkPE { pe_ts : Z; pe_base : list N; pe_rate : dec; pe_eq : list N }.

(* impl Ord for PriceEntry: timestamp, then base commodity, then eq commodity (Commodity derives Ord on its name) *)
Definition pe_cmp (a b : pentry) : comparison :=
  cmp_then (Z.compare (pe_ts a) (pe_ts b))
    (cmp_then (str_cmp (pe_base a) (pe_base b)) (str_cmp (pe_eq a) (pe_eq b))).
Definition pe_leb (a b : pentry) : bool := cmp_leb (pe_cmp a b).
(* impl PartialEq for PriceEntry: the same three fields; the rate is NOT compared *)
Definition pe_eqb (a b : pentry) : bool :=
  (pe_ts a =? pe_ts b) && str_eqb (pe_base a) (pe_base b) && str_eqb (pe_eq a) (pe_eq b).

(* itertools `dedup()` (= coalesce): the first element of a run of equal elements is kept,
   every following element equal to the kept one is dropped *)
Fixpoint coalesce_dedup {A} (eqb : A -> A -> bool) (last : A) (l : list A) : list A :=
  match l with
  | [] => [last]
  | x :: l' => if eqb last x then coalesce_dedup eqb last l' else last :: coalesce_dedup eqb x l'
  end.
Definition dedup_adj {A} (eqb : A -> A -> bool) (l : list A) : list A :=
  match l with [] => [] | x :: l' => coalesce_dedup eqb x l' end.

(* pricedb_from_str: `.into_iter().sorted().dedup().collect()` — stable sort, so of several
   lines with the same (instant, base, eq) the FIRST line of the file survives *)
Definition load_db (file : list pentry) : list pentry := dedup_adj pe_eqb (sort_by pe_leb file).

(* ---- Settings::try_from: which lookup, and is the price file read at all ---- *)
Inductive lookup_type : Type := LtNone | LtLastPrice | LtTxnTime | LtGivenTime.
Inductive lookup : Type := LkNone | LkTxnTime | LkLastPrice | LkGivenTime (t : Z).

Definition E_no_report_commodity : N := 20%N.
Definition E_before_not_allowed : N := 21%N.
Definition E_no_given_time : N := 22%N.
Definition E_empty_pricedb : N := 23%N.

(* repeat_till(1.., parse_price_entry, eof): a price file without any entry is an error *)
Definition load_price_file (file : list pentry) : res (list pentry) :=
  match file with [] => Err E_empty_pricedb | _ => Ok (load_db file) end.

Definition settings_price (lt : lookup_type) (report_comm : option (list N)) (before : option Z)
                          (file : list pentry) : res (lookup * list pentry) :=
  let no_before (lk : lookup) : res lookup :=
    match before with Some _ => Err E_before_not_allowed | None => Ok lk end in
  match report_comm, lt with
  | None, LtLastPrice | None, LtTxnTime | None, LtGivenTime => Err E_no_report_commodity
  | _, _ =>
    res_bind (match lt with
              | LtLastPrice => no_before LkLastPrice
              | LtTxnTime => no_before LkTxnTime
              | LtGivenTime => match before with Some t => Ok (LkGivenTime t) | None => Err E_no_given_time end
              | LtNone => no_before LkNone
              end)
      (fun lk =>
         match lt with
         | LtNone => Ok (lk, [])                    (* Price::default(): the file is not read *)
         | _ => res_map (fun db => (lk, db)) (load_price_file file)
         end)
  end.

(* ---- PriceLookupCtx ---- *)
(* HashMap used through get / insert / collect only: association list, `upsert` overwrites in place *)
Fixpoint assoc_get {V} (k : list N) (m : list (list N * V)) : option V :=
  match m with
  | [] => None
  | (k', v) :: m' => if str_eqb k k' then Some v else assoc_get k m'
  end.
Fixpoint upsert {V} (k : list N) (v : V) (m : list (list N * V)) : list (list N * V) :=
  match m with
  | [] => [(k, v)]
  | (k', v') :: m' => if str_eqb k k' then (k', v) :: m' else (k', v') :: upsert k v m'
  end.

Inductive cache : Type :=
| CFixed (m : list (list N * (Z * dec)))          (* commodity -> (instant, rate) *)
| CTimed (m : list (list N * list pentry)).       (* commodity -> its entries, by instant *)
Record pctx : Type := mkCtx { c_cache : cache; c_target : option (list N) }.
Definition default_ctx : pctx := mkCtx (CFixed []) None.

Definition str_leb (a b : list N) : bool := cmp_leb (str_cmp a b).
Definition mem_str (c : list N) (l : list (list N)) : bool := existsb (str_eqb c) l.

(* BTreeSet of the posting commodities (acctn.comm) of all transactions of the set: ascending, unique.
   The empty name (no commodity) is a member like any other. *)
Definition used_commodities (txns : list txn) : list (list N) :=
  dedup_by str_eqb (sort_by str_leb (map p_comm (flat_map t_posts txns))).

(* the instant condition of the fixed cache: `matches!(self, LastPriceDbEntry) || e.timestamp < lookup_timestamp`
   — ref = None for last-price (every entry counts), Some t for given-time *)
Definition before_ref (ref : option Z) (e : pentry) : bool :=
  match ref with None => true | Some t => pe_ts e <? t end.
(* Cache::Fixed: filter + map + collect::<HashMap>() — a later entry of the (sorted) db overwrites *)
Definition fixed_keep (used : list (list N)) (target : list N) (ref : option Z) (e : pentry) : bool :=
  mem_str (pe_base e) used && str_eqb (pe_eq e) target
  && negb (str_eqb (pe_base e) target)          (* a self pair is never a rate of the report *)
  && before_ref ref e.
Definition fixed_cache (used : list (list N)) (target : list N) (ref : option Z) (db : list pentry)
  : list (list N * (Z * dec)) :=
  fold_left (fun m e => if fixed_keep used target ref e then upsert (pe_base e) (pe_ts e, pe_rate e) m else m) db [].

(* Cache::Timed: per used commodity its entries into the target, `sorted_by_key(timestamp)` (stable);
   commodities without entry get no key *)
Definition ts_leb (a b : pentry) : bool := pe_ts a <=? pe_ts b.
Definition comm_cache (target comm : list N) (db : list pentry) : list pentry :=
  sort_by ts_leb (filter (fun e => str_eqb comm (pe_base e) && str_eqb (pe_eq e) target
                                   && negb (str_eqb (pe_base e) target)) db).
Definition timed_cache (used : list (list N)) (target : list N) (db : list pentry)
  : list (list N * list pentry) :=
  flat_map (fun comm => match comm_cache target comm db with [] => [] | cc => [(comm, cc)] end) used.

(* PriceLookup::make_ctx *)
Definition make_ctx (lk : lookup) (txns : list txn) (target : option (list N)) (db : list pentry) : pctx :=
  match target with
  | None => default_ctx
  | Some tgt =>
    let used := used_commodities txns in
    match lk with
    | LkNone => default_ctx
    | LkTxnTime => mkCtx (CTimed (timed_cache used tgt db)) (Some tgt)
    | LkLastPrice => mkCtx (CFixed (fixed_cache used tgt None db)) (Some tgt)
    | LkGivenTime t => mkCtx (CFixed (fixed_cache used tgt (Some t) db)) (Some tgt)
    end
  end.

(* `binary_search_by_key(&(txn ts, posting commodity), |e| (e.timestamp, e.base_commodity))` followed by
   `Ok(i) => Some(i), Err(i) => i.checked_sub(1)`, by the contract of slice::binary_search on a slice sorted
   by that key: an element with an equal key if there is one, otherwise the element before the insertion
   point (none when the insertion point is 0). *)
Definition key_cmp_entry (t : Z) (c : list N) (e : pentry) : comparison :=
  cmp_then (Z.compare (pe_ts e) t) (str_cmp (pe_base e) c).
Fixpoint search_le (kc : pentry -> comparison) (l : list pentry) (prev : option pentry) : option pentry :=
  match l with
  | [] => prev
  | e :: l' => match kc e with
               | Eq => Some e            (* Ok(i) *)
               | Gt => prev              (* Err(i): i is the insertion point *)
               | Lt => search_le kc l' (Some e)
               end
  end.

(* a converted posting as the reports receive it: (TxnAccount = account + commodity, amount, rate) *)
Record conv : Type := mkConv { cv_acc : acct; cv_comm : list N; cv_amount : dec; cv_rate : option dec }.

Definition unconverted (p : posting) : conv := mkConv (p_acc p) (p_comm p) (p_amount p) None.

(* the closure of convert_prices_inner:
   `if p.acctn.comm.is_any() && p.acctn.comm != in_commodity { .. } else { unchanged }` *)
Definition convert_post (ctx_cache : cache) (target : list N) (t : Z) (p : posting) : conv :=
  match p_comm p with
  | [] => unconverted p                                   (* !comm.is_any() *)
  | _ =>
    if str_eqb (p_comm p) target then unconverted p       (* already in the report commodity *)
    else
    match ctx_cache with
    | CFixed m =>
        match assoc_get (p_comm p) m with
        | Some (_, r) => mkConv (p_acc p) target (dmul (p_amount p) r) None     (* no rate reported *)
        | None => unconverted p
        end
    | CTimed m =>
        match assoc_get (p_comm p) m with
        | Some cc =>
            match search_le (key_cmp_entry t (p_comm p)) cc None with
            | Some e => mkConv (p_acc p) target (dmul (p_amount p) (pe_rate e)) (Some (pe_rate e))
            | None => unconverted p
            end
        | None => unconverted p                           (* cache miss *)
        end
    end
  end.

(* PriceLookupCtx::convert_prices *)
Definition convert_prices (ctx : pctx) (tx : txn) : list conv :=
  match c_target ctx with
  | Some tgt => map (convert_post (c_cache ctx) tgt (h_inst (t_hdr tx))) (t_posts tx)
  | None => map unconverted (t_posts tx)
  end.

(* PriceLookupCtx::metadata: one record per cache key, ascending by commodity name;
   fixed caches list (instant, rate), the timed cache lists the source only *)
Record prec : Type := mkPrec { pr_source : list N; pr_target : list N; pr_used : option (Z * dec) }.
Definition by_key {V} (m : list (list N * V)) : list (list N * V) :=
  sort_by (fun a b => str_leb (fst a) (fst b)) m.
Definition metadata (ctx : pctx) : list prec :=
  match c_target ctx with
  | None => []
  | Some tgt =>
    match c_cache ctx with
    | CFixed m => map (fun kv => mkPrec (fst kv) tgt (Some (snd kv))) (by_key m)
    | CTimed m => map (fun kv => mkPrec (fst kv) tgt None) (by_key m)
    end
  end.

(* the whole pipeline as a report sees it *)
Definition price_run (lk : lookup) (target : option (list N)) (file : list pentry) (txns : list txn)
  : list (list conv) :=
  let ctx := make_ctx lk txns target (load_db file) in map (convert_prices ctx) txns.

(* one posting (of a transaction with instant t) through the whole pipeline *)
Definition convert_one (lk : lookup) (txns : list txn) (target : list N) (file : list pentry)
                       (t : Z) (p : posting) : conv :=
  convert_post (c_cache (make_ctx lk txns (Some target) (load_db file))) target t p.
