(* Group.v — model of tackler-core kernel/accumulator.rs `balance_groups` and
   report/balance_group_reporter.rs `get_group_by_op`.  Definitions only.

     txns.iter().map(|txn| (group_by_op(txn), txn))
         .sorted_by(|a, b| a.0.cmp(&b.0))                 stable, String order of the key
         .chunk_by(|(key, _)| key.clone())                consecutive equal keys
         .map(|(key, members)| Balance::from_iter(&key, members, ..).expect(..))
         .filter(|bal| !bal.is_empty())
         .sorted_by_key(|bal| bal.title.clone())          stable, String order *)
From TkModel Require Import Base Dec Acct Txn Balance Time.
Local Open Scope Z_scope.

(* get_group_by_op: the key of a transaction is the period of its instant in the report zone *)
Definition txn_key (gb : group_by) (tzoff : Z -> Z) (t : txn) : str :=
  instant_key gb tzoff (h_inst (t_hdr t)).

(* itertools chunk_by: maximal runs of consecutive elements with equal key, in order.
   (Written as a right fold; the runs are the same whichever end one starts from,
   because key equality is an equivalence.) *)
Fixpoint chunk_by {A} (kf : A -> str) (l : list A) : list (str * list A) :=
  match l with
  | [] => []
  | x :: l' =>
      match chunk_by kf l' with
      | (k, g) :: rest => if str_eqb (kf x) k then (k, x :: g) :: rest
                          else (kf x, [x]) :: (k, g) :: rest
      | [] => [(kf x, [x])]
      end
  end.

(* the postings as the balance sees them when no price conversion is configured *)
Definition txn_bposts (t : txn) : list bpost :=
  map (fun p => mkBpost (p_acc p) (p_comm p) (p_amount p)) (t_posts t).

Record bgroup : Type := mkGroup { g_title : str; g_rep : bal_report }.

Definition group_is_empty (g : bgroup) : bool :=
  match b_rows (g_rep g) with [] => true | _ => false end.

Definition title_leb (a b : bgroup) : bool := cmp_leb (str_cmp (g_title a) (g_title b)).

Fixpoint opt_all {A} (l : list (option A)) : option (list A) :=
  match l with
  | [] => Some []
  | None :: _ => None
  | Some x :: l' => option_map (cons x) (opt_all l')
  end.

(* Balance::from_iter(title, txns of the chunk, ..); conv = price conversion of one
   transaction's postings (PriceLookupCtx::convert_prices; txn_bposts when none) *)
Definition group_of (known : acct -> bool) (ord : list ksum -> list ksum) (sel : brow -> bool)
           (conv : txn -> list bpost) (c : str * list txn) : option bgroup :=
  option_map (mkGroup (fst c)) (balance_report known ord sel (flat_map conv (snd c))).

(* the (key, transaction) pairs, stably sorted by key, chunked: (key, members) *)
Definition keyed_leb (a b : str * txn) : bool := cmp_leb (str_cmp (fst a) (fst b)).
Definition group_members (kf : txn -> str) (txns : list txn) : list (str * list txn) :=
  map (fun c => (fst c, map snd (snd c)))
      (chunk_by fst (sort_by keyed_leb (map (fun t => (kf t, t)) txns))).

(* balance_groups; None = the `.expect(..)` panics (inner balance failed) *)
Definition balance_groups (known : acct -> bool) (ord : list ksum -> list ksum) (sel : brow -> bool)
           (conv : txn -> list bpost) (kf : txn -> str) (txns : list txn) : option (list bgroup) :=
  match opt_all (map (group_of known ord sel conv) (group_members kf txns)) with
  | None => None
  | Some gs => Some (sort_by title_leb (filter (fun g => negb (group_is_empty g)) gs))
  end.

(* the balance-group report of a transaction set (TxnData::from sorts by header) *)
Definition balance_group_report known ord sel conv (gb : group_by) (tzoff : Z -> Z)
           (txns : list txn) : option (list bgroup) :=
  balance_groups known ord sel conv (txn_key gb tzoff) (sort_txns txns).
