(* Charts.v — model of the charts of accounts / commodities / tags and of strict mode:
   tackler-core kernel/settings.rs (AccountTrees::from, build_account_tree, Commodities::from,
   Settings::try_from: equity account, report commodity, price db; get_txn_account,
   get_or_create_txn_account, inner_get_or_create_commodity, get_or_create_tag, get_commodity)
   and the call sites in parser/parts/posting_value.rs (handle_posting_value),
   txn_posting.rs (handle_posting), txn_postings.rs (implicit last posting),
   txn_meta_tags.rs (handle_tags), pricedb.rs (parse_price_entry).
   The code as of /repo 6389815 (synthetic parents are built in both modes).
   Layered on Accept.v: the chart look-ups thread a state, the value logic is Accept's.
   Definitions only. *)
From TkModel Require Import Base Dec Acct Txn Accept.

(* the mutable part of Settings that the look-ups read and write.
   HashMaps used for look-up only: lists with membership tests (keys only; the values are
   determined by the keys). Accounts are component lists (Rust: the account string). *)
Record charts : Type := mkCharts {
  c_defined : list (list (list N));    (* accounts.defined_accounts *)
  c_synth : list (list (list N));      (* accounts.synthetic_parents *)
  c_comms : list (list N);             (* commodities.names *)
  c_permit_empty : bool;               (* commodities.permit_empty_commodity *)
  c_tags : list (list N);              (* tags *)
  c_strict : bool }.                   (* strict_mode *)

Definition mem_acct (a : acct) (l : list acct) : bool := existsb (acct_eqb a) l.
Definition mem_str (s : str) (l : list str) : bool := existsb (str_eqb s) l.

(* error classes (coarse) *)
Definition E_unknown_account : N := 20%N.
Definition E_unknown_commodity : N := 21%N.
Definition E_empty_commodity : N := 22%N.
Definition E_unknown_tag : N := 23%N.
Definition E_empty_tag : N := 24%N.
Definition E_dup_tags : N := 25%N.
Definition E_equity_account : N := 26%N.
Definition E_no_report_commodity : N := 27%N.

(* AccountTrees::build_account_tree(target, atn, other); other = None is the empty list.
   Climbs from atn towards the root and inserts every parent that is in neither tree;
   stops at the first parent that is present (or at a root). fuel = depth of atn. *)
Fixpoint build_tree (fuel : nat) (target other : list acct) (a : acct) : list acct :=
  match fuel with
  | O => target
  | S f =>
      let p := parent a in
      if mem_acct p other || mem_acct p target || Nat.eqb (length a) 1 then target
      else build_tree f (p :: target) other p
  end.

(* AccountTrees::from: the synthetic parents of the declared accounts (both modes).
   The loop runs over a HashMap; the list order stands for one iteration order —
   Charts_proofs.synth_spec shows that membership does not depend on it. *)
Definition synth_from (defined : list acct) : list acct :=
  fold_left (fun sap a => if mem_acct (parent a) defined then sap
                          else build_tree (length a) sap defined a)
            defined [].

Definition set_comms (ch : charts) (l : list str) : charts :=
  mkCharts (c_defined ch) (c_synth ch) l (c_permit_empty ch) (c_tags ch) (c_strict ch).
Definition set_defined (ch : charts) (l : list acct) : charts :=
  mkCharts l (c_synth ch) (c_comms ch) (c_permit_empty ch) (c_tags ch) (c_strict ch).
Definition set_tags (ch : charts) (l : list str) : charts :=
  mkCharts (c_defined ch) (c_synth ch) (c_comms ch) (c_permit_empty ch) l (c_strict ch).

(* Settings::get_commodity *)
Definition get_commodity (ch : charts) (n : str) : bool := mem_str n (c_comms ch).

(* Settings::inner_get_or_create_commodity *)
Definition goc (ch : charts) (name : option str) : res charts :=
  match name with
  | None => Ok ch
  | Some [] =>
      if c_permit_empty ch
      then (if mem_str [] (c_comms ch) then Ok ch else Ok (set_comms ch ([] :: c_comms ch)))
      else Err E_empty_commodity
  | Some n =>
      if mem_str n (c_comms ch) then Ok ch
      else if c_strict ch then Err E_unknown_commodity
      else Ok (set_comms ch (n :: c_comms ch))
  end.

(* Settings::get_txn_account: defined or synthetic; the commodity must be known *)
Definition acct_known (ch : charts) (a : acct) : bool :=
  mem_acct a (c_defined ch) || mem_acct a (c_synth ch).
Definition get_txn_account (ch : charts) (a : acct) (c : str) : bool :=
  get_commodity ch c && acct_known ch a.

(* Settings::get_or_create_txn_account *)
Definition goc_account (ch : charts) (a : acct) (c : str) : res charts :=
  res_bind (goc ch (Some c)) (fun ch1 =>
    if mem_acct a (c_defined ch1) then
      if c_strict ch1 then Ok ch1
      else Ok (set_defined ch1 (build_tree (length a) (c_defined ch1) [] a))
    else if c_strict ch1 then Err E_unknown_account
    else
      let d1 := a :: c_defined ch1 in
      let d2 := build_tree (length a) d1 [] a in
      Ok (set_defined ch1 (build_tree (length a) d2 [] a))).

(* Settings::get_or_create_tag *)
Definition goc_tag (ch : charts) (t : str) : res charts :=
  match t with
  | [] => Err E_empty_tag
  | _ => if mem_str t (c_tags ch) then Ok ch
         else if c_strict ch then Err E_unknown_tag
         else Ok (set_tags ch (t :: c_tags ch))
  end.

Fixpoint goc_tags (ch : charts) (ts : list str) : res charts :=
  match ts with
  | [] => Ok ch
  | t :: ts' => res_bind (goc_tag ch t) (fun ch1 => goc_tags ch1 ts')
  end.

(* txn_meta_tags.rs handle_tags: look-ups, then the duplicate test *)
Definition handle_tags (ch : charts) (ts : list str) : res charts :=
  res_bind (goc_tags ch ts) (fun ch1 =>
    if Nat.eqb (length (distinct_strs ts)) (length ts) then Ok ch1 else Err E_dup_tags).

(* posting_value.rs handle_posting_value: the two commodity look-ups in the code's order
   (posting commodity; then closing-price commodity, or the posting commodity again).
   The commodity of an opening position '{..}' is never looked up. *)
Definition value_lookups (ch : charts) (ou : option raw_unit) : res charts :=
  match ou with
  | None => res_bind (goc ch None) (fun ch1 => goc ch1 None)
  | Some u =>
      res_bind (goc ch (Some (u_comm u))) (fun ch1 =>
        match u_closing u with
        | Some (_, _, c) => goc ch1 (Some c)
        | None => goc ch1 (Some (u_comm u))
        end)
  end.

(* parse_txn_posting: handle_posting_value (look-ups, then the value checks of
   Accept.value_position), handle_posting (account look-up with the posting commodity,
   which looks the commodity up once more — the empty name included), Posting::from *)
Definition chart_posting (ch : charts) (rp : raw_post) : res (charts * posting) :=
  res_bind (value_lookups ch (rp_unit rp)) (fun ch1 =>
  res_bind (value_position (rp_amount rp) (rp_unit rp)) (fun '(pc, tc, ta, tot) =>
  res_bind (goc_account ch1 (rp_acc rp) pc) (fun ch2 =>
  res_bind (mk_posting (rp_acc rp) pc (rp_amount rp) ta tot tc) (fun p => Ok (ch2, p))))).

Fixpoint chart_postings (ch : charts) (l : list raw_post) : res (charts * list posting) :=
  match l with
  | [] => Ok (ch, [])
  | rp :: l' =>
      res_bind (chart_posting ch rp) (fun '(ch1, p) =>
      res_bind (chart_postings ch1 l') (fun '(ch2, ps) => Ok (ch2, p :: ps)))
  end.

(* a transaction as the parser sees it: tags of the header, then Accept's raw transaction *)
Record craw_txn : Type := mkCrawTxn { ct_tags : list (list N); ct_raw : raw_txn }.

(* parse_txn: metadata (tags), postings, implicit last posting (get_or_create_txn_account
   with the transaction commodity of the first posting), single commodity, zero sum *)
Definition accept_txn_charts (ch : charts) (ct : craw_txn) : res (charts * list posting) :=
  let rt := ct_raw ct in
  res_bind (handle_tags ch (ct_tags ct)) (fun ch0 =>
  match rt_posts rt with
  | [] => Err E_empty
  | _ =>
    res_bind (chart_postings ch0 (rt_posts rt)) (fun '(ch1, ps) =>
      let with_last : res (charts * list posting) :=
        match rt_last rt with
        | None => Ok (ch1, ps)
        | Some a =>
            let amount := dneg (txn_sum ps) in
            let comm := match ps with p :: _ => p_txn_comm p | [] => [] end in
            res_bind (goc_account ch1 a comm) (fun ch2 =>
            res_bind (mk_posting a comm amount amount false comm) (fun lp => Ok (ch2, ps ++ [lp])))
        end in
      res_bind with_last (fun '(ch2, ps) =>
        if Nat.ltb 1 (length (distinct_strs (map p_txn_comm ps))) then Err E_commodities
        else if is_zero (txn_sum ps) then Ok (ch2, ps) else Err E_unbalanced))
  end).

(* the journal: state threaded in file order; accepted as a whole or not at all *)
Fixpoint accept_journal_charts (ch : charts) (j : list craw_txn) : res (charts * list (list posting)) :=
  match j with
  | [] => Ok (ch, [])
  | ct :: j' =>
      res_bind (accept_txn_charts ch ct) (fun '(ch1, ps) =>
      res_bind (accept_journal_charts ch1 j') (fun '(ch2, l) => Ok (ch2, ps :: l)))
  end.

(* the configuration as far as Settings::try_from's chart logic reads it *)
Record config : Type := mkConfig {
  cf_strict : bool;
  cf_accounts : list (list (list N));
  cf_comms : list (list N);
  cf_permit_empty : bool;
  cf_tags : list (list N);
  cf_equity_export : bool;                 (* export targets contain equity *)
  cf_equity_account : list (list N);
  cf_report_comm : option (list N);        (* report.commodity of the file *)
  cf_overlap_comm : option (list N);       (* command-line override of it *)
  cf_price_on : bool;                      (* price lookup type <> none *)
  cf_price_comms : list (list N * list N)  (* base / equivalent commodity of every price entry, file order *)
}.

Fixpoint price_lookups (ch : charts) (l : list (str * str)) : res charts :=
  match l with
  | [] => Ok ch
  | (b, e) :: l' =>
      res_bind (goc ch (Some b)) (fun ch1 =>
      res_bind (goc ch1 (Some e)) (fun ch2 => price_lookups ch2 l'))
  end.

Definition init_charts (cf : config) : charts :=
  mkCharts (cf_accounts cf) (synth_from (cf_accounts cf)) (cf_comms cf) (cf_permit_empty cf)
           (cf_tags cf) (cf_strict cf).

(* Settings::try_from: equity account (strict only, declared accounts only), report
   commodity of the file and then of the command line (both are looked up), price
   conversion needs a report commodity, commodities of the price entries *)
Definition settings_from (cf : config) : res charts :=
  let ch0 := init_charts cf in
  if cf_strict cf && cf_equity_export cf && negb (mem_acct (cf_equity_account cf) (cf_accounts cf))
  then Err E_equity_account
  else
    res_bind (match cf_report_comm cf with Some c => goc ch0 (Some c) | None => Ok ch0 end) (fun ch1 =>
    res_bind (match cf_overlap_comm cf with Some c => goc ch1 (Some c) | None => Ok ch1 end) (fun ch2 =>
      let has_rc := match cf_overlap_comm cf, cf_report_comm cf with None, None => false | _, _ => true end in
      if negb has_rc && cf_price_on cf then Err E_no_report_commodity
      else if cf_price_on cf then price_lookups ch2 (cf_price_comms cf) else Ok ch2)).

(* configuration, then the journal *)
Definition load (cf : config) (j : list craw_txn) : res (charts * list (list posting)) :=
  res_bind (settings_from cf) (fun ch => accept_journal_charts ch j).
