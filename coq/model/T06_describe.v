(* T06_describe.v — the description of a filter definition UNDER A REPORT ZONE (the TxnFilterDescription item of the
   metadata): tackler-api filters FilterDefZoned / IndentDisplay, where the two time-stamp leaves print
     rfc_3339(&self.begin.to_zoned(tz))   resp.   rfc_3339(&self.end.to_zoned(tz))
   i.e. the civil time of the instant in the report zone followed by the zone's offset ("%Y-%m-%dT%H:%M:%S%.f%:z").
   Codec.describe_def is the same text for the zone UTC; every other leaf does not read the zone.  The zone is a
   fixed offset (seconds).  Definitions only. *)
From TkModel Require Import Base Dec.
From TkModel Require Codec Tstamp.
Local Open Scope Z_scope.

(* rfc_3339 of the instant z (ns) shown at the offset off *)
Definition ts_show_rfc3339_tz (off z : Z) : list N :=
  Codec.ts_show_civil (Codec.ts_civil (z + off * Codec.ns_per_s)) ++ Tstamp.fmt_offset off.

Fixpoint describe_tz (off : Z) (indent : list N) (f : Codec.cfilter) : list N :=
  match f with
  | Codec.CAnd fs => Codec.line indent [65;78;68]%N ++ concat (map (describe_tz off (Codec.ind2 indent)) fs)
  | Codec.COr fs => Codec.line indent [79;82]%N ++ concat (map (describe_tz off (Codec.ind2 indent)) fs)
  | Codec.CNot g => Codec.line indent [78;79;84]%N ++ describe_tz off (Codec.ind2 indent) g
  | Codec.CTsBegin b => Codec.line indent ([84;120;110;32;84;83;58;32;98;101;103;105;110;32]%N ++ ts_show_rfc3339_tz off b)
  | Codec.CTsEnd e => Codec.line indent ([84;120;110;32;84;83;58;32;101;110;100;32;32;32]%N ++ ts_show_rfc3339_tz off e)
  | _ => Codec.describe indent f
  end.

(* impl Display for FilterDefZoned: "Filter\n" then the tree at indent "  " *)
Definition describe_def_tz (off : Z) (f : Codec.cfilter) : list N :=
  [70;105;108;116;101;114;10]%N ++ describe_tz off [32;32]%N f.
