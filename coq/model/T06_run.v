(* T06_run.v — extension T06: ONE function for a whole run of the command line program
     tackler --config <file> --input.file <journal> [--api-filter-def <json>] [--price.before <ts>]
             [--output.dir <dir> --output.prefix <prefix>]
   composed of the existing models only.  Definitions only.

   Rust (read for this file)                                here
     tackler-cli/src/main.rs  run                            run_prepare (everything before the first write),
                                                             run_console / run_files
       Config::from + Settings::try_from                     price_setup (Price.settings_price over PriceText.parse_pricedb)
       parser::paths_to_txns(&[f.path])                      Journal.load_journal (+ audit_uuids: parse_txn_header in audit mode)
       FilterDefinition::from_json_str, txn_data.filter /    Filter.eval over the regex table of Regex.v (run_filter),
         get_all                                             MetaText.make_items (Audit.calc_txn_checksum inside)
       txn_set.is_empty() => error                           E_empty_set
       write_txt_reports (console: metadata once, then per   console_text: MetaText.file_head, frame_report
         target 82 '*', report, 82 '#'; files: metadata +    run_files: report_file / export_file, announce
         report per target, "{:>21} : {}" announcements)
       write_exports (only with --output.dir)                EquityText.print_equity over Equity.equity and MetaText.equity_md,
                                                             Journal.print_journal (identity)
     tackler-core/src/report/{balance,balance_group,register}_reporter.rs  write_txt_report
                                                             report_text = MetaText.report_head ++ T05_report.conv_*_text
     tackler-rs/src/lib.rs  create_output_file               file_name: "<prefix>.<name>.<ext>" below the output directory
     tackler-core/src/config (get_account_selector)          eff_sel (= Config.file_sel)

   What the run configuration carries (run_cfg) is the EFFECTIVE configuration of the run (C19 is about how the
   file and the options combine into it; the selector fall-back per report / global / all is kept here).
   Strict mode is off (no charts).  Account selectors are literal account names (T05_report: regular
   expressions are C11's subject); the pattern text of a name is the name.  The report zone is a fixed
   offset with the name it is configured by (the tz database is not modelled: "UTC", "Etc/GMT-3" ...).
   The digest is a Section variable (bytes -> bytes), as in Audit.v / MetaText.v.
   Time-stamp texts (register headers, price records) come from Tstamp.v, period keys from Time.v.
   The description of an applied filter is T06_describe.describe_def_tz at the report offset (Codec.describe_def with
   the two time-stamp leaves rendered in the report zone, as FilterDefZoned does).
   If a report or export cannot be produced by the component models (Balance.balance = None), the run is
   Err E_report: the model then says nothing about partially written output. *)
From TkModel Require Import Base Dec Acct Txn Accept Journal Balance Register Round Price Time Group.
From TkModel Require Import ReportText T05_report PriceText Regex T06_describe.
From TkModel Require Filter Equity EquityText MetaText Audit Codec Tstamp Config.
Local Open Scope Z_scope.

(* ------------------------------------------------------------------ configuration of a run *)
Inductive ts_style : Type := TsDate | TsSeconds | TsFull.
Inductive export_kind : Type := XEquity | XIdentity.

Record run_cfg : Type := mkRunCfg {
  rc_journal : pcfg;                        (* kernel.timestamp: journal zone (fixed offset), default time *)
  rc_audit : bool;                          (* kernel.audit.mode *)
  rc_algo : list N;                         (* kernel.audit.hash, e.g. "SHA-256" *)
  rc_zone_name : list N;                    (* report.report-timezone as configured *)
  rc_zone_off : Z;                          (* ... and its offset from UTC, seconds *)
  rc_scale : scale_cfg;                     (* report.scale *)
  rc_targets : list MetaText.report_kind;   (* report.targets, in the configured order *)
  rc_exports : list export_kind;            (* export.targets *)
  rc_accounts : option (list (list (list N)));     (* report.accounts *)
  rc_bal_acc : option (list (list (list N)));      (* report.balance.accounts *)
  rc_grp_acc : option (list (list (list N)));      (* report.balance-group.accounts *)
  rc_reg_acc : option (list (list (list N)));      (* report.register.accounts *)
  rc_eq_acc : option (list (list (list N)));       (* export.equity.accounts *)
  rc_group_by : group_by;                   (* report.balance-group.group-by *)
  rc_commodity : option (list N);           (* report.commodity *)
  rc_lookup : lookup_type;                  (* price.lookup-type *)
  rc_before : option Z;                     (* --price.before, an instant *)
  rc_title_bal : list N; rc_title_grp : list N; rc_title_reg : list N;
  rc_ts_style : ts_style;                   (* report.register.timestamp-style *)
  rc_eq_account : list (list N);            (* export.equity.equity-account *)
  rc_filter : option (Filter.tfilter * list re);   (* --api-filter-def: the tree (regex leaves = index into the list) *)
  rc_out_dir : list N;                      (* --output.dir as given *)
  rc_prefix : list N }.                     (* --output.prefix *)

(* config::items::get_account_selector: the report's own list, else the global one, else all *)
Definition eff_sel (global per : option (list (list (list N)))) : list (list (list N)) :=
  match per with Some l => l | None => match global with Some g => g | None => [] end end.
Definition sel_of (cfg : run_cfg) (k : MetaText.report_kind) : list (list (list N)) :=
  eff_sel (rc_accounts cfg)
          (match k with
           | MetaText.RBalance => rc_bal_acc cfg
           | MetaText.RBalGroup => rc_grp_acc cfg
           | MetaText.RRegister => rc_reg_acc cfg
           end).
Definition sel_equity (cfg : run_cfg) : list (list (list N)) := eff_sel (rc_accounts cfg) (rc_eq_acc cfg).
(* the configured pattern texts of a literal selector *)
Definition sel_pats (names : list (list (list N))) : list (list N) := map acct_str names.

Definition title_of (cfg : run_cfg) (k : MetaText.report_kind) : list N :=
  match k with
  | MetaText.RBalance => rc_title_bal cfg
  | MetaText.RBalGroup => rc_title_grp cfg
  | MetaText.RRegister => rc_title_reg cfg
  end.

(* the report zone as instant -> offset *)
Definition rtz (cfg : run_cfg) (inst : Z) : Z := rc_zone_off cfg.

(* ------------------------------------------------------------------ error classes of the run *)
Definition E_no_pricedb : N := 40%N.       (* a lookup type without price.db-path *)
Definition E_audit_uuid : N := 41%N.       (* audit mode: a transaction without uuid *)
Definition E_empty_set : N := 42%N.        (* "Txn Data: no transactions (txn set is empty)" *)
Definition E_report : N := 43%N.           (* a component model has no result for a report / export *)
Definition E_filter : N := 44%N.           (* the filter definition is not representable (uuid leaf) *)

(* ------------------------------------------------------------------ settings: the price data *)
(* pricedb_from_str reads the time-stamp defaults of the journal; not strict; commodities.names holds
   the report commodity when the file is read *)
Definition price_cfg (cfg : run_cfg) : pdcfg :=
  mkPdCfg (rc_journal cfg) false (match rc_commodity cfg with Some c => [c] | None => [] end).

(* Settings::try_from, the price part: the entries AS WRITTEN in the file (what T05's theorems speak
   about), the lookup and the stored data base.  With lookup type none the file is not read. *)
Definition price_setup (cfg : run_cfg) (ptext : option (list N)) : res (list pentry * (lookup * list pentry)) :=
  match rc_lookup cfg with
  | LtNone => res_map (fun r => ([], r)) (settings_price LtNone (rc_commodity cfg) (rc_before cfg) [])
  | lt =>
      match ptext with
      | None => Err E_no_pricedb
      | Some s => res_bind (parse_pricedb (price_cfg cfg) s)
                    (fun f => res_map (fun r => (f, r)) (settings_price lt (rc_commodity cfg) (rc_before cfg) f))
      end
  end.

(* ------------------------------------------------------------------ loading and the transaction set *)
Definition txn_of (j : jtxn) : txn := mkTxn (jt_hdr j) (map jp_p (jt_posts j)).
Definition ftxn_of (j : jtxn) : Filter.ftxn := Filter.mkFtxn (txn_of j) (map jp_comment (jt_posts j)).

(* parse_txn_header in audit mode: every transaction needs a uuid *)
Definition audit_uuids (audit : bool) (js : list jtxn) : res (list jtxn) :=
  if audit && negb (forallb (fun j => match h_uuid (jt_hdr j) with Some _ => true | None => false end) js)
  then Err E_audit_uuid else Ok js.

Definition load (cfg : run_cfg) (jtext : list N) : res (list jtxn) :=
  res_bind (load_journal (rc_journal cfg) jtext) (audit_uuids (rc_audit cfg)).

(* the regex leaves of a filter: index into the pattern list, whole-haystack match (an index outside the
   list matches nothing) *)
Definition re_table (pats : list re) (r : N) (s : list N) : bool :=
  match nth_error pats (N.to_nat r) with Some p => full_haystack_is_match p s | None => false end.
(* the wrapped pattern text, as Regex::as_str() of the compiled leaf *)
Definition re_text (pats : list re) (r : N) : list N :=
  match nth_error pats (N.to_nat r) with Some p => wrap_text (pp p) | None => wrap_text [] end.

(* the same definition as Codec.cfilter (pattern texts instead of indices, uuid as nibbles) *)
Definition uuid_nibbles (u : list N) : list N :=
  match Codec.uuid_parse_hyphenated u with Some x => x | None => [] end.
Fixpoint to_cfilter (pats : list re) (f : Filter.tfilter) : Codec.cfilter :=
  match f with
  | Filter.FTrue => Codec.CTrue
  | Filter.FFalse => Codec.CFalse
  | Filter.FAnd fs => Codec.CAnd (map (to_cfilter pats) fs)
  | Filter.FOr fs => Codec.COr (map (to_cfilter pats) fs)
  | Filter.FNot g => Codec.CNot (to_cfilter pats g)
  | Filter.FTsBegin b => Codec.CTsBegin b
  | Filter.FTsEnd e => Codec.CTsEnd e
  | Filter.FCode r => Codec.CCode (re_text pats r)
  | Filter.FDesc r => Codec.CDesc (re_text pats r)
  | Filter.FUuid u => Codec.CUuid (uuid_nibbles u)
  | Filter.FBBox s w n e => Codec.CBBox s w n e
  | Filter.FBBoxAlt s w d n e h => Codec.CBBoxAlt s w d n e h
  | Filter.FTags r => Codec.CTags (re_text pats r)
  | Filter.FComments r => Codec.CComments (re_text pats r)
  | Filter.FPAccount r => Codec.CPAccount (re_text pats r)
  | Filter.FPComment r => Codec.CPComment (re_text pats r)
  | Filter.FPAmountEq r a => Codec.CPAmountEq (re_text pats r) a
  | Filter.FPAmountLt r a => Codec.CPAmountLt (re_text pats r) a
  | Filter.FPAmountGt r a => Codec.CPAmountGt (re_text pats r) a
  | Filter.FPCommodity r => Codec.CPCommodity (re_text pats r)
  end.

(* TxnData::filter / get_all: the selected transactions (the data is sorted: order kept) *)
Definition run_filter (cfg : run_cfg) (js : list jtxn) : list jtxn :=
  match rc_filter cfg with
  | Some (f, pats) => filter (fun j => Filter.eval (re_table pats) f (ftxn_of j)) js
  | None => js
  end.
(* the lines of the TxnFilterDescription item *)
Definition filter_desc (cfg : run_cfg) : option (list (list N)) :=
  option_map (fun fp => MetaText.filter_lines (describe_def_tz (rc_zone_off cfg) (to_cfilter (snd fp) (fst fp)))) (rc_filter cfg).

Definition uuid_of (j : jtxn) : option Audit.uuid :=
  match h_uuid (jt_hdr j) with Some s => Audit.uuid_parse s | None => None end.

(* ------------------------------------------------------------------ time-stamp texts *)
Definition zoned_of (inst off : Z) : Tstamp.zoned :=
  Tstamp.mkZoned (Tstamp.mkJts (inst / Tstamp.NS) (inst mod Tstamp.NS)) off.
(* reg_entry_txt_writer: txn_ts::as_tz_date / as_tz_seconds / as_tz_full in the report zone *)
Definition ts_text (cfg : run_cfg) (h : header) : list N :=
  let z := zoned_of (h_inst h) (h_off h) in
  match rc_ts_style cfg with
  | TsDate => Tstamp.as_tz_date (rtz cfg) z
  | TsSeconds => Tstamp.as_tz_seconds (rtz cfg) z
  | TsFull => Tstamp.as_tz_full (rtz cfg) z
  end.

(* ------------------------------------------------------------------ everything before the first write *)
Record run_state : Type := mkRunState {
  rs_sel : list jtxn;                       (* the transaction set, in TxnData order *)
  rs_md : option (list MetaText.item);      (* its metadata *)
  rs_file : list pentry;                    (* the price file as written *)
  rs_lk : lookup;
  rs_db : list pentry }.                    (* the stored price data base *)

Definition rs_txns (st : run_state) : list txn := map txn_of (rs_sel st).

(* PriceLookupCtx::value_of (since /repo da90aec): amount.checked_mul(rate) — a value whose integer part does not
   fit 96 bits is an ERROR of the report that meets it (before: a panic).  Every report converts every posting of
   the set (convert_prices), so a run with a report target fails as soon as one converted amount is out of range;
   what was written before (metadata, earlier reports, the separator and head of the failing report) stays on the
   output, the model says Err.  A product that fits only after rounding (more than 28 decimals) is rust_decimal's
   silent rounding: outside the exact domain. *)
Definition int_overflow (d : dec) : bool := 2 ^ 96 <=? Z.abs (dm d) / pow10 (ds d).
Definition conv_overflow (cfg : run_cfg) (st : run_state) : bool :=
  let ctx := report_ctx (rs_lk st) (rc_commodity cfg) (rs_db st) (map txn_of (rs_sel st)) in
  existsb (fun t => existsb (fun c => int_overflow (cv_amount c)) (convert_prices ctx t)) (map txn_of (rs_sel st)).

Section Digest.
  Variable H : list N -> list N.

  (* from the loaded (sorted) transactions on: selection, metadata, empty-set test; git = the Git input
     reference of the run (Git storage: T07_run), None for file-system input *)
  Definition prepare_with (git : option MetaText.git_in) (cfg : run_cfg) (pr : list pentry * (lookup * list pentry))
             (js : list jtxn) : res run_state :=
    let sel := run_filter cfg js in
    res_bind (MetaText.make_items H (rc_audit cfg) (rc_algo cfg) git (filter_desc cfg) (map uuid_of sel)) (fun md =>
    match sel with
    | [] => Err E_empty_set
    | _ => Ok (mkRunState sel md (fst pr) (fst (snd pr)) (snd (snd pr)))
    end).
  Definition prepare_from (cfg : run_cfg) (pr : list pentry * (lookup * list pentry)) (js : list jtxn) : res run_state :=
    prepare_with None cfg pr js.

  Definition run_prepare (cfg : run_cfg) (jtext : list N) (ptext : option (list N)) : res run_state :=
    res_bind (price_setup cfg ptext) (fun pr =>
    res_bind (load cfg jtext) (prepare_from cfg pr)).

  (* ---------------------------------------------------------------- one report *)
  Definition report_prices (cfg : run_cfg) (st : run_state) : list MetaText.price_rec :=
    MetaText.price_recs (MetaText.render_full (rtz cfg))
                        (report_ctx (rs_lk st) (rc_commodity cfg) (rs_db st) (rs_txns st)).
  (* what <Report>::write_txt_report writes before the title line *)
  Definition report_head_text (cfg : run_cfg) (st : run_state) (k : MetaText.report_kind) : list N :=
    MetaText.report_head k (MetaText.sel_item H (rc_audit cfg) false (rc_algo cfg) (sel_pats (sel_of cfg k)))
                         (rc_zone_name cfg) (report_prices cfg st).
  (* ... and from the title line on: the texts T01 / T05 speak about *)
  Definition report_body (cfg : run_cfg) (st : run_state) (k : MetaText.report_kind) : option (list N) :=
    let names := sel_of cfg k in
    match k with
    | MetaText.RBalance =>
        conv_balance_text (rc_title_bal cfg) (rc_scale cfg) (rs_lk st) (rc_commodity cfg) (rs_db st) names (rs_txns st)
    | MetaText.RBalGroup =>
        conv_balgrp_text (rc_title_grp cfg) (rc_scale cfg) (rc_group_by cfg) (rtz cfg)
                         (rs_lk st) (rc_commodity cfg) (rs_db st) names (rs_txns st)
    | MetaText.RRegister =>
        Some (conv_register_text (rc_title_reg cfg) (rc_scale cfg) (ts_text cfg)
                                 (rs_lk st) (rc_commodity cfg) (rs_db st) names (rs_txns st))
    end.
  Definition report_text (cfg : run_cfg) (st : run_state) (k : MetaText.report_kind) : option (list N) :=
    if conv_overflow cfg st then None
    else option_map (fun b => report_head_text cfg st k ++ b) (report_body cfg st k).

  (* ---------------------------------------------------------------- console mode *)
  Definition sep_len : nat := 82%nat.                     (* report_separator_len *)
  Definition star_line : list N := repeat 42%N sep_len ++ [10%N].
  Definition hash_line : list N := repeat 35%N sep_len ++ [10%N].
  Definition frame_report (r : list N) : list N := star_line ++ r ++ hash_line.

  Definition console_text (md : option (list MetaText.item)) (reports : list (list N)) : list N :=
    MetaText.file_head md ++ concat (map frame_report reports).

  (* the complete standard output of the run without --output.dir.  main.rs calls write_txt_reports only
     `if !reports.is_empty()`: without a report target nothing is printed, not even the metadata *)
  Definition console_with (cfg : run_cfg) (md : option (list MetaText.item))
             (rt : MetaText.report_kind -> option (list N)) : res (list N) :=
    match rc_targets cfg with
    | [] => Ok []
    | _ =>
        match mapO rt (rc_targets cfg) with
        | Some rs => Ok (console_text md rs)
        | None => Err E_report
        end
    end.
  Definition console_of (cfg : run_cfg) (st : run_state) : res (list N) :=
    console_with cfg (rs_md st) (report_text cfg st).
  Definition run_console (cfg : run_cfg) (jtext : list N) (ptext : option (list N)) : res (list N) :=
    res_bind (run_prepare cfg jtext ptext) (console_of cfg).

  (* ---------------------------------------------------------------- file mode *)
  Definition kind_name (k : MetaText.report_kind) : list N :=
    match k with
    | MetaText.RBalance => [98; 97; 108]%N                              (* "bal" *)
    | MetaText.RBalGroup => [98; 97; 108; 103; 114; 112]%N              (* "balgrp" *)
    | MetaText.RRegister => [114; 101; 103]%N                           (* "reg" *)
    end.
  Definition kind_label (k : MetaText.report_kind) : list N :=
    match k with
    | MetaText.RBalance => [66;97;108;97;110;99;101;32;82;101;112;111;114;116]%N                          (* "Balance Report" *)
    | MetaText.RBalGroup => [66;97;108;97;110;99;101;32;71;114;111;117;112;32;82;101;112;111;114;116]%N   (* "Balance Group Report" *)
    | MetaText.RRegister => [82;101;103;105;115;116;101;114;32;82;101;112;111;114;116]%N                  (* "Register Report" *)
    end.
  Definition export_name (x : export_kind) : list N :=
    match x with
    | XEquity => [101; 113; 117; 105; 116; 121]%N                       (* "equity" *)
    | XIdentity => [105; 100; 101; 110; 116; 105; 116; 121]%N           (* "identity" *)
    end.
  Definition export_label (x : export_kind) : list N :=
    match x with
    | XEquity => [69;113;117;105;116;121;32;69;120;112;111;114;116]%N                                     (* "Equity Export" *)
    | XIdentity => [73;100;101;110;116;105;116;121;32;69;120;112;111;114;116]%N                           (* "Identity Export" *)
    end.
  Definition ext_txt : list N := [116; 120; 116]%N.
  Definition ext_txn : list N := [116; 120; 110]%N.
  (* create_output_file: <prefix>.<name>.<ext> *)
  Definition file_name (cfg : run_cfg) (name ext : list N) : list N :=
    rc_prefix cfg ++ 46%N :: name ++ 46%N :: ext.
  (* the path printed in the announcement: the directory as given, '/', the file name *)
  Definition file_path (cfg : run_cfg) (fname : list N) : list N := rc_out_dir cfg ++ 47%N :: fname.
  (* writeln!(p, "{:>21} : {}", label, path) *)
  Definition announce (label path : list N) : list N :=
    MetaText.pad_left 21 label ++ [32; 58; 32]%N ++ path ++ [10%N].

  (* the content of a report file: the set's metadata, then what the report writes *)
  Definition report_file (cfg : run_cfg) (st : run_state) (k : MetaText.report_kind) : option (list N) :=
    option_map (fun r => MetaText.file_head (rs_md st) ++ r) (report_text cfg st k).

  (* EquityExporter: literal account selector, lax mode *)
  Definition equity_ras (names : list (list (list N))) : option (list (list N) -> bool) :=
    match names with [] => None | _ => Some (fun a => existsb (acct_eqb a) names) end.
  Definition equity_file (cfg : run_cfg) (st : run_state) : option (list N) :=
    option_map
      (EquityText.print_equity
         (MetaText.equity_md (rs_md st)
            (MetaText.sel_item H (rc_audit cfg) true (rc_algo cfg) (sel_pats (sel_equity cfg))))
         EquityText.default_warn_lines)
      (Equity.equity (fun _ => true) (rc_eq_account cfg) (equity_ras (sel_equity cfg)) (rs_txns st)).
  Definition export_file (cfg : run_cfg) (st : run_state) (x : export_kind) : option (list N) :=
    match x with
    | XEquity => equity_file cfg st
    | XIdentity => Some (print_journal (rs_sel st))
    end.

  (* one entry per destination: (file name, content, announcement); rt / xf = the text of a report / export *)
  Definition report_entry_with (cfg : run_cfg) (md : option (list MetaText.item))
             (rt : MetaText.report_kind -> option (list N)) (k : MetaText.report_kind)
    : option (list N * list N * list N) :=
    let fname := file_name cfg (kind_name k) ext_txt in
    option_map (fun c => (fname, c, announce (kind_label k) (file_path cfg fname)))
               (option_map (fun r => MetaText.file_head md ++ r) (rt k)).
  Definition export_entry_with (cfg : run_cfg) (xf : export_kind -> option (list N)) (x : export_kind)
    : option (list N * list N * list N) :=
    let fname := file_name cfg (export_name x) ext_txn in
    option_map (fun c => (fname, c, announce (export_label x) (file_path cfg fname))) (xf x).

  (* the files written into a fresh output directory (name, content), in the order they are created, and
     the standard output (the announcements).  Existing destinations and write failures are C14's
     subject (Output.v); here every create_new and write succeeds. *)
  Definition files_with (cfg : run_cfg) (md : option (list MetaText.item))
             (rt : MetaText.report_kind -> option (list N)) (xf : export_kind -> option (list N))
    : res (list (list N * list N) * list N) :=
    match mapO (report_entry_with cfg md rt) (rc_targets cfg), mapO (export_entry_with cfg xf) (rc_exports cfg) with
    | Some rs, Some xs =>
        let all := rs ++ xs in
        Ok (map (fun e => (fst (fst e), snd (fst e))) all, concat (map snd all))
    | _, _ => Err E_report
    end.
  Definition files_of (cfg : run_cfg) (st : run_state) : res (list (list N * list N) * list N) :=
    files_with cfg (rs_md st) (report_text cfg st) (export_file cfg st).
  Definition run_files (cfg : run_cfg) (jtext : list N) (ptext : option (list N))
    : res (list (list N * list N) * list N) :=
    res_bind (run_prepare cfg jtext ptext) (files_of cfg).
End Digest.
