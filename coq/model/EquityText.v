(* EquityText.v — extension T02: the TEXT written by tackler-core export/equity_exporter.rs
   (EquityExporter::write_export), byte for byte (text = list of Unicode scalar values).
   Definitions only.

   Input: the exported transactions at AST level, one record per commodity
   (Equity.eq_txn = the result of Equity.equity / Equity.equity_txn), and the already rendered
   metadata items `md`: one list of text lines per item, as returned by `MetadataItem::text`
   for every item of `txn_data.metadata`, followed - when the configuration has a hash - by the
   lines of `AccountSelectorChecksum::text`.  md = [] when the transaction set has no metadata
   (then the account-selector checksum block is not written either: it sits inside the same
   `if let Some(md)`).  The rendering of the items themselves is not modelled.
   In the same way the WORDING of the comment block written when the selected balances of a
   commodity already cancel is an input: `warn` = the texts of its comment lines (what follows
   "   ; ", like the lines of a metadata item).  No property speaks about that wording (C10 is
   about the postings).  WHEN the block is written is decided here, as the code decides it: iff
   dsum.is_zero() (e_warn), between the metadata block and the first posting line.
   default_warn_lines = the five lines the code writes today.

   Rust                                                   here
     hdr_str(last_txn, c)                                  eq_hdr_str        (rfc_3339 = Journal.print_ts,
                                                                              description = Equity.eq_desc)
     format!("{}; {}", eq_txn_indent, v)                   eq_comment v
     per item: its lines, then format!("{}; ", indent)     eq_md_item
     the WARNING comment lines (iff dsum.is_zero())        eq_warn_lines warn  (e_warn; wording = input)
     eq_postings: "{indent}{account}  {sum}[ {comm}]"      eq_post_line      (Decimal Display = Journal.print_dec)
     bal_posting: "{indent}{ea}  {-dsum}[ {c}]" (iff !zero) eq_post_line on e_bal
     eq_txn.push("")                                       the empty line closing every transaction
     for i in equity_txn_str { writeln!(writer, "{}", i) } print_equity (every line followed by \n)
     bal.is_empty() => return Ok(())                       no transactions: the empty text *)
From TkModel Require Import Base Dec Acct Txn Balance Accept Equity Journal.
Local Open Scope Z_scope.

(* eq_txn_indent = "   " *)
Definition eq_indent : list N := [32; 32; 32]%N.

(* format!("{} 'Equity{}{}", rfc_3339(&txn.header.timestamp), comm_str(), txn_uuid_str(txn.header.uuid)) *)
Definition eq_hdr_str (e : eq_txn) : list N :=
  print_ts (e_inst e) (e_off e) ++ [32; 39]%N ++ eq_desc e.

(* format!("{}; {}", eq_txn_indent, v);  v = "" gives the separator line "   ; " *)
Definition eq_comment (v : list N) : list N := eq_indent ++ [59; 32]%N ++ v.

(* one metadata item: its text lines as comments, then the empty comment *)
Definition eq_md_item (it : list (list N)) : list (list N) := map eq_comment it ++ [eq_comment []].
Definition eq_md_lines (md : list (list (list N))) : list (list N) := flat_map eq_md_item md.

(* the texts of the five warning comments as written today *)
Definition default_warn_lines : list (list N) :=
  [ [87; 65; 82; 78; 73; 78; 71; 58]%N;
    [87; 65; 82; 78; 73; 78; 71; 58; 32; 84; 104; 101; 32; 115; 117; 109; 32; 111; 102; 32; 101; 113; 117; 105; 116; 121; 32; 116; 114; 97; 110; 115; 97; 99; 116; 105; 111; 110; 32; 105; 115; 32; 122; 101; 114; 111; 32; 119; 105; 116; 104; 111; 117; 116; 32; 101; 113; 117; 105; 116; 121; 32; 97; 99; 99; 111; 117; 110; 116; 46]%N;
    [87; 65; 82; 78; 73; 78; 71; 58; 32; 84; 104; 101; 114; 101; 102; 111; 114; 101; 32; 116; 104; 101; 114; 101; 32; 105; 115; 32; 110; 111; 32; 101; 113; 117; 105; 116; 121; 32; 112; 111; 115; 116; 105; 110; 103; 32; 114; 111; 119; 44; 32; 97; 110; 100; 32; 116; 104; 105; 115; 32; 105; 115; 32; 112; 114; 111; 98; 97; 98; 108; 121; 32; 110; 111; 116; 32; 114; 105; 103; 104; 116; 46]%N;
    [87; 65; 82; 78; 73; 78; 71; 58; 32; 73; 115; 32; 116; 104; 101; 32; 97; 99; 99; 111; 117; 110; 116; 32; 115; 101; 108; 101; 99; 116; 111; 114; 32; 99; 111; 114; 114; 101; 99; 116; 32; 102; 111; 114; 32; 116; 104; 105; 115; 32; 69; 113; 117; 105; 116; 121; 32; 101; 120; 112; 111; 114; 116; 63]%N;
    [87; 65; 82; 78; 73; 78; 71; 58]%N ].
(* the warning block: every text as a comment line, like the lines of a metadata item (no
   closing empty comment) *)
Definition eq_warn_lines (warn : list (list N)) : list (list N) := map eq_comment warn.

(* format!("{}{}  {}{}", indent, account, sum, " " + comm iff the commodity name is not empty);
   the balancing posting has the same shape: format!("{}{}  {}", indent, ea, value) with
   value = "{-dsum}" or "{-dsum} {c}" *)
Definition eq_post_line (p : eq_post) : list N :=
  eq_indent ++ join_colon (ep_acc p) ++ [32; 32]%N ++ print_dec (ep_amt p)
  ++ (match ep_comm p with [] => [] | c => 32%N :: c end).

(* the strings pushed for one commodity (the closure inside flat_map) *)
Definition eq_txn_lines (md : list (list (list N))) (warn : list (list N)) (e : eq_txn) : list (list N) :=
  eq_hdr_str e
  :: eq_md_lines md
  ++ (if e_warn e then eq_warn_lines warn else [])
  ++ map eq_post_line (e_posts e)
  ++ (match e_bal e with Some b => [eq_post_line b] | None => [] end)
  ++ [[]].

Definition eq_lines (md : list (list (list N))) (warn : list (list N)) (es : list eq_txn) : list (list N) :=
  flat_map (eq_txn_lines md warn) es.

(* writeln! of every string; nothing at all for an empty balance (es = []) *)
Definition print_equity (md : list (list (list N))) (warn : list (list N)) (es : list eq_txn) : list N :=
  concat (map (fun l => l ++ [10%N]) (eq_lines md warn es)).
