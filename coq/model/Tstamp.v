(* Tstamp.v — time stamps of transactions: the three-way grammar, defaults from the
   configuration, jiff's instant representation, ordering, display. Definitions only.
   Transcribed from
     tackler-core/src/parser/parts/timestamp.rs   (p_date, handle_time, p_datetime, p_offset,
                                                   p_zulu_or_offset, parse_datetime_tz,
                                                   parse_datetime, parse_date, parse_timestamp)
     tackler-core/src/kernel/settings.rs          (get_offset_datetime, get_offset_date,
                                                   Settings::parse_timestamp)
     tackler-core/src/config/items.rs             (Timestamp::from, Timezone::from)
     tackler-api/src/txn_header.rs                (impl Ord / PartialEq for TxnHeader)
     tackler-api/src/txn_ts.rs                    (rfc_3339, as_tz_full/seconds/date/month/year)
   and, under them, jiff 0.2.5 as read in its source:
     shared/util/itime.rs  IDate::to_epoch_day, IEpochDay::to_date (Neri-Schneider),
                           IDateTime::to_timestamp, ITimestamp::to_datetime
     timestamp.rs          impl Ord/PartialEq for Timestamp (on the (second, nanosecond) pair),
                           as_nanosecond(_ranged), from_nanosecond(_ranged)
     util/t.rs             ranges of Year, UnixSeconds, SpanZoneOffset
     civil/datetime.rs     DateTime::to_zoned (gap/fold: offset before the transition)
   The tz database is data: a named zone is a pair of functions (offset used to convert a
   civil time, offset in force at an instant).
   The jiff layer is kept as the library is (mixed-sign pairs next to the epoch, comparison on
   the pair: the former finding F17); parse_timestamp re-creates every instant it returns from
   its nanosecond value (ts_renorm below), so the pairs tackler holds and compares are canonical. *)
From TkModel Require Import Base Dec Acct Txn.
Local Open Scope Z_scope.

(* ------------------------------------------------------------------ characters *)
Definition ch_minus : N := 45%N.
Definition ch_plus : N := 43%N.
Definition ch_colon : N := 58%N.
Definition ch_dot : N := 46%N.
Definition ch_T : N := 84%N.
Definition ch_Z : N := 90%N.
Definition ch_space : N := 32%N.

Definition is_digit (c : N) : bool := (48 <=? c)%N && (c <=? 57)%N.
Definition digit_val (c : N) : Z := Z.of_N c - 48.

(* winnow take_while(n, is_dec_digit).try_map(from_str): exactly n ASCII digits *)
Fixpoint take_digits (n : nat) (s : str) (acc : Z) : option (Z * str) :=
  match n with
  | O => Some (acc, s)
  | S n' => match s with
            | c :: s' => if is_digit c then take_digits n' s' (acc * 10 + digit_val c) else None
            | [] => None
            end
  end.

(* take_while(0..=n, is_dec_digit): the longest run of at most n digits *)
Fixpoint take_upto (n : nat) (s : str) : list N * str :=
  match n with
  | O => ([], s)
  | S n' => match s with
            | c :: s' => if is_digit c then let (ds, r) := take_upto n' s' in (c :: ds, r)
                         else ([], s)
            | [] => ([], s)
            end
  end.

Definition digits_val (ds : list N) : Z := fold_left (fun a c => a * 10 + digit_val c) ds 0.

Definition expect (c : N) (s : str) : option str :=
  match s with
  | x :: s' => if (x =? c)%N then Some s' else None
  | [] => None
  end.

(* ------------------------------------------------------------------ civil calendar (jiff) *)
Definition ts_is_leap (y : Z) : bool :=
  (y mod 4 =? 0) && (negb (y mod 100 =? 0) || (y mod 400 =? 0)).
Definition ts_days_in_month (y m : Z) : Z :=
  if m =? 2 then (if ts_is_leap y then 29 else 28)
  else if (m =? 4) || (m =? 6) || (m =? 9) || (m =? 11) then 30 else 31.
(* jiff::civil::Date::new *)
Definition ts_date_ok (y m d : Z) : bool :=
  (-9999 <=? y) && (y <=? 9999) && (1 <=? m) && (m <=? 12) && (1 <=? d) && (d <=? ts_days_in_month y m).
(* jiff::civil::Time::new *)
Definition ts_time_ok (h mi s ns : Z) : bool :=
  (0 <=? h) && (h <=? 23) && (0 <=? mi) && (mi <=? 59) && (0 <=? s) && (s <=? 59)
  && (0 <=? ns) && (ns <=? 999999999).

(* IDate::to_epoch_day (Neri-Schneider, s = 82: K = 719468 + 146097*82, L = 400*82) *)
Definition ts_epoch_day (y m d : Z) : Z :=
  let J := m <=? 2 in
  let Y := y + 32800 - (if J then 1 else 0) in
  let M := if J then m + 12 else m in
  let C := Y / 100 in
  (1461 * Y / 4 - C + C / 4) + (979 * M - 2919) / 32 + (d - 1) - 12699422.

(* IEpochDay::to_date *)
Definition ts_date_of_day (n : Z) : Z * Z * Z :=
  let N0 := n + 12699422 in
  let N1 := 4 * N0 + 3 in
  let C := N1 / 146097 in
  let NC := (N1 mod 146097) / 4 in
  let N2 := 4 * NC + 3 in
  let P2 := 2939745 * N2 in
  let Zc := P2 / 4294967296 in
  let NY := (P2 mod 4294967296) / 2939745 / 4 in
  let Y := 100 * C + Zc in
  let N3 := 2141 * NY + 197913 in
  let M := N3 / 65536 in
  let D := (N3 mod 65536) / 2141 in
  let J := 306 <=? NY in
  (Y - 32800 + (if J then 1 else 0), (if J then M - 12 else M), D + 1).

Record civil : Type := mkCivil { cv_y : Z; cv_m : Z; cv_d : Z; cv_h : Z; cv_mi : Z; cv_s : Z; cv_ns : Z }.

(* ------------------------------------------------------------------ instants as jiff holds them *)
(* jiff::Timestamp = (second, nanosecond); the instant is second*10^9 + nanosecond *)
Record jts : Type := mkJts { j_sec : Z; j_ns : Z }.
Definition NS : Z := 1000000000.
Definition jts_inst (t : jts) : Z := j_sec t * NS + j_ns t.

(* util/t.rs: UnixSeconds = [-377705116800 + 93599, 253402300799 - 93599], offsets +-25:59:59 *)
Definition TS_MIN_SEC : Z := -377705023201.
Definition TS_MAX_SEC : Z := 253402207200.
Definition OFF_MAX : Z := 93599.

(* IDateTime::to_timestamp followed by Timestamp::from_itimestamp (range check on the second).
   NB the sign adjustment looks at the civil epoch day, not at the resulting second (F17). *)
Definition civil_secs (c : civil) : Z :=
  ts_epoch_day (cv_y c) (cv_m c) (cv_d c) * 86400 + cv_h c * 3600 + cv_mi c * 60 + cv_s c.
Definition civil_to_jts (c : civil) (off : Z) : option jts :=
  let day := ts_epoch_day (cv_y c) (cv_m c) (cv_d c) in
  let sec := civil_secs c - off in
  let t := if (day <? 0) && negb (cv_ns c =? 0) then mkJts (sec + 1) (cv_ns c - NS)
           else mkJts sec (cv_ns c) in
  if (TS_MIN_SEC <=? j_sec t) && (j_sec t <=? TS_MAX_SEC) then Some t else None.

(* Timestamp::as_nanosecond: second * 10^9 + nanosecond; at the minimum second a negative
   fraction is clamped to 0 *)
Definition jts_as_nanosecond (t : jts) : Z :=
  if (j_sec t =? TS_MIN_SEC) && (j_ns t <? 0) then TS_MIN_SEC * NS else jts_inst t.
(* Timestamp::from_nanosecond: range check (util/t.rs UnixNanoseconds), then
   from_nanosecond_ranged: quotient and remainder of the TRUNCATED division (rangeint div_ceil /
   rem_ceil are i128 wrapping_div / wrapping_rem), i.e. second and nanosecond of the same sign *)
Definition jts_from_nanosecond (n : Z) : option jts :=
  if (TS_MIN_SEC * NS <=? n) && (n <=? TS_MAX_SEC * NS + 999999999)
  then Some (mkJts (Z.quot n NS) (Z.rem n NS)) else None.
(* the workaround of parse_timestamp: Timestamp::from_nanosecond(ts.timestamp().as_nanosecond()) *)
Definition jts_renorm (t : jts) : option jts := jts_from_nanosecond (jts_as_nanosecond t).

(* jiff::Zoned: instant + the offset in force *)
Record zoned : Type := mkZoned { z_ts : jts; z_off : Z }.

(* named zone = tz database data: offset used to convert a civil time (in a gap or fold:
   the offset before the transition), and offset in force at an instant *)
Record named_zone : Type := mkNamed { nz_civil : civil -> Z; nz_inst : Z -> Z }.
Inductive jzone : Type :=
| ZFixed (off : Z)
| ZNamed (nz : named_zone).

(* civil::DateTime::to_zoned(tz) *)
Definition to_zoned (z : jzone) (c : civil) : option zoned :=
  match z with
  | ZFixed off => option_map (fun t => mkZoned t off) (civil_to_jts c off)
  | ZNamed nz => option_map (fun t => mkZoned t (nz_inst nz (jts_inst t))) (civil_to_jts c (nz_civil nz c))
  end.

(* Timestamp::to_zoned(tz): the instant with the offset of tz in force at it *)
Definition ts_to_zoned (z : jzone) (t : jts) : zoned :=
  mkZoned t (match z with ZFixed off => off | ZNamed nz => nz_inst nz (jts_inst t) end).

(* the end of parse_timestamp: the Zoned `ts` of the alternatives (with its time zone) is
   re-created from its nanosecond value; an error of from_nanosecond is a parse error *)
Definition ts_renorm (z : jzone) (zd : zoned) : option zoned :=
  option_map (ts_to_zoned z) (jts_renorm (z_ts zd)).

(* ------------------------------------------------------------------ configuration *)
(* kernel.timestamp: default-time and timezone *)
Record tscfg : Type := mkTsCfg { cfg_h : Z; cfg_mi : Z; cfg_s : Z; cfg_ns : Z; cfg_zone : jzone }.

(* config/items.rs Timezone::from (the tz lookup and the "%:z" parse are the library's) *)
Definition timezone_from (name : option named_zone) (offset : option Z) : res jzone :=
  match name, offset with
  | Some _, Some _ => Err 1%N
  | Some nz, None => Ok (ZNamed nz)
  | None, Some off => if (Z.abs off <=? OFF_MAX) then Ok (ZFixed off) else Err 2%N
  | None, None => Ok (ZFixed 0)
  end.
(* Timestamp::from *)
Definition timestamp_from (h mi s ns : Z) (name : option named_zone) (offset : option Z) : res tscfg :=
  if ts_time_ok h mi s ns then
    match timezone_from name offset with
    | Ok z => Ok (mkTsCfg h mi s ns z)
    | Err e => Err e
    end
  else Err 3%N.

(* kernel/settings.rs *)
Definition get_offset_datetime (cfg : tscfg) (c : civil) : option zoned := to_zoned (cfg_zone cfg) c.
Definition get_offset_date (cfg : tscfg) (y m d : Z) : option zoned :=
  to_zoned (cfg_zone cfg) (mkCivil y m d (cfg_h cfg) (cfg_mi cfg) (cfg_s cfg) (cfg_ns cfg)).

(* ------------------------------------------------------------------ the grammar *)
(* p_date: YYYY-MM-DD, then Date::new *)
Definition p_date (s : str) : option (Z * Z * Z * str) :=
  match take_digits 4 s 0 with
  | None => None
  | Some (y, s1) =>
    match expect ch_minus s1 with
    | None => None
    | Some s2 =>
      match take_digits 2 s2 0 with
      | None => None
      | Some (m, s3) =>
        match expect ch_minus s3 with
        | None => None
        | Some s4 =>
          match take_digits 2 s4 0 with
          | None => None
          | Some (d, s5) => if ts_date_ok y m d then Some (y, m, d, s5) else None
          end
        end
      end
    end
  end.

(* the fraction: '.' then 1..9 digits; value = digits * 10^(9 - len) (handle_time) *)
Definition frac_ns (ds : list N) : Z := digits_val ds * 10 ^ (9 - Z.of_nat (length ds)).
Definition p_frac (s : str) : option (Z * str) :=
  match s with
  | c :: s' =>
    if (c =? ch_dot)%N then
      match take_upto 9 s' with
      | ([], _) => None                      (* cut_err: '.' must be followed by a digit *)
      | (ds, r) => Some (frac_ns ds, r)
      end
    else Some (0, s)
  | [] => Some (0, s)
  end.

(* hh:mm:ss[.f] after the 'T', then Time::new *)
Definition p_time (s : str) : option (Z * Z * Z * Z * str) :=
  match take_digits 2 s 0 with
  | None => None
  | Some (h, s1) =>
    match expect ch_colon s1 with
    | None => None
    | Some s2 =>
      match take_digits 2 s2 0 with
      | None => None
      | Some (mi, s3) =>
        match expect ch_colon s3 with
        | None => None
        | Some s4 =>
          match take_digits 2 s4 0 with
          | None => None
          | Some (sec, s5) =>
            match p_frac s5 with
            | None => None
            | Some (ns, s6) => if ts_time_ok h mi sec ns then Some (h, mi, sec, ns, s6) else None
            end
          end
        end
      end
    end
  end.

(* p_offset after the sign: HH:MM, then Offset::from_seconds(sign * (h*3600 + m*60)) *)
Definition p_offset (sign : Z) (s : str) : option (Z * str) :=
  match take_digits 2 s 0 with
  | None => None
  | Some (h, s1) =>
    match expect ch_colon s1 with
    | None => None
    | Some s2 =>
      match take_digits 2 s2 0 with
      | None => None
      | Some (m, s3) =>
        let secs := sign * (h * 3600 + m * 60) in
        if Z.abs secs <=? OFF_MAX then Some (secs, s3) else None
      end
    end
  end.

(* alt(parse_datetime_tz, parse_datetime, parse_date): prefix parser.
   Every failure after the year digits is a cut error, so the alternatives collapse to this
   decision tree; the result is the jiff::Zoned as the library built it (possibly a mixed-sign
   pair), the time zone it carries, and the unconsumed rest. *)
Definition zoned_with (z : jzone) (o : option zoned) (r : str) : option (zoned * jzone * str) :=
  option_map (fun zd => (zd, z, r)) o.
Definition parse_ts_alt (cfg : tscfg) (s : str) : option (zoned * jzone * str) :=
  match p_date s with
  | None => None
  | Some (y, m, d, r1) =>
    let date_only := zoned_with (cfg_zone cfg) (get_offset_date cfg y m d) r1 in
    match r1 with
    | c :: r2 =>
      if (c =? ch_T)%N then
        match p_time r2 with
        | None => None
        | Some (h, mi, sec, ns, r3) =>
          let cv := mkCivil y m d h mi sec ns in
          let dflt := zoned_with (cfg_zone cfg) (get_offset_datetime cfg cv) r3 in
          match r3 with
          | c3 :: r4 =>
            if (c3 =? ch_Z)%N then zoned_with (ZFixed 0) (to_zoned (ZFixed 0) cv) r4
            else if (c3 =? ch_plus)%N || (c3 =? ch_minus)%N then
              match p_offset (if (c3 =? ch_plus)%N then 1 else -1) r4 with
              | None => None
              | Some (off, r5) => zoned_with (ZFixed off) (to_zoned (ZFixed off) cv) r5
              end
            else dflt
          | [] => dflt
          end
        end
      else date_only
    | [] => date_only
    end
  end.

(* parse_timestamp: the alternatives, then the instant re-created from its nanosecond value
   (canonical pair: second and nanosecond of the same sign) in the same time zone *)
Definition parse_ts (cfg : tscfg) (s : str) : option (zoned * str) :=
  match parse_ts_alt cfg s with
  | Some (zd, z, r) => option_map (fun zn => (zn, r)) (ts_renorm z zd)
  | None => None
  end.

(* Settings::parse_timestamp (winnow Parser::parse: the whole input must be consumed); also what
   a transaction header line accepts when the time stamp is followed by a blank or the line end *)
Definition parse_ts_whole (cfg : tscfg) (s : str) : option zoned :=
  match parse_ts cfg s with
  | Some (z, []) => Some z
  | _ => None
  end.

(* ------------------------------------------------------------------ ordering *)
(* impl Ord / PartialEq for Timestamp: lexicographic on (second, nanosecond). Every time stamp
   of a transaction comes from parse_ts, so these are applied to canonical pairs only *)
Definition jts_cmp (a b : jts) : comparison :=
  cmp_then (Z.compare (j_sec a) (j_sec b)) (Z.compare (j_ns a) (j_ns b)).
Definition jts_eqb (a b : jts) : bool := (j_sec a =? j_sec b) && (j_ns a =? j_ns b).

(* a transaction header as the implementation holds it: the Zoned plus the other fields
   (carried by a Txn.header whose h_inst/h_off are the instant and offset of the Zoned) *)
Definition hdr_of (z : zoned) (h : header) : header :=
  mkHeader (jts_inst (z_ts z)) (z_off z) (h_code h) (h_desc h) (h_uuid h) (h_loc h) (h_tags h) (h_comments h).

(* impl Ord for TxnHeader, on the representation *)
Definition jheader_cmp (ta : jts) (a : header) (tb : jts) (b : header) : comparison :=
  cmp_then (jts_cmp ta tb)
   (cmp_then (str_cmp (opt_str (h_code a)) (opt_str (h_code b)))
     (cmp_then (str_cmp (opt_str (h_desc a)) (opt_str (h_desc b)))
               (str_cmp (opt_str (h_uuid a)) (opt_str (h_uuid b))))).
Definition jtxn_leb (a b : jts * txn) : bool :=
  cmp_leb (jheader_cmp (fst a) (t_hdr (snd a)) (fst b) (t_hdr (snd b))).
(* TxnData::from: stable sort *)
Definition jsort_txns (l : list (jts * txn)) : list (jts * txn) := sort_by jtxn_leb l.

(* ------------------------------------------------------------------ display *)
(* ITimestamp::to_datetime(offset) *)
Definition jts_to_civil (t : jts) (off : Z) : civil :=
  let second := j_sec t + off in
  let day := second / 86400 in
  let sod := second mod 86400 in
  let '(day, sod, ns) :=
    if j_ns t <? 0 then
      (if 0 <? sod then (day, sod - 1, j_ns t + NS) else (day - 1, sod + 86399, j_ns t + NS))
    else (day, sod, j_ns t) in
  let '(y, m, d) := ts_date_of_day day in
  mkCivil y m d (sod / 3600) ((sod mod 3600) / 60) (sod mod 60) ns.

Definition dch (d : Z) : N := Z.to_N (d + 48).
Definition pad2 (v : Z) : str := [dch (v / 10); dch (v mod 10)].
Definition pad4 (v : Z) : str := [dch (v / 1000); dch ((v / 100) mod 10); dch ((v / 10) mod 10); dch (v mod 10)].
Definition pad9 (v : Z) : str :=
  [dch (v / 100000000); dch ((v / 10000000) mod 10); dch ((v / 1000000) mod 10); dch ((v / 100000) mod 10);
   dch ((v / 10000) mod 10); dch ((v / 1000) mod 10); dch ((v / 100) mod 10); dch ((v / 10) mod 10); dch (v mod 10)].

Fixpoint strip_zeros_rev (l : str) : str :=
  match l with
  | c :: l' => if (c =? 48)%N then strip_zeros_rev l' else l
  | [] => []
  end.
Definition strip_trailing_zeros (l : str) : str := rev (strip_zeros_rev (rev l)).

(* "%.f": nothing for 0, else '.' and the nanoseconds without trailing zeros *)
Definition fmt_frac (ns : Z) : str :=
  if ns =? 0 then [] else ch_dot :: strip_trailing_zeros (pad9 ns).
(* "%:z" *)
Definition fmt_offset (off : Z) : str :=
  let a := Z.abs off in
  (if off <? 0 then ch_minus else ch_plus) :: pad2 (a / 3600) ++ ch_colon :: pad2 ((a mod 3600) / 60)
  ++ (if a mod 60 =? 0 then [] else ch_colon :: pad2 (a mod 60)).
Definition fmt_ymd (c : civil) : str := pad4 (cv_y c) ++ ch_minus :: pad2 (cv_m c) ++ ch_minus :: pad2 (cv_d c).
Definition fmt_hms (c : civil) : str := pad2 (cv_h c) ++ ch_colon :: pad2 (cv_mi c) ++ ch_colon :: pad2 (cv_s c).

(* txn_ts::rfc_3339: "%Y-%m-%dT%H:%M:%S%.f%:z" in the Zoned's own offset (years 0..9999) *)
Definition rfc_3339 (z : zoned) : str :=
  let c := jts_to_civil (z_ts z) (z_off z) in
  fmt_ymd c ++ ch_T :: fmt_hms c ++ fmt_frac (cv_ns c) ++ fmt_offset (z_off z).

(* ts.with_time_zone(tz): same instant, offset of the report zone at that instant *)
Definition with_time_zone (rtz : Z -> Z) (z : zoned) : zoned :=
  mkZoned (z_ts z) (rtz (jts_inst (z_ts z))).
Definition zoned_civil (z : zoned) : civil := jts_to_civil (z_ts z) (z_off z).

(* txn_ts::as_tz_* *)
Definition as_tz_full (rtz : Z -> Z) (z : zoned) : str :=
  let c := zoned_civil (with_time_zone rtz z) in fmt_ymd c ++ ch_space :: fmt_hms c ++ fmt_frac (cv_ns c).
Definition as_tz_seconds (rtz : Z -> Z) (z : zoned) : str :=
  let c := zoned_civil (with_time_zone rtz z) in fmt_ymd c ++ ch_space :: fmt_hms c.
Definition as_tz_date (rtz : Z -> Z) (z : zoned) : str := fmt_ymd (zoned_civil (with_time_zone rtz z)).
Definition as_tz_month (rtz : Z -> Z) (z : zoned) : str :=
  let c := zoned_civil (with_time_zone rtz z) in pad4 (cv_y c) ++ ch_minus :: pad2 (cv_m c).
Definition as_tz_year (rtz : Z -> Z) (z : zoned) : str := pad4 (cv_y (zoned_civil (with_time_zone rtz z))).

(* what a register-like report does with a set of transactions under a report zone:
   the ORDER comes from the sort on the headers, the report zone only labels the entries *)
Definition report_view (rtz : Z -> Z) (l : list (zoned * txn)) : list (str * txn) :=
  map (fun zt => (as_tz_full rtz (fst zt), snd zt))
      (map (fun jt => (mkZoned (fst jt) (h_off (t_hdr (snd jt))), snd jt))
           (jsort_txns (map (fun zt => (z_ts (fst zt), snd zt)) l))).
