(* T08_filter.v — the transaction filter of a run given as the TEXT of --api-filter-def, exactly as
   tackler-cli/src/main.rs treats it:
       let tf = if FilterDefinition::is_armored(s) { FilterDefinition::from_armor(s)? }
                else { FilterDefinition::from_json_str(s)? };
   = Codec.from_any (C18's model: is_armored / from_armor = base64 + UTF-8 + JSON / from_json_str); an error of
   either ends the run before anything is read or written (`?` in run), so the run is an error with no output.
   Ok definition => the run of T06_run with that filter.  Definitions only; nothing in T06_run.v changes.

   Parameters (libraries modelled by contract, as in C18): rx_ok = Regex::new(text).is_ok(), json_parse = serde_json
   text -> tree, and rx_compile = the pattern AST (Regex.v) of a pattern text, i.e. what Regex::new builds — T06's
   run configuration holds a filter as a tree whose regex leaves are indices into a list of such ASTs.
   The only use of run_cfg's constructor outside T06 is with_filter below (every other field through its accessor:
   when the record grows, add the accessor here). *)
From TkModel Require Import Base Dec Acct Txn Journal Balance Register Round Price Time Group.
From TkModel Require Import ReportText T05_report PriceText Regex T06_run.
From TkModel Require Filter Codec MetaText.
Local Open Scope Z_scope.

(* the same configuration with another --api-filter-def *)
Definition with_filter (c : run_cfg) (flt : option (Filter.tfilter * list re)) : run_cfg :=
  mkRunCfg (rc_journal c) (rc_audit c) (rc_algo c) (rc_zone_name c) (rc_zone_off c) (rc_scale c) (rc_targets c) (rc_exports c)
           (rc_accounts c) (rc_bal_acc c) (rc_grp_acc c) (rc_reg_acc c) (rc_eq_acc c) (rc_group_by c) (rc_commodity c)
           (rc_lookup c) (rc_before c) (rc_title_bal c) (rc_title_grp c) (rc_title_reg c) (rc_ts_style c)
           (rc_eq_account c) flt (rc_out_dir c) (rc_prefix c).

(* ------------------------------------------------------------------ Codec.cfilter -> (Filter.tfilter, patterns) *)
(* the pattern texts of a definition as the user wrote them (Regex::as_str() peeled), in document order *)
Fixpoint cf_patterns (f : Codec.cfilter) : list (list N) :=
  match f with
  | Codec.CAnd fs | Codec.COr fs => flat_map cf_patterns fs
  | Codec.CNot g => cf_patterns g
  | Codec.CCode r | Codec.CDesc r | Codec.CTags r | Codec.CComments r
  | Codec.CPAccount r | Codec.CPComment r | Codec.CPCommodity r => [Codec.peel_s r]
  | Codec.CPAmountEq r _ | Codec.CPAmountLt r _ | Codec.CPAmountGt r _ => [Codec.peel_s r]
  | _ => []
  end.
(* position of the first occurrence (the length of the list when there is none) *)
Fixpoint index_of (t : list N) (l : list (list N)) : N :=
  match l with
  | [] => 0%N
  | x :: r => if str_eqb t x then 0%N else N.succ (index_of t r)
  end.
(* the tree with its regex leaves numbered into the table of pattern texts; a uuid as its canonical text
   (Filter.eval compares it with the header's canonical text) *)
Fixpoint tf_of (tab : list (list N)) (f : Codec.cfilter) : Filter.tfilter :=
  let ix r := index_of (Codec.peel_s r) tab in
  match f with
  | Codec.CTrue => Filter.FTrue
  | Codec.CFalse => Filter.FFalse
  | Codec.CAnd fs => Filter.FAnd (map (tf_of tab) fs)
  | Codec.COr fs => Filter.FOr (map (tf_of tab) fs)
  | Codec.CNot g => Filter.FNot (tf_of tab g)
  | Codec.CTsBegin b => Filter.FTsBegin b
  | Codec.CTsEnd e => Filter.FTsEnd e
  | Codec.CCode r => Filter.FCode (ix r)
  | Codec.CDesc r => Filter.FDesc (ix r)
  | Codec.CUuid u => Filter.FUuid (Codec.uuid_show u)
  | Codec.CBBox s w n e => Filter.FBBox s w n e
  | Codec.CBBoxAlt s w d n e h => Filter.FBBoxAlt s w d n e h
  | Codec.CTags r => Filter.FTags (ix r)
  | Codec.CComments r => Filter.FComments (ix r)
  | Codec.CPAccount r => Filter.FPAccount (ix r)
  | Codec.CPComment r => Filter.FPComment (ix r)
  | Codec.CPAmountEq r a => Filter.FPAmountEq (ix r) a
  | Codec.CPAmountLt r a => Filter.FPAmountLt (ix r) a
  | Codec.CPAmountGt r a => Filter.FPAmountGt (ix r) a
  | Codec.CPCommodity r => Filter.FPCommodity (ix r)
  end.

Definition E_filter_def : N := 45%N.       (* --api-filter-def: the definition text is refused (armor, JSON, variant, value) *)

Section Libraries.
  Variable rx_ok : list N -> bool.                     (* Regex::new(text).is_ok() *)
  Variable json_parse : list N -> option Codec.jv.     (* serde_json: text -> tree *)
  Variable rx_compile : list N -> option re.           (* Regex::new(text): the pattern as Regex.v reads it *)

  (* the filter of the run configuration made of a parsed definition; None: a pattern the deserialiser accepted
     has no AST in Regex.v's fragment (outside the model: the run is an error, class E_filter) *)
  Definition of_cfilter (f : Codec.cfilter) : option (Filter.tfilter * list re) :=
    let tab := cf_patterns f in
    option_map (fun pats => (tf_of tab f, pats)) (mapO rx_compile tab).

  (* main.rs on --api-filter-def: the configuration the run proceeds with *)
  Definition cfg_ft (cfg : run_cfg) (ftext : option (list N)) : res run_cfg :=
    match ftext with
    | None => Ok (with_filter cfg None)
    | Some t =>
        match Codec.from_any rx_ok json_parse t with
        | None => Err E_filter_def
        | Some d => match of_cfilter d with
                    | Some fp => Ok (with_filter cfg (Some fp))
                    | None => Err E_filter
                    end
        end
    end.

  Section Digest.
    Variable H : list N -> list N.
    (* the complete standard output / the files and announcements of
         tackler --config .. --input.file .. [--api-filter-def <ftext>] .. *)
    Definition run_console_ft (cfg : run_cfg) (ftext : option (list N)) (jtext : list N) (ptext : option (list N))
      : res (list N) :=
      res_bind (cfg_ft cfg ftext) (fun c => run_console H c jtext ptext).
    Definition run_files_ft (cfg : run_cfg) (ftext : option (list N)) (jtext : list N) (ptext : option (list N))
      : res (list (list N * list N) * list N) :=
      res_bind (cfg_ft cfg ftext) (fun c => run_files H c jtext ptext).
  End Digest.
End Libraries.
