(* Sha256.v — SHA-256 (FIPS 180-4, sections 2.2.2, 3.2, 4.1.2, 4.2.2, 5.1.1, 5.2.1, 5.3.3, 6.2) as an
   executable, total Gallina function over byte lists (extension T09).  This is the algorithm behind
   tackler's default `hash = "SHA-256"` (tackler-core/src/kernel/hash.rs: sha2::Sha256; update(a);
   update(b) = update(a ++ b); finalize; "{b:02x}" of every digest byte).
   Bytes and 32-bit words are `N`; every word operation ends in `w32` (= `mod 2^32`, written as the
   mask `N.land _ (2^32-1)`: Sha256_proofs.w32_mod).  No `nat`-indexed loop: the rounds recurse over the
   list of the 64 round constants, the blocks over the word list (16 at a time), the padding length is
   computed in `N`.  Definitions only; stdlib only. *)
From Coq Require Import List NArith.
Import ListNotations.
Local Open Scope N_scope.

(* ------------------------------------------------------------------ 32-bit words *)
Definition mask32 : N := 4294967295.                      (* 2^32 - 1 *)
Definition w32 (x : N) : N := N.land x mask32.            (* x mod 2^32 *)
Definition add32 (a b : N) : N := w32 (a + b).
(* ROTR^n(x) = (x >> n) | (x << (32 - n)), for 0 < n < 32 and x < 2^32 *)
Definition rotr (n x : N) : N := N.lor (N.shiftr x n) (w32 (N.shiftl x (32 - n))).
Definition shr (n x : N) : N := N.shiftr x n.
Definition not32 (x : N) : N := N.lxor x mask32.

(* 4.1.2 *)
Definition Ch (x y z : N) : N := N.lxor (N.land x y) (N.land (not32 x) z).
Definition Maj (x y z : N) : N := N.lxor (N.lxor (N.land x y) (N.land x z)) (N.land y z).
Definition Sigma0 (x : N) : N := N.lxor (N.lxor (rotr 2 x) (rotr 13 x)) (rotr 22 x).
Definition Sigma1 (x : N) : N := N.lxor (N.lxor (rotr 6 x) (rotr 11 x)) (rotr 25 x).
Definition sigma0 (x : N) : N := N.lxor (N.lxor (rotr 7 x) (rotr 18 x)) (shr 3 x).
Definition sigma1 (x : N) : N := N.lxor (N.lxor (rotr 17 x) (rotr 19 x)) (shr 10 x).

(* 4.2.2: the first 32 bits of the fractional parts of the cube roots of the first 64 primes *)
Definition K256 : list N :=
  [ 0x428a2f98; 0x71374491; 0xb5c0fbcf; 0xe9b5dba5; 0x3956c25b; 0x59f111f1; 0x923f82a4; 0xab1c5ed5;
    0xd807aa98; 0x12835b01; 0x243185be; 0x550c7dc3; 0x72be5d74; 0x80deb1fe; 0x9bdc06a7; 0xc19bf174;
    0xe49b69c1; 0xefbe4786; 0x0fc19dc6; 0x240ca1cc; 0x2de92c6f; 0x4a7484aa; 0x5cb0a9dc; 0x76f988da;
    0x983e5152; 0xa831c66d; 0xb00327c8; 0xbf597fc7; 0xc6e00bf3; 0xd5a79147; 0x06ca6351; 0x14292967;
    0x27b70a85; 0x2e1b2138; 0x4d2c6dfc; 0x53380d13; 0x650a7354; 0x766a0abb; 0x81c2c92e; 0x92722c85;
    0xa2bfe8a1; 0xa81a664b; 0xc24b8b70; 0xc76c51a3; 0xd192e819; 0xd6990624; 0xf40e3585; 0x106aa070;
    0x19a4c116; 0x1e376c08; 0x2748774c; 0x34b0bcb5; 0x391c0cb3; 0x4ed8aa4a; 0x5b9cca4f; 0x682e6ff3;
    0x748f82ee; 0x78a5636f; 0x84c87814; 0x8cc70208; 0x90befffa; 0xa4506ceb; 0xbef9a3f7; 0xc67178f2 ].

(* the eight working variables a..h / the hash value H(i) *)
Record st8 : Type := mkSt { sa : N; sb : N; sc : N; sd : N; se : N; sf : N; sg : N; sh : N }.

(* 5.3.3: the first 32 bits of the fractional parts of the square roots of the first 8 primes *)
Definition H0 : st8 :=
  mkSt 0x6a09e667 0xbb67ae85 0x3c6ef372 0xa54ff53a 0x510e527f 0x9b05688c 0x1f83d9ab 0x5be0cd19.

(* ------------------------------------------------------------------ 5.1.1 padding *)
(* the 64-bit big-endian representation of x (mod 2^64) *)
Definition byte_of (x : N) (sh : N) : N := N.land (N.shiftr x sh) 255.
Definition be64 (x : N) : list N :=
  [byte_of x 56; byte_of x 48; byte_of x 40; byte_of x 32; byte_of x 24; byte_of x 16; byte_of x 8; byte_of x 0].
(* k zero bytes, k the smallest number >= 0 with (l + 1 + k + 8) a multiple of 64 *)
Definition pad_zeros (l : N) : N := (64 - (l + 9) mod 64) mod 64.
Definition sha_pad (m : list N) : list N :=
  let l := N.of_nat (length m) in
  m ++ 128 :: repeat 0 (N.to_nat (pad_zeros l)) ++ be64 (8 * l).

(* ------------------------------------------------------------------ 5.2.1 parsing *)
(* big-endian 32-bit words; every byte is taken mod 256 (the function is total on `list N`);
   fewer than 4 trailing bytes cannot occur after padding and are dropped *)
Definition b8 (x : N) : N := N.land x 255.
Fixpoint words_of_bytes (l : list N) : list N :=
  match l with
  | a :: b :: c :: d :: r => (((b8 a * 256 + b8 b) * 256 + b8 c) * 256 + b8 d) :: words_of_bytes r
  | _ => []
  end.

(* ------------------------------------------------------------------ 6.2.2 one block *)
(* the message schedule is kept as a sliding window of 16 words: at round t it holds W_t .. W_{t+15};
   W_{t+16} = sigma1(W_{t+14}) + W_{t+9} + sigma0(W_{t+1}) + W_t *)
Definition next_w (w : list N) : N :=
  match w with
  | w0 :: w1 :: _ :: _ :: _ :: _ :: _ :: _ :: _ :: w9 :: _ :: _ :: _ :: _ :: w14 :: _ =>
      add32 (add32 (sigma1 w14) w9) (add32 (sigma0 w1) w0)
  | _ => 0
  end.
Definition slide (w : list N) : list N := tl w ++ [next_w w].

Definition round (s : st8) (k w : N) : st8 :=
  let t1 := add32 (add32 (add32 (sh s) (Sigma1 (se s))) (add32 (Ch (se s) (sf s) (sg s)) k)) w in
  let t2 := add32 (Sigma0 (sa s)) (Maj (sa s) (sb s) (sc s)) in
  mkSt (add32 t1 t2) (sa s) (sb s) (sc s) (add32 (sd s) t1) (se s) (sf s) (sg s).

(* the 64 rounds: structural recursion over the round constants *)
Fixpoint rounds (ks : list N) (s : st8) (w : list N) : st8 :=
  match ks with
  | [] => s
  | k :: ks' => rounds ks' (round s k (hd 0 w)) (slide w)
  end.

Definition add_st (x y : st8) : st8 :=
  mkSt (add32 (sa x) (sa y)) (add32 (sb x) (sb y)) (add32 (sc x) (sc y)) (add32 (sd x) (sd y))
       (add32 (se x) (se y)) (add32 (sf x) (sf y)) (add32 (sg x) (sg y)) (add32 (sh x) (sh y)).

(* H(i) = H(i-1) + (a..h after the 64 rounds on block i); `blk` = the 16 words of the block *)
Definition compress (h : st8) (blk : list N) : st8 := add_st h (rounds K256 h blk).

(* all blocks: 16 words at a time (structural); an incomplete last block cannot occur after padding *)
Fixpoint hash_words (h : st8) (ws : list N) : st8 :=
  match ws with
  | w0 :: w1 :: w2 :: w3 :: w4 :: w5 :: w6 :: w7 :: w8 :: w9 :: w10 :: w11 :: w12 :: w13 :: w14 :: w15 :: r =>
      hash_words (compress h [w0; w1; w2; w3; w4; w5; w6; w7; w8; w9; w10; w11; w12; w13; w14; w15]) r
  | _ => h
  end.

(* ------------------------------------------------------------------ the digest *)
Definition word_bytes (x : N) : list N := [byte_of x 24; byte_of x 16; byte_of x 8; byte_of x 0].
Definition st_bytes (s : st8) : list N :=
  word_bytes (sa s) ++ word_bytes (sb s) ++ word_bytes (sc s) ++ word_bytes (sd s) ++
  word_bytes (se s) ++ word_bytes (sf s) ++ word_bytes (sg s) ++ word_bytes (sh s).

(* SHA-256 of a byte string: 32 bytes *)
Definition sha256 (m : list N) : list N := st_bytes (hash_words H0 (words_of_bytes (sha_pad m))).

(* lower-case hexadecimal text, two digits per byte ("{b:02x}") *)
Definition hex_digit_lc (v : N) : N := if N.ltb v 10 then v + 48 else v + 87.
Definition hex_of_byte (b : N) : list N := [hex_digit_lc (b / 16); hex_digit_lc (b mod 16)].
Definition hex_of_bytes (d : list N) : list N := flat_map hex_of_byte d.
Definition sha256_hex (m : list N) : list N := hex_of_bytes (sha256 m).

(* the name under which tackler selects this algorithm (kernel/hash.rs Hash::from, and Hash::default) *)
Definition sha256_name : list N := [83; 72; 65; 45; 50; 53; 54].           (* "SHA-256" *)

(* ------------------------------------------------------------------ reading the padding back *)
(* the message of a padded text: drop the 8 length bytes, the zero bytes before them and the 0x80 *)
Fixpoint strip_zeros_rev (r : list N) : option (list N) :=
  match r with
  | [] => None
  | x :: r' => if N.eqb x 0 then strip_zeros_rev r' else if N.eqb x 128 then Some r' else None
  end.
Definition unpad (p : list N) : option (list N) :=
  match strip_zeros_rev (skipn 8 (rev p)) with
  | Some r => Some (rev r)
  | None => None
  end.
(* the bit length written in the last 8 bytes *)
Definition be_value (bs : list N) : N := fold_left (fun acc b => acc * 256 + b) bs 0.
Definition pad_bitlen (p : list N) : N := be_value (rev (firstn 8 (rev p))).
