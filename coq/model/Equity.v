(* Equity.v — model of tackler-core export/equity_exporter.rs (EquityExporter::write_export,
   get_acc_selector) and of the BalanceNonZero*Selector of kernel/report_item_selector.rs,
   at AST level (the text of the export is tied through the implementation, see C10_corr).
   Definitions only. *)
From TkModel Require Import Base Dec Acct Txn Balance Accept.

(* --- selectors ------------------------------------------------------------- *)
(* BalanceNonZeroSelector::eval *)
Definition nonzero_sel (r : brow) : bool := negb (is_zero (r_own r)).
(* BalanceNonZeroByAccountSelector::eval; m = RegexSet::is_match on the account name (C11) *)
Definition nonzero_by_acc_sel (m : acct -> bool) (r : brow) : bool :=
  negb (is_zero (r_own r)) && m (r_acc r).
(* EquityExporter::get_acc_selector: ras = None when no equity account selectors are configured *)
Definition get_acc_selector (ras : option (acct -> bool)) : brow -> bool :=
  match ras with
  | None => nonzero_sel
  | Some m => nonzero_by_acc_sel m
  end.

(* --- what Balance::from sees with PriceLookupCtx::default(): every posting with its own
       account, commodity and amount (no conversion), in transaction-set order --------- *)
Definition post_bpost (p : posting) : bpost := mkBpost (p_acc p) (p_comm p) (p_amount p).
Definition txn_bposts (ts : list txn) : list bpost :=
  flat_map (fun t => map post_bpost (t_posts t)) ts.

(* --- the exported transactions ------------------------------------------------ *)
Record eq_post : Type := mkEqPost { ep_acc : acct; ep_comm : str; ep_amt : dec }.

Record eq_txn : Type := mkEqTxn {
  e_inst : Z; e_off : Z;              (* time stamp of the last transaction *)
  e_comm : str;                       (* the commodity of the chunk *)
  e_uuid : option (list N);           (* uuid of the last transaction (header text) *)
  e_warn : bool;                      (* the five WARNING comment lines are present *)
  e_posts : list eq_post;             (* one posting per balance row *)
  e_bal : option eq_post }.           (* the balancing posting *)

(* itertools chunk_by(|btn| &btn.acctn.comm.name): maximal runs of consecutive rows with an
   equal commodity name. (The runs of a list are unique; they are built from the right here.) *)
Fixpoint chunk_by_comm (l : list brow) : list (list N * list brow) :=
  match l with
  | [] => []
  | r :: l' =>
      match chunk_by_comm l' with
      | (c, rs) :: rest =>
          if str_eqb (r_comm r) c then (c, r :: rs) :: rest
          else (r_comm r, [r]) :: (c, rs) :: rest
      | [] => [(r_comm r, [r])]
      end
  end.

(* slice::last *)
Fixpoint last_opt {A} (l : list A) : option A :=
  match l with
  | [] => None
  | x :: l' => match l' with [] => Some x | _ => last_opt l' end
  end.

(* the closure inside flat_map: one equity transaction per chunk *)
Definition equity_txn (eqa : acct) (last : header) (ch : list N * list brow) : eq_txn :=
  let c := fst ch in
  let btns := snd ch in
  let sum := dsum (map r_own btns) in
  mkEqTxn (h_inst last) (h_off last) c (h_uuid last)
          (is_zero sum)
          (map (fun b => mkEqPost (r_acc b) (r_comm b) (r_own b)) btns)
          (if is_zero sum then None else Some (mkEqPost eqa c (dneg sum))).

(* TxnData::from (stable sort of the transactions) followed by write_export.
   None = an error outcome (Balance::from failed / "Internal logic error" header). *)
Definition equity (known : acct -> bool) (eqa : acct) (ras : option (acct -> bool))
           (ts : list txn) : option (list eq_txn) :=
  let txns := sort_txns ts in
  match balance_report_det known (get_acc_selector ras) (txn_bposts txns) with
  | None => None
  | Some bal =>
      match b_rows bal with
      | [] => Some []                                   (* bal.is_empty(): nothing is written *)
      | _ =>
          match last_opt txns with
          | None => None
          | Some lt => Some (map (equity_txn eqa (t_hdr lt)) (chunk_by_comm (b_rows bal)))
          end
      end
  end.

(* --- the text that is written, as far as it is modelled here ---------------------- *)
(* header description: 'Equity[ for <comm>][: last txn (uuid): <uuid>] *)
Definition s_equity : list N := [69; 113; 117; 105; 116; 121]%N.
Definition s_for : list N := [32; 102; 111; 114; 32]%N.
Definition s_last_uuid : list N :=
  [58; 32; 108; 97; 115; 116; 32; 116; 120; 110; 32; 40; 117; 117; 105; 100; 41; 58; 32]%N.
Definition eq_desc (e : eq_txn) : list N :=
  s_equity ++ (match e_comm e with [] => [] | c => s_for ++ c end)
           ++ (match e_uuid e with Some u => s_last_uuid ++ u | None => [] end).

(* posting lines "   <account>  <amount>[ <comm>]": the commodity is written iff non-empty;
   no transaction in the export has an amount-less last posting *)
Definition eq_all_posts (e : eq_txn) : list eq_post :=
  e_posts e ++ match e_bal e with Some b => [b] | None => [] end.
Definition eq_raw_post (p : eq_post) : raw_post :=
  mkRawPost (ep_acc p) (ep_amt p)
            (match ep_comm p with [] => None | c => Some (mkUnit c None None) end).
Definition eq_raw_txn (e : eq_txn) : raw_txn := mkRawTxn (map eq_raw_post (eq_all_posts e)) None.
