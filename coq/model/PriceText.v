(* PriceText.v — T03: the TEXT of the price data base inside the model. Definitions only.
   Transcribed from
     tackler-core/src/parser/pricedb_parser.rs   pricedb_from_str:
         preceded(opt(multispace0_line_ending), repeat_till(1.., parse_price_entry, eof)).parse(..)
         then `.sorted().dedup()` (= Price.load_db)
     tackler-core/src/parser/parts/txns.rs       multispace0_line_ending = repeat(1.., (space0, line_ending))
     tackler-core/src/parser/parts/pricedb.rs    parse_price_entry:
         'P' space1 timestamp space1 identifier space1 number space1 identifier space0 opt(comment)
         line_ending multispace0, then get_or_create_commodity(base), get_or_create_commodity(eq)
     tackler-core/src/kernel/settings.rs         inner_get_or_create_commodity (strict / not strict),
                                                 Commodity::from = parser::is_valid_id
   and, under them, winnow 0.7.4 as read in its source:
     ascii::space0 / space1   take_while(0.. / 1.., ' ' | '\t')
     ascii::line_ending       alt(("\n", "\r\n"))
     ascii::multispace0       take_while(0.., (' ', '\t', '\r', '\n'))   — crosses line ends, eats a lone '\r'
     ascii::till_line_ending  up to '\r' or '\n'; a '\r' that is not followed by '\n' is an error
     combinator::repeat(1..)  at least one; stops (and rewinds the failed attempt) at the first failure
     combinator::repeat_till(1.., f, eof)  f, then: eof -> done, else f again; every failure of f is the
                              failure of the whole
   The token parsers are those of Journal.v (parse_ts, take_ident, take_number, take_comment): the price
   entry uses the SAME Rust functions as the journal (timestamp.rs, identifier.rs, number.rs, comment.rs).

   THE GRAMMAR, as implemented (sp = ' ' | TAB, NL = "\n" | "\r\n", ms = sp | '\r' | '\n'):
     pricedb := (sp* NL)*  entry+  EOF
     entry   := 'P' sp+ ts sp+ id sp+ num sp+ id sp* comment? NL ms*
   Consequences (all confirmed on the implementation, see gen/t03_text.py):
     - blank lines (blanks and TABs only) may precede the first entry, but the FIRST entry must start in
       column 1: `(sp* NL)*` rewinds a failed attempt, so "  P .." at the start, or after leading blank
       lines, is an error;
     - after an entry line, `ms*` eats blank lines AND the leading blanks of the next entry line AND lone
       carriage returns: every entry but the first may be indented;
     - the last line must be terminated; a file without any entry (empty, blank lines only) is an error;
       a UTF-8 BOM is not skipped (error).
   The comment is read and dropped (PriceEntry.comments is never used by the price conversion and is
   not part of Price.pentry). *)
From TkModel Require Import Base Dec Acct Txn Accept Journal Price.
Local Open Scope Z_scope.

(* error classes: a syntax / semantic error of the price file; the model's own fuel ran out
   (never the outcome of parse_pricedb: PriceText_proofs.parse_pricedb_total) *)
Definition E_price_syntax : N := 24%N.
Definition E_price_fuel : N := 99%N.

(* ------------------------------------------------------------------ configuration *)
(* what pricedb_from_str reads from the half-built Settings: the time-stamp defaults (journal zone and
   default time, Journal.pcfg), strict mode, and `commodities.names` as it is when the file is read
   (the declared commodities, plus the report commodity when not strict) *)
Record pdcfg : Type := mkPdCfg { pd_ts : pcfg; pd_strict : bool; pd_comms : list (list N) }.

(* Settings::inner_get_or_create_commodity for a non-empty name (identifiers are never empty):
   known -> fine; unknown and strict -> error; unknown and not strict -> Commodity::from (is_valid_id:
   for an identifier of the grammar this leaves "no white space", Journal.comm_sem_ok) and insert.
   The result is the new `commodities.names`. *)
Definition comm_lookup (cfg : pdcfg) (known : list (list N)) (n : list N) : option (list (list N)) :=
  if mem_str n known then Some known
  else if pd_strict cfg then None
  else if comm_sem_ok n then Some (n :: known) else None.

(* ------------------------------------------------------------------ winnow pieces *)
(* multispace0's characters *)
Definition is_msp (c : N) : bool := is_sp c || (c =? 13)%N || (c =? 10)%N.
Definition is_eolc (c : N) : bool := (c =? 13)%N || (c =? 10)%N.

(* space1 *)
Definition take_sp1 (s : list N) : option (list N) :=
  let '(sp, r) := span is_sp s in if is_nil sp then None else Some r.

(* line_ending = alt(("\n", "\r\n")) *)
Definition take_eol (s : list N) : option (list N) :=
  match s with
  | c :: r =>
      if (c =? 10)%N then Some r
      else if (c =? 13)%N then
        match r with
        | d :: r' => if (d =? 10)%N then Some r' else None
        | [] => None
        end
      else None
  | [] => None
  end.

(* one round of multispace0_line_ending: (space0, line_ending) *)
Definition take_blank_line (s : list N) : option (list N) := take_eol (drop_while is_sp s).

(* opt(repeat(1.., (space0, line_ending))): as many blank lines as there are; a failed attempt is
   rewound (the blanks it had read are NOT consumed).  Every round consumes at least the line end, so
   fuel = length of the text suffices (PriceText_proofs.skip_blank_lines_fuel). *)
Fixpoint skip_blank_lines (fuel : nat) (s : list N) : list N :=
  match fuel with
  | O => s
  | S f => match take_blank_line s with
           | Some r => skip_blank_lines f r
           | None => s
           end
  end.

(* space0 opt(p_comment) line_ending, on the stream.
   p_comment = ';' cut_err(alt(peek(line_ending) -> "", one_of(is_space) till_line_ending)).
   Read through Journal.take_comment on the piece l before the first '\r' or '\n' (r = the rest):
     l = ""        no comment (opt); the line end must follow
     l = ";"       peek(line_ending) must succeed: the same test as the line_ending that follows
     l = "; text"  till_line_ending stops where l stops; its "'\r' needs '\n'" test and the end-of-input
                   case are again the line_ending that follows
     l = ";x.."    cut error;  l = anything else: opt gives nothing and line_ending fails on it
   so: take_comment l must succeed and a line end must follow. *)
Definition take_entry_tail (s : list N) : option (option (list N) * list N) :=
  let s0 := drop_while is_sp s in
  let '(l, r) := span (fun c => negb (is_eolc c)) s0 in
  do oc <- take_comment l;
  do r1 <- take_eol r;
  Some (oc, r1).

(* parse_price_entry.  Result: the entry, the new commodities.names, the unconsumed text. *)
Definition parse_price_entry (cfg : pdcfg) (known : list (list N)) (s : list N)
  : option (pentry * list (list N) * list N) :=
  do s1 <- take_char 80 s;                                   (* 'P' *)
  do s2 <- take_sp1 s1;
  do (inst, _, s3) <- parse_ts (pd_ts cfg) s2;               (* jiff::Zoned: compared by instant only *)
  do s4 <- take_sp1 s3;
  do (base, s5) <- take_ident s4;
  do s6 <- take_sp1 s5;
  do (rate, s7) <- take_number s6;
  do s8 <- take_sp1 s7;
  do (eq, s9) <- take_ident s8;
  do (_, r1) <- take_entry_tail s9;
  let r2 := drop_while is_msp r1 in                          (* multispace0 *)
  do k1 <- comm_lookup cfg known base;
  do k2 <- comm_lookup cfg k1 eq;
  Some (mkPE inst base rate eq, k2, r2).

(* repeat_till(1.., parse_price_entry, eof): an entry; then end of input -> done, else again.
   Every entry consumes at least its 'P', so fuel = length of the text + 1 suffices. *)
Fixpoint parse_entries (fuel : nat) (cfg : pdcfg) (known : list (list N)) (s : list N) : res (list pentry) :=
  match fuel with
  | O => Err E_price_fuel
  | S f =>
      match parse_price_entry cfg known s with
      | None => Err E_price_syntax
      | Some (e, k, r) =>
          match r with
          | [] => Ok [e]
          | _ :: _ => res_map (cons e) (parse_entries f cfg k r)
          end
      end
  end.

Definition parse_pricedb_fuel (fuel : nat) (cfg : pdcfg) (s : list N) : res (list pentry) :=
  parse_entries fuel cfg (pd_comms cfg) (skip_blank_lines fuel s).

(* pricedb_from_str up to (not including) `.sorted().dedup()`: the entries in file order *)
Definition parse_pricedb (cfg : pdcfg) (s : list N) : res (list pentry) :=
  parse_pricedb_fuel (S (length s)) cfg s.

(* pricedb_from_str: the stored price data base *)
Definition load_pricedb (cfg : pdcfg) (s : list N) : res (list pentry) :=
  res_map load_db (parse_pricedb cfg s).

(* ------------------------------------------------------------------ printer *)
(* canonical line: `P <rfc3339 at +00:00> <base> <rate> <eq>\n` *)
Definition print_entry (e : pentry) : list N :=
  [80; 32]%N ++ print_ts (pe_ts e) 0 ++ 32%N :: pe_base e ++ 32%N :: print_dec (pe_rate e) ++ 32%N :: pe_eq e ++ [10%N].
Definition print_pricedb (es : list pentry) : list N := concat (map print_entry es).

(* the same entry in any layout the grammar allows: four non-empty runs of blanks/TABs between the
   fields, blanks before an optional comment, "\n" or "\r\n", and after the line any run of
   multispace characters (blank lines, the indentation of the next entry, lone carriage returns);
   the time stamp is shown at any offset *)
Record layout : Type := mkLayout {
  ly_off : Z;                       (* offset the time stamp is written at *)
  ly_s1 : list N; ly_s2 : list N; ly_s3 : list N; ly_s4 : list N;     (* sp+ *)
  ly_trail : list N;                (* sp* before the comment / line end *)
  ly_comment : option (list N);     (* None; Some text: "; text", or ";" alone when the text is empty *)
  ly_crlf : bool;
  ly_gap : list N }.                (* ms* after the line *)

Definition print_comment (oc : option (list N)) : list N :=
  match oc with
  | None => []
  | Some [] => [59%N]
  | Some c => 59%N :: 32%N :: c
  end.
Definition print_eol (crlf : bool) : list N := if crlf then [13; 10]%N else [10%N].

Definition print_entry_with (ly : layout) (e : pentry) : list N :=
  80%N :: ly_s1 ly ++ print_ts (pe_ts e) (ly_off ly) ++ ly_s2 ly ++ pe_base e ++ ly_s3 ly
  ++ print_dec (pe_rate e) ++ ly_s4 ly ++ pe_eq e ++ ly_trail ly ++ print_comment (ly_comment ly)
  ++ print_eol (ly_crlf ly) ++ ly_gap ly.

Definition canonical_layout : layout := mkLayout 0 [32%N] [32%N] [32%N] [32%N] [] None false [].

(* leading blank lines: each is blanks/TABs and a line end *)
Definition print_blank_line (b : list N * bool) : list N := fst b ++ print_eol (snd b).
Definition print_pricedb_with (pre : list (list N * bool)) (les : list (layout * pentry)) : list N :=
  concat (map print_blank_line pre) ++ concat (map (fun le => print_entry_with (fst le) (snd le)) les).

(* ------------------------------------------------------------------ the pipeline over a file TEXT *)
(* Settings::try_from + make_ctx + convert_prices with the price file given as text: what C07's
   convert_one / price_run are once the file is read from its text *)
Definition text_convert_one (cfg : pdcfg) (lk : lookup) (txns : list txn) (target : list N) (s : list N)
                            (t : Z) (p : posting) : res conv :=
  res_map (fun db => convert_post (c_cache (make_ctx lk txns (Some target) db)) target t p) (load_pricedb cfg s).
Definition text_price_run (cfg : pdcfg) (lk : lookup) (target : option (list N)) (s : list N) (txns : list txn)
  : res (list (list conv)) :=
  res_map (fun db => map (convert_prices (make_ctx lk txns target db)) txns) (load_pricedb cfg s).
